(* C02 (0.6), progress at the level of the link, the handshake half.

   The world is the two-endpoint link of C01 (Model/Link6.v). Props/C02heal.v proves: from every
   state with BOTH ends online there is a healing schedule (ticks, flushes, time, the network losing
   what is in flight and then delivering every datagram once, oldest first) that ends quiescent. This
   file proves the part before that: the connecting side A is mid-handshake (Connecting), the
   accepting side B has not seen a Connect (Unconnected) or has answered and waits (Pending).

   C02_handshake6 / C02_handshake_reachable6
     For EVERY such state w satisfying the C01 invariant (so every state reachable by an admissible
     history) with usable random streams there is a schedule
         drops SA na ++ drops SB nb ++ [LTime dt; LApp s OpTick] ++ (each new datagram delivered once)
     -- the network loses what is in flight; the side whose turn it is (A if B has not seen a
     Connect, else B) lets its 500 ms handshake timer run out and ticks; the Connect / ConnectAccept /
     Accept datagrams emitted from then on are delivered exactly once, oldest first -- that is a
     legal continuation, contains ONE tick and no other application call, and ends with: A online
     with a fresh online record (nothing queued, nothing to send), A told Ready exactly once, B
     pending with the token A uses (so B has answered), no history touched, nothing in flight.

   B does NOT end online, and cannot: in net/src/connection.rs the acceptor leaves Pending only when
   the first CHUNK datagram arrives (`Control(Accept) => return none`; Pending -> Online happens in
   the `Chunks` arm of feed), and a connector that has nothing to send emits only control datagrams.
   C02_acceptor_waits6
     From every reachable handshake state, after ANY continuation made of ticks, flushes, time,
     deliveries and losses only (admissible or not, as long as no call panics), B is still
     Unconnected or Pending and A is
     Connecting or online-with-nothing-to-send. So "both ends online" needs one send by A's
     application; the C02 property itself does not demand it (it speaks of the connecting side
     becoming ready and of submitted chunks; none can be submitted before Ready).

   C02_progress6 / C02_progress_reachable6   (composition with the online half)
     For every such state and every payload d (< 1024 bytes, vital or not) the schedule
         handshake ++ [A sends d; A flushes; the datagram is delivered] ++ healing schedule
     is a legal continuation with 4 ticks and exactly one send, losses only in the prefix, and ends
     quiescent: both ends online, Ready reported exactly once, d delivered (if vital: l_del B =
     l_sub A = [d]), queues and packets empty, nothing in flight.

   C02_late_accept6 / C02_late_accept_reachable6   (the states in between)
     A is online (any history) and has something to send or resend, B is still pending (A's first
     chunk datagrams were lost): the schedule
         losses ++ [time; A ticks; A flushes] ++ (A's datagrams delivered once each) ++ healing schedule
     contains only ticks and flushes (4 ticks), and ends quiescent with both ends online and every
     chunk A's application submitted delivered.

   The other starting states (A = the side that called connect), covered or not:
   - A Unconnected: connect has not been called, nothing is pending; the property demands nothing.
   - A Disconnected (timeout handling by the application, OpDisconnect, or a Close from B), or B
     Disconnected (B's application refused: OpDisconnect while Pending): the handshake has failed
     for good (there is no reset in the link model); nothing is pending; out of scope.
   - A Connecting, B Online: UNREACHABLE -- C02_connecting_peer_offline6 (B goes online only on a
     chunk datagram or a ConnectAccept from A, and an endpoint that has not got past Connecting has
     emitted only Connects).
   - A Connecting, B Connecting (both applications called connect): reachable; each side ignores
     the other's Connect for ever -- C02_simultaneous_open_stuck6 (after any continuation of ticks,
     flushes, time, deliveries and losses both are still Connecting); the protocol has no
     simultaneous open; out of scope.
   - A Pending (A is the acceptor): the mirror image; the theorems are stated with A as the
     connector only (the model is symmetric in A and B, the proofs are not repeated).
   - A Online, B Pending (A went online, B has not yet seen a chunk datagram): COVERED by
     C02_late_accept6 when A has something to send or resend (the resend of A's queue plays the role
     of the first send: losses, A ticks and flushes, its datagrams are delivered, then the healing
     schedule; 4 ticks, no application call besides ticks and flushes), and by C02_pending_idle6
     otherwise (A's resend queue is empty: then nothing was ever submitted, there is nothing to
     deliver; this is the end state of C02_handshake6, B stays pending until A's first send).
   - random streams: B's stream must still be usable after B has drawn its token (every delivery
     in the link model asks for a usable stream: hs_rand_ok). *)
From LibTw2 Require Import Base.Res Model.PacketTypes Model.ConnCore Model.Conn6 Model.LinkGhost Model.Link6
  Proofs.ConnCoreInv Proofs.Conn6Inv Proofs.LinkArith Proofs.LinkCore Proofs.Link6Inv Proofs.ConnProgress
  Proofs.Link6Heal Proofs.Link6Tok Proofs.Link6Handshake Props.C02heal.
From Coq Require Import ZArith List Lia.
Open Scope Z_scope.

(* the state the handshake schedule ends in *)
Definition connected (w : link) (tok : option token) : Prop :=
  c_state (l_conn (k_a w)) = Online (online_new tok tok) /\ c_state (l_conn (k_b w)) = Pending tok /\
  l_ready (k_a w) = 1 /\ l_answered (k_b w) = true /\
  l_sub (k_a w) = [] /\ l_sub (k_b w) = [] /\ l_del (k_a w) = [] /\ l_del (k_b w) = [] /\
  k_ab w = [] /\ k_ba w = [].

(* (H1) the handshake completes: one tick *)
Theorem C02_handshake6 : forall w,
  link_inv w -> handshake_start w -> hs_rand_ok w ->
  exists ls w' tok,
    admissible_run w ls /\ link_run w ls = Ok w' /\ link_inv w' /\
    Forall heal_label ls /\ ticks ls = 1%nat /\
    (exists na nb post, ls = drops SA na ++ drops SB nb ++ post /\ orderly post) /\
    l_ready (k_a w) = 0 /\ l_sub (k_a w) = [] /\ l_sub (k_b w) = [] /\
    connected w' tok /\
    rand_ok {| e_now := k_now w'; e_rand := l_rand (k_a w') |} /\
    rand_ok {| e_now := k_now w'; e_rand := l_rand (k_b w') |}.
Proof.
  intros w Hi [Ca Wb] Hr.
  destruct (handshake_link w Hi Ca Wb Hr)
    as [fresh [na [nb [dt [w1 [tok [Hdt [[S1 R1] [I1 [D1 [Bab [Bba [SubA [DelA [SubB [DelB [RdyA [Ra1 Rb1]]]]]]]]]]]]]]]]]].
  destruct D1 as [Da Db [K1 [K2 [K3 [K4 [K5 [K6 [K7 K8]]]]]]] [Ry1 Ry2] An1 Rn1].
  exists (hs_schedule fresh na nb dt), w1, tok.
  split; [exact S1|]. split; [exact R1|]. split; [exact I1|]. split; [apply hs_labels, Hdt|].
  split; [apply ticks_hs|].
  split; [destruct (hs_shape fresh na nb dt) as [post [E O]]; exists na, nb, post; split; assumption|].
  split; [exact RdyA|]. split; [exact SubA|]. split; [exact SubB|].
  split; [|split; assumption].
  unfold connected. split; [exact Da|]. split; [exact Db|]. split; [lia|]. split; [exact An1|].
  repeat split; congruence.
Qed.

Theorem C02_handshake_reachable6 : forall ra rb ls0 w,
  admissible_run (link_new ra rb) ls0 -> link_run (link_new ra rb) ls0 = Ok w ->
  handshake_start w -> hs_rand_ok w ->
  exists ls w' tok,
    admissible_run (link_new ra rb) (ls0 ++ ls) /\ link_run (link_new ra rb) (ls0 ++ ls) = Ok w' /\
    Forall heal_label ls /\ ticks ls = 1%nat /\
    (exists na nb post, ls = drops SA na ++ drops SB nb ++ post /\ orderly post) /\
    l_ready (k_a w) = 0 /\ connected w' tok.
Proof.
  intros ra rb ls0 w Hadm Hrun Hs Hr.
  destruct (link_run_inv ls0 _ (link_new_inv ra rb) Hadm) as [w0 [Hrun0 Hi]].
  rewrite Hrun in Hrun0. injection Hrun0 as <-.
  destruct (C02_handshake6 w Hi Hs Hr) as [ls [w' [tok [A [R [_ [L [T [S [Y [_ [_ [C _]]]]]]]]]]]]].
  exists ls, w', tok. split; [eapply admissible_run_app; eassumption|].
  split; [rewrite (link_run_app ls0 _ w ls Hrun); exact R|].
  repeat (split; [assumption|]). exact C.
Qed.

(* ticks and flushes alone never take the acceptor online: it waits for the connector's first chunk *)
Theorem C02_acceptor_waits6 : forall ra rb ls0 w ls w',
  admissible_run (link_new ra rb) ls0 -> link_run (link_new ra rb) ls0 = Ok w ->
  handshake_start w -> Forall heal_label ls -> link_run w ls = Ok w' ->
  acceptor_waits (c_state (l_conn (k_b w'))) /\ connector_idle (c_state (l_conn (k_a w'))) /\
  forall ob, c_state (l_conn (k_b w')) <> Online ob.
Proof.
  intros ra rb ls0 w ls w' Hadm Hrun [Ca Wb] Hl Hr.
  destruct (hs_bags_run ls0 _ w (hs_bags_new ra rb) Hadm Hrun) as [PA PB].
  assert (Hn : no_chunks w).
  { split; [rewrite Ca; exact I|]. split; [exact Wb|]. split.
    - apply PA. rewrite Ca. exact I.
    - apply PB. destruct (c_state (l_conn (k_b w))); try contradiction; exact I. }
  destruct (no_chunks_run ls w w' Hn Hl Hr) as [Ha [Hb _]].
  split; [exact Hb|]. split; [exact Ha|]. intros ob E. rewrite E in Hb. exact Hb.
Qed.

(* (H2) handshake, A's first send, healing: both ends online and the link quiescent, four ticks *)
Theorem C02_progress6 : forall w d v,
  link_inv w -> handshake_start w -> hs_rand_ok w -> Z.of_nat (length d) < 1024 ->
  exists ls w',
    admissible_run w ls /\ link_run w ls = Ok w' /\ link_inv w' /\
    Forall (progress_label d v) ls /\ ticks ls = 4%nat /\ sends ls = 1%nat /\
    (exists na nb post, ls = drops SA na ++ drops SB nb ++ post /\ orderly post) /\
    l_ready (k_a w) = 0 /\ l_ready (k_a w') = 1 /\
    l_sub (k_a w') = (if v then [d] else []) /\ l_sub (k_b w') = [] /\ quiescent w'.
Proof.
  intros w d v Hi [Ca Wb] Hr Hl.
  destruct (progress_link w d v Hi Ca Wb Hr Hl) as
    [fresh [na [nb [dt [dt1 [n1 [dt2 [n2 [dt3 [n3 [w' [oa' [ob' [D0 [D1 [D2 [D3 [[Sc Rn] [I' [Ry [Sa [Sb [Db [Da [Oa [Ob [Qa [Qb [Pa [Pb [Ra [Rb [Ba Bb]]]]]]]]]]]]]]]]]]]]]]]]]]]]]]]]].
  destruct (progress_shape fresh na nb dt d v dt1 n1 dt2 n2 dt3 n3 D0 D1 D2 D3) as [L [T [N [post [E O]]]]].
  exists (progress_schedule fresh na nb dt d v dt1 n1 dt2 n2 dt3 n3), w'.
  split; [exact Sc|]. split; [exact Rn|]. split; [exact I'|]. split; [exact L|]. split; [exact T|]. split; [exact N|].
  split; [exists na, nb, post; split; assumption|].
  split.
  { pose proof (linv_side w SA Hi) as Ha. cbn [get other] in Ha.
    destruct (sv_fresh _ _ _ _ _ Ha) as [_ [_ [_ Y]]]; [rewrite Ca; exact I|exact Y]. }
  split; [exact Ry|]. split; [exact Sa|]. split; [exact Sb|].
  unfold quiescent. split; [exact Db|]. split; [exact Da|]. split; [exact Ba|]. split; [exact Bb|].
  exists oa', ob'. repeat split; assumption.
Qed.

Theorem C02_progress_reachable6 : forall ra rb ls0 w d v,
  admissible_run (link_new ra rb) ls0 -> link_run (link_new ra rb) ls0 = Ok w ->
  handshake_start w -> hs_rand_ok w -> Z.of_nat (length d) < 1024 ->
  exists ls w',
    admissible_run (link_new ra rb) (ls0 ++ ls) /\ link_run (link_new ra rb) (ls0 ++ ls) = Ok w' /\
    Forall (progress_label d v) ls /\ ticks ls = 4%nat /\ sends ls = 1%nat /\
    (exists na nb post, ls = drops SA na ++ drops SB nb ++ post /\ orderly post) /\
    l_ready (k_a w) = 0 /\ l_ready (k_a w') = 1 /\
    l_sub (k_a w') = (if v then [d] else []) /\ l_sub (k_b w') = [] /\ quiescent w'.
Proof.
  intros ra rb ls0 w d v Hadm Hrun Hs Hr Hl.
  destruct (link_run_inv ls0 _ (link_new_inv ra rb) Hadm) as [w0 [Hrun0 Hi]].
  rewrite Hrun in Hrun0. injection Hrun0 as <-.
  destruct (C02_progress6 w d v Hi Hs Hr Hl) as [ls [w' [A [R [_ [L [T [N [S [Y0 [Y1 [Sa [Sb Q]]]]]]]]]]]]].
  exists ls, w'. split; [eapply admissible_run_app; eassumption|].
  split; [rewrite (link_run_app ls0 _ w ls Hrun); exact R|].
  repeat (split; [assumption|]). exact Q.
Qed.

(* a starting state that is not covered because it cannot occur: while one side has not got past
   Connecting, the other side is not online *)
Theorem C02_connecting_peer_offline6 : forall ra rb ls0 w,
  admissible_run (link_new ra rb) ls0 -> link_run (link_new ra rb) ls0 = Ok w ->
  (early (c_state (l_conn (k_a w))) -> forall ob, c_state (l_conn (k_b w)) <> Online ob) /\
  (early (c_state (l_conn (k_b w))) -> forall oa, c_state (l_conn (k_a w)) <> Online oa).
Proof.
  intros ra rb ls0 w Hadm Hrun.
  destruct (early_inv_run ls0 _ w (early_inv_new ra rb) Hadm Hrun) as [PA PB].
  split; intros He o E.
  - destruct (PA He) as [_ Ho]. rewrite E in Ho. exact Ho.
  - destruct (PB He) as [_ Ho]. rewrite E in Ho. exact Ho.
Qed.

(* ... and one that is out of scope because the protocol has no simultaneous open: if both
   applications have called connect, both sides stay Connecting whatever the network and the timers do *)
Theorem C02_simultaneous_open_stuck6 : forall ra rb ls0 w ls w',
  admissible_run (link_new ra rb) ls0 -> link_run (link_new ra rb) ls0 = Ok w ->
  c_state (l_conn (k_a w)) = Connecting -> c_state (l_conn (k_b w)) = Connecting ->
  Forall heal_label ls -> link_run w ls = Ok w' ->
  c_state (l_conn (k_a w')) = Connecting /\ c_state (l_conn (k_b w')) = Connecting.
Proof.
  intros ra rb ls0 w ls w' Hadm Hrun Ca Cb Hl Hr.
  destruct (early_inv_run ls0 _ w (early_inv_new ra rb) Hadm Hrun) as [PA PB].
  assert (Hb : both_connecting w).
  { split; [exact Ca|]. split; [exact Cb|]. split.
    - apply PA. rewrite Ca. exact I.
    - apply PB. rewrite Cb. exact I. }
  destruct (both_connecting_run ls w w' Hb Hl Hr) as [Ha' [Hb' _]]. split; assumption.
Qed.

(* A is online with something to send or resend, B is still pending: B goes online with A's resend *)
Theorem C02_late_accept6 : forall w oa t,
  link_inv w -> c_state (l_conn (k_a w)) = Online oa -> c_state (l_conn (k_b w)) = Pending t ->
  o_own oa = t -> (o_queue oa <> [] \/ can_send oa = true) ->
  rand_ok {| e_now := k_now w; e_rand := l_rand (k_a w) |} ->
  rand_ok {| e_now := k_now w; e_rand := l_rand (k_b w) |} ->
  exists ls w',
    admissible_run w ls /\ link_run w ls = Ok w' /\ link_inv w' /\
    Forall heal_label ls /\ ticks ls = 4%nat /\
    (exists na nb post, ls = drops SA na ++ drops SB nb ++ post /\ orderly post) /\
    l_sub (k_a w') = l_sub (k_a w) /\ l_sub (k_b w') = l_sub (k_b w) /\ quiescent w'.
Proof.
  intros w oa t Hi Hoa Hpb Htok Hbusy Hra Hrb.
  destruct (late_accept_link w oa t Hi Hoa Hpb Htok Hbusy Hra Hrb) as
    [na [nb [dt [n [dt1 [n1 [dt2 [n2 [dt3 [n3 [w' [oa' [ob' [D0 [D1 [D2 [D3 [[Sc Rn] [I' [Sa [Sb [Db [Da [Oa [Ob [Qa [Qb [Pa [Pb [Ra [Rb [Ba Bb]]]]]]]]]]]]]]]]]]]]]]]]]]]]]]]].
  destruct (late_shape na nb dt n dt1 n1 dt2 n2 dt3 n3 D0 D1 D2 D3) as [L [T [post [E O]]]].
  exists (late_schedule na nb dt n dt1 n1 dt2 n2 dt3 n3), w'.
  split; [exact Sc|]. split; [exact Rn|]. split; [exact I'|]. split; [exact L|]. split; [exact T|].
  split; [exists na, nb, post; split; assumption|]. split; [exact Sa|]. split; [exact Sb|].
  unfold quiescent. split; [exact Db|]. split; [exact Da|]. split; [exact Ba|]. split; [exact Bb|].
  exists oa', ob'. repeat split; assumption.
Qed.

Theorem C02_late_accept_reachable6 : forall ra rb ls0 w oa t,
  admissible_run (link_new ra rb) ls0 -> link_run (link_new ra rb) ls0 = Ok w ->
  c_state (l_conn (k_a w)) = Online oa -> c_state (l_conn (k_b w)) = Pending t ->
  (o_queue oa <> [] \/ can_send oa = true) ->
  rand_ok {| e_now := k_now w; e_rand := l_rand (k_a w) |} ->
  rand_ok {| e_now := k_now w; e_rand := l_rand (k_b w) |} ->
  exists ls w',
    admissible_run (link_new ra rb) (ls0 ++ ls) /\ link_run (link_new ra rb) (ls0 ++ ls) = Ok w' /\
    Forall heal_label ls /\ ticks ls = 4%nat /\
    (exists na nb post, ls = drops SA na ++ drops SB nb ++ post /\ orderly post) /\
    l_sub (k_a w') = l_sub (k_a w) /\ l_sub (k_b w') = l_sub (k_b w) /\ quiescent w'.
Proof.
  intros ra rb ls0 w oa t Hadm Hrun Hoa Hpb Hbusy Hra Hrb.
  destruct (link_run_inv ls0 _ (link_new_inv ra rb) Hadm) as [w0 [Hrun0 Hi]].
  rewrite Hrun in Hrun0. injection Hrun0 as <-.
  assert (Htok : o_own oa = t).
  { destruct (tok_inv_run ls0 _ w (tok_inv_new ra rb) Hadm Hrun) as [PA _].
    pose proof (pj_on _ _ _ PA oa Hoa) as H. rewrite Hpb in H. exact H. }
  destruct (C02_late_accept6 w oa t Hi Hoa Hpb Htok Hbusy Hra Hrb) as [ls [w' [A [R [_ [L [T [S [Sa [Sb Q]]]]]]]]]].
  exists ls, w'. split; [eapply admissible_run_app; eassumption|].
  split; [rewrite (link_run_app ls0 _ w ls Hrun); exact R|].
  repeat (split; [assumption|]). exact Q.
Qed.

(* ... and if A's resend queue is empty while B is still pending, nothing was ever submitted *)
Theorem C02_pending_idle6 : forall ra rb ls0 w oa t,
  admissible_run (link_new ra rb) ls0 -> link_run (link_new ra rb) ls0 = Ok w ->
  c_state (l_conn (k_a w)) = Online oa -> c_state (l_conn (k_b w)) = Pending t -> o_queue oa = [] ->
  l_sub (k_a w) = [] /\ l_del (k_a w) = [] /\ l_sub (k_b w) = [] /\ l_del (k_b w) = [] /\ o_own oa = t.
Proof.
  intros ra rb ls0 w oa t Hadm Hrun Hoa Hpb Hq.
  destruct (link_run_inv ls0 _ (link_new_inv ra rb) Hadm) as [w0 [Hrun0 Hi]].
  rewrite Hrun in Hrun0. injection Hrun0 as <-.
  destruct (pending_idle_nothing w oa t Hi Hoa Hpb Hq) as [H1 [H2 [H3 H4]]].
  repeat (split; [assumption|]).
  destruct (tok_inv_run ls0 _ w (tok_inv_new ra rb) Hadm Hrun) as [PA _].
  pose proof (pj_on _ _ _ PA oa Hoa) as H. rewrite Hpb in H. exact H.
Qed.

(* (H3) non-vacuity: two concrete histories end in states that meet every hypothesis of the theorems
   above -- A has called connect and (1) its Connect is still in flight / will be lost, B has seen
   nothing; (2) B has got the Connect and answered, its ConnectAccept is in flight / will be lost *)
Definition hs_demo_start : link := link_new [[9; 9; 9; 9]] [[1; 2; 3; 4]; [5; 6; 7; 8]].
Definition hs_demo_lost : list llabel := [LApp SA OpConnect; LTime 100000].
Definition hs_demo_answered : list llabel := [LApp SA OpConnect; LDeliver SA 0; LTime 100000].
(* (3) A is online and has submitted three chunks; the datagram is in flight / will be lost; B is pending *)
Definition hs_demo_late : list llabel :=
  [LApp SA OpConnect; LDeliver SA 0; LDeliver SB 0;
   LApp SA (OpSend [11] true); LApp SA (OpSend [22] true); LApp SA (OpSend [33] false); LApp SA OpFlush; LTime 300000].

Example C02_hs_nonvacuous :
  (exists w, admissible_run hs_demo_start hs_demo_lost /\ link_run hs_demo_start hs_demo_lost = Ok w /\
     link_inv w /\ handshake_start w /\ hs_rand_ok w /\
     c_state (l_conn (k_b w)) = Unconnected /\ length (k_ab w) = 1%nat /\ k_ba w = []) /\
  (exists w, admissible_run hs_demo_start hs_demo_answered /\ link_run hs_demo_start hs_demo_answered = Ok w /\
     link_inv w /\ handshake_start w /\ hs_rand_ok w /\
     c_state (l_conn (k_b w)) = Pending (Some [1; 2; 3; 4]) /\ length (k_ab w) = 1%nat /\ length (k_ba w) = 1%nat) /\
  (exists w oa, admissible_run hs_demo_start hs_demo_late /\ link_run hs_demo_start hs_demo_late = Ok w /\
     link_inv w /\ c_state (l_conn (k_a w)) = Online oa /\ c_state (l_conn (k_b w)) = Pending (Some [1; 2; 3; 4]) /\
     o_own oa = Some [1; 2; 3; 4] /\ (o_queue oa <> [] \/ can_send oa = true) /\
     rand_ok {| e_now := k_now w; e_rand := l_rand (k_a w) |} /\
     rand_ok {| e_now := k_now w; e_rand := l_rand (k_b w) |} /\
     length (o_queue oa) = 2%nat /\ l_sub (k_a w) = [[11]; [22]] /\ length (k_ab w) = 3%nat /\ length (k_ba w) = 1%nat).
Proof.
  split; [|split].
  - assert (Hadm : admissible_run hs_demo_start hs_demo_lost) by (apply admissible_runb_ok; vm_compute; reflexivity).
    destruct (link_run_inv hs_demo_lost _ (link_new_inv _ _) Hadm) as [w [Hrun Hi]].
    exists w. pose proof Hrun as Hrun'. vm_compute in Hrun'. injection Hrun' as Hw. rewrite <- Hw in *. clear Hw.
    split; [exact Hadm|]. split; [exact Hrun|]. split; [exact Hi|].
    split; [apply handshake_startb_ok; reflexivity|]. split; [apply hs_rand_okb_ok; reflexivity|]. repeat split.
  - assert (Hadm : admissible_run hs_demo_start hs_demo_answered) by (apply admissible_runb_ok; vm_compute; reflexivity).
    destruct (link_run_inv hs_demo_answered _ (link_new_inv _ _) Hadm) as [w [Hrun Hi]].
    exists w. pose proof Hrun as Hrun'. vm_compute in Hrun'. injection Hrun' as Hw. rewrite <- Hw in *. clear Hw.
    split; [exact Hadm|]. split; [exact Hrun|]. split; [exact Hi|].
    split; [apply handshake_startb_ok; reflexivity|]. split; [apply hs_rand_okb_ok; reflexivity|]. repeat split.
  - assert (Hadm : admissible_run hs_demo_start hs_demo_late) by (apply admissible_runb_ok; vm_compute; reflexivity).
    destruct (link_run_inv hs_demo_late _ (link_new_inv _ _) Hadm) as [w [Hrun Hi]].
    exists w. pose proof Hrun as Hrun'. vm_compute in Hrun'. injection Hrun' as Hw. rewrite <- Hw in *. clear Hw.
    eexists. split; [exact Hadm|]. split; [exact Hrun|]. split; [exact Hi|].
    split; [reflexivity|]. split; [reflexivity|]. split; [reflexivity|]. split; [left; discriminate|].
    split; [apply rand_okb_ok; reflexivity|]. split; [apply rand_okb_ok; reflexivity|]. repeat split.
Qed.

(* ... and the schedules computed for these two states.
   (1) the Connect is lost; A's timer runs out 0.4 s later, A repeats the Connect, B draws the token
       1.2.3.4 and answers, A is online and Ready; A's application submits the vital chunk [42]; B is
       online and has it; healing: A resends after 1 s, B acknowledges, A sends a keep-alive.
   (2) Connect and ConnectAccept are lost; B's timer runs out, B repeats the ConnectAccept; A's
       application submits the non-vital chunk [42]; healing with keep-alives only.
   (3) the three datagrams of A and B's ConnectAccept are lost; A's resend timer runs out 0.7 s later,
       A resends [11] [22] in one datagram, B is online and has both; healing as in (1). *)
Definition hs_demo_schedule1 : list llabel := progress_schedule true 1 0 400000 [42] true 1000000 1 0 1 500000 1.
Definition hs_demo_schedule2 : list llabel := progress_schedule false 1 1 400000 [42] false 500000 1 0 1 500000 1.

Definition hs_demo_schedule3 : list llabel := late_schedule 3 1 700000 1 1000000 1 0 1 500000 1.

Definition demo_quiescent (w : link) (sub nvr : list bytes) (now : Z) : Prop :=
  l_sub (k_a w) = sub /\ l_del (k_b w) = sub /\ l_nvr (k_b w) = nvr /\ l_sub (k_b w) = [] /\ l_del (k_a w) = [] /\
  l_ready (k_a w) = 1 /\ l_ready (k_b w) = 0 /\ k_ab w = [] /\ k_ba w = [] /\ k_now w = now /\
  match c_state (l_conn (k_a w)), c_state (l_conn (k_b w)) with
  | Online oa, Online ob =>
    o_own oa = Some [1; 2; 3; 4] /\ o_own ob = Some [1; 2; 3; 4] /\
    o_queue oa = [] /\ o_queue ob = [] /\ o_packet oa = pc_empty /\ o_packet ob = pc_empty /\
    o_rr oa = false /\ o_rr ob = false
  | _, _ => False
  end.

Example C02_hs_demo_run :
  (admissible_run hs_demo_start (hs_demo_lost ++ hs_schedule true 1 0 400000) /\
   match link_run hs_demo_start (hs_demo_lost ++ hs_schedule true 1 0 400000) with
   | Ok w => connected w (Some [1; 2; 3; 4]) /\ k_now w = 500000
   | _ => False
   end) /\
  (admissible_run hs_demo_start (hs_demo_answered ++ hs_schedule false 1 1 400000) /\
   match link_run hs_demo_start (hs_demo_answered ++ hs_schedule false 1 1 400000) with
   | Ok w => connected w (Some [1; 2; 3; 4]) /\ k_now w = 500000
   | _ => False
   end) /\
  (admissible_run hs_demo_start (hs_demo_lost ++ hs_demo_schedule1) /\
   match link_run hs_demo_start (hs_demo_lost ++ hs_demo_schedule1) with
   | Ok w => demo_quiescent w [[42]] [] 2000000
   | _ => False
   end) /\
  (admissible_run hs_demo_start (hs_demo_answered ++ hs_demo_schedule2) /\
   match link_run hs_demo_start (hs_demo_answered ++ hs_demo_schedule2) with
   | Ok w => demo_quiescent w [] [[42]] 1500000
   | _ => False
   end) /\
  (admissible_run hs_demo_start (hs_demo_late ++ hs_demo_schedule3) /\
   match link_run hs_demo_start (hs_demo_late ++ hs_demo_schedule3) with
   | Ok w => demo_quiescent w [[11]; [22]] [] 2500000
   | _ => False
   end).
Proof.
  split; [|split; [|split; [|split]]]; (split; [apply admissible_runb_ok; vm_compute; reflexivity|]);
    vm_compute; repeat split.
Qed.

Print Assumptions C02_handshake6.
Print Assumptions C02_handshake_reachable6.
Print Assumptions C02_acceptor_waits6.
Print Assumptions C02_progress6.
Print Assumptions C02_progress_reachable6.
Print Assumptions C02_connecting_peer_offline6.
Print Assumptions C02_simultaneous_open_stuck6.
Print Assumptions C02_late_accept6.
Print Assumptions C02_late_accept_reachable6.
Print Assumptions C02_pending_idle6.
Print Assumptions C02_hs_nonvacuous.
Print Assumptions C02_hs_demo_run.

(* C07 - the Huffman codec is lossless, bounded and agrees with the reference.
   Only the property theorems (about Model/Huffman.v and the regenerated
   Gen/HuffTable.v), each closed by lemmas proved in Proofs/Huffman*.v. *)
From LibTw2 Require Import Base.Res Model.Huffman Gen.HuffTable
  Model.HuffmanRef
  Proofs.HuffmanBits Proofs.HuffmanCompress Proofs.HuffmanDecode Proofs.HuffmanTable
  Proofs.HuffmanRefProofs Proofs.HuffmanRefDec.
From Coq Require Import ZArith List Lia Bool.
Import ListNotations.
Open Scope Z_scope.

(* the built-in table instances::TEEWORLDS, regenerated from teeworlds.rs on every run *)
Definition teeworlds : table := of_list teeworlds_table.

(* nodes[i] of the model table is the i-th node of the source file, nothing else is in it *)
Theorem C07_builtin_table : forall i,
  lookup teeworlds i = if i <? 0 then None else nth_error teeworlds_table (Z.to_nat i).
Proof. intros i. apply lookup_of_list. Qed.

(* the literals of lib.rs the hand-written model repeats are the ones in the source *)
Theorem C07_consts : src_consts = model_consts.
Proof. reflexivity. Qed.

(* (1) the built-in table is a well-formed prefix code: every walk from the root ends in a
   leaf within 24 steps, and the stored (bits, num_bits) of each of the 257 symbols is the
   path from the root to that symbol's leaf *)
Theorem C07_builtin_wf : wf_table teeworlds = true.
Proof. vm_compute. reflexivity. Qed.

(* (2) lossless, for every well-formed table and EVERY byte string: whatever the compressor
   wrote (either form, any buffer it fitted into), followed by arbitrary trailing bytes,
   decompresses to the input as soon as the output capacity holds it *)
Theorem C07_roundtrip : forall t x bug ccap c tail cap fuel,
  wf_table t = true -> bytes_ok x = true ->
  compress t x bug ccap = Ok c ->
  (length x <= cap)%nat -> (length c <= fuel)%nat ->
  decompress fuel t (c ++ tail) cap = Ok x.
Proof. exact roundtrip. Qed.

(* the same for the built-in table, i.e. for the public functions compress_into / compress /
   decompress_into of the crate *)
Corollary C07_builtin_roundtrip : forall x bug ccap c tail cap fuel,
  bytes_ok x = true -> compress teeworlds x bug ccap = Ok c ->
  (length x <= cap)%nat -> (length c <= fuel)%nat ->
  decompress fuel teeworlds (c ++ tail) cap = Ok x.
Proof. intros x bug ccap c tail cap fuel. apply roundtrip. exact C07_builtin_wf. Qed.

(* ... and through the Vec API (capacities 3 * len + 3 and 8 * len): no panic, no error *)
Theorem C07_roundtrip_vec : forall t x, wf_table t = true -> bytes_ok x = true ->
  exists c, compress_into_vec t x = Ok c /\ decompress_into_vec t c = Ok x.
Proof. exact vec_roundtrip. Qed.

(* what the compressor writes: read back bit by bit (least significant bit first) it is the
   code words of the input, the code word of EOF, then zero padding; it consists of bytes *)
Theorem C07_spec : forall t x bug ccap c, wf_table t = true -> bytes_ok x = true ->
  compress t x bug ccap = Ok c ->
  bytes_ok c = true
  /\ exists pad : nat, bits_of_bytes c = encode_bits t x ++ repeat false pad
       /\ (pad < 8 \/ (bug = true /\ pad = 8))%nat.
Proof. exact compress_bits. Qed.

(* (3) the predicted lengths are exact, and they are exactly the capacity the compressor needs *)
Theorem C07_len : forall t x (bug : bool), wf_table t = true -> bytes_ok x = true ->
  exists n : nat,
    (if bug then compressed_len_bug t x else compressed_len t x) = Ok (Z.of_nat n)
    /\ (forall cap, (n <= cap)%nat -> exists c, compress t x bug cap = Ok c /\ length c = n)
    /\ (forall cap, (cap < n)%nat -> compress t x bug cap = Err tt)
    /\ (n <= 3 * length x + 4)%nat.
Proof. exact len_exact. Qed.

(* (4) the decoder is total on every input: dec_fuel iterations always suffice (and more change
   nothing), it never panics, never writes more than cap bytes, and its only failure is the
   capacity error (InvalidInput is only produced by the Vec wrapper) *)
Theorem C07_decoder_total : forall t y cap, wf_table t = true ->
  (forall fuel, (dec_fuel y cap <= fuel)%nat ->
     decompress fuel t y cap = decompress (dec_fuel y cap) t y cap)
  /\ match decompress (dec_fuel y cap) t y cap with
     | Ok out => (length out <= cap)%nat
     | Err e => e = Capacity
     | Panic _ | OutOfFuel => False
     end.
Proof. intros t y cap Hwf. destruct (decoder_total t y cap Hwf) as [H1 H2]. split; assumption. Qed.

(* (5) agreement with the C++ original (Model/HuffmanRef.v, run against the real C++ by the
   harness). Compressor: CHuffman::Compress (32-bit `unsigned Bits`, the `pDst == pDstEnd`
   failure after each byte, the unchecked last byte) holding the same code words writes byte
   for byte what compress_bug writes, and returns -1 exactly when compress_bug reports the
   capacity error (any buffer of >= 1 byte; with OutputSize = 0 the C++ writes out of bounds). *)
Theorem C07_ref_compress : forall t x cap, wf_table t = true -> bytes_ok x = true -> (1 <= cap)%nat ->
  ref_compress t x cap = compress t x true cap.
Proof. exact ref_compress_eq. Qed.

(* the built-in table is a tree whose leaves sit at the depth their num_bits says (what the
   C++ side's m_NumBits are by construction); written out instead of `tree_table teeworlds` *)
Theorem C07_builtin_tree : depths_ok teeworlds 24 ROOT_IDX 0 = true.
Proof. vm_compute. reflexivity. Qed.

(* Decoder: whenever CHuffman::Decompress (10-bit decode LUT, 32-bit bit buffer refilled below
   24 bits, unsigned Bitcount wrap-around at the end of the input, bit-by-bit tail walk with its
   `Bitcount == 0` failure, `pDst == pDstEnd` failure) returns successfully, this decoder
   returns the same bytes, for every capacity that holds them and every sufficient fuel *)
Theorem C07_ref_decompress : forall t y fuel cap res,
  wf_table t = true -> depths_ok t 24 ROOT_IDX 0 = true -> bytes_ok y = true ->
  ref_decompress fuel t y cap = Ok res ->
  forall cap' fuel', (length res <= cap')%nat -> (dec_fuel y cap' <= fuel')%nat ->
  decompress fuel' t y cap' = Ok res.
Proof. exact ref_decompress_agrees. Qed.

(* (6) the built-in table is exactly what from_frequencies builds from data/frequencies *)
Theorem C07_builtin_is_built : from_frequencies frequencies = Ok teeworlds.
Proof. vm_compute. reflexivity. Qed.

(* K07: from_frequencies panics (the push on the full 24-entry DFS stack) whenever the tree
   is higher than 24; 256 zero frequencies are the simplest witness (a chain of height 256).
   The full statement
     forall f, length f = 256 -> exists t, from_frequencies f = Ok t /\ wf_table t = true
   is therefore false for the code as it is. *)
Theorem C07_from_frequencies_total_refuted : exists f,
  length f = 256%nat
  /\ forallb (fun v => (0 <=? v) && (v <=? u32_max)) f = true
  /\ from_frequencies f = Panic site_stack_push.
Proof. exists (repeat 0 256). vm_compute. repeat split. Qed.

(* non-vacuity: the example of doc/huffman.md, an input whose bit stream is byte aligned
   (where the reference-compatible form is one byte longer), capacity and garbage cases *)
Example C07_nonvacuous :
  wf_table teeworlds = true
  /\ compress teeworlds [0; 1; 0; 2; 0; 128; 0] false 5 = Ok [177; 8; 42; 110; 0]
  /\ compress teeworlds [0; 1; 0; 2; 0; 128; 0] false 4 = Err tt
  /\ decompress 9 teeworlds [177; 8; 42; 110; 0; 255; 255] 7 = Ok [0; 1; 0; 2; 0; 128; 0]
  /\ decompress 9 teeworlds [177; 8; 42; 110; 0] 6 = Err Capacity
  /\ compress teeworlds [0] false 9 = Ok [21; 55]
  /\ compress teeworlds [0] true 9 = Ok [21; 55; 0]
  /\ compressed_len teeworlds [0] = Ok 2 /\ compressed_len_bug teeworlds [0] = Ok 3
  /\ decompress (dec_fuel [255; 255] 5) teeworlds [255; 255] 5 = Err Capacity
  /\ decompress_into_vec teeworlds [255; 255] = Err InvalidInput
  /\ ref_decompress 9 teeworlds [177; 8; 42; 110; 0] 7 = Ok [0; 1; 0; 2; 0; 128; 0]
  /\ ref_decompress 9 teeworlds [177; 8; 42; 110] 7 = Err tt
  /\ decompress 9 teeworlds [177; 8; 42; 110] 7 = Ok [0; 1; 0; 2; 0; 128; 0]
  /\ ref_compress teeworlds [0] 3 = Ok [21; 55; 0] /\ ref_compress teeworlds [0] 2 = Err tt.
Proof. vm_compute. repeat split. Qed.

Print Assumptions C07_builtin_table.
Print Assumptions C07_consts.
Print Assumptions C07_builtin_wf.
Print Assumptions C07_roundtrip.
Print Assumptions C07_builtin_roundtrip.
Print Assumptions C07_roundtrip_vec.
Print Assumptions C07_spec.
Print Assumptions C07_len.
Print Assumptions C07_decoder_total.
Print Assumptions C07_ref_compress.
Print Assumptions C07_builtin_tree.
Print Assumptions C07_ref_decompress.
Print Assumptions C07_builtin_is_built.
Print Assumptions C07_from_frequencies_total_refuted.
Print Assumptions C07_nonvacuous.

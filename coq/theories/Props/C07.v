(* C07 - placeholder while the proofs are being written *)
From LibTw2 Require Import Base.Res Model.Huffman Gen.HuffTable.

(* C10 - a snapshot survives serialisation, including UUID-typed items.
   Only the property theorems (about Model/Snap.v), closed by lemmas of Proofs/Snap*.v.
   `build ops builder_new` is the Builder after any list of add_item calls; ops_ok: ordinal types
   in 1..0x3fff (the code asserts it), ids u16, data i32, UUIDs 128 bits.  `like S S'`: S' holds the
   same items and the same UUID registry as S. *)
From LibTw2 Require Import Base.Res Model.Varint Model.Packer Model.Snap
  Proofs.SnapBase Proofs.SnapRep Proofs.SnapDelta Proofs.SnapTotal Proofs.SnapReg Proofs.SnapObs
  Proofs.SnapBuilder Proofs.SnapBuilder2 Proofs.SnapBuilder3 Proofs.SnapC10.
From Coq Require Import ZArith List Lia.
Import ListNotations.
Open Scope Z_scope.

(* every builder-made snapshot, written as integers or as bytes and read back, gives - without a
   warning - a snapshot with the same enumeration, the same lookups by (ordinal or UUID) type and
   id, and the same checksum *)
Theorem C10_observational : forall ops, ops_ok ops ->
  let S := b_snap (build ops builder_new) in
  exists l bs S',
    raw_write_to_ints (sn_raw S) (length l) = Ok l /\ raw_write_bytes (sn_raw S) (length bs) = Ok bs
    /\ snap_read_from_ints l = (Ok S', []) /\ snap_read_bytes bs = (Ok S', [])
    /\ (forall E, @snap_items E S' = @snap_items E S)
    /\ (forall E t id, @snap_item E S' t id = @snap_item E S t id)
    /\ crc (sn_raw S') = crc (sn_raw S)
    /\ sn_ext S' = sn_ext S.
Proof.
  intros ops Hok S. destruct (built_roundtrip ops Hok) as (l & bs & S' & El & Eb & Hlen & E1 & E2 & HL). fold S in El, HL.
  destruct (like_observables S S' HL) as (O1 & O2 & O3). exists l, bs, S'.
  unfold MAX_SNAPSHOT_SIZE in Hlen.
  split; [|split; [|split; [exact E1|split; [exact E2|split; [exact O1|split; [exact O2|split; [exact O3|apply HL]]]]]]].
  - unfold raw_write_to_ints. rewrite El, Nat.ltb_irrefl.
    replace (MAX_SNAPSHOT_SIZE <? 4 * Z.of_nat (length l)) with false by (symmetry; apply Z.ltb_ge; unfold MAX_SNAPSHOT_SIZE; lia). reflexivity.
  - unfold raw_write_bytes. rewrite El, Eb, Nat.ltb_irrefl.
    replace (MAX_SNAPSHOT_SIZE <? 4 * Z.of_nat (length l)) with false by (symmetry; apply Z.ltb_ge; unfold MAX_SNAPSHOT_SIZE; lia). reflexivity.
Qed.

(* the same for the snapshot obtained by applying a delta between two builder-made snapshots
   (outside K09: no item keeps its key and changes its length) *)
Theorem C10_after_delta : forall opsA opsB, ops_ok opsA -> ops_ok opsB ->
  let A := b_snap (build opsA builder_new) in
  let B := b_snap (build opsB builder_new) in
  k09 (sn_raw A) (sn_raw B) = false ->
  exists d S', create_raw (sn_raw A) (sn_raw B) = Ok d /\ snap_read_with_delta A d = (Ok S', [])
    /\ (forall E, @snap_items E S' = @snap_items E B)
    /\ (forall E t id, @snap_item E S' t id = @snap_item E B t id)
    /\ crc (sn_raw S') = crc (sn_raw B)
    /\ like B S'.
Proof.
  intros opsA opsB HA HB A B Hk. destruct (built_after_delta opsA opsB HA HB Hk) as (d & S' & E1 & E2 & HL).
  destruct (like_observables _ S' HL) as (O1 & O2 & O3). exists d, S'.
  split; [exact E1|]. split; [exact E2|]. split; [exact O1|]. split; [exact O2|]. split; [exact O3|exact HL].
Qed.

(* a copy (read from the wire, or made by a delta) recycles into a builder that knows exactly the
   UUID types of the original with their numbers, continues the numbering, and gives a new UUID
   type a number no type had - and the call succeeds when the number space and the limits allow *)
Theorem C10_recycle : forall ops S', ops_ok ops ->
  let b := build ops builder_new in
  like (b_snap b) S' ->
  exists b', snap_recycle S' = Ok b' /\ b_next b' = b_next b /\ sn_ext (b_snap b') = sn_ext (b_snap b)
    /\ forall u id data, op_ok (Uuid u) id data ->
       let r := builder_add b' (Uuid u) id data in
       (forall u' t, aget u' (sn_ext (b_snap b)) = Some t -> aget u' (sn_ext (b_snap (fst r))) = Some t)
       /\ fine (snd r)
       /\ (aget u (sn_ext (b_snap b)) = None ->
            (forall u', aget u' (sn_ext (b_snap b)) <> Some (b_next b))
            /\ (snd r = Ok tt -> aget u (sn_ext (b_snap (fst r))) = Some (b_next b))
            /\ (b_next b < 32768 ->
                Z.of_nat (length (sn_ext (b_snap b))) + 2 <= 1024 ->
                ser_size (Z.of_nat (length (sn_ext (b_snap b))) + 2)
                         (4 * Z.of_nat (length (sn_ext (b_snap b))) + 4 + Z.of_nat (length data)) <= 65536 ->
                snd r = Ok tt)).
Proof.
  intros ops S' Hok b HL. destruct (built_recycle ops S' Hok HL) as (b' & E & G & Hn & He & Hadd).
  exists b'. split; [exact E|]. split; [exact Hn|]. split; [exact He|]. intros u id data Hop r.
  destruct (Hadd u id data Hop) as (_ & H2 & H3). split; [exact H2|]. split; [|exact H3].
  apply (builder_add_bgood b' (Uuid u) id data G Hop).
Qed.

(* concrete values: two UUID types interleaved with ordinals (the witness of defect #8) *)
Definition exOps : list (tyid * Z * list Z) :=
  [(Uuid 35243352628221405165285609929621807691, 1337, [4660; 1450741931]);
   (Ordinal 5, 1, [9; 9]);
   (Uuid 340282366920938463463374607431768211455, 7, [3]);
   (Ordinal 16383, 65535, [])].

Example C10_nonvacuous :
  forallb (fun o => match fst (fst o) with
                    | Ordinal t => (0 <? t) && (t <? 16384) | Uuid u => uuid_okb u end
                    && is_u16 (snd (fst o)) && forallb is_i32 (snd o)) exOps = true
  /\ let S := b_snap (build exOps builder_new) in
     sn_ext S = [(35243352628221405165285609929621807691, 16384); (340282366920938463463374607431768211455, 16385)]
     /\ @snap_item unit S (Uuid 340282366920938463463374607431768211455) 7 = Ok (Some [3])
     /\ match snap_ints (sn_raw S) with
        | Ok l => match snap_read_from_ints l with
                  | (Ok S', []) => sn_ext S' = sn_ext S
                                   /\ @snap_item unit S' (Uuid 340282366920938463463374607431768211455) 7 = Ok (Some [3])
                                   /\ match snap_recycle S' with Ok b' => b_next b' = 16386 | _ => False end
                  | _ => False
                  end
        | _ => False
        end.
Proof. vm_compute. repeat split. Qed.

Print Assumptions C10_observational.
Print Assumptions C10_after_delta.
Print Assumptions C10_recycle.
Print Assumptions C10_nonvacuous.

(* C10 - placeholder while the correspondence is brought up *)
From LibTw2 Require Import Base.Res Model.Snap.
Example C10_nonvacuous : crc raw_empty = 0.
Proof. reflexivity. Qed.
Print Assumptions C10_nonvacuous.

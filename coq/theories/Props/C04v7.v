(* C04 at the byte level, Teeworlds 0.7 (the 0.6 twin is C04_bytes6 in Props/C04.v):
   every datagram net/src/connection7.rs emits along ANY valid history (run7 folds step7 over an
   arbitrary list of labels), once its payloads are byte strings, is written by the library's own
   Packet::write (Model/Packet7.v, tied to protocol7.rs by the correspondence of C05/C06) into at
   most 1400 bytes -- a token request padded to 519 -- which Packet::read returns as the same
   value with NO warning, and whose chunks the chunk iterator yields bit-identical, in order, with
   the announced count and no warning. *)
From LibTw2 Require Import Base.Res Model.PacketTypes Model.ConnCore Model.Conn7
  Proofs.ConnCoreInv Proofs.Conn7Inv Proofs.ConnBytes7 Proofs.Conn7Emit Model.Packet7 Model.PacketInst
  Proofs.Packet7Chunks Proofs.Packet7Write.
From Coq Require Import ZArith List.
Open Scope Z_scope.

(* what dgram_ok does not record: along every valid history each emitted datagram carries a
   4-byte token (a connectionless one two), the response token of Connect / Token is a 4-byte
   token other than ff ff ff ff -- so Packet::write's assertions hold and the datagram is a 0.7
   packet value *)
Theorem C04_emitted_tokens7 : forall ls e c' e' ds d, valid_run7 conn7_new e ls ->
  run7 conn7_new e ls = Ok (c', e', ds) -> In d ds ->
  emit_wf7 d /\ tokens_wf7 d = true /\ exists p, encode7 d = Some p.
Proof.
  intros ls e c' e' ds d Hv Hr Hin.
  pose proof (run_emit7 ls conn7_new e c' e' ds conn7_new_ok Hv Hr) as H. rewrite Forall_forall in H.
  specialize (H d Hin). split; [exact H|]. split; [apply emit_wf7_tokens, H|apply emit_wf7_encodable, H].
Qed.

Theorem C04_bytes7 : forall ls e c' e' ds d p, valid_run7 conn7_new e ls ->
  run7 conn7_new e ls = Ok (c', e', ds) -> In d ds -> dgram_bytes_ok7 d = true -> encode7 d = Some p ->
  exists out,
    write7_tw p 1400 = Ok out /\ (length out <= 1400)%nat
    /\ (exists views, read7_tw out 1400 = ([], Ok (p, views)))
    /\ match d with
       | DChunks _ _ _ n cs =>
         exists cvs it', chunks_iter_all7 (flat_map chunk_enc7 cs) n = Ok (cvs, [], it') /\ map fst cvs = cs
       | _ => True
       end.
Proof.
  intros ls e c' e' ds d p Hv Hr Hin Hb He.
  destruct (run_ok7 ls conn7_new e conn7_new_ok Hv) as [c2 [e2 [ds2 [H [_ Hds]]]]].
  rewrite Hr in H. injection H as <- <- <-. rewrite Forall_forall in Hds.
  destruct (C04_emitted_tokens7 ls e c' e' ds d Hv Hr Hin) as [_ [Hwf _]].
  exact (emitted_reads_back7 d p (Hds d Hin) Hb Hwf He).
Qed.

(* one datagram, from its well-formedness alone (the hypothesis on tokens explicit) *)
Theorem C04_emitted_reads_back7 : forall d p,
  dgram_ok params7 d -> dgram_bytes_ok7 d = true -> tokens_wf7 d = true -> encode7 d = Some p ->
  exists out,
    write7_tw p 1400 = Ok out /\ (length out <= 1400)%nat
    /\ (exists views, read7_tw out 1400 = ([], Ok (p, views)))
    /\ match d with
       | DChunks _ _ _ n cs =>
         exists cvs it', chunks_iter_all7 (flat_map chunk_enc7 cs) n = Ok (cvs, [], it') /\ map fst cvs = cs
       | _ => True
       end.
Proof. exact emitted_reads_back7. Qed.

(* the size ConnCore.control_size reckons with (it decides the builder-capacity panic of
   send_control) is exactly what Packet::write produces, token-request padding included *)
Theorem C04_control_size7 : forall tok ack c c7,
  dgram_ok params7 (DControl (Some tok) ack c) -> tokens_wf7 (DControl (Some tok) ack c) = true ->
  ctl7_of c = Some c7 ->
  Z.of_nat (length (encoding7 tw_comp (P7Connected ack tok (P7Control c7)))) = control_size params7 (Some tok) c.
Proof. exact control_size7_exact. Qed.

(* non-vacuity: a concrete client history (connect, token answered, accepted, two tiny sends, a
   flush) emits a token request (519 bytes on the wire), a connect (12 bytes) and a chunk
   datagram; all meet the hypotheses and are encodable *)
Definition demo_history7 : list label7 :=
  [L7Op Op7Connect;
   L7Op (Op7Feed (DControl (Some [1;2;3;4]) 0 (TokenMsg [9;9;9;9])));
   L7Op (Op7Feed (DControl (Some [1;2;3;4]) 0 Accept));
   L7Op (Op7Send [7] false); L7Op (Op7Send [8] true); L7Op Op7Flush].
Example C04v7_nonvacuous :
  match run7 conn7_new {| e_now := 0; e_rand := [[1;2;3;4]] |} demo_history7 with
  | Ok (_, _, ds) =>
    map (fun d => (dgram_bytes_ok7 d, tokens_wf7 d,
                   match encode7 d with
                   | Some p => match write7_tw p 1400 with Ok out => Z.of_nat (length out) | _ => -1 end
                   | None => -2
                   end)) ds
    = [(true, true, 519); (true, true, 12); (true, true, 14)]
  | _ => False
  end.
Proof. vm_compute. reflexivity. Qed.

Print Assumptions C04_emitted_tokens7.
Print Assumptions C04_bytes7.
Print Assumptions C04_emitted_reads_back7.
Print Assumptions C04_control_size7.
Print Assumptions C04v7_nonvacuous.

(* C19 — interim *)
From LibTw2 Require Import Base.Res Model.Buffer.
From Coq Require Import ZArith List.
Open Scope Z_scope.

Example C19_nonvacuous :
  r_exit (run_store (SCapAt 10 (SSlice [1; 2; 3; 4])) PEnd) = XOk.
Proof. vm_compute. reflexivity. Qed.
Print Assumptions C19_nonvacuous.

(* C19 — the uninitialized-buffer abstraction never overruns and counts exactly.

   The model (Model/Buffer.v) is the libtw2-buffer crate after the repair of
   `BufferRef::cap_at` (commit 4eb9351: clamp the index to the buffer length; on
   the unchanged tree `cap_at(n)` with n beyond the remaining capacity panicked,
   see known_findings/C19.json).  Memory is one flat byte list per root
   container, a BufferRef is a window into it plus the counter it points to,
   a program is the tree of with_buffer closures.  All theorems quantify over
   every store (Vec / ArrayVec with any contents and spare capacity, slice,
   slice reference, capped any number of times) and every program (writes,
   iterator extends, advance, writes into uninitialized_mut(), nested and capped
   nested views to any depth, readers, early exits by `?`, by consuming the view,
   by dropping it unused, by the panic of `advance`).

   What these theorems do NOT cover: that the compiled `unsafe` code performs
   the accesses the model says (raw pointers, lifetimes); see props/C19.py. *)
From LibTw2 Require Import Base.Res Model.Buffer
  Proofs.BufferMem Proofs.BufferOps Proofs.BufferRun Proofs.BufferStore.
From Coq Require Import ZArith List Lia.
Import ListNotations.
Open Scope Z_scope.

(* ---------- never past the capacity ---------- *)

(* r_views lists every state every view (root, nested, capped) goes through; r_init is the
   counter the owner is updated with; data ++ rest is the whole allocation afterwards *)
Theorem C19_never_past_capacity : forall s p,
  let r := run_store s p in
  Forall (fun v => (v_init v <= v_cap v /\ v_off v + v_cap v <= length (store_mem s))%nat) (r_views r)
  /\ (r_init r <= store_spare s)%nat
  /\ (store_wf s = true -> Z.of_nat (r_init r) <= store_cap s)
  /\ (length (r_data r) + length (r_rest r) = length (store_mem s))%nat
  /\ (forall j, (j < length (store_data s) \/ length (store_data s) + store_spare s <= j)%nat ->
        nth_error (r_data r ++ r_rest r) j = nth_error (store_mem s) j).
Proof.
  intros s p r. destruct (run_store_good s p) as [Hv _ _ _ Hc Hcw Hs _ _ Hf].
  split; [exact Hv|]. split; [exact Hc|]. split; [exact Hcw|]. split; [exact Hs|exact Hf].
Qed.

(* a write / extend in any state satisfying the invariant (by the theorem above: in every state
   that is ever reached): Ok iff everything fits; otherwise CapacityError, and in both cases
   exactly the fitting prefix has been stored and nothing else has changed; on failure one item
   more than fits has been pulled from the iterator *)
Theorem C19_capacity_error : forall m v bs,
  (v_init v <= v_cap v /\ v_off v + v_cap v <= length m)%nat ->
  exists m',
    extend m v bs =
      (m', with_init v (v_init v + Nat.min (length bs) (room v)),
       Ok ((length bs <=? room v)%nat, if (length bs <=? room v)%nat then length bs else S (room v)))
    /\ length m' = length m
    /\ slice m' (v_off v + v_init v) (Nat.min (length bs) (room v)) = Some (firstn (room v) bs)
    /\ forall j, (j < v_off v + v_init v \/ v_off v + v_init v + Nat.min (length bs) (room v) <= j)%nat ->
         nth_error m' j = nth_error m j.
Proof. intros m v bs H. exact (extend_exact bs m v H). Qed.

(* ---------- exactly the accepted bytes, in order ---------- *)

(* r_reports: for every slice handed out by initialized() / read_buffer_ref / read_buffer, the triple
   (where it starts, slice read from the memory, ghost log of the bytes that view accepted so far, in order);
   r_acc: the ghost log of the root view; r_init: its counter *)
Theorem C19_exact : forall s p,
  let r := run_store s p in
  Forall (fun ra => snd (fst ra) = snd ra) (r_reports r)
  /\ length (r_acc r) = r_init r
  /\ firstn (r_init r) (skipn (length (store_data s)) (r_data r ++ r_rest r)) = r_acc r.
Proof.
  intros s p r. destruct (run_store_good s p) as [_ Hr _ Hc Hcap _ Hs Hrel _ _].
  split; [exact Hr|]. split; [exact Hc|]. fold r in Hc, Hcap, Hs, Hrel.
  pose proof (owner_data s) as Ho. pose proof (store_mem_length s) as Hm.
  destruct (store_owner s); rewrite ?Ho in *; cbn [length skipn] in *.
  - rewrite Hrel, <- app_assoc, skipn_app, skipn_all, Nat.sub_diag. cbn [skipn app].
    rewrite firstn_app, <- Hc, firstn_all, Nat.sub_diag. cbn [firstn]. apply app_nil_r.
  - rewrite Hrel, <- app_assoc, skipn_app, skipn_all, Nat.sub_diag. cbn [skipn app].
    rewrite firstn_app, <- Hc, firstn_all, Nat.sub_diag. cbn [firstn]. apply app_nil_r.
  - destruct Hrel as [Hl Hf]. rewrite firstn_app. replace (r_init r - length (r_data r))%nat with 0%nat by lia.
    cbn [firstn]. rewrite app_nil_r. exact Hf.
  - rewrite Hrel. rewrite firstn_app, <- Hc, firstn_all, Nat.sub_diag. cbn [firstn]. apply app_nil_r.
Qed.

(* the ghost log is what one means by "the bytes written, in order": for a closure that just
   writes w1 .. wn and returns initialized(), on any store, it is the prefix of w1 ++ .. ++ wn
   that fits the (capped) capacity, and this is the slice that is returned *)
Theorem C19_exact_writes : forall s ws, store_wf s = true ->
  let r := run_store s (pwrites ws PInit) in
  r_acc r = firstn (Z.to_nat (store_cap s)) (concat ws)
  /\ r_reports r = [(length (store_data s), r_acc r, r_acc r)]
  /\ r_exit r = XOk
  /\ exists evs, r_evs r = evs ++ [EBytes (r_acc r)].
Proof. exact run_store_pwrites. Qed.

(* a slice that was handed out (its lifetime is that of the data, not of the view) is never written
   over afterwards: when everything has been released it lies inside the part that was added to
   the container and the memory still holds exactly the bytes that were reported *)
Theorem C19_reported_stable : forall s p,
  let r := run_store s p in
  Forall (fun ra =>
      let off := fst (fst ra) in let bs := snd (fst ra) in
      (length (store_data s) <= off /\ off + length bs <= length (store_data s) + r_init r)%nat
      /\ slice (r_data r ++ r_rest r) off (length bs) = Some bs) (r_reports r).
Proof.
  intros s p r. destruct (run_store_good s p) as [_ _ _ _ Hcap _ Hs _ Hh _]. fold r in Hcap, Hs, Hh.
  pose proof (store_mem_length s) as Hm.
  eapply Forall_impl; [|exact Hh]. intros [[off bs] a] [H1 [H2 H3]]. cbn [fst snd] in *. split; [split; assumption|].
  apply slice_eq; [rewrite app_length; lia|reflexivity|exact H3].
Qed.

(* ---------- release: the owner is updated with exactly the counter ---------- *)

(* no hypothesis on how the closure ended: also after an early exit, an unused view, a panic *)
Theorem C19_release : forall s p,
  let r := run_store s p in
  match store_owner s with
  | OVec len | OArrayVec len =>        (* set_len(len + initialized) *)
      r_data r = store_data s ++ r_acc r /\ length (r_data r) = (len + r_init r)%nat
  | OSliceRef =>                        (* *slice = &mut slice[..initialized] *)
      r_data r = r_acc r /\ length (r_data r) = r_init r
  | OSlice =>                           (* nothing to update; the slice starts with the accepted bytes *)
      length (r_data r) = length (store_mem s) /\ firstn (r_init r) (r_data r) = r_acc r
  end.
Proof.
  intros s p r. destruct (run_store_good s p) as [_ _ _ Hc _ _ _ Hrel _ _]. fold r in Hc, Hrel.
  pose proof (owner_data s) as Ho.
  destruct (store_owner s).
  - split; [exact Hrel|]. rewrite Hrel, app_length. lia.
  - split; [exact Hrel|]. rewrite Hrel, app_length. lia.
  - exact Hrel.
  - split; [exact Hrel|]. rewrite Hrel. exact Hc.
Qed.

(* a nested view, capped or not: whatever its closure does and however it ends, the Drop of the
   intermediate advances the parent's counter by exactly the bytes the child accepted, which are
   the bytes now following the parent's initialized part; the parent continues in that state *)
Theorem C19_release_nested : forall m v acc caps sub,
  view_okb (length m) v = true ->                    (* initialized <= capacity, window inside the allocation *)
  slice m (v_off v) (v_init v) = Some acc ->         (* the parent's initialized part *)
  exists c, open_child v caps = Ok c
    /\ (v_cap c <= room v)%nat
    /\ (forallb is_usize caps = true -> Z.of_nat (v_cap c) = fold_left Z.min caps (Z.of_nat (room v)))
    /\ let o := run m c [] sub in
       let v' := with_init v (v_init v + s_init o) in
       length (s_acc o) = s_init o
       /\ view_okb (length m) v' = true
       /\ length (s_mem o) = length m
       /\ slice (s_mem o) (v_off v) (v_init v') = Some (acc ++ s_acc o)
       /\ forall q k, run m v acc (PNested q caps sub k)
            = after_child v acc q [EOpen (room c)] o (fun m' v'' acc' => run m' v'' acc' k).
Proof.
  intros m v acc caps sub Hvb Hs. apply view_okb_iff in Hvb. pose proof Hvb as Hv.
  pose proof (acc_ok_of_slice _ _ _ Hs) as Ha. set (total := length m) in *.
  destruct (open_child_spec v caps total Hv) as [c [E [Ho [Hc0 [Hcc Hcaps]]]]].
  exists c. split; [exact E|]. split; [exact Hcc|]. split; [exact Hcaps|].
  assert (Hvc : view_ok total c) by (apply (child_ok v c total); assumption).
  assert (Hac : acc_ok m c []) by (split; [cbn; lia|intros i Hi; lia]).
  destruct (run_good total sub m c [] eq_refl Hvc Hac) as [G1 G2 G3 [G4 G4'] _ G6 _ _ _ _].
  cbn [with_init v_off v_cap v_init] in G4, G4'. destruct Hv as [Hi Ht]. destruct Ha as [La Na].
  unfold room in Hcc. rewrite Hc0 in *.
  cbn zeta. split; [exact G4|].
  assert (Hv' : view_ok total (with_init v (v_init v + s_init (run m c [] sub))))
    by (unfold view_ok, with_init; cbn [v_off v_cap v_init]; lia).
  split; [apply view_okb_iff; exact Hv'|]. split; [exact G1|]. split.
  - cbn [with_init v_init]. apply slice_eq; [lia|rewrite app_length; lia|].
    intros i Hi'. destruct (Nat.lt_ge_cases i (v_init v)).
    + rewrite nth_error_app_l by lia. rewrite G6 by lia. apply Na. assumption.
    + rewrite nth_error_app_r by lia. rewrite <- G4' by lia. f_equal. lia.
  - intros q k. cbn [run]. rewrite E. reflexivity.
Qed.

(* ---------- index safety ---------- *)

(* no slice-index expression, checked subtraction, assert of cap_at / set_len, and none of the ghost
   checks (set_len within the capacity, parent counter within the parent's buffer, a byte access
   outside the allocation) ever fires; the only panic left is the documented assertion of the
   unsafe fn `advance`.  Every state reached satisfies the obligation of each `[a..b]` of
   buffer/src (index_obligations, one field per expression), and the two Drop-time expressions
   (slice_ref.rs `slice[..self.initialized]`, vec.rs / arrayvec.rs `set_len(len + initialized)`)
   are within the slice / the capacity *)
Theorem C19_index_safety : forall s p,
  let r := run_store s p in
  (forall site, In site checked_sites -> r_exit r <> XPanic site)
  /\ (forall site, r_exit r = XPanic site -> site = site_advance_overflow \/ site = site_advance_assert)
  /\ Forall (index_obligations (length (store_mem s))) (r_views r)
  /\ (r_init r <= store_spare s)%nat                                              (* slice_ref.rs drop *)
  /\ (length (store_data s) + r_init r <= length (store_data s) + store_spare s)%nat.  (* set_len *)
Proof.
  intros s p r. destruct (run_store_good s p) as [Hv _ Hx _ Hc _ _ _ _ _]. fold r in Hv, Hx, Hc.
  split; [|split; [|split; [|split]]].
  - intros site Hin. apply safe_exit_not_checked; assumption.
  - intros site Hs. rewrite Hs in Hx. destruct Hx as [H|[H|[H|H]]]; try discriminate H;
      injection H as ->; [left|right]; reflexivity.
  - eapply Forall_impl; [|exact Hv]. intros v. apply view_ok_obligations.
  - exact Hc.
  - lia.
Qed.

(* ---------- non-vacuity ---------- *)

(* a Vec with contents [1;2] and 6 spare bytes, capped at 5: write 2 bytes; a nested view capped at
   2 takes 3 bytes -> CapacityError with the prefix kept, closure exits by `?`; a reader fills what
   is left of the cap (1 byte of 3); a write of 1 more byte fails; initialized() reports 5 bytes;
   the Vec ends with length 2 + 5 *)
Example C19_nonvacuous :
  let s := SCapAt 5 (SVec [1; 2] [0; 0; 0; 0; 0; 0]) in
  let p := PWrite false [10; 11]
            (PNested false [2] (PWrite true [20; 21; 22] PEnd)
              (PRead [] false [30; 31; 32]
                (PWrite false [40] PInit))) in
  let r := run_store s p in
  store_wf s = true /\ prog_wf p = true
  /\ r_evs r = [EOpen 5; EWrite true; EOpen 2; EWrite false; EClose false 1;
                EBytes [30]; EClose true 0; EWrite false; EBytes [10; 11; 20; 21; 30]]
  /\ r_exit r = XOk
  /\ r_data r = [1; 2; 10; 11; 20; 21; 30] /\ r_rest r = [0]
  /\ r_init r = 5%nat /\ length (r_views r) = 8%nat /\ length (r_reports r) = 2%nat
  (* the panic of advance unwinds through the Drops: the bytes accepted before it are released *)
  /\ (let r2 := run_store (SSliceRef [7; 7; 7; 7]) (PWrite false [1] (PNested false [] (PWrite false [2] (PAdvance 5 PEnd)) PEnd)) in
      r_exit r2 = XPanic site_advance_assert /\ r_data r2 = [1; 2] /\ r_rest r2 = [7; 7])
  (* the hypotheses of C19_release_nested: a parent at offset 2 with 1 of 4 bytes initialized *)
  /\ (let m := [1; 2; 10; 0; 0; 0; 0] in let v := {| v_off := 2; v_cap := 4; v_init := 1 |} in
      view_okb (length m) v = true /\ slice m (v_off v) (v_init v) = Some [10])
  (* cap_at beyond the capacity caps (the repaired defect) *)
  /\ r_evs (run_store (SCapAt 10 (SSlice [1; 2; 3; 4])) PEnd) = [EOpen 4].
Proof. vm_compute. repeat split. Qed.

Print Assumptions C19_never_past_capacity.
Print Assumptions C19_capacity_error.
Print Assumptions C19_exact.
Print Assumptions C19_exact_writes.
Print Assumptions C19_reported_stable.
Print Assumptions C19_release.
Print Assumptions C19_release_nested.
Print Assumptions C19_index_safety.
Print Assumptions C19_nonvacuous.

(* C09 - applying a snapshot delta reproduces the target snapshot.
   Only the property theorems (about Model/Snap.v), each closed by lemmas of
   Proofs/Snap*.v.  raw_ok is the boolean state invariant of RawSnap (sorted i32 keys,
   ranges tile the buffer, <= 1024 items, <= 64 KiB); k09 is the known-finding class
   K09 (a key present in both snapshots with different lengths). *)
From LibTw2 Require Import Base.Res Model.Varint Model.Packer Model.Snap
  Proofs.SnapBase Proofs.SnapRep Proofs.SnapDelta Proofs.SnapApply Proofs.SnapOk
  Proofs.SnapWire Proofs.SnapWireInst Proofs.SnapC09.
From Coq Require Import ZArith List Lia.
Import ListNotations.
Open Scope Z_scope.

(* Delta::create then RawSnap::read_with_delta: the target again - same items in the same
   (key) order, same lookups, same checksum, no warning *)
Theorem C09_apply_create : forall A B, raw_ok A = true -> raw_ok B = true -> k09 A B = false ->
  exists d B',
    create_raw A B = Ok d
    /\ raw_read_with_delta A d = (Ok B', [])
    /\ @raw_items unit B' = raw_items B
    /\ (forall ty id, @raw_item unit B' ty id = raw_item B ty id)
    /\ crc B' = crc B.
Proof.
  intros A B OA OB Hk. destruct (c09_main (fun _ => None) A B OA OB Hk) as (d & B' & H1 & H2 & H3 & H4 & H5 & _).
  exists d, B'. repeat split; auto.
Qed.

(* the wire form of any well-formed delta reads back as the same delta, without warning,
   as integers and as packed bytes, for any table of pre-agreed sizes the delta respects *)
Theorem C09_wire : forall sz d, delta_ok sz d = true ->
  exists l bs,
    delta_ints sz d = Ok l /\ ints_to_bytes l = Ok bs
    /\ (forall cap, (length l <= cap)%nat -> delta_write_to_ints sz d cap = Ok l)
    /\ (forall cap, (length bs <= cap)%nat -> delta_write_bytes sz d cap = Ok bs)
    /\ delta_read_from_ints sz l = (Ok d, [])
    /\ delta_read_bytes sz bs = (Ok d, []).
Proof.
  intros sz d H. destruct (delta_wire_bytes sz d H) as (l & bs & H1 & H2 & H3).
  destruct (delta_wire_ints sz d H) as (l' & H1' & H4). rewrite H1 in H1'. injection H1' as <-.
  exists l, bs. split; [exact H1|]. split; [exact H2|].
  split; [|split; [|split; assumption]].
  - intros cap Hc. unfold delta_write_to_ints. rewrite H1.
    replace (cap <? length l)%nat with false by (symmetry; apply Nat.ltb_ge; exact Hc). reflexivity.
  - intros cap Hc. unfold delta_write_bytes. rewrite H1, H2.
    replace (cap <? length bs)%nat with false by (symmetry; apply Nat.ltb_ge; exact Hc). reflexivity.
Qed.

(* create, write, read, apply *)
Corollary C09_end_to_end : forall sz A B, raw_ok A = true -> raw_ok B = true -> k09 A B = false ->
  sizes_respected sz B = true ->
  exists d l bs B',
    create_raw A B = Ok d /\ delta_ints sz d = Ok l /\ ints_to_bytes l = Ok bs
    /\ (exists d1, delta_read_from_ints sz l = (Ok d1, []) /\ raw_read_with_delta A d1 = (Ok B', []))
    /\ (exists d2, delta_read_bytes sz bs = (Ok d2, []) /\ raw_read_with_delta A d2 = (Ok B', []))
    /\ @raw_items unit B' = raw_items B /\ crc B' = crc B.
Proof.
  intros sz A B OA OB Hk Hs. destruct (c09_main sz A B OA OB Hk) as (d & B' & H1 & H2 & H3 & _ & H5 & H6).
  destruct (H6 Hs) as (l & bs & W1 & W2 & W3 & W4).
  exists d, l, bs, B'. repeat split; auto; exists d; split; assumption.
Qed.

(* K09: where an item keeps its key and changes its length, Delta::create panics *)
Theorem C09_K09_panics : forall A B, raw_ok A = true -> raw_ok B = true -> k09 A B = true ->
  exists s, create_raw A B = Panic s.
Proof. exact c09_k09. Qed.

(* concrete snapshots: keys on both sides of the signed boundary, a removed, a changed (wrapping),
   an added and an untouched item; and the K09 witness of DESIGN.md section 9 *)
Definition exA : rawsnap :=
  match add_item raw_empty 32768 2 [i32_min; 7] with
  | Ok S1 => match add_item S1 5 1 [9; 9] with
             | Ok S2 => match add_item S2 1 0 [] with Ok S3 => S3 | _ => raw_empty end
             | _ => raw_empty end
  | _ => raw_empty end.
Definition exB : rawsnap :=
  match add_item raw_empty 5 1 [9; 10] with
  | Ok S1 => match add_item S1 32768 2 [i32_max; 7] with
             | Ok S2 => match add_item S2 65535 65535 [1; 2; 3] with Ok S3 => S3 | _ => raw_empty end
             | _ => raw_empty end
  | _ => raw_empty end.
Definition exK : rawsnap :=
  match add_item raw_empty 5 1 [9; 9; 9] with Ok S1 => S1 | _ => raw_empty end.

Definition exD : delta :=
  {| d_del := [65536];
     d_upd := [(-2147483646, (0, 2)%nat); (-1, (2, 5)%nat); (327681, (5, 7)%nat)];
     d_buf := [-1; 0; 1; 2; 3; 0; 1] |}.
Definition exT : osize := fun ty => if ty =? 5 then Some 2 else None.

Example C09_nonvacuous :
  raw_ok exA = true /\ raw_ok exB = true /\ k09 exA exB = false
  /\ map fst (rs_offs exB) = [-2147483646; -1; 327681]
  /\ create_raw exA exB = Ok exD
  /\ delta_ok exT exD = true /\ sizes_respected exT exB = true
  /\ delta_ints exT exD = Ok [1; 3; 0; 65536; 32768; 2; 2; -1; 0; 65535; 65535; 3; 1; 2; 3; 5; 1; 0; 1]
  /\ match raw_read_with_delta exA exD with
     | (Ok X, []) => @raw_items unit X = raw_items exB /\ crc X = crc exB
     | _ => False
     end
  /\ raw_ok exK = true /\ k09 exA exK = true /\ create_raw exA exK = Panic site_create_mismatch.
Proof. vm_compute. repeat split. Qed.

Print Assumptions C09_apply_create.
Print Assumptions C09_wire.
Print Assumptions C09_end_to_end.
Print Assumptions C09_K09_panics.
Print Assumptions C09_nonvacuous.

(* C01 for Teeworlds 0.7 -- vital chunks are delivered exactly once, in order, uncorrupted;
   non-vital delivered chunks were really sent; the connecting side is told 'ready' at most once
   and never before the accepting side has answered (= has emitted an Accept datagram).
   The world is two endpoints (Model/Conn7.v, the model the correspondence check ties to
   net/src/connection7.rs) and a network that may lose, duplicate, reorder and delay datagrams
   (Model/Link7.v). `admissible_run7` is the property's own assumption, as a predicate on the
   history: valid API calls, (W) fewer than 512 vital chunks unacknowledged, (F) no datagram
   delayed across the 10-bit sequence space, a usable random token wherever one may be drawn.
   Mirror of Props/C01.v (0.6); the proofs are in Proofs/Link7Inv.v. *)
From LibTw2 Require Import Base.Res Model.PacketTypes Model.ConnCore Model.Conn7 Model.LinkGhost Model.Link7
  Proofs.LinkArith Proofs.Link7Inv.
From Coq Require Import ZArith List Lia.
Open Scope Z_scope.

Lemma to_nat_zlen7 {A} (l : list A) : Z.to_nat (zlen l) = length l.
Proof. unfold zlen. apply Nat2Z.id. Qed.

(* what the receiving application was handed is a prefix of what the sending application
   submitted: nothing skipped, duplicated, reordered or altered -- in both directions, for
   every admissible history *)
Theorem C01_prefix7 : forall ra rb ls, admissible_run7 (link7_new ra rb) ls ->
  exists w, link_run7 (link7_new ra rb) ls = Ok w /\
    l7_del (k7_b w) = firstn (length (l7_del (k7_b w))) (l7_sub (k7_a w)) /\
    l7_del (k7_a w) = firstn (length (l7_del (k7_a w))) (l7_sub (k7_b w)).
Proof.
  intros ra rb ls Ha. destruct (link_run_inv7 ls _ (link7_new_inv ra rb) Ha) as [w [Hr [HA [HB _]]]].
  exists w. split; [exact Hr|]. split.
  - rewrite <- to_nat_zlen7. exact (sv7_prefix _ _ _ _ _ HB).
  - rewrite <- to_nat_zlen7. exact (sv7_prefix _ _ _ _ _ HA).
Qed.

(* non-vital chunks that are delivered are chunks that were really sent *)
Theorem C01_nonvital_genuine7 : forall ra rb ls, admissible_run7 (link7_new ra rb) ls ->
  exists w, link_run7 (link7_new ra rb) ls = Ok w /\
    incl (l7_nvr (k7_b w)) (l7_nvs (k7_a w)) /\ incl (l7_nvr (k7_a w)) (l7_nvs (k7_b w)).
Proof.
  intros ra rb ls Ha. destruct (link_run_inv7 ls _ (link7_new_inv ra rb) Ha) as [w [Hr [HA [HB _]]]].
  exists w. split; [exact Hr|]. split; [exact (sv7_nvr _ _ _ _ _ HB)|exact (sv7_nvr _ _ _ _ _ HA)].
Qed.

(* 'ready' is reported at most once, and never before the accepting side has answered *)
Theorem C01_ready7 : forall ra rb ls, admissible_run7 (link7_new ra rb) ls ->
  exists w, link_run7 (link7_new ra rb) ls = Ok w /\
    0 <= l7_ready (k7_a w) <= 1 /\ 0 <= l7_ready (k7_b w) <= 1 /\
    (1 <= l7_ready (k7_a w) -> l7_answered (k7_b w) = true) /\
    (1 <= l7_ready (k7_b w) -> l7_answered (k7_a w) = true).
Proof.
  intros ra rb ls Ha. destruct (link_run_inv7 ls _ (link7_new_inv ra rb) Ha) as [w [Hr [HA [HB _]]]].
  exists w. split; [exact Hr|].
  split; [exact (sv7_ready _ _ _ _ _ HA)|]. split; [exact (sv7_ready _ _ _ _ _ HB)|].
  split; [exact (sv7_ans _ _ _ _ _ HA)|exact (sv7_ans _ _ _ _ _ HB)].
Qed.

(* the invariant behind the three statements, for reuse *)
Theorem C01_invariant7 : forall ra rb ls, admissible_run7 (link7_new ra rb) ls ->
  exists w, link_run7 (link7_new ra rb) ls = Ok w /\ link_inv7 w.
Proof. intros ra rb ls Ha. exact (link_run_inv7 ls _ (link7_new_inv ra rb) Ha). Qed.

(* non-vacuity: a concrete 0.7 history with the full token handshake, a lost datagram, a resend,
   a duplicate delivery and stale handshake datagrams arriving late satisfies the assumptions,
   and delivers every vital chunk exactly once *)
Definition demo_trace7 : list llabel7 :=
  [ L7App SA7 Op7Connect;                        (* A: token request (header token NONE) *)
    L7Deliver SA7 0;                             (* B draws its token and answers with TokenMsg *)
    L7Deliver SB7 0;                             (* A learns B's token and sends Connect *)
    L7Deliver SA7 1;                             (* B: Connect -> Pending, emits Accept: B has answered *)
    L7Deliver SB7 1;                             (* A: Accept -> online, Ready *)
    L7App SA7 (Op7Send [11] true); L7App SA7 (Op7Send [22] true); L7App SA7 (Op7Send [33] false);
    L7App SA7 Op7Flush; L7Drop SA7 2;            (* the datagram with the chunks is lost *)
    L7Time 1100000; L7App SA7 Op7Tick; L7App SA7 Op7Flush;   (* resend deadline: chunks are queued and sent again *)
    L7Deliver SA7 2; L7Deliver SA7 2;            (* ... and arrive twice; the first takes B online *)
    L7App SB7 (Op7Send [44] true); L7App SB7 Op7Flush; L7Deliver SB7 2;
    L7Deliver SB7 1; L7Deliver SB7 0;            (* stale duplicates of Accept and TokenMsg last *)
    L7Deliver SA7 0; L7Deliver SA7 1 ].          (* stale token request and Connect at B *)

Example C01_nonvacuous7 :
  admissible_run7 (link7_new [[9; 9; 9; 9]; [8; 8; 8; 8]] [[1; 2; 3; 4]; [5; 6; 7; 8]]) demo_trace7 /\
  match link_run7 (link7_new [[9; 9; 9; 9]; [8; 8; 8; 8]] [[1; 2; 3; 4]; [5; 6; 7; 8]]) demo_trace7 with
  | Ok w => l7_sub (k7_a w) = [[11]; [22]] /\ l7_del (k7_b w) = [[11]; [22]] /\
            l7_del (k7_a w) = [[44]] /\ l7_ready (k7_a w) = 1 /\ l7_ready (k7_b w) = 0 /\
            l7_answered (k7_b w) = true /\ l7_answered (k7_a w) = false
  | _ => False
  end.
Proof.
  split; [apply admissible_runb_ok7; vm_compute; reflexivity|].
  vm_compute. repeat split.
Qed.

Print Assumptions C01_prefix7.
Print Assumptions C01_nonvital_genuine7.
Print Assumptions C01_ready7.
Print Assumptions C01_invariant7.
Print Assumptions C01_nonvacuous7.

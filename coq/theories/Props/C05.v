(* C05 -- packet encoding and decoding are mutually inverse (0.6 / DDNet: net/src/protocol.rs,
   0.7: net/src/protocol7.rs). Only the property theorems are here, each closed by lemmas of
   Proofs/Pkt*.v, Proofs/Packet*.v. The header functions are the GENERATED ones (Gen/Bits6.v,
   Gen/Bits7.v: regenerated from the Rust source on every run), the reader and writer are the
   models Model/Packet6.v, Model/Packet7.v; the Huffman coder is a parameter of the packet
   theorems, its round trip an explicit hypothesis (property C07). *)
From LibTw2 Require Import Base.Res Model.PacketTypes Model.PacketBase.
From LibTw2 Require Gen.Consts6 Gen.Bits6 Gen.Consts7 Gen.Bits7 Model.Packet6 Model.Packet7.
From LibTw2 Require Proofs.PktBits6 Proofs.PktBits7 Proofs.Packet6Write Proofs.Packet6Read Proofs.Packet6Chunks
  Proofs.Packet7Write Proofs.Packet7Read Proofs.Packet7Chunks Proofs.PktToy.
From LibTw2 Require Model.PacketInst Proofs.PacketInstProofs.
From Coq Require Import ZArith List.
Import Gen.Bits6 Gen.Bits7 Proofs.PktBits6 Proofs.PktBits7.
Open Scope Z_scope.

(* ---- headers: pack then unpack_warn, for EVERY in-range field tuple ---- *)
Theorem C05_hdr_pack_unpack :
  (forall h, ph6_in_range h = true -> exists p, PacketHeader6_pack h = Ok p
       /\ PacketHeaderPacked6_unpack_warn p = (h, []) /\ ph6_canonical p = true)
  /\ (forall h, ch6_in_range h = true -> exists p, ChunkHeader6_pack h = Ok p
       /\ ChunkHeaderPacked6_unpack_warn p = (h, []) /\ ch6_canonical p = true)
  /\ (forall h, chv6_in_range h = true -> exists p, ChunkHeaderVital6_pack h = Ok p
       /\ ChunkHeaderVitalPacked6_unpack_warn p = (h, []) /\ chv6_canonical p = true)
  /\ (forall h, ph7_in_range h = true -> exists p, PacketHeader7_pack h = Ok p
       /\ PacketHeaderPacked7_unpack_warn p = (h, []) /\ ph7_canonical p = true)
  /\ (forall h, phc7_in_range h = true -> exists p, PacketHeaderConnless7_pack h = Ok p
       /\ PacketHeaderConnlessPacked7_unpack_warn p = (h, []) /\ phc7_canonical p = true)
  /\ (forall h, ch7_in_range h = true -> exists p, ChunkHeader7_pack h = Ok p
       /\ ChunkHeaderPacked7_unpack_warn p = (h, []) /\ ch7_canonical p = true)
  /\ (forall h, chv7_in_range h = true -> exists p, ChunkHeaderVital7_pack h = Ok p
       /\ ChunkHeaderVitalPacked7_unpack_warn p = (h, [])).
Proof.
  split; [|split; [|split; [|split; [|split; [|split]]]]]; intros h Hr.
  - destruct (ph6_pack_unpack h Hr) as (p & A & B & _ & C). exists p. auto.
  - destruct (ch6_pack_unpack h Hr) as (p & A & B & _ & C). exists p. auto.
  - destruct (chv6_pack_unpack h Hr) as (p & A & B & _ & C). exists p. auto.
  - destruct (ph7_pack_unpack h Hr) as (p & A & B & _ & C & _). exists p. auto.
  - destruct (phc7_pack_unpack h Hr) as (p & A & B & _ & C & _). exists p. auto.
  - destruct (ch7_pack_unpack h Hr) as (p & A & B & _ & C). exists p. auto.
  - destruct (chv7_pack_unpack h Hr) as (p & A & B & _). exists p. auto.
Qed.

(* ---- headers: unpack_warn then pack, for EVERY canonical bit pattern (all bytes 0..255) ---- *)
Theorem C05_hdr_unpack_pack :
  (forall p, php6_bytes_ok p = true -> ph6_canonical p = true ->
     PacketHeader6_pack (fst (PacketHeaderPacked6_unpack_warn p)) = Ok p /\ snd (PacketHeaderPacked6_unpack_warn p) = [])
  /\ (forall p, chp6_bytes_ok p = true -> ch6_canonical p = true ->
     ChunkHeader6_pack (fst (ChunkHeaderPacked6_unpack_warn p)) = Ok p /\ snd (ChunkHeaderPacked6_unpack_warn p) = [])
  /\ (forall p, chvp6_bytes_ok p = true -> chv6_canonical p = true ->
     ChunkHeaderVital6_pack (fst (ChunkHeaderVitalPacked6_unpack_warn p)) = Ok p /\ snd (ChunkHeaderVitalPacked6_unpack_warn p) = [])
  /\ (forall p, php7_bytes_ok p = true -> ph7_canonical p = true ->
     PacketHeader7_pack (fst (PacketHeaderPacked7_unpack_warn p)) = Ok p /\ snd (PacketHeaderPacked7_unpack_warn p) = [])
  /\ (forall p, phcp7_bytes_ok p = true -> phc7_canonical p = true ->
     PacketHeaderConnless7_pack (fst (PacketHeaderConnlessPacked7_unpack_warn p)) = Ok p /\ snd (PacketHeaderConnlessPacked7_unpack_warn p) = [])
  /\ (forall p, chp7_bytes_ok p = true -> ch7_canonical p = true ->
     ChunkHeader7_pack (fst (ChunkHeaderPacked7_unpack_warn p)) = Ok p /\ snd (ChunkHeaderPacked7_unpack_warn p) = [])
  /\ (forall p, chvp7_bytes_ok p = true ->
     ChunkHeaderVital7_pack (fst (ChunkHeaderVitalPacked7_unpack_warn p)) = Ok p /\ snd (ChunkHeaderVitalPacked7_unpack_warn p) = []).
Proof.
  split; [exact ph6_unpack_pack|]. split; [exact ch6_unpack_pack|]. split; [exact chv6_unpack_pack|].
  split; [exact ph7_unpack_pack|]. split; [exact phc7_unpack_pack|]. split; [exact ch7_unpack_pack|].
  intros p Hb. exact (chv7_unpack_pack p Hb eq_refl).
Qed.

(* ---- unpack_warn is silent exactly on the canonical patterns, and exactly those re-pack to
   themselves. One exception, stated: the 0.6 packet header does not warn about its padding
   bits when the connless bit is set (read_impl then compares the first bytes with ff ff ff). ---- *)
Theorem C05_warn_iff_noncanonical :
  (forall p, php6_bytes_ok p = true ->
     (ph6_canonical p = true <-> PacketHeader6_pack (fst (PacketHeaderPacked6_unpack_warn p)) = Ok p)
     /\ (snd (PacketHeaderPacked6_unpack_warn p) = [] <-> (ph6_canonical p = true \/ ph6_connless_bit p = true)))
  /\ (forall p, chp6_bytes_ok p = true ->
     (snd (ChunkHeaderPacked6_unpack_warn p) = [] <-> ChunkHeader6_pack (fst (ChunkHeaderPacked6_unpack_warn p)) = Ok p)
     /\ (snd (ChunkHeaderPacked6_unpack_warn p) = [] <-> ch6_canonical p = true))
  /\ (forall p, chvp6_bytes_ok p = true ->
     (snd (ChunkHeaderVitalPacked6_unpack_warn p) = [] <-> ChunkHeaderVital6_pack (fst (ChunkHeaderVitalPacked6_unpack_warn p)) = Ok p)
     /\ (snd (ChunkHeaderVitalPacked6_unpack_warn p) = [] <-> chv6_canonical p = true))
  /\ (forall p, php7_bytes_ok p = true ->
     (snd (PacketHeaderPacked7_unpack_warn p) = [] <-> PacketHeader7_pack (fst (PacketHeaderPacked7_unpack_warn p)) = Ok p)
     /\ (snd (PacketHeaderPacked7_unpack_warn p) = [] <-> ph7_canonical p = true))
  /\ (forall p, phcp7_bytes_ok p = true ->
     (snd (PacketHeaderConnlessPacked7_unpack_warn p) = [] <-> PacketHeaderConnless7_pack (fst (PacketHeaderConnlessPacked7_unpack_warn p)) = Ok p)
     /\ (snd (PacketHeaderConnlessPacked7_unpack_warn p) = [] <-> phc7_canonical p = true))
  /\ (forall p, chp7_bytes_ok p = true ->
     (snd (ChunkHeaderPacked7_unpack_warn p) = [] <-> ChunkHeader7_pack (fst (ChunkHeaderPacked7_unpack_warn p)) = Ok p)
     /\ (snd (ChunkHeaderPacked7_unpack_warn p) = [] <-> ch7_canonical p = true))
  /\ (forall p, chvp7_bytes_ok p = true ->
     (snd (ChunkHeaderVitalPacked7_unpack_warn p) = [] <-> ChunkHeaderVital7_pack (fst (ChunkHeaderVitalPacked7_unpack_warn p)) = Ok p)).
Proof.
  split; [exact ph6_warn_iff|]. split; [exact ch6_warn_iff|]. split; [exact chv6_warn_iff|].
  split; [exact ph7_warn_iff|]. split; [exact phc7_warn_iff|]. split; [exact ch7_warn_iff|].
  intros p Hb. exact (proj1 (chv7_warn_iff p Hb)).
Qed.

(* ---- whole packets, 0.6: what write returns, read (told the true token mode) turns back
   into the same value with no warning -- in both branches of the compression choice ---- *)
Theorem C05_read_write6 : forall (comp decomp : Packet6.HuffC),
  (forall x c y, bytes_ok x = true -> comp x c = Some y -> forall c', (length x <= c')%nat -> decomp y c' = Some x) ->
  forall p cap out cap2, Packet6.expressible6 p = true -> Packet6.packet_bytes_ok6 p = true -> Packet6.K05_6 p = false ->
  Packet6.write6 comp p cap = Ok out -> (1400 <= cap2)%nat ->
  (length out <= cap)%nat
  /\ Packet6.read6 decomp out (Packet6.true_hint6 p) cap2
     = ([], Ok (p, Packet6Read.views_of6 p (Packet6Read.enc_compressed6 comp p))).
Proof.
  intros comp decomp Hrt p cap out cap2 Hx Hb Hk Hw Hcap.
  destruct (Packet6Write.write6_ok_encoding comp p cap out Hw) as [-> Hl]. split; [exact Hl|].
  rewrite (Packet6Read.read_encoding6 comp decomp Hrt p cap2 Hx Hb Hcap).
  unfold Packet6Read.k05_warnings6. rewrite Hk. reflexivity.
Qed.

(* class K05, pinned: the value comes back unchanged, with exactly the warning ChunksNoChunks *)
Theorem C05_K05_exact6 : forall (comp decomp : Packet6.HuffC),
  (forall x c y, bytes_ok x = true -> comp x c = Some y -> forall c', (length x <= c')%nat -> decomp y c' = Some x) ->
  forall p cap out cap2, Packet6.expressible6 p = true -> Packet6.packet_bytes_ok6 p = true -> Packet6.K05_6 p = true ->
  Packet6.write6 comp p cap = Ok out -> (1400 <= cap2)%nat ->
  Packet6.read6 decomp out (Packet6.true_hint6 p) cap2
  = ([Consts6.W6ChunksNoChunks], Ok (p, Packet6Read.views_of6 p (Packet6Read.enc_compressed6 comp p))).
Proof.
  intros comp decomp Hrt p cap out cap2 Hx Hb Hk Hw Hcap.
  destruct (Packet6Write.write6_ok_encoding comp p cap out Hw) as [-> Hl].
  rewrite (Packet6Read.read_encoding6 comp decomp Hrt p cap2 Hx Hb Hcap).
  unfold Packet6Read.k05_warnings6. rewrite Hk. reflexivity.
Qed.

(* ---- whole packets, 0.7 ---- *)
Theorem C05_read_write7 : forall (comp decomp : Packet7.HuffC7),
  (forall x c y, bytes_ok x = true -> comp x c = Some y -> forall c', (length x <= c')%nat -> decomp y c' = Some x) ->
  forall p cap out cap2, Packet7.expressible7 p = true -> Packet7.packet_bytes_ok7 p = true -> Packet7.K05_7 p = false ->
  Packet7.write7 comp p cap = Ok out -> (1400 <= cap2)%nat ->
  (length out <= cap)%nat
  /\ Packet7.read7 decomp out cap2
     = ([], Ok (p, Packet7Read.views_of7 p (Packet7Read.enc_compressed7 comp p))).
Proof.
  intros comp decomp Hrt p cap out cap2 Hx Hb Hk Hw Hcap.
  destruct (Packet7Write.write7_ok_encoding comp p cap out Hw) as [E Hl]. split; [exact Hl|].
  (* a response token NONE makes write panic, so Ok excludes class K06T *)
  assert (Hkt : Packet7.K06T_7 p = false).
  { destruct (Packet7.K06T_7 p) eqn:Ek; [|reflexivity]. exfalso.
    destruct p as [pl t r|ack tok [rs n pl|c]]; try discriminate Ek.
    unfold Packet7.write7, Packet7.write7_full, Packet7.write_connected7, Packet7.write_control7, Packet7.write_header7 in Hw.
    destruct (Bits7.PacketHeader7_pack _) as [hp|e|s|]; try discriminate Hw; [|destruct e].
    unfold Packet7.wstep7 in Hw. destruct (wb_write _ _) as [t1 [|]]; [|discriminate Hw].
    destruct (wb_write t1 _) as [t2 [|]]; [|discriminate Hw].
    cbn [Packet7.K06T_7] in Ek. destruct c; try discriminate Ek; rewrite Ek in Hw; discriminate Hw. }
  subst out. rewrite (Packet7Read.read_encoding7 comp decomp Hrt p cap2 Hx Hb Hkt Hcap).
  unfold Packet7Read.k05_warnings7. rewrite Hk. reflexivity.
Qed.

Theorem C05_K05_exact7 : forall (comp decomp : Packet7.HuffC7),
  (forall x c y, bytes_ok x = true -> comp x c = Some y -> forall c', (length x <= c')%nat -> decomp y c' = Some x) ->
  forall p cap2, Packet7.expressible7 p = true -> Packet7.packet_bytes_ok7 p = true -> Packet7.K05_7 p = true -> (1400 <= cap2)%nat ->
  Packet7.write7 comp p 1400 = Ok (Packet7Write.encoding7 comp p)
  /\ Packet7.read7 decomp (Packet7Write.encoding7 comp p) cap2
     = ([Consts7.W7ChunksNoChunks], Ok (p, Packet7Read.views_of7 p (Packet7Read.enc_compressed7 comp p))).
Proof.
  intros comp decomp Hrt p cap2 Hx Hb Hk Hcap.
  assert (Hkt : Packet7.K06T_7 p = false) by (destruct p as [? ? ?|? ? [? ? ?|?]]; try discriminate Hk; reflexivity).
  assert (Hk6 : Packet7.K06_7 p = false) by (destruct p as [? ? ?|? ? [? ? ?|?]]; try discriminate Hk; reflexivity).
  split; [exact (proj1 (Packet7Write.write7_ok comp p 1400 Hx Hk6 Hkt (le_n _)))|].
  rewrite (Packet7Read.read_encoding7 comp decomp Hrt p cap2 Hx Hb Hkt Hcap).
  unfold Packet7Read.k05_warnings7. rewrite Hk. reflexivity.
Qed.

(* ---- the same two theorems with the parameter instantiated by the model of the real coder over
   the built-in table (Model/PacketInst.v): the coder hypothesis is discharged by C07's round trip
   (Proofs/PacketInstProofs.tw_rt), nothing is assumed any more ---- *)
Theorem C05_read_write6_huffman : forall p cap out cap2,
  Packet6.expressible6 p = true -> Packet6.packet_bytes_ok6 p = true -> Packet6.K05_6 p = false ->
  PacketInst.write6_tw p cap = Ok out -> (1400 <= cap2)%nat ->
  (length out <= cap)%nat
  /\ PacketInst.read6_tw out (Packet6.true_hint6 p) cap2
     = ([], Ok (p, Packet6Read.views_of6 p (Packet6Read.enc_compressed6 PacketInst.tw_comp p))).
Proof. exact (C05_read_write6 PacketInst.tw_comp PacketInst.tw_decomp PacketInstProofs.tw_rt). Qed.

Theorem C05_read_write7_huffman : forall p cap out cap2,
  Packet7.expressible7 p = true -> Packet7.packet_bytes_ok7 p = true -> Packet7.K05_7 p = false ->
  PacketInst.write7_tw p cap = Ok out -> (1400 <= cap2)%nat ->
  (length out <= cap)%nat
  /\ PacketInst.read7_tw out cap2
     = ([], Ok (p, Packet7Read.views_of7 p (Packet7Read.enc_compressed7 PacketInst.tw_comp p))).
Proof. exact (C05_read_write7 PacketInst.tw_comp PacketInst.tw_decomp PacketInstProofs.tw_rt). Qed.

(* ---- chunks: what write_chunk writes, ChunksIter yields back, in order, without warnings ---- *)
Theorem C05_chunks_roundtrip6 : forall cs, forallb Packet6Chunks.chunk_wf6 cs = true ->
  (forall c cap, In c cs -> (length (Packet6Chunks.chunk_enc6 c) <= cap)%nat ->
     Packet6.write_chunk6 (ch_data c) (ch_vital c) cap = Ok (Packet6Chunks.chunk_enc6 c))
  /\ exists cvs it', Packet6.chunks_iter_all6 (flat_map Packet6Chunks.chunk_enc6 cs) (Z.of_nat (length cs))
                     = Ok (cvs, [], it') /\ map fst cvs = cs.
Proof. exact Packet6Chunks.chunks_roundtrip6. Qed.

Theorem C05_chunks_roundtrip7 : forall cs, forallb Packet7Chunks.chunk_wf7 cs = true ->
  (forall c cap, In c cs -> (length (Packet7Chunks.chunk_enc7 c) <= cap)%nat ->
     Packet7.write_chunk7 (ch_data c) (ch_vital c) cap = Ok (Packet7Chunks.chunk_enc7 c))
  /\ exists cvs it', Packet7.chunks_iter_all7 (flat_map Packet7Chunks.chunk_enc7 cs) (Z.of_nat (length cs))
                     = Ok (cvs, [], it') /\ map fst cvs = cs.
Proof. exact Packet7Chunks.chunks_roundtrip7. Qed.

(* ---- non-vacuity: concrete values meet the hypotheses; with the toy coder of PktToy.v (which
   satisfies the coder hypothesis) the writer takes the compression branch on 40 zero bytes and the
   plain branch on [1;2;3]; the generated masks give the documented bytes ---- *)
Example C05_nonvacuous :
  (forall x c y, bytes_ok x = true -> PktToy.toy_comp x c = Some y -> forall c', (length x <= c')%nat -> PktToy.toy_decomp y c' = Some x)
  /\ Packet6.expressible6 (P6Connected 1023 (Some [18; 52; 86; 120]) (P6Chunks true 2 (repeat 0 40%nat))) = true
  /\ Packet6.write6 PktToy.toy_comp (P6Connected 1023 (Some [18; 52; 86; 120]) (P6Chunks true 2 [1; 2; 3])) 2048
     = Ok [67; 255; 2; 1; 2; 3; 18; 52; 86; 120]
  /\ Packet6.write6 PktToy.toy_comp (P6Connected 5 None (P6Chunks false 1 (repeat 0 40%nat))) 2048
     = Ok [128; 5; 1; 40]
  /\ Packet6.read6 PktToy.toy_decomp [128; 5; 1; 40] (Some false) 1400
     = ([], Ok (P6Connected 5 None (P6Chunks false 1 (repeat 0 40%nat)), [{| v_src := Scratch; v_off := 3; v_len := 40 |}]))
  /\ Packet7.write7 PktToy.toy_comp (P7Connected 256 [1; 2; 3; 4] (P7Control (C7Close [98; 121; 101]))) 2048
     = Ok [5; 0; 0; 1; 2; 3; 4; 4; 98; 121; 101; 0]
  /\ ph6_in_range {| ph6_flags := 15; ph6_ack := 1023; ph6_num_chunks := 255 |} = true
  /\ PacketHeader6_pack {| ph6_flags := 15; ph6_ack := 1023; ph6_num_chunks := 255 |}
     = Ok {| php6_flags_padding_ack := 243; php6_ack := 255; php6_num_chunks := 255 |}
  /\ ChunkHeaderPacked7_unpack_warn {| chp7_flags_size := 0; chp7_padding_size := 16 |}
     = ({| ch7_flags := 0; ch7_size := 16 |}, [])
  /\ PacketInst.write6_tw (P6Connected 0 None (P6Chunks false 1 (repeat 0 40%nat))) 2048
     = Ok [128; 0; 1; 255; 255; 255; 255; 255; 138; 27]
  /\ Packet6Read.enc_compressed6 PacketInst.tw_comp (P6Connected 0 None (P6Chunks false 1 [1; 2; 3])) = false.
Proof. split; [intros x c y _; exact (PktToy.toy_rt x c y)|]. vm_compute. repeat split. Qed.

Print Assumptions C05_hdr_pack_unpack.
Print Assumptions C05_hdr_unpack_pack.
Print Assumptions C05_warn_iff_noncanonical.
Print Assumptions C05_read_write6.
Print Assumptions C05_K05_exact6.
Print Assumptions C05_read_write7.
Print Assumptions C05_K05_exact7.
Print Assumptions C05_read_write6_huffman.
Print Assumptions C05_read_write7_huffman.
Print Assumptions C05_chunks_roundtrip6.
Print Assumptions C05_chunks_roundtrip7.
Print Assumptions C05_nonvacuous.

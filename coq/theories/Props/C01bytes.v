(* C01 over BYTES (0.6 / DDNet): vital chunks are delivered exactly once, in order, uncorrupted,
   when what the network loses, duplicates, reorders and delays is the byte strings that
   PacketBuilder::send really hands to the socket.
   Model/LinkBytes6.v is the link of Model/Link6.v with byte strings in the two bags: every
   datagram an endpoint emits goes through the packet writer model (Packet::write into 1400
   bytes, Huffman coder of Model/PacketInst.v), every delivery goes through the packet reader
   model with the token hint of the receiver's state and then into Connection::feed
   (feed_bytes6). This file transports the statements of Props/C01.v to that link.
   Scope: both endpoints are this library, whose connector always offers the DDNet token and
   whose acceptor always takes it; so every connection-oriented datagram in flight carries a
   token (Proofs/LinkBytes6Wire.v) -- Props/C01.v does not distinguish the token-less mode
   either (it only arises with a foreign peer that sends a Connect without token).
   Extra assumption over Props/C01.v: what the application submits and the random tokens are
   byte strings (the model keeps bytes as Z). *)
From LibTw2 Require Import Base.Res Model.PacketTypes Model.ConnCore Model.Conn6 Model.LinkGhost Model.Link6
  Model.LinkBytes6 Proofs.Conn6Inv Proofs.ConnInert Proofs.LinkArith Proofs.Link6Inv
  Proofs.LinkBytes6Wire Proofs.LinkBytes6Sim.
From Coq Require Import ZArith List Lia.
Open Scope Z_scope.

(* (1) the byte-level link and the abstract link run in lockstep on every admissible history:
   neither fails, the endpoint states and ghost histories are the same, and the byte bags are
   the abstract bags pushed through the writer, datagram by datagram (each at most 1400 bytes) *)
Theorem C01_bytes_simulation6 : forall ra rb ls,
  tokens_bytes ra -> tokens_bytes rb -> Forall bytes_label ls ->
  admissible_run (link_new ra rb) ls ->
  exists w wb,
    link_run (link_new ra rb) ls = Ok w /\
    link_bytes_run (link_bytes_new ra rb) ls = Ok wb /\
    kb_a wb = k_a w /\ kb_b wb = k_b w /\ kb_now wb = k_now w /\
    kb_ab wb = map wire_flight_of (k_ab w) /\ kb_ba wb = map wire_flight_of (k_ba w) /\
    Forall (fun f => exists bs, wire6 (f_d f) = Ok bs /\ (length bs <= 1400)%nat) (k_ab w ++ k_ba w).
Proof.
  intros ra rb ls Hra Hrb Hbl Ha.
  destruct (link_bytes_run_sim ls _ _ (link_new_inv ra rb) (link_new_wire ra rb Hra Hrb) (link_new_sim ra rb) Ha Hbl)
    as (w & wb & E1 & E2 & _ & _ & (Sa & Sb & Sn & Sab & Sba)).
  destruct (flight_sim_map _ _ Sab) as [Mab Fab]. destruct (flight_sim_map _ _ Sba) as [Mba Fba].
  exists w, wb. repeat (split; [assumption|]). apply Forall_app. split; assumption.
Qed.

(* the property's assumptions can be stated on the byte-level link alone (the freshness
   condition reads the chunks out of the bytes with the receiver's reader): that is the same as
   the abstract history being admissible and the application data being bytes *)
Theorem C01_bytes_admissible6 : forall ra rb ls, tokens_bytes ra -> tokens_bytes rb ->
  (admissible_bytes_run (link_bytes_new ra rb) ls <->
   admissible_run (link_new ra rb) ls /\ Forall bytes_label ls).
Proof.
  intros ra rb ls Hra Hrb.
  exact (admissible_bytes_run_iff ls _ _ (link_new_inv ra rb) (link_new_wire ra rb Hra Hrb) (link_new_sim ra rb)).
Qed.

(* every admissible byte-level history runs through, in lockstep with an abstract one *)
Lemma bytes_run_inv ra rb ls : tokens_bytes ra -> tokens_bytes rb ->
  admissible_bytes_run (link_bytes_new ra rb) ls ->
  exists w wb, link_bytes_run (link_bytes_new ra rb) ls = Ok wb /\ link_inv w /\
    kb_a wb = k_a w /\ kb_b wb = k_b w.
Proof.
  intros Hra Hrb Hab. apply (C01_bytes_admissible6 ra rb ls Hra Hrb) in Hab as [Ha Hbl].
  destruct (link_bytes_run_sim ls _ _ (link_new_inv ra rb) (link_new_wire ra rb Hra Hrb) (link_new_sim ra rb) Ha Hbl)
    as (w & wb & E1 & E2 & Hinv & _ & (Sa & Sb & _)).
  exists w, wb. split; [exact E2|]. split; [exact Hinv|]. split; assumption.
Qed.

Lemma to_nat_zlen {A} (l : list A) : Z.to_nat (zlen l) = length l.
Proof. unfold zlen. apply Nat2Z.id. Qed.

(* (2) the statements of Props/C01.v on the byte-level link, for every admissible history:
   what the receiving application was handed is a prefix of what the sending application
   submitted -- nothing skipped, duplicated, reordered or altered -- in both directions *)
Theorem C01_bytes_prefix6 : forall ra rb ls, tokens_bytes ra -> tokens_bytes rb ->
  admissible_bytes_run (link_bytes_new ra rb) ls ->
  exists wb, link_bytes_run (link_bytes_new ra rb) ls = Ok wb /\
    l_del (kb_b wb) = firstn (length (l_del (kb_b wb))) (l_sub (kb_a wb)) /\
    l_del (kb_a wb) = firstn (length (l_del (kb_a wb))) (l_sub (kb_b wb)).
Proof.
  intros ra rb ls Hra Hrb Hab.
  destruct (bytes_run_inv ra rb ls Hra Hrb Hab) as (w & wb & E & [HA [HB _]] & Sa & Sb).
  exists wb. split; [exact E|]. rewrite Sa, Sb. split.
  - rewrite <- to_nat_zlen. exact (sv_prefix _ _ _ _ _ HB).
  - rewrite <- to_nat_zlen. exact (sv_prefix _ _ _ _ _ HA).
Qed.

(* non-vital chunks that are delivered are chunks that were really sent *)
Theorem C01_bytes_nonvital_genuine6 : forall ra rb ls, tokens_bytes ra -> tokens_bytes rb ->
  admissible_bytes_run (link_bytes_new ra rb) ls ->
  exists wb, link_bytes_run (link_bytes_new ra rb) ls = Ok wb /\
    incl (l_nvr (kb_b wb)) (l_nvs (kb_a wb)) /\ incl (l_nvr (kb_a wb)) (l_nvs (kb_b wb)).
Proof.
  intros ra rb ls Hra Hrb Hab.
  destruct (bytes_run_inv ra rb ls Hra Hrb Hab) as (w & wb & E & [HA [HB _]] & Sa & Sb).
  exists wb. split; [exact E|]. rewrite Sa, Sb.
  split; [exact (sv_nvr _ _ _ _ _ HB)|exact (sv_nvr _ _ _ _ _ HA)].
Qed.

(* 'ready' is reported at most once, and never before the accepting side has answered *)
Theorem C01_bytes_ready6 : forall ra rb ls, tokens_bytes ra -> tokens_bytes rb ->
  admissible_bytes_run (link_bytes_new ra rb) ls ->
  exists wb, link_bytes_run (link_bytes_new ra rb) ls = Ok wb /\
    0 <= l_ready (kb_a wb) <= 1 /\ 0 <= l_ready (kb_b wb) <= 1 /\
    (1 <= l_ready (kb_a wb) -> l_answered (kb_b wb) = true) /\
    (1 <= l_ready (kb_b wb) -> l_answered (kb_a wb) = true).
Proof.
  intros ra rb ls Hra Hrb Hab.
  destruct (bytes_run_inv ra rb ls Hra Hrb Hab) as (w & wb & E & [HA [HB _]] & Sa & Sb).
  exists wb. split; [exact E|]. rewrite Sa, Sb.
  split; [exact (sv_ready _ _ _ _ _ HA)|]. split; [exact (sv_ready _ _ _ _ _ HB)|].
  split; [exact (sv_ans _ _ _ _ _ HA)|exact (sv_ans _ _ _ _ _ HB)].
Qed.

(* (3) corruption, partial: the property's quantifier is about loss, duplication, reordering and
   delay, not corruption; what the existing inertness result (C03_inert6_bytes) gives for a
   datagram whose bytes the network replaced ARBITRARILY: once the receiver's token is fixed
   (acceptor pending, or online), unless the reader still finds exactly that token in the bytes
   (or reads them as a connectionless packet), delivering them changes nothing at all -- same
   endpoint, same histories, nothing emitted. NOT covered: corrupted bytes that keep the token. *)
Theorem C01_bytes_corruption6_partial : forall wb from bs t,
  let x := getb wb (other from) in
  token_fixed6 (l_conn x) t -> bytes_ok bs = true ->
  reads_connless6 (l_conn x) bs = false -> carried_token6 (l_conn x) bs <> Some t ->
  bside_finish x None (feed_bytes6 (l_conn x) {| e_now := kb_now wb; e_rand := l_rand x |} bs) = Ok (x, []).
Proof. intros wb from bs t x. apply bside_finish_inert. reflexivity. Qed.

(* (4) a concrete byte-level history: handshake, a vital chunk, a duplicate delivery; the
   bytes in flight at the end (nothing was dropped, so every datagram ever sent is still there) *)
Definition demo_bytes_trace : list llabel :=
  [ LApp SA OpConnect; LDeliver SA 0;        (* Connect reaches B: B answers ConnectAccept with its token *)
    LDeliver SB 0;                            (* ... reaches A: A is online, Ready, sends Accept *)
    LApp SA (OpSend [11; 12; 13] true); LApp SA OpFlush;
    LDeliver SA 2; LDeliver SA 2 ].           (* the chunk datagram arrives twice *)

Example C01_bytes_example :
  admissible_bytes_run (link_bytes_new [[9; 9; 9; 9]] [[1; 2; 3; 4]; [5; 6; 7; 8]]) demo_bytes_trace /\
  match link_bytes_run (link_bytes_new [[9; 9; 9; 9]] [[1; 2; 3; 4]; [5; 6; 7; 8]]) demo_bytes_trace with
  | Ok wb =>
    map bf_bytes (kb_ab wb) =
      [ [16; 0; 0; 1; 84; 75; 69; 78; 255; 255; 255; 255];   (* control, Connect, "TKEN", token NONE *)
        [16; 0; 0; 3; 1; 2; 3; 4];                           (* control, Accept, token 01020304 *)
        [0; 0; 1; 64; 3; 1; 11; 12; 13; 1; 2; 3; 4] ] /\     (* 1 chunk: vital, size 3, seq 1, data, token *)
    map bf_bytes (kb_ba wb) =
      [ [16; 0; 0; 2; 84; 75; 69; 78; 1; 2; 3; 4] ] /\       (* control, ConnectAccept, "TKEN", token *)
    l_sub (kb_a wb) = [[11; 12; 13]] /\ l_del (kb_b wb) = [[11; 12; 13]] /\
    l_ready (kb_a wb) = 1 /\ l_answered (kb_b wb) = true
  | _ => False
  end.
Proof.
  split.
  - apply C01_bytes_admissible6; try (apply tokens_bytesb_ok; vm_compute; reflexivity).
    split; [apply admissible_runb_ok; vm_compute; reflexivity|apply bytes_labelb_ok; vm_compute; reflexivity].
  - vm_compute. repeat split.
Qed.

Print Assumptions C01_bytes_simulation6.
Print Assumptions C01_bytes_admissible6.
Print Assumptions C01_bytes_prefix6.
Print Assumptions C01_bytes_nonvital_genuine6.
Print Assumptions C01_bytes_ready6.
Print Assumptions C01_bytes_corruption6_partial.
Print Assumptions C01_bytes_example.

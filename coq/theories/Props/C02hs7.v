(* C02 (0.7), progress at the level of the link, the handshake half. Mirror of Props/C02hs.v (0.6).

   The world is the two-endpoint link of C01 for 0.7 (Model/Link7.v). Props/C02heal7.v proves: from every
   state with BOTH ends online there is a healing schedule that ends quiescent. This file proves the
   part before that. The 0.7 handshake (net/src/connection7.rs) has one more round than the 0.6 one:

     A (connector)                                      B (acceptor)
     Token7 oa         -- TokenMsg oa, header NONE -->  Unconnected7 / PendingConnect7 ob
                       <-- TokenMsg ob, header oa  --   PendingConnect7 ob     (no timer: never repeated)
     Connecting7 oa ob -- Connect oa, header ob    -->  Pending7 ob oa
                       <-- Accept, header oa       --
     Online7 (Ready)   -- first chunk datagram     -->  Online7

   Starting states: handshake_start7 w -- A is Token7 or Connecting7, B is Unconnected7, PendingConnect7
   or Pending7. In a reachable state only four of the six combinations occur, and the tokens the two
   ends hold for each other match (hs_pair7: (Token7, Unconnected7), (Token7, PendingConnect7),
   (Connecting7 oa ob, PendingConnect7 ob), (Connecting7 oa ob, Pending7 ob oa)); the theorems that
   are stated for every state satisfying the C01 invariant take hs_pair7 as their hypothesis, the
   *_reachable7 ones derive it (hs_pair_reachable7, from Link7Tok.tok_inv7 and role_inv7).

   C02_handshake7 / C02_handshake_reachable7
     For EVERY such state with usable random streams (hs_rand_ok7: rand_ok7 for A, for B, and for B
     after it has drawn its token) there is a schedule
         drops7 SA7 na ++ drops7 SB7 nb ++ [L7Time dt; L7App s Op7Tick] ++ (each new datagram delivered once)
     -- the network loses what is in flight; the side whose turn it is (B if it is Pending7, else A: an
     acceptor in PendingConnect7 has no timer and repeats nothing) lets its 500 ms handshake timer run
     out and ticks; the TokenMsg / Connect / Accept datagrams emitted from then on are delivered
     exactly once, oldest first -- that is a legal continuation, contains ONE tick and no other
     application call, and ends with: A online with a fresh online record (own token oa, peer token
     ob, nothing queued, nothing to send), A told Ready exactly once, B Pending7 ob oa (so B has sent
     its Accept), no history touched, nothing in flight.

   B does NOT end online, and cannot: as in 0.6 the acceptor leaves Pending7 only when the first CHUNK
   datagram arrives (Pending7 -> Online7 happens in the DChunks arm of feed), and a connector that
   has nothing to send emits only control datagrams.
   C02_acceptor_waits7
     From every reachable handshake state, after ANY continuation made of ticks, flushes, time,
     deliveries and losses only (admissible or not, as long as no call panics), B is still
     Unconnected7, PendingConnect7 or Pending7 and A is Token7, Connecting7 or online-with-nothing-to-send.

   C02_progress7 / C02_progress_reachable7   (composition with the online half)
     For every such state and every payload d (at most MAX_PAYLOAD = 1390 bytes, vital or not) the schedule
         handshake ++ [A sends d; A flushes; the datagram is delivered] ++ healing schedule
     is a legal continuation with 4 ticks and exactly one send, losses only in the prefix, and ends
     quiescent7: both ends online, Ready reported exactly once, d delivered (if vital: l7_del B =
     l7_sub A = [d]), queues and packets empty, nothing in flight.

   C02_late_accept7 / C02_late_accept_reachable7   (the states in between)
     A is online (any history) and has something to send or resend, B is still Pending7 (A's first
     chunk datagrams were lost): the schedule
         losses ++ [time; A ticks; A flushes] ++ (A's datagrams delivered once each) ++ healing schedule
     contains only ticks and flushes (4 ticks), and ends quiescent7 with both ends online and every
     chunk A's application submitted delivered.

   C02_settle_reachable7   (summary)
     From EVERY reachable state in which A has called connect and is not disconnected (Token7,
     Connecting7, Online7) and B has not called connect and is not disconnected (Unconnected7,
     PendingConnect7, Pending7, Online7), with usable random streams, there is a continuation made of
     ticks, flushes, time, losses (only in the prefix) and deliveries (each datagram once, oldest
     first), with at most 4 ticks, that touches no history and ends settled7: quiescent7, or -- if
     A's application has never had anything to send -- A online and idle, B Pending7, nothing
     submitted, nothing in flight.

   The other starting states (A = the side that called connect), covered or not:
   - A Unconnected7: connect has not been called, nothing is pending; the property demands nothing.
   - A Disconnected7 (timeout handling by the application, Op7Disconnect, or a Close from B), or B
     Disconnected7: the handshake has failed for good (there is no reset in the link model); out of scope.
   - A Token7, B Pending7 or Online7 or Connecting7;  A Connecting7, B Unconnected7 or Token7 or
     Connecting7 or Online7;  A Online7, B Unconnected7 or Token7 or PendingConnect7 or Connecting7:
     UNREACHABLE -- C02_handshake_peers7 (and, in the 0.6 wording, C02_connecting_peer_offline7).
   - A Connecting7 oa ta, B PendingConnect7 ob with ta <> ob, or B Pending7 ob tb with ta <> ob or
     tb <> oa: UNREACHABLE (tok_inv7, used in hs_pair_reachable7).
   - A Token7, B Token7 (both applications called connect): reachable; each side ignores the other's
     token request for ever -- C02_simultaneous_open_stuck7; the protocol has no simultaneous open;
     out of scope. (Token7 / Connecting7 and Connecting7 / Connecting7 are unreachable, see above.)
   - A PendingConnect7 / Pending7 (A is the acceptor): the mirror image; the theorems are stated with
     A as the connector only.
   - A Online7, B Pending7: COVERED by C02_late_accept7 when A has something to send or resend, and
     by C02_pending_idle7 otherwise (nothing was ever submitted; this is the end state of
     C02_handshake7, B stays pending until A's first send).
   - random streams: A's and B's must be usable, and B's still usable after B has drawn its token
     (every delivery in the link model asks for a usable stream: hs_rand_ok7). *)
From LibTw2 Require Import Base.Res Model.PacketTypes Model.ConnCore Model.Conn7 Model.LinkGhost Model.Link7
  Proofs.ConnCoreInv Proofs.Conn7Inv Proofs.LinkArith Proofs.LinkCore Proofs.Link7Inv Proofs.ConnProgress
  Proofs.Link7Heal Proofs.Link7Tok Proofs.Link7Handshake Props.C02heal7.
From Coq Require Import ZArith List Lia.
Open Scope Z_scope.

(* the state the handshake schedule ends in: A online with a fresh online record (own token oa, peer
   token ob), told Ready once; B pending with the mirrored pair (so B has sent its Accept) *)
Definition connected7 (w : link7) (oa ob : token) : Prop :=
  c7_state (l7_conn (k7_a w)) = Online7 (online_new (Some oa) (Some ob)) /\
  c7_state (l7_conn (k7_b w)) = Pending7 ob oa /\
  l7_ready (k7_a w) = 1 /\ l7_answered (k7_b w) = true /\
  l7_sub (k7_a w) = [] /\ l7_sub (k7_b w) = [] /\ l7_del (k7_a w) = [] /\ l7_del (k7_b w) = [] /\
  k7_ab w = [] /\ k7_ba w = [].

(* (H1) the handshake completes: one tick *)
Theorem C02_handshake7 : forall w,
  link_inv7 w -> hs_pair7 (c7_state (l7_conn (k7_a w))) (c7_state (l7_conn (k7_b w))) -> hs_rand_ok7 w ->
  exists ls w' oa ob,
    admissible_run7 w ls /\ link_run7 w ls = Ok w' /\ link_inv7 w' /\
    Forall heal_label7 ls /\ ticks7 ls = 1%nat /\
    (exists na nb post, ls = drops7 SA7 na ++ drops7 SB7 nb ++ post /\ orderly7 post) /\
    l7_ready (k7_a w) = 0 /\ l7_sub (k7_a w) = [] /\ l7_sub (k7_b w) = [] /\
    own_token (c7_state (l7_conn (k7_a w))) = Some oa /\
    connected7 w' oa ob /\
    rand_ok7 {| e_now := k7_now w'; e_rand := l7_rand (k7_a w') |} /\
    rand_ok7 {| e_now := k7_now w'; e_rand := l7_rand (k7_b w') |}.
Proof.
  intros w Hi Hp Hr.
  destruct (handshake_link7 w Hi Hp Hr)
    as [ph [na [nb [dt [w1 [oa [ob [Hdt [[S1 R1] [I1 [Own [D1 [Bab [Bba [SubA [DelA [SubB [DelB [RdyA [Ra1 Rb1]]]]]]]]]]]]]]]]]]]].
  destruct D1 as [Da Db [K1 [K2 [K3 [K4 [K5 [K6 [K7 K8]]]]]]] [Ry1 Ry2] An1 Rn1].
  exists (hs_schedule7 ph na nb dt), w1, oa, ob.
  split; [exact S1|]. split; [exact R1|]. split; [exact I1|]. split; [apply hs_labels7, Hdt|].
  split; [apply ticks_hs7|].
  split; [destruct (hs_shape7 ph na nb dt) as [post [E O]]; exists na, nb, post; split; assumption|].
  split; [exact RdyA|]. split; [exact SubA|]. split; [exact SubB|]. split; [exact Own|].
  split; [|split; assumption].
  unfold connected7. split; [exact Da|]. split; [exact Db|]. split; [lia|]. split; [exact An1|].
  repeat split; congruence.
Qed.

Theorem C02_handshake_reachable7 : forall ra rb ls0 w,
  admissible_run7 (link7_new ra rb) ls0 -> link_run7 (link7_new ra rb) ls0 = Ok w ->
  handshake_start7 w -> hs_rand_ok7 w ->
  exists ls w' oa ob,
    admissible_run7 (link7_new ra rb) (ls0 ++ ls) /\ link_run7 (link7_new ra rb) (ls0 ++ ls) = Ok w' /\
    Forall heal_label7 ls /\ ticks7 ls = 1%nat /\
    (exists na nb post, ls = drops7 SA7 na ++ drops7 SB7 nb ++ post /\ orderly7 post) /\
    l7_ready (k7_a w) = 0 /\ own_token (c7_state (l7_conn (k7_a w))) = Some oa /\ connected7 w' oa ob.
Proof.
  intros ra rb ls0 w Hadm Hrun Hs Hr.
  destruct (reach_inv7 ra rb ls0 w Hadm Hrun) as [Hi [Ht Hro]].
  pose proof (hs_pair_reachable7 w Ht Hro Hs) as Hp.
  destruct (C02_handshake7 w Hi Hp Hr) as [ls [w' [oa [ob [A [R [_ [L [T [S [Y [_ [_ [O [C _]]]]]]]]]]]]]]].
  exists ls, w', oa, ob. split; [eapply admissible_run_app7; eassumption|].
  split; [rewrite (link_run_app7 ls0 _ w ls Hrun); exact R|].
  repeat (split; [assumption|]). exact C.
Qed.

(* ticks and flushes alone never take the acceptor online: it waits for the connector's first chunk *)
Theorem C02_acceptor_waits7 : forall ra rb ls0 w ls w',
  admissible_run7 (link7_new ra rb) ls0 -> link_run7 (link7_new ra rb) ls0 = Ok w ->
  handshake_start7 w -> Forall heal_label7 ls -> link_run7 w ls = Ok w' ->
  acceptor_waits7 (c7_state (l7_conn (k7_b w'))) /\ connector_idle7 (c7_state (l7_conn (k7_a w'))) /\
  forall ob, c7_state (l7_conn (k7_b w')) <> Online7 ob.
Proof.
  intros ra rb ls0 w ls w' Hadm Hrun [Ca Wb] Hl Hr.
  destruct (reach_inv7 ra rb ls0 w Hadm Hrun) as [_ [_ [RA RB]]].
  assert (Hn : no_chunks7 w).
  { split; [destruct (c7_state (l7_conn (k7_a w))); try contradiction; exact I|]. split; [exact Wb|]. split.
    - apply (r7_never _ _ _ _ RA). destruct (c7_state (l7_conn (k7_a w))); try contradiction; exact I.
    - apply (r7_never _ _ _ _ RB). destruct (c7_state (l7_conn (k7_b w))); try contradiction; exact I. }
  destruct (no_chunks7_run ls w w' Hn Hl Hr) as [Ha [Hb _]].
  split; [exact Hb|]. split; [exact Ha|]. intros ob E. rewrite E in Hb. exact Hb.
Qed.

(* (H2) handshake, A's first send, healing: both ends online and the link quiescent, four ticks *)
Theorem C02_progress7 : forall w d v,
  link_inv7 w -> hs_pair7 (c7_state (l7_conn (k7_a w))) (c7_state (l7_conn (k7_b w))) -> hs_rand_ok7 w ->
  Z.of_nat (length d) <= MAX_PAYLOAD ->
  exists ls w',
    admissible_run7 w ls /\ link_run7 w ls = Ok w' /\ link_inv7 w' /\
    Forall (progress_label7 d v) ls /\ ticks7 ls = 4%nat /\ sends7 ls = 1%nat /\
    (exists na nb post, ls = drops7 SA7 na ++ drops7 SB7 nb ++ post /\ orderly7 post) /\
    l7_ready (k7_a w) = 0 /\ l7_ready (k7_a w') = 1 /\
    l7_sub (k7_a w') = (if v then [d] else []) /\ l7_sub (k7_b w') = [] /\ quiescent7 w'.
Proof.
  intros w d v Hi Hp Hr Hl.
  destruct (progress_link7 w d v Hi Hp Hr Hl) as
    [ph [na [nb [dt [dt1 [n1 [dt2 [n2 [dt3 [n3 [w' [oa' [ob' [D0 [D1 [D2 [D3 [[Sc Rn] [I' [Ry [Sa [Sb [Db [Da [Oa [Ob [Qa [Qb [Pa [Pb [Ra [Rb [Ba Bb]]]]]]]]]]]]]]]]]]]]]]]]]]]]]]]]].
  destruct (progress_shape7 ph na nb dt d v dt1 n1 dt2 n2 dt3 n3 D0 D1 D2 D3) as [L [T [N [post [E O]]]]].
  exists (progress_schedule7 ph na nb dt d v dt1 n1 dt2 n2 dt3 n3), w'.
  split; [exact Sc|]. split; [exact Rn|]. split; [exact I'|]. split; [exact L|]. split; [exact T|]. split; [exact N|].
  split; [exists na, nb, post; split; assumption|].
  split.
  { pose proof (linv_side7 w SA7 Hi) as Ha. cbn [get7 other7] in Ha.
    destruct (sv7_fresh _ _ _ _ _ Ha) as [_ [_ [_ Y]]]; [|exact Y].
    destruct (c7_state (l7_conn (k7_a w))); try contradiction; exact I. }
  split; [exact Ry|]. split; [exact Sa|]. split; [exact Sb|].
  unfold quiescent7. split; [exact Db|]. split; [exact Da|]. split; [exact Ba|]. split; [exact Bb|].
  exists oa', ob'. repeat split; assumption.
Qed.

Theorem C02_progress_reachable7 : forall ra rb ls0 w d v,
  admissible_run7 (link7_new ra rb) ls0 -> link_run7 (link7_new ra rb) ls0 = Ok w ->
  handshake_start7 w -> hs_rand_ok7 w -> Z.of_nat (length d) <= MAX_PAYLOAD ->
  exists ls w',
    admissible_run7 (link7_new ra rb) (ls0 ++ ls) /\ link_run7 (link7_new ra rb) (ls0 ++ ls) = Ok w' /\
    Forall (progress_label7 d v) ls /\ ticks7 ls = 4%nat /\ sends7 ls = 1%nat /\
    (exists na nb post, ls = drops7 SA7 na ++ drops7 SB7 nb ++ post /\ orderly7 post) /\
    l7_ready (k7_a w) = 0 /\ l7_ready (k7_a w') = 1 /\
    l7_sub (k7_a w') = (if v then [d] else []) /\ l7_sub (k7_b w') = [] /\ quiescent7 w'.
Proof.
  intros ra rb ls0 w d v Hadm Hrun Hs Hr Hl.
  destruct (reach_inv7 ra rb ls0 w Hadm Hrun) as [Hi [Ht Hro]].
  pose proof (hs_pair_reachable7 w Ht Hro Hs) as Hp.
  destruct (C02_progress7 w d v Hi Hp Hr Hl) as [ls [w' [A [R [_ [L [T [N [S [Y0 [Y1 [Sa [Sb Q]]]]]]]]]]]]].
  exists ls, w'. split; [eapply admissible_run_app7; eassumption|].
  split; [rewrite (link_run_app7 ls0 _ w ls Hrun); exact R|].
  repeat (split; [assumption|]). exact Q.
Qed.

(* the starting states that are not covered because they cannot occur: in every reachable state
   - the peer of an end that is Unconnected7 or waits for a token (Token7) is Unconnected7, Token7,
     PendingConnect7 or Disconnected7 (never Connecting7, Pending7, Online7);
   - the peer of an end that waits for the Accept (Connecting7) is PendingConnect7, Pending7 or
     Disconnected7 (never Unconnected7, Token7, Connecting7, Online7);
   - the peer of an online end is Pending7, Online7 or Disconnected7 *)
Theorem C02_handshake_peers7 : forall ra rb ls0 w,
  admissible_run7 (link7_new ra rb) ls0 -> link_run7 (link7_new ra rb) ls0 = Ok w ->
  let a := c7_state (l7_conn (k7_a w)) in let b := c7_state (l7_conn (k7_b w)) in
  ((early7 a -> token_peer7 b) /\ (is_connecting7 a -> connecting_peer7 b) /\ (~ offline7 a -> online_peer7 b)) /\
  ((early7 b -> token_peer7 a) /\ (is_connecting7 b -> connecting_peer7 a) /\ (~ offline7 b -> online_peer7 a)).
Proof.
  intros ra rb ls0 w Hadm Hrun a b.
  destruct (reach_inv7 ra rb ls0 w Hadm Hrun) as [_ [_ [RA RB]]].
  split; [exact (role7_peer _ _ _ _ RA RB)|exact (role7_peer _ _ _ _ RB RA)].
Qed.

(* in particular (the 0.6 statement): while one side has not got past Connecting7 / PendingConnect7
   -- it has emitted neither an Accept nor a chunk -- the other side is not online *)
Theorem C02_connecting_peer_offline7 : forall ra rb ls0 w,
  admissible_run7 (link7_new ra rb) ls0 -> link_run7 (link7_new ra rb) ls0 = Ok w ->
  (pre_accept7 (c7_state (l7_conn (k7_a w))) -> forall ob, c7_state (l7_conn (k7_b w)) <> Online7 ob) /\
  (pre_accept7 (c7_state (l7_conn (k7_b w))) -> forall oa, c7_state (l7_conn (k7_a w)) <> Online7 oa).
Proof.
  intros ra rb ls0 w Hadm Hrun.
  destruct (reach_inv7 ra rb ls0 w Hadm Hrun) as [_ [_ [RA RB]]].
  split; intros He o E.
  - destruct (r7_pre _ _ _ _ RA He) as [_ Ho]. rewrite E in Ho. exact Ho.
  - destruct (r7_pre _ _ _ _ RB He) as [_ Ho]. rewrite E in Ho. exact Ho.
Qed.

(* ... and one that is out of scope because the protocol has no simultaneous open: if both applications
   have called connect, both sides keep asking for a token whatever the network and the timers do
   (a token request carries the header token NONE, which a side that has called connect ignores) *)
Theorem C02_simultaneous_open_stuck7 : forall ra rb ls0 w oa ob ls w',
  admissible_run7 (link7_new ra rb) ls0 -> link_run7 (link7_new ra rb) ls0 = Ok w ->
  c7_state (l7_conn (k7_a w)) = Token7 oa -> c7_state (l7_conn (k7_b w)) = Token7 ob ->
  Forall heal_label7 ls -> link_run7 w ls = Ok w' ->
  c7_state (l7_conn (k7_a w')) = Token7 oa /\ c7_state (l7_conn (k7_b w')) = Token7 ob.
Proof.
  intros ra rb ls0 w oa ob ls w' Hadm Hrun Ca Cb Hl Hr.
  destruct (reach_inv7 ra rb ls0 w Hadm Hrun) as [Hi [_ [RA RB]]].
  pose proof (conn_ok7_req _ (sv7_conn _ _ _ _ _ (linv_side7 w SA7 Hi))) as Na.
  pose proof (conn_ok7_req _ (sv7_conn _ _ _ _ _ (linv_side7 w SB7 Hi))) as Nb. cbn [get7] in Na, Nb.
  rewrite Ca in Na. rewrite Cb in Nb. cbn in Na, Nb.
  assert (Hb : both_token7 oa ob w).
  { split; [exact Ca|]. split; [exact Cb|]. split; [exact Na|]. split; [exact Nb|]. split.
    - apply (r7_early _ _ _ _ RA). rewrite Ca. exact I.
    - apply (r7_early _ _ _ _ RB). rewrite Cb. exact I. }
  destruct (both_token7_run oa ob ls w w' Hb Hl Hr) as [Ha' [Hb' _]]. split; assumption.
Qed.

(* A is online with something to send or resend, B is still pending: B goes online with A's resend *)
Theorem C02_late_accept7 : forall w oa ob tb,
  link_inv7 w -> c7_state (l7_conn (k7_a w)) = Online7 oa -> c7_state (l7_conn (k7_b w)) = Pending7 ob tb ->
  o_own oa = Some tb -> o_their oa = Some ob -> (o_queue oa <> [] \/ can_send oa = true) ->
  rand_ok7 {| e_now := k7_now w; e_rand := l7_rand (k7_a w) |} ->
  rand_ok7 {| e_now := k7_now w; e_rand := l7_rand (k7_b w) |} ->
  exists ls w',
    admissible_run7 w ls /\ link_run7 w ls = Ok w' /\ link_inv7 w' /\
    Forall heal_label7 ls /\ ticks7 ls = 4%nat /\
    (exists na nb post, ls = drops7 SA7 na ++ drops7 SB7 nb ++ post /\ orderly7 post) /\
    l7_sub (k7_a w') = l7_sub (k7_a w) /\ l7_sub (k7_b w') = l7_sub (k7_b w) /\ quiescent7 w'.
Proof.
  intros w oa ob tb Hi Hoa Hpb Hown Hth Hbusy Hra Hrb.
  destruct (late_accept_link7 w oa tb ob Hi Hoa Hpb Hown Hth Hbusy Hra Hrb) as
    [na [nb [dt [n [dt1 [n1 [dt2 [n2 [dt3 [n3 [w' [oa' [ob' [D0 [D1 [D2 [D3 [[Sc Rn] [I' [Sa [Sb [Db [Da [Oa [Ob [Qa [Qb [Pa [Pb [Ra [Rb [Ba Bb]]]]]]]]]]]]]]]]]]]]]]]]]]]]]]]].
  destruct (late_shape7 na nb dt n dt1 n1 dt2 n2 dt3 n3 D0 D1 D2 D3) as [L [T [post [E O]]]].
  exists (late_schedule7 na nb dt n dt1 n1 dt2 n2 dt3 n3), w'.
  split; [exact Sc|]. split; [exact Rn|]. split; [exact I'|]. split; [exact L|]. split; [exact T|].
  split; [exists na, nb, post; split; assumption|]. split; [exact Sa|]. split; [exact Sb|].
  unfold quiescent7. split; [exact Db|]. split; [exact Da|]. split; [exact Ba|]. split; [exact Bb|].
  exists oa', ob'. repeat split; assumption.
Qed.

(* in a reachable state the two ends hold each other's tokens *)
Lemma late_tokens7 : forall ra rb ls0 w oa ob tb,
  admissible_run7 (link7_new ra rb) ls0 -> link_run7 (link7_new ra rb) ls0 = Ok w ->
  c7_state (l7_conn (k7_a w)) = Online7 oa -> c7_state (l7_conn (k7_b w)) = Pending7 ob tb ->
  o_own oa = Some tb /\ o_their oa = Some ob.
Proof.
  intros ra rb ls0 w oa ob tb Hadm Hrun Hoa Hpb.
  destruct (reach_inv7 ra rb ls0 w Hadm Hrun) as [Hi [[TA TB] _]].
  pose proof (sv7_conn _ _ _ _ _ (linv_side7 w SA7 Hi)) as Hc. cbn [get7] in Hc. unfold conn_ok7 in Hc. rewrite Hoa in Hc.
  destruct Hc as [_ [_ [[b [Eb _]] _]]].
  pose proof (pj7_their _ _ _ TA b) as H1. rewrite Hoa, Hpb in H1. cbn in H1. specialize (H1 Eb).
  pose proof (pj7_their _ _ _ TB tb) as H2. rewrite Hoa, Hpb in H2. cbn in H2. specialize (H2 eq_refl).
  split; congruence.
Qed.

Theorem C02_late_accept_reachable7 : forall ra rb ls0 w oa ob tb,
  admissible_run7 (link7_new ra rb) ls0 -> link_run7 (link7_new ra rb) ls0 = Ok w ->
  c7_state (l7_conn (k7_a w)) = Online7 oa -> c7_state (l7_conn (k7_b w)) = Pending7 ob tb ->
  (o_queue oa <> [] \/ can_send oa = true) ->
  rand_ok7 {| e_now := k7_now w; e_rand := l7_rand (k7_a w) |} ->
  rand_ok7 {| e_now := k7_now w; e_rand := l7_rand (k7_b w) |} ->
  exists ls w',
    admissible_run7 (link7_new ra rb) (ls0 ++ ls) /\ link_run7 (link7_new ra rb) (ls0 ++ ls) = Ok w' /\
    Forall heal_label7 ls /\ ticks7 ls = 4%nat /\
    (exists na nb post, ls = drops7 SA7 na ++ drops7 SB7 nb ++ post /\ orderly7 post) /\
    l7_sub (k7_a w') = l7_sub (k7_a w) /\ l7_sub (k7_b w') = l7_sub (k7_b w) /\ quiescent7 w'.
Proof.
  intros ra rb ls0 w oa ob tb Hadm Hrun Hoa Hpb Hbusy Hra Hrb.
  destruct (reach_inv7 ra rb ls0 w Hadm Hrun) as [Hi _].
  destruct (late_tokens7 ra rb ls0 w oa ob tb Hadm Hrun Hoa Hpb) as [Hown Hth].
  destruct (C02_late_accept7 w oa ob tb Hi Hoa Hpb Hown Hth Hbusy Hra Hrb) as [ls [w' [A [R [_ [L [T [S [Sa [Sb Q]]]]]]]]]].
  exists ls, w'. split; [eapply admissible_run_app7; eassumption|].
  split; [rewrite (link_run_app7 ls0 _ w ls Hrun); exact R|].
  repeat (split; [assumption|]). exact Q.
Qed.

(* ... and if A's resend queue is empty while B is still pending, nothing was ever submitted *)
Theorem C02_pending_idle7 : forall ra rb ls0 w oa ob tb,
  admissible_run7 (link7_new ra rb) ls0 -> link_run7 (link7_new ra rb) ls0 = Ok w ->
  c7_state (l7_conn (k7_a w)) = Online7 oa -> c7_state (l7_conn (k7_b w)) = Pending7 ob tb -> o_queue oa = [] ->
  l7_sub (k7_a w) = [] /\ l7_del (k7_a w) = [] /\ l7_sub (k7_b w) = [] /\ l7_del (k7_b w) = [] /\
  o_own oa = Some tb /\ o_their oa = Some ob.
Proof.
  intros ra rb ls0 w oa ob tb Hadm Hrun Hoa Hpb Hq.
  destruct (reach_inv7 ra rb ls0 w Hadm Hrun) as [Hi _].
  destruct (pending_idle_nothing7 w oa ob tb Hi Hoa Hpb Hq) as [H1 [H2 [H3 H4]]].
  repeat (split; [assumption|]).
  exact (late_tokens7 ra rb ls0 w oa ob tb Hadm Hrun Hoa Hpb).
Qed.

(* ---------- summary: from every reachable state in which A has called connect and B has not ---------- *)
(* where a schedule of ticks and flushes can get: quiescent7 (both ends online, everything delivered,
   nothing queued, nothing in flight), or -- if A's application has never had anything to send --
   the end state of the handshake (A online and idle, B pending, nothing submitted, nothing in flight) *)
Definition settled7 (w : link7) : Prop :=
  quiescent7 w \/
  exists oa ob tb, c7_state (l7_conn (k7_a w)) = Online7 oa /\ c7_state (l7_conn (k7_b w)) = Pending7 ob tb /\
    o_queue oa = [] /\ can_send oa = false /\
    l7_sub (k7_a w) = [] /\ l7_sub (k7_b w) = [] /\ l7_del (k7_a w) = [] /\ l7_del (k7_b w) = [] /\
    k7_ab w = [] /\ k7_ba w = [].

Definition connector_side7 (st : state7) : Prop :=
  match st with Token7 _ | Connecting7 _ _ | Online7 _ => True | _ => False end.
Definition acceptor_side7 (st : state7) : Prop :=
  match st with Unconnected7 | PendingConnect7 _ | Pending7 _ _ | Online7 _ => True | _ => False end.

Lemma connected_settled7 w oa ob : connected7 w oa ob -> settled7 w.
Proof.
  intros [Ha [Hb [_ [_ [S1 [S2 [D1 [D2 [B1 B2]]]]]]]]]. right. eexists _, _, _. split; [exact Ha|]. split; [exact Hb|].
  split; [reflexivity|]. split; [reflexivity|]. repeat (split; [assumption|]). assumption.
Qed.

Theorem C02_settle_reachable7 : forall ra rb ls0 w,
  admissible_run7 (link7_new ra rb) ls0 -> link_run7 (link7_new ra rb) ls0 = Ok w ->
  connector_side7 (c7_state (l7_conn (k7_a w))) -> acceptor_side7 (c7_state (l7_conn (k7_b w))) ->
  hs_rand_ok7 w ->
  exists ls w',
    admissible_run7 (link7_new ra rb) (ls0 ++ ls) /\ link_run7 (link7_new ra rb) (ls0 ++ ls) = Ok w' /\
    Forall heal_label7 ls /\ (ticks7 ls <= 4)%nat /\
    (exists pre na nb post, ls = pre ++ drops7 SA7 na ++ drops7 SB7 nb ++ post /\
       (pre = [] \/ pre = [L7App SA7 Op7Flush]) /\ orderly7 post) /\
    l7_sub (k7_a w') = l7_sub (k7_a w) /\ l7_sub (k7_b w') = l7_sub (k7_b w) /\ settled7 w'.
Proof.
  intros ra rb ls0 w Hadm Hrun Hca Hcb Hr.
  destruct (reach_inv7 ra rb ls0 w Hadm Hrun) as [Hi [Ht [RA RB]]].
  destruct (role7_peer _ _ _ _ RA RB) as [Pe [Pc Po]].
  pose proof (linv_side7 w SA7 Hi) as HsA. pose proof (linv_side7 w SB7 Hi) as HsB. cbn [get7 other7] in HsA, HsB.
  (* the handshake states *)
  assert (Hhs : handshake_start7 w ->
    exists ls w',
      admissible_run7 (link7_new ra rb) (ls0 ++ ls) /\ link_run7 (link7_new ra rb) (ls0 ++ ls) = Ok w' /\
      Forall heal_label7 ls /\ (ticks7 ls <= 4)%nat /\
      (exists pre na nb post, ls = pre ++ drops7 SA7 na ++ drops7 SB7 nb ++ post /\
         (pre = [] \/ pre = [L7App SA7 Op7Flush]) /\ orderly7 post) /\
      l7_sub (k7_a w') = l7_sub (k7_a w) /\ l7_sub (k7_b w') = l7_sub (k7_b w) /\ settled7 w').
  { intros Hs.
    destruct (C02_handshake_reachable7 ra rb ls0 w Hadm Hrun Hs Hr)
      as [ls [w' [oa' [ob [A [R [L [T [[na [nb [post [E O]]]] [_ [_ C]]]]]]]]]]].
    exists ls, w'. split; [exact A|]. split; [exact R|]. split; [exact L|]. split; [lia|].
    split; [exists [], na, nb, post; split; [exact E|split; [left; reflexivity|exact O]]|].
    destruct Hs as [Ha Hb].
    destruct (sv7_fresh _ _ _ _ _ HsA) as [SubA _]; [destruct (c7_state (l7_conn (k7_a w))); try contradiction; exact I|].
    destruct (sv7_fresh _ _ _ _ _ HsB) as [SubB _]; [destruct (c7_state (l7_conn (k7_b w))); try contradiction; exact I|].
    pose proof C as [_ [_ [_ [_ [S1 [S2 _]]]]]].
    split; [congruence|]. split; [congruence|]. eapply connected_settled7, C. }
  destruct (c7_state (l7_conn (k7_a w))) as [|oa|oa|oa ta|oa ta|oa|] eqn:Ca; try contradiction.
  - (* A waits for the token *)
    apply Hhs. split; [rewrite Ca; exact I|]. specialize (Pe I). destruct (c7_state (l7_conn (k7_b w))); try contradiction; exact I.
  - (* A waits for the Accept *)
    apply Hhs. split; [rewrite Ca; exact I|]. specialize (Pc I). destruct (c7_state (l7_conn (k7_b w))); try contradiction; exact I.
  - (* A is online *)
    clear Hhs. assert (Hpo : online_peer7 (c7_state (l7_conn (k7_b w)))) by (apply Po; intros H; exact H).
    destruct Hr as [HrA [HrB _]].
    destruct (c7_state (l7_conn (k7_b w))) as [|ob|ob|ob tb|ob tb|ob|] eqn:Cb; try contradiction.
    + (* B is still pending *)
      destruct (o_queue oa) as [|c0 q0] eqn:Eq; [destruct (can_send oa) eqn:Ecs|].
      * destruct (C02_late_accept_reachable7 ra rb ls0 w oa ob tb Hadm Hrun Ca Cb (or_intror Ecs) HrA HrB)
          as [ls [w' [A [R [L [T [[na [nb [post [E O]]]] [Sa [Sb Q]]]]]]]]].
        exists ls, w'. split; [exact A|]. split; [exact R|]. split; [exact L|]. split; [lia|].
        split; [exists [], na, nb, post; split; [exact E|split; [left; reflexivity|exact O]]|].
        split; [exact Sa|]. split; [exact Sb|]. left. exact Q.
      * (* nothing was ever submitted: the network loses what is in flight *)
        destruct (pending_idle_nothing7 w oa ob tb Hi Ca Cb Eq) as [S1 [D1 [S2 D2]]].
        destruct (drop_all7 SA7 _ w eq_refl Hi) as [w1 [[A1 R1] [I1 [E1 [B1 [O1 N1]]]]]].
        destruct (drop_all7 SB7 _ w1 eq_refl I1) as [w2 [[A2 R2] [I2 [E2 [B2 [O2 N2]]]]]]. cbn [other7] in O1, O2.
        exists (drops7 SA7 (length (bag7 w SA7)) ++ drops7 SB7 (length (bag7 w1 SB7))), w2.
        assert (Aall : admissible_run7 w (drops7 SA7 (length (bag7 w SA7)) ++ drops7 SB7 (length (bag7 w1 SB7))))
          by (eapply admissible_run_app7; eassumption).
        assert (Rall : link_run7 w (drops7 SA7 (length (bag7 w SA7)) ++ drops7 SB7 (length (bag7 w1 SB7))) = Ok w2)
          by (rewrite (link_run_app7 _ _ w1 _ R1); exact R2).
        split; [eapply admissible_run_app7; eassumption|].
        split; [rewrite (link_run_app7 ls0 _ w _ Hrun); exact Rall|].
        split; [apply Forall_app; split; apply heal_labels_drops7|].
        split; [rewrite ticks_app7, !ticks_drops7; lia|].
        split.
        { exists [], (length (bag7 w SA7)), (length (bag7 w1 SB7)), []. split; [rewrite app_nil_r; reflexivity|].
          split; [left; reflexivity|exact I]. }
        assert (EA : k7_a w2 = k7_a w) by (change (get7 w2 SA7 = get7 w SA7); rewrite E2, E1; reflexivity).
        assert (EB : k7_b w2 = k7_b w) by (change (get7 w2 SB7 = get7 w SB7); rewrite E2, E1; reflexivity).
        rewrite EA, EB. split; [reflexivity|]. split; [reflexivity|].
        right. exists oa, ob, tb. rewrite EA, EB. split; [exact Ca|]. split; [exact Cb|]. split; [exact Eq|]. split; [exact Ecs|].
        do 4 (split; [assumption|]).
        split; [change (bag7 w2 SA7 = []); rewrite O2; exact B1|exact B2].
      * assert (Hq : o_queue oa <> []) by (rewrite Eq; discriminate).
        destruct (C02_late_accept_reachable7 ra rb ls0 w oa ob tb Hadm Hrun Ca Cb (or_introl Hq) HrA HrB)
          as [ls [w' [A [R [L [T [[na [nb [post [E O]]]] [Sa [Sb Q]]]]]]]]].
        exists ls, w'. split; [exact A|]. split; [exact R|]. split; [exact L|]. split; [lia|].
        split; [exists [], na, nb, post; split; [exact E|split; [left; reflexivity|exact O]]|].
        split; [exact Sa|]. split; [exact Sb|]. left. exact Q.
    + (* both ends are online *)
      destruct (C02_heal_reachable7 ra rb ls0 w oa ob Hadm Hrun Ca Cb HrA HrB)
        as [ls [w' [A [R [L [T [[na [nb [post [E O]]]] [Sa [Sb Q]]]]]]]]].
      exists ls, w'. split; [exact A|]. split; [exact R|]. split; [exact L|]. split; [lia|].
      split; [exists [L7App SA7 Op7Flush], na, nb, post; split; [exact E|split; [right; reflexivity|exact O]]|].
      split; [exact Sa|]. split; [exact Sb|]. left. exact Q.
Qed.

(* (H3) non-vacuity: concrete histories end in states that meet every hypothesis of the theorems above.
   A has called connect and
   (1) its token request is still in flight / will be lost, B has seen nothing;
   (2) B has drawn its token 1.2.3.4 and answered; the answer is in flight / will be lost;
   (3) A has got the token and sent its Connect; the Connect is in flight / will be lost;
   (4) B has got the Connect and sent its Accept; the Accept is in flight / will be lost *)
Definition hs_demo_start7 : link7 := link7_new [[9; 9; 9; 9]; [8; 8; 8; 8]] [[1; 2; 3; 4]; [5; 6; 7; 8]].
Definition hs_demo_request7 : list llabel7 := [L7App SA7 Op7Connect; L7Time 100000].
Definition hs_demo_token7 : list llabel7 := [L7App SA7 Op7Connect; L7Deliver SA7 0; L7Time 100000].
Definition hs_demo_connect7 : list llabel7 := [L7App SA7 Op7Connect; L7Deliver SA7 0; L7Deliver SB7 0; L7Time 100000].
Definition hs_demo_accept7 : list llabel7 :=
  [L7App SA7 Op7Connect; L7Deliver SA7 0; L7Deliver SB7 0; L7Deliver SA7 1; L7Time 100000].
(* (5) A is online and has submitted three chunks; the datagram is in flight / will be lost; B is pending *)
Definition hs_demo_late7 : list llabel7 :=
  [L7App SA7 Op7Connect; L7Deliver SA7 0; L7Deliver SB7 0; L7Deliver SA7 1; L7Deliver SB7 1;
   L7App SA7 (Op7Send [11] true); L7App SA7 (Op7Send [22] true); L7App SA7 (Op7Send [33] false); L7App SA7 Op7Flush;
   L7Time 300000].

Ltac demo_state7 ls :=
  let Hadm := fresh "Hadm" in
  assert (Hadm : admissible_run7 hs_demo_start7 ls) by (apply admissible_runb_ok7; vm_compute; reflexivity);
  let w := fresh "w" in let Hrun := fresh "Hrun" in let Hi := fresh "Hi" in
  destruct (link_run_inv7 ls _ (link7_new_inv _ _) Hadm) as [w [Hrun Hi]];
  exists w; let Hrun' := fresh "Hrun'" in pose proof Hrun as Hrun'; vm_compute in Hrun';
  let Hw := fresh "Hw" in injection Hrun' as Hw; rewrite <- Hw in *; clear Hw.

Example C02_hs_nonvacuous7 :
  (exists w, admissible_run7 hs_demo_start7 hs_demo_request7 /\ link_run7 hs_demo_start7 hs_demo_request7 = Ok w /\
     link_inv7 w /\ handshake_start7 w /\ hs_rand_ok7 w /\
     c7_state (l7_conn (k7_a w)) = Token7 [9; 9; 9; 9] /\ c7_state (l7_conn (k7_b w)) = Unconnected7 /\
     length (k7_ab w) = 1%nat /\ k7_ba w = []) /\
  (exists w, admissible_run7 hs_demo_start7 hs_demo_token7 /\ link_run7 hs_demo_start7 hs_demo_token7 = Ok w /\
     link_inv7 w /\ handshake_start7 w /\ hs_rand_ok7 w /\
     c7_state (l7_conn (k7_a w)) = Token7 [9; 9; 9; 9] /\ c7_state (l7_conn (k7_b w)) = PendingConnect7 [1; 2; 3; 4] /\
     length (k7_ab w) = 1%nat /\ length (k7_ba w) = 1%nat) /\
  (exists w, admissible_run7 hs_demo_start7 hs_demo_connect7 /\ link_run7 hs_demo_start7 hs_demo_connect7 = Ok w /\
     link_inv7 w /\ handshake_start7 w /\ hs_rand_ok7 w /\
     c7_state (l7_conn (k7_a w)) = Connecting7 [9; 9; 9; 9] [1; 2; 3; 4] /\
     c7_state (l7_conn (k7_b w)) = PendingConnect7 [1; 2; 3; 4] /\
     length (k7_ab w) = 2%nat /\ length (k7_ba w) = 1%nat) /\
  (exists w, admissible_run7 hs_demo_start7 hs_demo_accept7 /\ link_run7 hs_demo_start7 hs_demo_accept7 = Ok w /\
     link_inv7 w /\ handshake_start7 w /\ hs_rand_ok7 w /\
     c7_state (l7_conn (k7_a w)) = Connecting7 [9; 9; 9; 9] [1; 2; 3; 4] /\
     c7_state (l7_conn (k7_b w)) = Pending7 [1; 2; 3; 4] [9; 9; 9; 9] /\
     length (k7_ab w) = 2%nat /\ length (k7_ba w) = 2%nat) /\
  (exists w oa, admissible_run7 hs_demo_start7 hs_demo_late7 /\ link_run7 hs_demo_start7 hs_demo_late7 = Ok w /\
     link_inv7 w /\ c7_state (l7_conn (k7_a w)) = Online7 oa /\
     c7_state (l7_conn (k7_b w)) = Pending7 [1; 2; 3; 4] [9; 9; 9; 9] /\
     o_own oa = Some [9; 9; 9; 9] /\ o_their oa = Some [1; 2; 3; 4] /\ (o_queue oa <> [] \/ can_send oa = true) /\
     rand_ok7 {| e_now := k7_now w; e_rand := l7_rand (k7_a w) |} /\
     rand_ok7 {| e_now := k7_now w; e_rand := l7_rand (k7_b w) |} /\
     length (o_queue oa) = 2%nat /\ l7_sub (k7_a w) = [[11]; [22]] /\ length (k7_ab w) = 3%nat /\ length (k7_ba w) = 2%nat).
Proof.
  split; [|split; [|split; [|split]]].
  - demo_state7 hs_demo_request7.
    split; [exact Hadm|]. split; [exact Hrun|]. split; [exact Hi|].
    split; [apply handshake_startb7_ok; reflexivity|]. split; [apply hs_rand_okb7_ok; reflexivity|]. repeat split.
  - demo_state7 hs_demo_token7.
    split; [exact Hadm|]. split; [exact Hrun|]. split; [exact Hi|].
    split; [apply handshake_startb7_ok; reflexivity|]. split; [apply hs_rand_okb7_ok; reflexivity|]. repeat split.
  - demo_state7 hs_demo_connect7.
    split; [exact Hadm|]. split; [exact Hrun|]. split; [exact Hi|].
    split; [apply handshake_startb7_ok; reflexivity|]. split; [apply hs_rand_okb7_ok; reflexivity|]. repeat split.
  - demo_state7 hs_demo_accept7.
    split; [exact Hadm|]. split; [exact Hrun|]. split; [exact Hi|].
    split; [apply handshake_startb7_ok; reflexivity|]. split; [apply hs_rand_okb7_ok; reflexivity|]. repeat split.
  - demo_state7 hs_demo_late7.
    eexists. split; [exact Hadm|]. split; [exact Hrun|]. split; [exact Hi|].
    split; [reflexivity|]. split; [reflexivity|]. split; [reflexivity|]. split; [reflexivity|]. split; [left; discriminate|].
    split; [apply rand_okb7_ok; reflexivity|]. split; [apply rand_okb7_ok; reflexivity|]. repeat split.
Qed.

(* ... and the schedules computed for these states.
   (1) the token request is lost; A's timer runs out 0.4 s later, A repeats the request, B draws the
       token 1.2.3.4 and answers, A sends its Connect, B its Accept, A is online and Ready; A's
       application submits the vital chunk [42]; B is online and has it; healing: A resends after 1 s,
       B acknowledges, A sends a keep-alive.
   (2) request and answer are lost; the same schedule (B repeats its token instead of drawing one).
   (3) both requests / the answer / the Connect are lost; A's timer runs out, A repeats the Connect;
       A's application submits the non-vital chunk [42]; healing with keep-alives only.
   (4) everything including B's Accept is lost; B's timer runs out, B repeats the Accept.
   (5) the three datagrams of A and the two of B are lost; A's resend timer runs out 0.7 s later, A
       resends [11] [22] in one datagram, B is online and has both; healing as in (1). *)
Definition hs_demo_schedule1_7 : list llabel7 := progress_schedule7 PhRequest 1 0 400000 [42] true 1000000 1 0 1 500000 1.
Definition hs_demo_schedule3_7 : list llabel7 := progress_schedule7 PhConnect 2 1 400000 [42] false 500000 1 0 1 500000 1.
Definition hs_demo_schedule5_7 : list llabel7 := late_schedule7 3 2 700000 1 1000000 1 0 1 500000 1.

Definition demo_quiescent7 (w : link7) (sub nvr : list bytes) (now : Z) : Prop :=
  l7_sub (k7_a w) = sub /\ l7_del (k7_b w) = sub /\ l7_nvr (k7_b w) = nvr /\ l7_sub (k7_b w) = [] /\ l7_del (k7_a w) = [] /\
  l7_ready (k7_a w) = 1 /\ l7_ready (k7_b w) = 0 /\ k7_ab w = [] /\ k7_ba w = [] /\ k7_now w = now /\
  match c7_state (l7_conn (k7_a w)), c7_state (l7_conn (k7_b w)) with
  | Online7 oa, Online7 ob =>
    o_own oa = Some [9; 9; 9; 9] /\ o_their oa = Some [1; 2; 3; 4] /\
    o_own ob = Some [1; 2; 3; 4] /\ o_their ob = Some [9; 9; 9; 9] /\
    o_queue oa = [] /\ o_queue ob = [] /\ o_packet oa = pc_empty /\ o_packet ob = pc_empty /\
    o_rr oa = false /\ o_rr ob = false
  | _, _ => False
  end.

Definition demo_connected7 (ls : list llabel7) : Prop :=
  admissible_run7 hs_demo_start7 ls /\
  match link_run7 hs_demo_start7 ls with
  | Ok w => connected7 w [9; 9; 9; 9] [1; 2; 3; 4] /\ k7_now w = 500000
  | _ => False
  end.

Example C02_hs_demo_run7 :
  demo_connected7 (hs_demo_request7 ++ hs_schedule7 PhRequest 1 0 400000) /\
  demo_connected7 (hs_demo_token7 ++ hs_schedule7 PhRequest 1 1 400000) /\
  demo_connected7 (hs_demo_connect7 ++ hs_schedule7 PhConnect 2 1 400000) /\
  demo_connected7 (hs_demo_accept7 ++ hs_schedule7 PhAnswer 2 2 400000) /\
  (admissible_run7 hs_demo_start7 (hs_demo_request7 ++ hs_demo_schedule1_7) /\
   match link_run7 hs_demo_start7 (hs_demo_request7 ++ hs_demo_schedule1_7) with
   | Ok w => demo_quiescent7 w [[42]] [] 2000000
   | _ => False
   end) /\
  (admissible_run7 hs_demo_start7 (hs_demo_connect7 ++ hs_demo_schedule3_7) /\
   match link_run7 hs_demo_start7 (hs_demo_connect7 ++ hs_demo_schedule3_7) with
   | Ok w => demo_quiescent7 w [] [[42]] 1500000
   | _ => False
   end) /\
  (admissible_run7 hs_demo_start7 (hs_demo_late7 ++ hs_demo_schedule5_7) /\
   match link_run7 hs_demo_start7 (hs_demo_late7 ++ hs_demo_schedule5_7) with
   | Ok w => demo_quiescent7 w [[11]; [22]] [] 2500000
   | _ => False
   end).
Proof.
  split; [|split; [|split; [|split; [|split; [|split]]]]]; (split; [apply admissible_runb_ok7; vm_compute; reflexivity|]);
    vm_compute; repeat split.
Qed.

Print Assumptions C02_handshake7.
Print Assumptions C02_handshake_reachable7.
Print Assumptions C02_acceptor_waits7.
Print Assumptions C02_progress7.
Print Assumptions C02_progress_reachable7.
Print Assumptions C02_handshake_peers7.
Print Assumptions C02_connecting_peer_offline7.
Print Assumptions C02_simultaneous_open_stuck7.
Print Assumptions C02_late_accept7.
Print Assumptions C02_late_accept_reachable7.
Print Assumptions C02_pending_idle7.
Print Assumptions C02_settle_reachable7.
Print Assumptions C02_hs_nonvacuous7.
Print Assumptions C02_hs_demo_run7.

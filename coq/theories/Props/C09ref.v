(* C09, second half - the bundled DDNet reference implementation (snapshot/reference):
   "A delta produced by the bundled DDNet reference implementation for the same pair, applied
    here, also yields B, and a snapshot serializes to the same integers as the reference builder
    produces for the same items."
   The C++ (CSnapshotBuilder, CSnapshotDelta::CreateDelta) is modelled in Model/SnapRef.v, which is
   itself run against the real C++ on every `./check run C09` (refbuild / refdelta cases).  Only
   the property theorems, each closed by lemmas of Proofs/SnapRefProofs.v.

   ref_of_raw S is the reference snapshot (its int array) the reference builder makes of the items
   of S handed over in key order - what the harness (ref_build) does.  Conditions, all boolean:
     raw_ok, k09             as in Props/C09.v
     ref_types_ok            every type <= 0x7fff (snapshotbuilder_add_item aborts above: CSnapshot::MAX_TYPE)
     ref_buckets_ok          at most 64 keys per CalcHashId bucket (HASHLIST_BUCKET_SIZE; further keys are not found)
     ref_table_ok sz         the table of pre-agreed sizes only has types < 64 with 0 < size, 4 * size <= INT16_MAX
                             (SetStaticsize aborts otherwise; size 0 means `no static size` to the reference)
     sizes_respected sz B    as in C09_end_to_end
     ref_delta_fits A B      3 + |A| + 3 |B| + data(B) <= 16384: CreateDelta writes into int32_t[16384] unchecked *)
From LibTw2 Require Import Base.Res Model.Varint Model.Packer Model.Snap Model.SnapRef
  Proofs.SnapBase Proofs.SnapRep Proofs.SnapDelta Proofs.SnapOk Proofs.SnapRefProofs.
From Coq Require Import ZArith List Lia.
Import ListNotations.
Open Scope Z_scope.

(* The reference's delta for the pair is read by Delta::read_from_ints without a warning and applied
   by RawSnap::read_with_delta to A gives the target: the same items in the same (key) order, the
   same lookups, the same checksum - although the reference omits every unchanged item.  When
   nothing changed the reference writes NO ints at all (CreateDelta returns 0); then A already
   is B. *)
Theorem C09_ref_delta : forall sz A B,
  raw_ok A = true -> raw_ok B = true -> k09 A B = false ->
  ref_types_ok A = true -> ref_types_ok B = true ->
  ref_buckets_ok A = true -> ref_buckets_ok B = true ->
  ref_table_ok sz = true -> sizes_respected sz B = true -> ref_delta_fits A B = true ->
  exists fa fb ints,
    ref_of_raw A = Ok fa /\ ref_of_raw B = Ok fb /\ ref_delta sz fa fb = Ok ints
    /\ ((ints = [] /\ @raw_items unit A = raw_items B /\ crc A = crc B)
        \/ (exists d B',
              delta_read_from_ints sz ints = (Ok d, [])
              /\ raw_read_with_delta A d = (Ok B', [])
              /\ @raw_items unit B' = raw_items B
              /\ (forall ty id, @raw_item unit B' ty id = raw_item B ty id)
              /\ crc B' = crc B)).
Proof.
  intros sz A B OA OB Hk TA TB BA BB Hsz Hsr Hfit.
  destruct (c09_ref_delta sz A B OA OB Hk TA TB BA BB Hsz Hsr Hfit) as (fa & fb & ints & H1 & H2 & H3 & H4).
  exists fa, fb, ints. repeat (split; [assumption|]).
  destruct H4 as [(E & Hi & Hc)|(d & B' & Hr & Ha & Hi & Hl & Hc)].
  - left. repeat split; auto.
  - right. exists d, B'. repeat split; auto.
Qed.

(* The same for ANY order of the items: both builders (libtw2's RawBuilder, the reference's
   CSnapshotBuilder) are fed the same two lists ia, ib; the reference's delta between ITS two
   snapshots, read and applied by libtw2 to ITS snapshot of ia, gives its snapshot of ib.  (The
   delta then lists keys in the reference's item order; Delta::read_from_ints sorts them.) *)
Theorem C09_ref_delta_items : forall sz ia ib A B,
  ritems_ok ia = true -> ritems_ok ib = true -> raw_build ia = Ok A -> raw_build ib = Ok B ->
  k09 A B = false -> ref_buckets_ok A = true -> ref_buckets_ok B = true ->
  ref_table_ok sz = true -> sizes_respected sz B = true -> ref_delta_fits A B = true ->
  exists fa fb ints,
    ref_builder_ints ia = Ok fa /\ ref_builder_ints ib = Ok fb /\ ref_delta sz fa fb = Ok ints
    /\ ((ints = [] /\ @raw_items unit A = raw_items B /\ crc A = crc B)
        \/ (exists d B',
              delta_read_from_ints sz ints = (Ok d, [])
              /\ raw_read_with_delta A d = (Ok B', [])
              /\ @raw_items unit B' = raw_items B
              /\ (forall ty id, @raw_item unit B' ty id = raw_item B ty id)
              /\ crc B' = crc B)).
Proof.
  intros sz ia ib A B Hoa Hob Hba Hbb Hk BA BB Hsz Hsr Hfit.
  destruct (c09_ref_delta_items sz ia ib A B Hoa Hob Hba Hbb Hk BA BB Hsz Hsr Hfit) as (fa & fb & ints & H1 & H2 & H3 & H4).
  exists fa, fb, ints. repeat (split; [assumption|]).
  destruct H4 as [(E & Hi & Hc)|(d & B' & Hr & Ha & Hi & Hl & Hc)].
  - left. repeat split; auto.
  - right. exists d, B'. repeat split; auto.
Qed.

(* A snapshot serializes to the integers the reference builder produces for its items (handed
   over in key order): Snap::write_to_ints = RawSnap::write_to_ints = the reference's Finish *)
Theorem C09_ref_builder : forall S, raw_ok S = true -> ref_types_ok S = true ->
  exists l, ref_of_raw S = Ok l /\ snap_ints S = Ok l
    /\ (forall cap, (length l <= cap)%nat -> raw_write_to_ints S cap = Ok l).
Proof. exact c09_ref_builder. Qed.

(* the same list of items through both builders (RawBuilder::add_item accepted all of them; types
   <= 0x7fff): in ascending key order the integers are the same ... *)
Theorem C09_ref_builder_items : forall its S, ritems_ok its = true -> raw_build its = Ok S ->
  sortedb (map ritem_key its) = true ->
  exists l, ref_builder_ints its = Ok l /\ snap_ints S = Ok l
    /\ (forall cap, (length l <= cap)%nat -> raw_write_to_ints S cap = Ok l).
Proof. exact c09_ref_builder_items. Qed.

(* ... in ANY order the reference's integers are read by RawSnap::read_from_ints, without a warning,
   as the snapshot libtw2's own builder makes: same items (in key order), lookups, checksum ... *)
Theorem C09_ref_builder_any_order : forall its S, ritems_ok its = true -> raw_build its = Ok S ->
  exists l S', ref_builder_ints its = Ok l /\ raw_read_from_ints l = (Ok S', [])
    /\ @raw_items unit S' = raw_items S
    /\ (forall ty id, @raw_item unit S' ty id = raw_item S ty id)
    /\ crc S' = crc S.
Proof.
  intros its S Hok Hb. destruct (c09_ref_builder_any_order its S Hok Hb) as (l & S' & H1 & H2 & H3 & H4 & H5).
  exists l, S'. repeat split; auto.
Qed.

(* ... but the integers themselves differ as soon as the items are not handed over in key order
   (the reference keeps insertion order, libtw2 writes in key order), and a type above 0x7fff
   makes the reference abort *)
Definition exU : list ritem := [(5, 1, [9]); (1, 0, [7; 7])].
Theorem C09_ref_builder_order_refuted : exists its S l l',
  ritems_ok its = true /\ raw_build its = Ok S /\ ref_builder_ints its = Ok l /\ snap_ints S = Ok l' /\ l <> l'.
Proof.
  exists exU.
  destruct (raw_build exU) as [R0| | |] eqn:E; [|vm_compute in E; discriminate..].
  exists R0, [20; 2; 0; 8; 327681; 9; 65536; 7; 7], [20; 2; 0; 12; 65536; 7; 7; 327681; 9].
  vm_compute in E. injection E as <-. vm_compute. repeat split; discriminate.
Qed.

(* the two conditions on the reference's side are needed.  65 keys in one CalcHashId bucket: the
   65th is not found in either hash list, so the reference both deletes and re-adds it although
   nothing changed, and libtw2 reads that delta with the warning DeleteUpdate ... *)
Definition bk_ids : list Z :=
  [0; 287; 574; 861; 1148; 1435; 1722; 2009; 2296; 2327; 2614; 2901; 3188; 3475; 3762; 4049; 4336; 4367; 4654; 4941;
   5228; 5515; 5802; 6089; 6376; 6407; 6694; 6981; 7268; 7555; 7842; 8129; 8416; 8703; 8734; 9021; 9308; 9595; 9882;
   10169; 10456; 10743; 10774; 11061; 11348; 11635; 11922; 12209; 12496; 12783; 12814; 13101; 13388; 13675; 13962;
   14249; 14536; 14823; 14854; 15141; 15428; 15715; 16002; 16289; 16576].
Definition bkA : rawsnap :=
  match raw_build (map (fun id => (100, id, [id])) bk_ids) with Ok R0 => R0 | _ => raw_empty end.
Definition no_table : osize := fun _ => None.
Theorem C09_ref_delta_buckets_refuted : exists sz A,
  raw_ok A = true /\ k09 A A = false /\ ref_types_ok A = true /\ ref_table_ok sz = true
  /\ sizes_respected sz A = true /\ ref_delta_fits A A = true
  /\ ref_buckets_ok A = false
  /\ match ref_of_raw A with
     | Ok fa => match ref_delta sz fa fa with
                | Ok ints => ints = [1; 1; 0; 6570176; 100; 16576; 1; 16576]
                             /\ snd (delta_read_from_ints sz ints) = [DeleteUpdate]
                | _ => False
                end
     | _ => False
     end.
Proof. exists no_table, bkA. vm_compute. repeat split. Qed.

(* ... and a pre-agreed size of 0 is `no static size` to the reference: it writes the size field
   libtw2 does not expect, and Delta::read_from_ints fails *)
Definition sz0 : osize := fun ty => if ty =? 5 then Some 0 else None.
Definition sz0B : rawsnap := match raw_build [(5, 1, [])] with Ok R0 => R0 | _ => raw_empty end.
Theorem C09_ref_delta_size0_refuted : exists sz A B,
  raw_ok A = true /\ raw_ok B = true /\ k09 A B = false /\ ref_types_ok A = true /\ ref_types_ok B = true
  /\ ref_buckets_ok A = true /\ ref_buckets_ok B = true /\ sizes_respected sz B = true /\ ref_delta_fits A B = true
  /\ ref_sizes_ok sz = true /\ ref_table_ok sz = false
  /\ match ref_of_raw A, ref_of_raw B with
     | Ok fa, Ok fb => match ref_delta sz fa fb with
                       | Ok ints => ints = [0; 1; 0; 5; 1; 0]
                                    /\ fst (delta_read_from_ints sz ints) = Err ItemDiffsUnpacking
                       | _ => False
                       end
     | _, _ => False
     end.
Proof. exists sz0, raw_empty, sz0B. vm_compute. repeat split. Qed.

(* concrete pair: an item changed with wrap-around under an id >= 0x8000, one changed under a type
   with a pre-agreed size, two untouched (one of them under the largest key), one removed, two added
   (one empty); and the inputs the reference cannot take *)
Definition rxT : osize := fun ty => if ty =? 5 then Some 2 else if ty =? 63 then Some 1 else None.
Definition rxA_items : list ritem :=
  [(1, 0, []); (5, 1, [9; 9]); (5, 2, [1; 2]); (7, 32768, [i32_min; 7]); (32767, 65535, [4])].
Definition rxB_items : list ritem :=
  [(5, 1, [9; 10]); (5, 2, [1; 2]); (7, 32768, [i32_max; 7]); (64, 0, []); (100, 3, [1; 2; 3]); (32767, 65535, [4])].
Definition rxA : rawsnap := match raw_build rxA_items with Ok R0 => R0 | _ => raw_empty end.
Definition rxB : rawsnap := match raw_build rxB_items with Ok R0 => R0 | _ => raw_empty end.

Definition rxB_ints : list Z :=
  [64; 6; 0; 12; 24; 36; 40; 56; 327681; 9; 10; 327682; 1; 2; 491520; i32_max; 7; 4194304; 6553603; 1; 2; 3; i32_max; 4].

Example C09ref_nonvacuous :
  raw_ok rxA = true /\ raw_ok rxB = true /\ k09 rxA rxB = false
  /\ ref_types_ok rxA = true /\ ref_types_ok rxB = true /\ ref_buckets_ok rxA = true /\ ref_buckets_ok rxB = true
  /\ ref_table_ok rxT = true /\ sizes_respected rxT rxB = true /\ ref_delta_fits rxA rxB = true
  /\ ritems_ok rxB_items = true /\ sortedb (map ritem_key rxB_items) = true
  /\ ref_of_raw rxA = Ok [48; 5; 0; 4; 16; 28; 40; 65536; 327681; 9; 9; 327682; 1; 2; 491520; i32_min; 7; i32_max; 4]
  /\ ref_of_raw rxB = ref_builder_ints rxB_items
  /\ ref_builder_ints rxB_items = Ok rxB_ints
  /\ raw_write_to_ints rxB 24 = Ok rxB_ints
  /\ match ref_of_raw rxA, ref_of_raw rxB with
     | Ok fa, Ok fb =>
       ref_delta rxT fa fb = Ok [1; 4; 0; 65536; 5; 1; 0; 1; 7; 32768; 2; -1; 0; 64; 0; 0; 100; 3; 3; 1; 2; 3]
       /\ ref_delta rxT fa fa = Ok []
       /\ match ref_delta rxT fa fb with
          | Ok ints =>
            match delta_read_from_ints rxT ints with
            | (Ok d, []) =>
              match raw_read_with_delta rxA d with
              | (Ok X, []) => @raw_items unit X = raw_items rxB /\ crc X = crc rxB
              | _ => False
              end
            | _ => False
            end
          | _ => False
          end
     | _, _ => False
     end
  /\ match raw_build (rev rxA_items), ref_builder_ints (rev rxA_items), ref_builder_ints (rev rxB_items) with
     | Ok A', Ok fa, Ok fb =>
       ref_delta rxT fa fb = Ok [1; 4; 0; 65536; 100; 3; 3; 1; 2; 3; 64; 0; 0; 7; 32768; 2; -1; 0; 5; 1; 0; 1]
       /\ match ref_delta rxT fa fb with
          | Ok ints =>
            match delta_read_from_ints rxT ints with
            | (Ok d, []) =>
              match raw_read_with_delta A' d with
              | (Ok X, []) => @raw_items unit X = raw_items rxB /\ crc X = crc rxB
              | _ => False
              end
            | _ => False
            end
          | _ => False
          end
     | _, _, _ => False
     end
  /\ ref_builder_ints [(32768, 0, [])] = Panic site_ref_assert
  /\ ref_sizes_ok (fun ty => if ty =? 64 then Some 1 else None) = false.
Proof. vm_compute. repeat split. Qed.

Print Assumptions C09_ref_delta.
Print Assumptions C09_ref_delta_items.
Print Assumptions C09_ref_builder.
Print Assumptions C09_ref_builder_items.
Print Assumptions C09_ref_builder_any_order.
Print Assumptions C09_ref_builder_order_refuted.
Print Assumptions C09_ref_delta_buckets_refuted.
Print Assumptions C09_ref_delta_size0_refuted.
Print Assumptions C09ref_nonvacuous.

(* C11, allocation clause - on the cost-instrumented readers of Model/SnapCost.v.

   Every reader of Model/Snap.v has a twin that threads a meter through the same computation:
   the number of words held by every container the Rust code has grown so far (the receiver's
   buffers / maps / sets, the scratch Vec<i32> of the byte readers; one event per `push`,
   `extend`, `insert` in the source, with the requested size) and its high-water mark, returned
   on success AND on every error path.  `peak` is that high-water mark.
     C11_alloc_erasure : dropping the meter from a twin gives the reader of Model/Snap.v (the
                         function that the correspondence check runs against the code).
     C11_alloc         : the high-water mark is at most c x (input length), for ALL inputs -
                         failing reads included; for read_with_delta: c x (what the accepted
                         snapshot and delta hold).  No additive constant is needed.
   The harness compares the allocation meter of the real code against the model's peak on every
   hostile reader case (real peak live bytes <= 16 x model peak words + 512). *)
From LibTw2 Require Import Base.Res Model.Varint Model.Packer Model.Snap Model.SnapCost
  Proofs.SnapC11 Proofs.SnapAlloc Proofs.SnapCostProofs.
From Coq Require Import ZArith List Lia.
Import ListNotations.
Open Scope Z_scope.

Theorem C11_alloc_erasure :
  (forall ints, fst (raw_read_from_ints_cost ints) = raw_read_from_ints ints)
  /\ (forall bs, fst (raw_read_bytes_cost bs) = raw_read_bytes bs)
  /\ (forall ints, fst (snap_read_from_ints_cost ints) = snap_read_from_ints ints)
  /\ (forall bs, fst (snap_read_bytes_cost bs) = snap_read_bytes bs)
  /\ (forall sz ints, fst (delta_read_from_ints_cost sz ints) = delta_read_from_ints sz ints)
  /\ (forall sz bs, fst (delta_read_bytes_cost sz bs) = delta_read_bytes sz bs)
  /\ (forall R d, fst (raw_read_with_delta_cost R d) = raw_read_with_delta R d)
  /\ (forall S d, fst (snap_read_with_delta_cost S d) = snap_read_with_delta S d).
Proof.
  split; [exact raw_read_from_ints_erase|]. split; [exact raw_read_bytes_erase|].
  split; [exact snap_read_from_ints_erase|]. split; [exact snap_read_bytes_erase|].
  split; [exact delta_read_from_ints_erase|]. split; [exact delta_read_bytes_erase|].
  split; [exact raw_read_with_delta_erase|exact snap_read_with_delta_erase].
Qed.

(* ints: any list of Z; bytes: any list of Z (no u8 / i32 hypothesis is needed for the bound);
   sz: any object-size table *)
Theorem C11_alloc :
  (forall ints, peak (raw_read_from_ints_cost ints) <= 3 * Z.of_nat (length ints))
  /\ (forall bs, peak (raw_read_bytes_cost bs) <= 4 * Z.of_nat (length bs))
  /\ (forall ints, peak (snap_read_from_ints_cost ints) <= 8 * Z.of_nat (length ints))
  /\ (forall bs, peak (snap_read_bytes_cost bs) <= 9 * Z.of_nat (length bs))
  /\ (forall sz ints, peak (delta_read_from_ints_cost sz ints) <= 2 * Z.of_nat (length ints))
  /\ (forall sz bs, peak (delta_read_bytes_cost sz bs) <= 2 * Z.of_nat (length bs))
  /\ (forall S d, snap_accepted S -> delta_accepted d ->
        peak (raw_read_with_delta_cost (sn_raw S) d) <= 3 * (held (sn_raw S) + dheld d)
        /\ peak (snap_read_with_delta_cost S d) <= 8 * (held (sn_raw S) + dheld d)).
Proof.
  split; [exact raw_read_from_ints_peak|]. split; [exact raw_read_bytes_peak|].
  split; [exact snap_read_from_ints_peak|]. split; [exact snap_read_bytes_peak|].
  split; [exact delta_read_from_ints_peak|]. split; [exact delta_read_bytes_peak|].
  intros S d HS Hd. destruct (snap_read_with_delta_cost_accepted S d HS Hd) as [H1 H2]. split; assumption.
Qed.

(* applying ANY delta value to ANY snapshot value (accepted or not): linear in the sizes of the
   two key maps and the lengths of their ranges *)
Theorem C11_alloc_apply_any : forall S d,
  peak (snap_read_with_delta_cost S d)
  <= wsum (rs_offs (sn_raw S)) + wsum (d_upd d) + 5 * Z.of_nat (length (rs_offs (sn_raw S)) + length (d_upd d)).
Proof. exact snap_read_with_delta_peak_any. Qed.

(* the meter only grows: on every path the high-water mark is the count at the moment of return *)
Theorem C11_alloc_peak_is_final :
  (forall ints, peak (snap_read_from_ints_cost ints) = m_cur (snd (snap_read_from_ints_cost ints)))
  /\ (forall bs, peak (snap_read_bytes_cost bs) = m_cur (snd (snap_read_bytes_cost bs)))
  /\ (forall sz ints, peak (delta_read_from_ints_cost sz ints) = m_cur (snd (delta_read_from_ints_cost sz ints)))
  /\ (forall sz bs, peak (delta_read_bytes_cost sz bs) = m_cur (snd (delta_read_bytes_cost sz bs)))
  /\ (forall S d, peak (snap_read_with_delta_cost S d) = m_cur (snd (snap_read_with_delta_cost S d))).
Proof. exact peak_is_final. Qed.

(* hostile inputs whose read fails late.  A delta that announces one update of 2^31-1 ints and
   carries two: the read fails with ItemDiffsUnpacking after two pushes - 2 words were held, not
   2^31.  The same delta as bytes (the size is the 5-byte varint bf ff ff ff 0f).  A snapshot
   header that announces 2^31-1 offsets: nothing is held at all. *)
Definition hostile_delta : list Z := [0; 1; 0; 3; 3; 2147483647; 1; 2].
Definition hostile_delta_bytes : list Z := [0; 1; 0; 3; 3; 191; 255; 255; 255; 15; 1; 2].

Example C11_alloc_hostile :
  delta_read_from_ints_cost (fun _ => None) hostile_delta
    = ((Err ItemDiffsUnpacking, []), {| m_cur := 2; m_peak := 2 |})
  /\ delta_read_bytes_cost (fun _ => None) hostile_delta_bytes
    = ((Err ItemDiffsUnpacking, []), {| m_cur := 2; m_peak := 2 |})
  /\ snap_read_from_ints_cost [0; 2147483647; 1; 2; 3]
    = ((Err OffsetsUnpacking, []), {| m_cur := 0; m_peak := 0 |})
  /\ peak (snap_read_from_ints_cost [2147483644; 0; 5; 6; 7]) = 0.
Proof. vm_compute. repeat split. Qed.

(* the meter is not trivially zero, and the hypotheses of the last clause are met: an accepted
   snapshot with a UUID registry item (16 words in buf + offsets, 5 for the registry entry), an
   accepted delta, and the delta applied (a failing apply: the sizes differ; 16 words were copied
   before the update was refused) *)
Definition exInts : list Z := [40; 3; 0; 20; 32; 16384; 1; 2; 3; 4; 327681; 9; 9; 1073741831; 7].
Definition exDelta : list Z := [0; 1; 0; 5; 1; 3; 1; 2; 3].

Example C11_alloc_nonvacuous :
  match snap_read_from_ints_cost exInts, delta_read_from_ints_cost (fun _ => None) exDelta with
  | ((Ok X, []), mX), ((Ok d, []), md) =>
    mX = {| m_cur := 21; m_peak := 21 |} /\ md = {| m_cur := 6; m_peak := 6 |}
    /\ held (sn_raw X) = 10 /\ dheld d = 4
    /\ fst (fst (snap_read_with_delta_cost X d)) = Err DeltaDifferingSizes
    /\ peak (snap_read_with_delta_cost X d) = 16
  | _, _ => False
  end.
Proof. vm_compute. repeat split. Qed.

Print Assumptions C11_alloc_erasure.
Print Assumptions C11_alloc.
Print Assumptions C11_alloc_apply_any.
Print Assumptions C11_alloc_peak_is_final.
Print Assumptions C11_alloc_hostile.
Print Assumptions C11_alloc_nonvacuous.

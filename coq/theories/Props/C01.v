(* C01 -- vital chunks are delivered exactly once, in order, uncorrupted (0.6 with and without
   token; see the bottom of this file for 0.7).
   The world is two endpoints (Model/Conn6.v, the model the correspondence check ties to
   net/src/connection.rs) and a network that may lose, duplicate, reorder and delay datagrams
   (Model/Link6.v). `admissible_run` is the property's own assumption, as a predicate on the
   history: valid API calls, (W) fewer than 512 vital chunks unacknowledged, (F) no datagram
   delayed across the 10-bit sequence space, a usable random token for the acceptor. *)
From LibTw2 Require Import Base.Res Model.PacketTypes Model.ConnCore Model.Conn6 Model.LinkGhost Model.Link6
  Proofs.LinkArith Proofs.Link6Inv.
From Coq Require Import ZArith List Lia.
Open Scope Z_scope.

Lemma to_nat_zlen {A} (l : list A) : Z.to_nat (zlen l) = length l.
Proof. unfold zlen. apply Nat2Z.id. Qed.

(* what the receiving application was handed is a prefix of what the sending application
   submitted: nothing skipped, duplicated, reordered or altered -- in both directions, for
   every admissible history *)
Theorem C01_prefix6 : forall ra rb ls, admissible_run (link_new ra rb) ls ->
  exists w, link_run (link_new ra rb) ls = Ok w /\
    l_del (k_b w) = firstn (length (l_del (k_b w))) (l_sub (k_a w)) /\
    l_del (k_a w) = firstn (length (l_del (k_a w))) (l_sub (k_b w)).
Proof.
  intros ra rb ls Ha. destruct (link_run_inv ls _ (link_new_inv ra rb) Ha) as [w [Hr [HA [HB _]]]].
  exists w. split; [exact Hr|]. split.
  - rewrite <- to_nat_zlen. exact (sv_prefix _ _ _ _ _ HB).
  - rewrite <- to_nat_zlen. exact (sv_prefix _ _ _ _ _ HA).
Qed.

(* non-vital chunks that are delivered are chunks that were really sent *)
Theorem C01_nonvital_genuine6 : forall ra rb ls, admissible_run (link_new ra rb) ls ->
  exists w, link_run (link_new ra rb) ls = Ok w /\
    incl (l_nvr (k_b w)) (l_nvs (k_a w)) /\ incl (l_nvr (k_a w)) (l_nvs (k_b w)).
Proof.
  intros ra rb ls Ha. destruct (link_run_inv ls _ (link_new_inv ra rb) Ha) as [w [Hr [HA [HB _]]]].
  exists w. split; [exact Hr|]. split; [exact (sv_nvr _ _ _ _ _ HB)|exact (sv_nvr _ _ _ _ _ HA)].
Qed.

(* 'ready' is reported at most once, and never before the accepting side has answered *)
Theorem C01_ready6 : forall ra rb ls, admissible_run (link_new ra rb) ls ->
  exists w, link_run (link_new ra rb) ls = Ok w /\
    0 <= l_ready (k_a w) <= 1 /\ 0 <= l_ready (k_b w) <= 1 /\
    (1 <= l_ready (k_a w) -> l_answered (k_b w) = true) /\
    (1 <= l_ready (k_b w) -> l_answered (k_a w) = true).
Proof.
  intros ra rb ls Ha. destruct (link_run_inv ls _ (link_new_inv ra rb) Ha) as [w [Hr [HA [HB _]]]].
  exists w. split; [exact Hr|].
  split; [exact (sv_ready _ _ _ _ _ HA)|]. split; [exact (sv_ready _ _ _ _ _ HB)|].
  split; [exact (sv_ans _ _ _ _ _ HA)|exact (sv_ans _ _ _ _ _ HB)].
Qed.

(* the invariant behind the three statements, for reuse *)
Theorem C01_invariant6 : forall ra rb ls, admissible_run (link_new ra rb) ls ->
  exists w, link_run (link_new ra rb) ls = Ok w /\ link_inv w.
Proof. intros ra rb ls Ha. exact (link_run_inv ls _ (link_new_inv ra rb) Ha). Qed.

(* non-vacuity: a concrete history with a lost datagram, a resend, a duplicate delivery and a
   reordering satisfies the assumptions, and delivers both chunks exactly once *)
Definition demo_trace : list llabel :=
  [ LApp SA OpConnect; LDeliver SA 0;           (* Connect reaches B: B answers *)
    LDeliver SB 0;                               (* ConnectAccept reaches A: A is online, Ready *)
    LApp SA (OpSend [11] true); LApp SA (OpSend [22] true); LApp SA (OpSend [33] false);
    LApp SA OpFlush; LDrop SA 2;                 (* the datagram with both chunks is lost *)
    LTime 1100000; LApp SA OpTick; LApp SA OpFlush;   (* resend deadline: chunks are queued and sent again *)
    LDeliver SA 2; LDeliver SA 2;                (* ... and arrive twice *)
    LApp SB (OpSend [44] true); LApp SB OpFlush; LDeliver SB 1; LDeliver SB 0 ].  (* stale duplicate last *)

Example C01_nonvacuous :
  admissible_run (link_new [[9; 9; 9; 9]] [[1; 2; 3; 4]; [5; 6; 7; 8]]) demo_trace /\
  match link_run (link_new [[9; 9; 9; 9]] [[1; 2; 3; 4]; [5; 6; 7; 8]]) demo_trace with
  | Ok w => l_sub (k_a w) = [[11]; [22]] /\ l_del (k_b w) = [[11]; [22]] /\
            l_del (k_a w) = [[44]] /\ l_ready (k_a w) = 1 /\ l_answered (k_b w) = true
  | _ => False
  end.
Proof.
  split; [apply admissible_runb_ok; vm_compute; reflexivity|].
  vm_compute. repeat split.
Qed.

Print Assumptions C01_prefix6.
Print Assumptions C01_nonvital_genuine6.
Print Assumptions C01_ready6.
Print Assumptions C01_invariant6.
Print Assumptions C01_nonvacuous.

(* C15 - a recorded demo plays back what was recorded.
   Only the property theorems (about Model/Demo.v and Model/DemoHL.v), each closed by lemmas
   proved in Proofs/Demo*.v.  The Huffman layer is C07's round-trip theorem
   (Proofs/HuffmanDecode.roundtrip = C07_roundtrip) on the built-in table, the int layer of
   messages is C08's (Proofs/VarintProofs.varint_roundtrip = C08_roundtrip). *)
From LibTw2 Require Import Base.Res Model.Varint Model.Huffman Model.Demo Model.DemoHL
  Proofs.DemoBase Proofs.DemoChunk Proofs.DemoFile Proofs.DemoHLProofs Proofs.DemoTyped Proofs.DemoBuilder.
From LibTw2 Require Model.Snap.
From Coq Require Import ZArith List Lia Bool.
Import ListNotations.
Open Scope Z_scope.

(* ---------- raw layer ---------- *)

(* For every header Writer::new is meant for (winput_ok: NUL-free strings below their capacity,
   a 32-byte digest, a non-negative length) and EVERY chunk sequence (any ticks, key frames,
   payloads of any content, messages of any length) without a payload above MAX_SNAPSHOT_SIZE:
   if the writer accepts everything (no panic: ticks increase, the compressed / int-packed sizes
   fit), then reading the file yields the header fields as given, no header warning, the same
   chunks in the same order with messages zero-padded to a multiple of four bytes, no warning on
   any chunk, and a clean end of file. *)
Theorem C15_raw : forall i cs file,
  winput_ok i = true -> forallb chunk_ok cs = true -> existsb k15_chunk cs = false ->
  write_all i cs = Ok file ->
  exists h, read_all file = Ok (h, [], (map (fun c => (pad4_chunk c, [])) cs, (Ok tt, [])))
    /\ header_view h = expected_view i.
Proof. exact raw_roundtrip. Qed.

(* the header alone, in front of anything: Reader::new returns what Writer::new was given,
   version 6 exactly when a SHA-256 was given, without warnings *)
Theorem C15_header : forall i hb rest, winput_ok i = true -> writer_new i = Ok hb ->
  exists h, reader_new (hb ++ rest) = Ok (h, rest, [])
    /\ header_view h = expected_view i
    /\ rh_version h = match wi_sha256 i with Some _ => V6 | None => V5 end.
Proof.
  intros i hb rest Hi Hw. destruct (header_roundtrip i hb rest Hi Hw) as [h (Hr & Hv & Hws & _ & Hver)].
  exists h. unfold reader_new. rewrite Hr, Hws. repeat split; assumption.
Qed.

(* ChunkHeader::write / read for every tick marker (inline delta 0..31, absolute tick anywhere in
   i32, key frame or not) and every size 0..65535: read back identically in front of any
   continuation, with no warning (UnknownChunkType for the kind the writer never uses), in both
   versions the writer produces; the encoding has 1 byte for sizes below 30, 2 up to 255, 3 above;
   1 byte for an inline tick, 5 for an absolute one *)
Theorem C15_chunk_header : forall h v rest, chdr_ok h = true -> version_ge v V5 = true ->
  exists bs, chdr_write h v = Ok bs
    /\ chdr_read v (bs ++ rest) = (Ok (Some (h, rest)), chdr_warns h)
    /\ zlen bs = chdr_len h.
Proof. exact chdr_roundtrip. Qed.

(* which ticks are written inline: exactly the non-key-frame ticks at most 31 above the previous
   one; all others (first tick, key frames, larger gaps up to the whole i32 range) are absolute *)
Theorem C15_tick_encoding : forall p keyframe tick, is_i32 p = true -> is_i32 tick = true -> p < tick ->
  exists bs, write_tick (Some p) keyframe tick = Ok (bs, Some tick)
    /\ zlen bs = if negb keyframe && (tick - p <=? 31) then 1 else 5.
Proof.
  intros p kf tick Hp Ht Hlt. unfold write_tick, tick_marker_new.
  replace (p <? tick) with true by lia. cbn [negb max_tick_delta].
  unfold is_i32, i32_min, i32_max in *.
  destruct (((-2147483648 <=? tick - p) && (tick - p <=? 2147483647))%bool) eqn:Ei.
  - destruct (negb kf && (tick - p <=? 31)) eqn:Ed.
    + replace ((tick - p <? 0) || (255 <? tick - p)) with false by lia.
      destruct kf; [discriminate|]. unfold chdr_write. cbn [version_ge version_num Z.leb negb max_tick_delta].
      replace (tick - p <=? 31) with true by lia. cbn [negb]. eexists. split; reflexivity.
    + unfold chdr_write. cbn [version_ge version_num negb]. eexists. split; [reflexivity|]. destruct kf; reflexivity.
  - replace (negb kf && (tick - p <=? 31)) with false by lia.
    unfold chdr_write. cbn [version_ge version_num negb]. eexists. split; [reflexivity|]. destruct kf; reflexivity.
Qed.

(* one chunk behind any writer / reader state in step, in front of any continuation *)
Theorem C15_chunk : forall v prev c bs prev' rest,
  version_ge v V5 = true -> chunk_ok c = true -> k15_chunk c = false ->
  write_chunk prev c = Ok (bs, prev') ->
  read_chunk v {| ds_rest := bs ++ rest; ds_tick := prev |}
    = (Ok (Some (pad4_chunk c, {| ds_rest := rest; ds_tick := prev' |})), [])
  /\ 1 <= zlen bs.
Proof. exact chunk_roundtrip. Qed.

(* K15 (known finding, DESIGN.md #14): without the size hypothesis C15_raw is false for the code
   as it is - a message of 65537 zero bytes is accepted by the writer, the reader stops at it with
   MessageVarIntTooLong (its 16384 four-byte groups are used up); 65536 bytes are fine *)
Definition k15_header : winput :=
  {| wi_net_version := [48; 46; 54]; wi_map_name := [100; 109; 49]; wi_sha256 := None; wi_map_crc := 1;
     wi_kind := Client; wi_length := 0; wi_timestamp := [50; 48]; wi_map := [] |}.
Theorem C15_K15_refuted :
  winput_ok k15_header = true
  /\ match write_all k15_header [CTick 1 true; CMessage (repeat 0 (Z.to_nat 65537))] with
     | Ok file =>
       match read_all file with
       | Ok (_, _, (chunks, (Err EMsgTooLong, _))) => chunks = [(CTick 1 true, [])]
       | _ => False
       end
     | _ => False
     end
  /\ match write_all k15_header [CTick 1 true; CMessage (repeat 0 (Z.to_nat 65536))] with
     | Ok file =>
       match read_all file with
       | Ok (_, _, ([(CTick 1 true, []); (CMessage m, [])], (Ok _, []))) =>
         zlen m = 65536 /\ forallb (Z.eqb 0) m = true
       | _ => False
       end
     | _ => False
     end.
Proof. vm_compute. repeat split. Qed.

(* K15H (known finding): Writer::new also accepts header values the format cannot hold - a NUL
   inside a string comes back truncated with a warning, a negative length makes the file
   unreadable *)
Theorem C15_K15H_refuted :
  (exists file h rest,
     writer_new {| wi_net_version := [97; 0; 98]; wi_map_name := []; wi_sha256 := None; wi_map_crc := 0;
                   wi_kind := Server; wi_length := 0; wi_timestamp := []; wi_map := [] |} = Ok file
     /\ reader_new file = Ok (h, rest, [WeirdNetVersion]) /\ hv_net_version (header_view h) = [97])
  /\ (exists file,
     writer_new {| wi_net_version := [97]; wi_map_name := []; wi_sha256 := None; wi_map_crc := 0;
                   wi_kind := Server; wi_length := -1; wi_timestamp := []; wi_map := [] |} = Ok file
     /\ reader_new file = Err EAssert).
Proof.
  split.
  - eexists. eexists. eexists. split; [vm_compute; reflexivity|]. split; vm_compute; reflexivity.
  - eexists. split; [vm_compute; reflexivity|vm_compute; reflexivity].
Qed.

(* ---------- high-level writer ---------- *)

(* a tick that does not strictly increase is refused with TooLowTickNumber: nothing is written and
   the writer state is unchanged (so the recording stays usable); a negative first tick is one *)
Theorem C15_refuse_tick : forall sz w t items, t <= hw_last_tick w ->
  write_snap sz w t items = (w, [], Err HTooLowTickNumber).
Proof. exact refuse_tick. Qed.

(* ... and only such ticks are refused for their number *)
Theorem C15_accept_tick : forall sz w t items, hw_last_tick w < t ->
  snd (write_snap sz w t items) <> Err HTooLowTickNumber.
Proof. exact accept_tick. Qed.

(* what the refusal protects from (and what an equal tick ran into before the repair of defect
   #13, when the test was `<`): the raw writer panics on a tick that does not increase *)
Theorem C15_raw_tick_panics : forall p keyframe t, t <= p ->
  write_tick (Some p) keyframe t = Panic site_tick_order.
Proof. exact raw_tick_not_increasing_panics. Qed.

(* Typed layer, first half: the demo layers between DemoWriter and DemoReader are transparent.
   For every header and EVERY history of write_snap / write_msg calls that run without panic
   (results Ok or any Err), the reader is given exactly the raw chunks the calls emitted - per
   accepted write_snap a tick marker carrying the key-frame flag of the 250-tick rule and ONE
   payload, which is the Snap::write encoding of the snapshot built from the items (key frame) or
   the Delta::write encoding of Delta::create(last written snapshot, it) (otherwise); per accepted
   write_msg the message bytes zero-padded; nothing for a refused tick - and decodes them one
   after the other with the snapshot decoders (hdecode = DemoReader::next_chunk without the
   file), with no warning from the demo layer. *)
Theorem C15_transport : forall sz i ops w b rs hb,
  winput_ok i = true -> forallb hop_ok ops = true -> writer_new i = Ok hb ->
  hrun sz hwriter_new ops = (w, b, rs) -> no_failure rs = true ->
  exists h cs,
    hread_all sz (hb ++ b) = Ok (h, [], hdecode sz Snap.snap_empty (map pad4_chunk cs))
    /\ header_view h = expected_view i
    /\ hist_shape sz hwriter_new ops cs.
Proof. exact hl_transport. Qed.

(* Typed layer: object_sets (hl_read (hl_write hdr hist)) = object_sets hist.
   An object is what the writer hands to the snapshot builder - its type id (ordinal or UUID),
   its id and the words of encode() - and a game message is the bytes msg.encode writes (the
   SnapObj / Game codecs themselves are C14's; here they are covered by the harness).
   For every header and EVERY history of write_snap / write_msg calls each of which is accepted
   or is a refused tick (objects with type ids and ids in range and i32 words; any number of
   key-frame intervals; ordinal and UUID types appearing and vanishing in any order), DemoReader
   reads the file to a clean end with no warning at all and reports exactly (`reports`):
     - for every accepted write_snap(tick, objects): Tick(tick), then a Snapshot whose items are
       `objects` in some order - nothing stale, missing or altered, key frame or delta;
     - for every accepted write_msg: the message bytes, zero-padded to a multiple of four;
     - nothing for a refused tick.
   Proved by induction over the history with the invariant "the reader's snapshot holds the same
   items and the same type registry as the writer's", through Snap::write / read, Delta::create /
   write / read / read_with_delta and Snap::recycle (Proofs/DemoTyped.v, on the lemmas of the
   snapshot block), and "the builder holds nothing but its registry" (Proofs/DemoBuilder.v). *)
Theorem C15_typed : forall sz i ops w b rs hb,
  winput_ok i = true -> forallb hop_typed_ok ops = true -> writer_new i = Ok hb ->
  hrun sz hwriter_new ops = (w, b, rs) -> forallb accepted_res rs = true ->
  exists h chunks,
    hread_all sz (hb ++ b) = Ok (h, [], (map (fun c => (c, [])) chunks, (Ok tt, [])))
    /\ header_view h = expected_view i
    /\ reports ops rs chunks.
Proof. exact hl_typed_full. Qed.

(* K15W (known finding): an error other than the tick refusal leaves the writer corrupted.  A
   duplicate key is refused, but the items added before it stay in the builder and come back
   with the next accepted snapshot *)
Theorem C15_K15W_refuted :
  let sz := osize_of [(5, 3)] in
  let ops := [HSnap 1 [(Snap.Ordinal 5, 1, [1; 2; 3]); (Snap.Ordinal 5, 1, [7; 7; 7])];
              HSnap 2 [(Snap.Ordinal 5, 2, [4; 5; 6])]] in
  match hrun sz hwriter_new ops, writer_new k15_header with
  | (_, b, rs), Ok hb =>
    rs = [Err (HSnapBuilder Snap.BDuplicateKey); Ok tt]
    /\ match hread_all sz (hb ++ b) with
       | Ok (_, _, (chunks, (Ok _, _))) =>
         map fst chunks = [HCTick 2; HCSnapshot [(Snap.Ordinal 5, 1, [1; 2; 3]); (Snap.Ordinal 5, 2, [4; 5; 6])]]
       | _ => False
       end
  | _, _ => False
  end.
Proof. vm_compute. repeat split. Qed.

(* non-vacuity: a header that meets winput_ok; the chunk bytes the real writer produces for a
   small recording (key-frame tick 5, a snapshot, inline tick +1, a 5-byte message, absolute tick
   40 because 34 > 31) and their read-back; a 30-byte-compressed payload takes the one-byte size
   form, an empty one compresses to two bytes *)
Example C15_nonvacuous :
  winput_ok k15_header = true
  /\ write_chunks None [CTick 5 true; CSnapshot [1; 2; 3]; CTick 6 false; CMessage [1; 2; 3; 4; 5]; CTick 40 false]
     = Ok [192; 0; 0; 0; 5;  36; 40; 44; 20; 55;  161;  72; 126; 106; 161; 169; 100; 87; 220; 0;  128; 0; 0; 0; 40]
  /\ read_chunks (repeat 0 30) V5
       {| ds_rest := [192; 0; 0; 0; 5;  36; 40; 44; 20; 55;  161;  72; 126; 106; 161; 169; 100; 87; 220; 0;  128; 0; 0; 0; 40];
          ds_tick := None |}
     = ([(CTick 5 true, []); (CSnapshot [1; 2; 3], []); (CTick 6 false, []);
         (CMessage [1; 2; 3; 4; 5; 0; 0; 0], []); (CTick 40 false, [])], (Ok tt, []))
  /\ write_chunk_impl KSnapshot [] = Ok [34; 138; 27]
  /\ chdr_write (HData KMessage 30) V5 = Ok [94; 30]
  /\ chdr_write (HData KSnapshotDelta 256) V5 = Ok [127; 0; 1]
  /\ chdr_read V3 [130; 9] = (Ok (Some (HTick (TDelta 2) false, [9])), [])
  /\ write_tick (Some 5) false 5 = Panic site_tick_order
  /\ (let w := fst (fst (write_snap (osize_of []) hwriter_new 5 [])) in
      hw_last_tick w = 5 /\ write_snap (osize_of []) w 5 [] = (w, [], Err HTooLowTickNumber))
  /\ (let ops := [HSnap 3 [(Snap.Ordinal 5, 1, [1; 2; 3]); (Snap.Uuid 1000, 0, [9])];
                  HSnap 3 []; HMsg [7; 8];
                  HSnap 4 [(Snap.Uuid 77, 0, [4; 4]); (Snap.Ordinal 5, 1, [1; 2; 4])]] in
      forallb hop_typed_ok ops = true
      /\ snd (hrun (osize_of [(5, 3)]) hwriter_new ops) = [Ok tt; Err HTooLowTickNumber; Ok tt; Ok tt]
      /\ expected (osize_of [(5, 3)]) hwriter_new ops
         = [HCTick 3; HCSnapshot [(Snap.Ordinal 5, 1, [1; 2; 3]); (Snap.Uuid 1000, 0, [9])];
            HCMessage [7; 8; 0; 0];
            HCTick 4; HCSnapshot [(Snap.Ordinal 5, 1, [1; 2; 4]); (Snap.Uuid 77, 0, [4; 4])]]).
Proof. vm_compute. repeat split. Qed.

Print Assumptions C15_raw.
Print Assumptions C15_header.
Print Assumptions C15_chunk_header.
Print Assumptions C15_tick_encoding.
Print Assumptions C15_chunk.
Print Assumptions C15_K15_refuted.
Print Assumptions C15_K15H_refuted.
Print Assumptions C15_refuse_tick.
Print Assumptions C15_accept_tick.
Print Assumptions C15_raw_tick_panics.
Print Assumptions C15_transport.
Print Assumptions C15_typed.
Print Assumptions C15_K15W_refuted.
Print Assumptions C15_nonvacuous.

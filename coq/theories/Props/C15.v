(* C15 - a recorded demo plays back what was recorded (work in progress: pipeline skeleton) *)
From LibTw2 Require Import Base.Res Model.Demo.
From Coq Require Import ZArith List.
Open Scope Z_scope.

Example C15_nonvacuous : pad4 [1; 2; 3; 4; 5] = [1; 2; 3; 4; 5; 0; 0; 0].
Proof. reflexivity. Qed.

Print Assumptions C15_nonvacuous.

(* C02 (0.6), progress at the level of the link: once the network stops misbehaving and both
   applications flush / tick when their deadlines have passed, every submitted vital chunk is
   delivered and acknowledged and nothing stays queued -- within three ticks.

   The world is the two-endpoint link of C01 (Model/Link6.v: two conn6 endpoints, the datagrams in
   flight, ghost histories l_sub / l_del). For EVERY state w of the link that satisfies the C01
   invariant (so in particular every state reachable by an admissible history), in which both ends
   are online with the same token and the random streams are usable, there is a finite schedule
   `heal_schedule na nb dt1 n1 dt2 n2 dt3 n3` (Proofs/Link6Heal.v):

     A flushes;  the network loses the na + nb datagrams in flight (the misbehaving prefix ends);
     [time passes until A's deadlines have run out; A ticks; A flushes]; A's n1 datagrams arrive, oldest first, each once;
     [the same for B];                                                    B's n2 datagrams arrive;
     [the same for A];                                                    A's n3 datagrams arrive

   that is a legal continuation (admissible_run), contains no send / connect / disconnect, and ends
   in the quiescent state: both histories complete (l_del = l_sub of the peer), both ends online
   with empty resend queues, empty packets under construction, no pending resend request, nothing in
   flight. *)
From LibTw2 Require Import Base.Res Model.PacketTypes Model.ConnCore Model.Conn6 Model.LinkGhost Model.Link6
  Proofs.ConnCoreInv Proofs.Conn6Inv Proofs.LinkArith Proofs.LinkCore Proofs.Link6Inv Proofs.ConnProgress
  Proofs.Link6Heal Proofs.Link6Tok.
From Coq Require Import ZArith List Lia.
Open Scope Z_scope.

(* the schedule, explicitly *)
Theorem C02_heal_schedule6 : forall w oa ob,
  link_inv w -> c_state (l_conn (k_a w)) = Online oa -> c_state (l_conn (k_b w)) = Online ob ->
  o_own oa = o_own ob ->
  rand_ok {| e_now := k_now w; e_rand := l_rand (k_a w) |} ->
  rand_ok {| e_now := k_now w; e_rand := l_rand (k_b w) |} ->
  exists na nb dt1 n1 dt2 n2 dt3 n3 w' oa' ob',
    0 <= dt1 /\ 0 <= dt2 /\ 0 <= dt3 /\
    admissible_run w (heal_schedule na nb dt1 n1 dt2 n2 dt3 n3) /\
    link_run w (heal_schedule na nb dt1 n1 dt2 n2 dt3 n3) = Ok w' /\ link_inv w' /\
    l_sub (k_a w') = l_sub (k_a w) /\ l_sub (k_b w') = l_sub (k_b w) /\
    l_del (k_b w') = l_sub (k_a w') /\ l_del (k_a w') = l_sub (k_b w') /\
    c_state (l_conn (k_a w')) = Online oa' /\ c_state (l_conn (k_b w')) = Online ob' /\
    o_queue oa' = [] /\ o_queue ob' = [] /\
    pc_chunks (o_packet oa') = [] /\ pc_chunks (o_packet ob') = [] /\
    o_rr oa' = false /\ o_rr ob' = false /\ k_ab w' = [] /\ k_ba w' = [].
Proof. exact heal_link. Qed.

(* the quiescent state *)
Definition quiescent (w : link) : Prop :=
  l_del (k_b w) = l_sub (k_a w) /\ l_del (k_a w) = l_sub (k_b w) /\
  k_ab w = [] /\ k_ba w = [] /\
  exists oa ob, c_state (l_conn (k_a w)) = Online oa /\ c_state (l_conn (k_b w)) = Online ob /\
    o_queue oa = [] /\ o_queue ob = [] /\ pc_chunks (o_packet oa) = [] /\ pc_chunks (o_packet ob) = [] /\
    o_rr oa = false /\ o_rr ob = false.

(* ... in the form of the property: a legal continuation made of ticks, flushes, time and the
   network only (heal_label), at most three ticks, losses only in the prefix and afterwards every
   datagram leaves the network by being delivered, oldest first (orderly) *)
Theorem C02_heal6 : forall w oa ob,
  link_inv w -> c_state (l_conn (k_a w)) = Online oa -> c_state (l_conn (k_b w)) = Online ob ->
  o_own oa = o_own ob ->
  rand_ok {| e_now := k_now w; e_rand := l_rand (k_a w) |} ->
  rand_ok {| e_now := k_now w; e_rand := l_rand (k_b w) |} ->
  exists ls w',
    admissible_run w ls /\ Forall heal_label ls /\ (ticks ls <= 3)%nat /\
    (exists na nb post, ls = [LApp SA OpFlush] ++ drops SA na ++ drops SB nb ++ post /\ orderly post) /\
    link_run w ls = Ok w' /\ link_inv w' /\
    l_sub (k_a w') = l_sub (k_a w) /\ l_sub (k_b w') = l_sub (k_b w) /\ quiescent w'.
Proof.
  intros w oa ob Hi Ha Hb Ht Hra Hrb.
  destruct (heal_link w oa ob Hi Ha Hb Ht Hra Hrb)
    as [na [nb [dt1 [n1 [dt2 [n2 [dt3 [n3 [w' [oa' [ob' [D1 [D2 [D3 [Hadm [Hrun [Hi' [Sa [Sb [Db [Da [Oa [Ob [Qa [Qb [Pa [Pb [Ra [Rb [Ba Bb]]]]]]]]]]]]]]]]]]]]]]]]]]]]]].
  exists (heal_schedule na nb dt1 n1 dt2 n2 dt3 n3), w'.
  split; [exact Hadm|]. split; [apply heal_labels; assumption|]. split; [rewrite ticks_heal; lia|].
  split.
  { destruct (heal_schedule_shape na nb dt1 n1 dt2 n2 dt3 n3) as [post [E Ho]]. exists na, nb, post. split; assumption. }
  split; [exact Hrun|]. split; [exact Hi'|]. split; [exact Sa|]. split; [exact Sb|].
  unfold quiescent. split; [exact Db|]. split; [exact Da|]. split; [exact Ba|]. split; [exact Bb|].
  exists oa', ob'. repeat split; assumption.
Qed.

(* ... and for every reachable state: any admissible history of the link that leaves both ends online
   (with usable random streams) can be continued by a healing schedule; the whole history is
   admissible and ends quiescent *)
Lemma admissible_run_app l1 : forall w w1 l2, admissible_run w l1 -> link_run w l1 = Ok w1 ->
  admissible_run w1 l2 -> admissible_run w (l1 ++ l2).
Proof.
  induction l1 as [|l l1 IH]; intros w w1 l2 H1 R1 H2; cbn [app admissible_run link_run] in *.
  - injection R1 as <-. exact H2.
  - destruct H1 as [Hl H1]. split; [exact Hl|]. destruct (link_step w l) as [wm| | |]; try exact I.
    eapply IH; eassumption.
Qed.
Lemma link_run_app l1 : forall w w1 l2, link_run w l1 = Ok w1 -> link_run w (l1 ++ l2) = link_run w1 l2.
Proof.
  induction l1 as [|l l1 IH]; intros w w1 l2 R1; cbn [app link_run] in *.
  - injection R1 as <-. reflexivity.
  - destruct (link_step w l) as [wm| | |]; try discriminate. eapply IH, R1.
Qed.

(* both ends of a reachable link use the same token (the acceptor draws it once, the connector
   learns it from the ConnectAccept): the hypothesis `o_own oa = o_own ob` above is an invariant *)
Theorem C02_tokens_agree6 : forall ra rb ls w oa ob,
  admissible_run (link_new ra rb) ls -> link_run (link_new ra rb) ls = Ok w ->
  c_state (l_conn (k_a w)) = Online oa -> c_state (l_conn (k_b w)) = Online ob -> o_own oa = o_own ob.
Proof. exact tokens_agree. Qed.

Theorem C02_heal_reachable6 : forall ra rb ls0 w oa ob,
  admissible_run (link_new ra rb) ls0 -> link_run (link_new ra rb) ls0 = Ok w ->
  c_state (l_conn (k_a w)) = Online oa -> c_state (l_conn (k_b w)) = Online ob ->
  rand_ok {| e_now := k_now w; e_rand := l_rand (k_a w) |} ->
  rand_ok {| e_now := k_now w; e_rand := l_rand (k_b w) |} ->
  exists ls w',
    admissible_run (link_new ra rb) (ls0 ++ ls) /\ link_run (link_new ra rb) (ls0 ++ ls) = Ok w' /\
    Forall heal_label ls /\ (ticks ls <= 3)%nat /\
    (exists na nb post, ls = [LApp SA OpFlush] ++ drops SA na ++ drops SB nb ++ post /\ orderly post) /\
    l_sub (k_a w') = l_sub (k_a w) /\ l_sub (k_b w') = l_sub (k_b w) /\ quiescent w'.
Proof.
  intros ra rb ls0 w oa ob Hadm Hrun Ha Hb Hra Hrb.
  pose proof (tokens_agree ra rb ls0 w oa ob Hadm Hrun Ha Hb) as Ht.
  destruct (link_run_inv ls0 _ (link_new_inv ra rb) Hadm) as [w0 [Hrun0 Hi]].
  rewrite Hrun in Hrun0. injection Hrun0 as <-.
  destruct (C02_heal6 w oa ob Hi Ha Hb Ht Hra Hrb) as [ls [w' [A [L [T [S [R [_ [Sa [Sb Q]]]]]]]]]].
  exists ls, w'. split; [eapply admissible_run_app; eassumption|].
  split; [rewrite (link_run_app ls0 _ w ls Hrun); exact R|].
  repeat (split; [assumption|]). exact Q.
Qed.

(* non-vacuity: a concrete history -- handshake, one chunk delivered, then two chunks of A and one
   of B submitted and flushed while the network delivers nothing -- ends in a state that meets every
   hypothesis of the theorems above and is far from quiescent: unacknowledged chunks in both resend
   queues, datagrams in flight, histories incomplete *)
Definition heal_demo : list llabel :=
  [ LApp SA OpConnect; LDeliver SA 0; LDeliver SB 0;
    LApp SA (OpSend [11] true); LApp SA OpFlush; LDeliver SA 2;       (* B is online, has [11] *)
    LApp SA (OpSend [22] true); LApp SA (OpSend [33] true); LApp SA OpFlush;   (* lost *)
    LApp SB (OpSend [44] true); LApp SB OpFlush;                      (* lost *)
    LTime 300000 ].
Definition heal_demo_start : link := link_new [[9; 9; 9; 9]] [[1; 2; 3; 4]; [5; 6; 7; 8]].

Example C02_heal_nonvacuous :
  exists w oa ob,
    admissible_run heal_demo_start heal_demo /\ link_run heal_demo_start heal_demo = Ok w /\
    link_inv w /\ c_state (l_conn (k_a w)) = Online oa /\ c_state (l_conn (k_b w)) = Online ob /\
    o_own oa = o_own ob /\
    rand_ok {| e_now := k_now w; e_rand := l_rand (k_a w) |} /\
    rand_ok {| e_now := k_now w; e_rand := l_rand (k_b w) |} /\
    length (o_queue oa) = 3%nat /\ length (o_queue ob) = 1%nat /\
    l_sub (k_a w) = [[11]; [22]; [33]] /\ l_del (k_b w) = [[11]] /\
    l_sub (k_b w) = [[44]] /\ l_del (k_a w) = [] /\ length (k_ab w) = 4%nat /\ length (k_ba w) = 2%nat.
Proof.
  assert (Hadm : admissible_run heal_demo_start heal_demo) by (apply admissible_runb_ok; vm_compute; reflexivity).
  destruct (link_run_inv heal_demo _ (link_new_inv _ _) Hadm) as [w [Hrun Hi]].
  exists w. pose proof Hrun as Hrun'. vm_compute in Hrun'. injection Hrun' as Hw.
  rewrite <- Hw in *. clear Hw.
  eexists _, _. split; [exact Hadm|]. split; [exact Hrun|]. split; [exact Hi|].
  split; [reflexivity|]. split; [reflexivity|]. split; [reflexivity|].
  split; [apply rand_okb_ok; reflexivity|]. split; [apply rand_okb_ok; reflexivity|].
  repeat split.
Qed.


(* ... and the schedule computed for that state: 4 + 2 datagrams lost; A resends after 0.7 s (one
   datagram), B resends at once (one datagram), A sends a keep-alive 0.5 s later; the link is
   quiescent 1.2 s after the network has healed *)
Example C02_heal_demo_run :
  admissible_run heal_demo_start (heal_demo ++ heal_schedule 4 2 700000 1 0 1 500000 1) /\
  match link_run heal_demo_start (heal_demo ++ heal_schedule 4 2 700000 1 0 1 500000 1) with
  | Ok w =>
    l_del (k_b w) = [[11]; [22]; [33]] /\ l_del (k_a w) = [[44]] /\ k_ab w = [] /\ k_ba w = [] /\
    k_now w = 1500000 /\
    match c_state (l_conn (k_a w)), c_state (l_conn (k_b w)) with
    | Online oa, Online ob =>
      o_queue oa = [] /\ o_queue ob = [] /\ o_packet oa = pc_empty /\ o_packet ob = pc_empty /\
      o_rr oa = false /\ o_rr ob = false
    | _, _ => False
    end
  | _ => False
  end.
Proof.
  split; [apply admissible_runb_ok; vm_compute; reflexivity|].
  vm_compute. repeat split.
Qed.

Print Assumptions C02_heal_schedule6.
Print Assumptions C02_heal6.
Print Assumptions C02_tokens_agree6.
Print Assumptions C02_heal_reachable6.
Print Assumptions C02_heal_nonvacuous.
Print Assumptions C02_heal_demo_run.

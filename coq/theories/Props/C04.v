(* C04 -- everything the connection layer sends is well-formed; bad sends are refused;
   no sequence of valid API calls panics. Stated over ALL histories (run6 / run7 fold the
   step function over an arbitrary list of labels). `dgram_ok` is the well-formedness of an
   emitted datagram at the level of packet values: ack and sequence numbers in range, chunk
   count equal to the number of chunks carried and at most 255, every chunk within the size
   field, encoded size at most 1400 bytes; Props/C05 turns that into "the library's own reader
   returns the same value without a warning". *)
From LibTw2 Require Import Base.Res Model.PacketTypes Model.ConnCore Model.Conn6 Model.Conn7
  Proofs.ConnCoreInv Proofs.Conn6Inv Proofs.Conn7Inv Proofs.ConnBytes6 Model.Packet6 Model.PacketInst
  Proofs.Packet6Chunks.
From Coq Require Import ZArith List.
Open Scope Z_scope.

Theorem C04_all_histories6 : forall ls e, valid_run6 conn6_new e ls ->
  exists c' e' ds, run6 conn6_new e ls = Ok (c', e', ds)       (* no Panic, no OutOfFuel *)
    /\ conn_ok6 c' /\ Forall (dgram_ok params6) ds.
Proof. intros ls e Hv. exact (run_ok6 ls conn6_new e conn6_new_ok Hv). Qed.

Theorem C04_all_histories7 : forall ls e, valid_run7 conn7_new e ls ->
  exists c' e' ds, run7 conn7_new e ls = Ok (c', e', ds)
    /\ conn_ok7 c' /\ Forall (dgram_ok params7) ds.
Proof. intros ls e Hv. exact (run_ok7 ls conn7_new e conn7_new_ok Hv). Qed.

(* one step from any state satisfying the invariant (used for new_accept_token states as well) *)
Theorem C04_step6 : forall c e o, conn_ok6 c -> valid_op6 c e o ->
  exists out, step c e o = Ok out /\ conn_ok6 (out_conn out) /\ Forall (dgram_ok params6) (out_sent out).
Proof. exact step_ok6. Qed.
Theorem C04_step7 : forall c e o, conn_ok7 c -> valid_op7 c e o ->
  exists out, step7 c e o = Ok out /\ conn_ok7 (out7_conn out) /\ Forall (dgram_ok params7) (out7_sent out).
Proof. exact step7_ok. Qed.

(* ... and at the byte level (0.6): every datagram emitted along any valid history, once its payloads
   are byte strings, is written by the library's own Packet::write (Model/Packet6.v, tied to
   protocol.rs by property C05/C06's correspondence) into at most 1400 bytes which Packet::read --
   told the true token mode -- returns as the same value with NO warning, and whose chunks the chunk
   iterator yields bit-identical, in order, with the announced count and no warning *)
Theorem C04_bytes6 : forall ls e c' e' ds d p, valid_run6 conn6_new e ls ->
  run6 conn6_new e ls = Ok (c', e', ds) -> In d ds -> dgram_bytes_ok d = true -> encode6 d = Some p ->
  exists out,
    write6_tw p 1400 = Ok out /\ (length out <= 1400)%nat
    /\ (exists views, read6_tw out (true_hint6 p) 1400 = ([], Ok (p, views)))
    /\ match d with
       | DChunks _ _ _ n cs =>
         exists cvs it', chunks_iter_all6 (flat_map chunk_enc6 cs) n = Ok (cvs, [], it') /\ map fst cvs = cs
       | _ => True
       end.
Proof.
  intros ls e c' e' ds d p Hv Hr Hin Hb He.
  destruct (run_ok6 ls conn6_new e conn6_new_ok Hv) as [c2 [e2 [ds2 [H [_ Hds]]]]].
  rewrite Hr in H. injection H as <- <- <-. rewrite Forall_forall in Hds.
  exact (emitted_reads_back6 d p (Hds d Hin) Hb He).
Qed.

(* a payload that cannot be carried is refused and the connection is untouched *)
Theorem C04_refusal6 : forall c e on data vital,
  c_state c = Online on ->
  MAX_PAYLOAD < Z.of_nat (length data) \/ 1024 <= Z.of_nat (length data) ->
  step c e (OpSend data vital) = Ok (mk c e [] [] [] RTooLongData).
Proof. exact refusal6. Qed.
Theorem C04_refusal7 : forall c e on data vital,
  c7_state c = Online7 on -> MAX_PAYLOAD < Z.of_nat (length data) ->
  step7 c e (Op7Send data vital) = Ok (mk7 c e [] [] [] R7TooLongData).
Proof. exact refusal7. Qed.

(* non-vacuity: a concrete valid history (client side: connect, accepted, 300 tiny chunks queued
   without a flush, a flush) runs through and emits two datagrams, the first carrying 255 chunks *)
Definition tiny_sends (n : nat) : list label6 := repeat (LOp (OpSend [7] false)) n.
Definition demo_history : list label6 :=
  [LOp OpConnect; LOp (OpFeed (DControl (Some [9;9;9;9]) 0 ConnectAccept))] ++ tiny_sends 300 ++ [LOp OpFlush].
Example C04_nonvacuous :
  match run6 conn6_new {| e_now := 0; e_rand := [] |} demo_history with
  | Ok (_, _, ds) => map (fun d => match d with DChunks _ _ _ n cs => (n, Z.of_nat (length cs)) | _ => (0, 0) end) ds
                     = [(0, 0); (0, 0); (255, 255); (45, 45)]
  | _ => False
  end.
Proof. vm_compute. reflexivity. Qed.

Print Assumptions C04_all_histories6.
Print Assumptions C04_all_histories7.
Print Assumptions C04_bytes6.
Print Assumptions C04_step6.
Print Assumptions C04_step7.
Print Assumptions C04_refusal6.
Print Assumptions C04_refusal7.
Print Assumptions C04_nonvacuous.

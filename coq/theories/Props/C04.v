(* C04 -- placeholder while the proofs are being written *)
From LibTw2 Require Import Model.Conn6.

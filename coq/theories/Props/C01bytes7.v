(* C01 over BYTES, Teeworlds 0.7: vital chunks are delivered exactly once, in order,
   uncorrupted, when what the network loses, duplicates, reorders and delays is the byte strings
   that PacketBuilder::send really hands to the socket. Twin of Props/C01bytes.v.
   Model/LinkBytes7.v is the link of Model/Link7.v with byte strings in the two bags: every
   datagram an endpoint emits goes through the packet writer model (Packet::write into 1400
   bytes, Huffman coder of Model/PacketInst.v), every delivery goes through the packet reader
   model and then into Connection::feed (feed_bytes7). This file transports the statements of
   Props/C01v7.v to that link.
   Extra assumption over Props/C01v7.v: what the application submits and the random tokens are
   byte strings (the model keeps bytes as Z). *)
From LibTw2 Require Import Base.Res Model.PacketTypes Model.ConnCore Model.Conn7 Model.LinkGhost Model.Link7
  Model.LinkBytes7 Proofs.Conn7Inv Proofs.ConnInert Proofs.LinkArith Proofs.Link7Inv
  Proofs.LinkBytes7Wire Proofs.LinkBytes7Sim.
From Coq Require Import ZArith List Lia.
Open Scope Z_scope.

(* (1) the byte-level link and the abstract link run in lockstep on every admissible history:
   neither fails, the endpoint states and ghost histories are the same, and the byte bags are
   the abstract bags pushed through the writer, datagram by datagram (each at most 1400 bytes) *)
Theorem C01_bytes_simulation7 : forall ra rb ls,
  tokens_bytes7 ra -> tokens_bytes7 rb -> Forall bytes_label7 ls ->
  admissible_run7 (link7_new ra rb) ls ->
  exists w wb,
    link_run7 (link7_new ra rb) ls = Ok w /\
    link_bytes_run7 (link_bytes7_new ra rb) ls = Ok wb /\
    kb7_a wb = k7_a w /\ kb7_b wb = k7_b w /\ kb7_now wb = k7_now w /\
    kb7_ab wb = map wire_flight_of7 (k7_ab w) /\ kb7_ba wb = map wire_flight_of7 (k7_ba w) /\
    Forall (fun f => exists bs, wire7 (f_d f) = Ok bs /\ (length bs <= 1400)%nat) (k7_ab w ++ k7_ba w).
Proof.
  intros ra rb ls Hra Hrb Hbl Ha.
  destruct (link_bytes_run_sim7 ls _ _ (link7_new_inv ra rb) (link7_new_wire ra rb Hra Hrb) (link7_new_sim ra rb) Ha Hbl)
    as (w & wb & E1 & E2 & _ & _ & (Sa & Sb & Sn & Sab & Sba)).
  destruct (flight_sim7_map _ _ Sab) as [Mab Fab]. destruct (flight_sim7_map _ _ Sba) as [Mba Fba].
  exists w, wb. repeat (split; [assumption|]). apply Forall_app. split; assumption.
Qed.

(* the property's assumptions can be stated on the byte-level link alone (the freshness
   condition reads the chunks out of the bytes with the reader): that is the same as the
   abstract history being admissible and the application data being bytes *)
Theorem C01_bytes_admissible7 : forall ra rb ls, tokens_bytes7 ra -> tokens_bytes7 rb ->
  (admissible_bytes_run7 (link_bytes7_new ra rb) ls <->
   admissible_run7 (link7_new ra rb) ls /\ Forall bytes_label7 ls).
Proof.
  intros ra rb ls Hra Hrb.
  exact (admissible_bytes_run7_iff ls _ _ (link7_new_inv ra rb) (link7_new_wire ra rb Hra Hrb) (link7_new_sim ra rb)).
Qed.

(* every admissible byte-level history runs through, in lockstep with an abstract one *)
Lemma bytes_run_inv7 ra rb ls : tokens_bytes7 ra -> tokens_bytes7 rb ->
  admissible_bytes_run7 (link_bytes7_new ra rb) ls ->
  exists w wb, link_bytes_run7 (link_bytes7_new ra rb) ls = Ok wb /\ link_inv7 w /\
    kb7_a wb = k7_a w /\ kb7_b wb = k7_b w.
Proof.
  intros Hra Hrb Hab. apply (C01_bytes_admissible7 ra rb ls Hra Hrb) in Hab as [Ha Hbl].
  destruct (link_bytes_run_sim7 ls _ _ (link7_new_inv ra rb) (link7_new_wire ra rb Hra Hrb) (link7_new_sim ra rb) Ha Hbl)
    as (w & wb & E1 & E2 & Hinv & _ & (Sa & Sb & _)).
  exists w, wb. split; [exact E2|]. split; [exact Hinv|]. split; assumption.
Qed.

Lemma to_nat_zlen7b {A} (l : list A) : Z.to_nat (zlen l) = length l.
Proof. unfold zlen. apply Nat2Z.id. Qed.

(* (2) the statements of Props/C01v7.v on the byte-level link, for every admissible history:
   what the receiving application was handed is a prefix of what the sending application
   submitted -- nothing skipped, duplicated, reordered or altered -- in both directions *)
Theorem C01_bytes_prefix7 : forall ra rb ls, tokens_bytes7 ra -> tokens_bytes7 rb ->
  admissible_bytes_run7 (link_bytes7_new ra rb) ls ->
  exists wb, link_bytes_run7 (link_bytes7_new ra rb) ls = Ok wb /\
    l7_del (kb7_b wb) = firstn (length (l7_del (kb7_b wb))) (l7_sub (kb7_a wb)) /\
    l7_del (kb7_a wb) = firstn (length (l7_del (kb7_a wb))) (l7_sub (kb7_b wb)).
Proof.
  intros ra rb ls Hra Hrb Hab.
  destruct (bytes_run_inv7 ra rb ls Hra Hrb Hab) as (w & wb & E & [HA [HB _]] & Sa & Sb).
  exists wb. split; [exact E|]. rewrite Sa, Sb. split.
  - rewrite <- to_nat_zlen7b. exact (sv7_prefix _ _ _ _ _ HB).
  - rewrite <- to_nat_zlen7b. exact (sv7_prefix _ _ _ _ _ HA).
Qed.

(* non-vital chunks that are delivered are chunks that were really sent *)
Theorem C01_bytes_nonvital_genuine7 : forall ra rb ls, tokens_bytes7 ra -> tokens_bytes7 rb ->
  admissible_bytes_run7 (link_bytes7_new ra rb) ls ->
  exists wb, link_bytes_run7 (link_bytes7_new ra rb) ls = Ok wb /\
    incl (l7_nvr (kb7_b wb)) (l7_nvs (kb7_a wb)) /\ incl (l7_nvr (kb7_a wb)) (l7_nvs (kb7_b wb)).
Proof.
  intros ra rb ls Hra Hrb Hab.
  destruct (bytes_run_inv7 ra rb ls Hra Hrb Hab) as (w & wb & E & [HA [HB _]] & Sa & Sb).
  exists wb. split; [exact E|]. rewrite Sa, Sb.
  split; [exact (sv7_nvr _ _ _ _ _ HB)|exact (sv7_nvr _ _ _ _ _ HA)].
Qed.

(* 'ready' is reported at most once, and never before the accepting side has answered *)
Theorem C01_bytes_ready7 : forall ra rb ls, tokens_bytes7 ra -> tokens_bytes7 rb ->
  admissible_bytes_run7 (link_bytes7_new ra rb) ls ->
  exists wb, link_bytes_run7 (link_bytes7_new ra rb) ls = Ok wb /\
    0 <= l7_ready (kb7_a wb) <= 1 /\ 0 <= l7_ready (kb7_b wb) <= 1 /\
    (1 <= l7_ready (kb7_a wb) -> l7_answered (kb7_b wb) = true) /\
    (1 <= l7_ready (kb7_b wb) -> l7_answered (kb7_a wb) = true).
Proof.
  intros ra rb ls Hra Hrb Hab.
  destruct (bytes_run_inv7 ra rb ls Hra Hrb Hab) as (w & wb & E & [HA [HB _]] & Sa & Sb).
  exists wb. split; [exact E|]. rewrite Sa, Sb.
  split; [exact (sv7_ready _ _ _ _ _ HA)|]. split; [exact (sv7_ready _ _ _ _ _ HB)|].
  split; [exact (sv7_ans _ _ _ _ _ HA)|exact (sv7_ans _ _ _ _ _ HB)].
Qed.

(* (3) corruption, partial: the property's quantifier is about loss, duplication, reordering and
   delay, not corruption; what the existing inertness result (inert7_bytes, C03) gives for a
   datagram whose bytes the network replaced ARBITRARILY: once the receiver's own token is fixed,
   unless the reader still finds exactly that token in the bytes (or the bytes are the
   documented token-request exception, or a connectionless packet with both tokens right),
   delivering them changes nothing at all -- same endpoint, same histories, nothing emitted.
   NOT covered: corrupted bytes that keep the token. *)
Theorem C01_bytes_corruption7_partial : forall wb from bs t,
  let x := getb7 wb (other7 from) in
  token_fixed7 (l7_conn x) t -> bytes_ok bs = true ->
  carried_token7 bs <> Some t -> token_request_exception7 (l7_conn x) bs = false ->
  connless_tokens_right7 (l7_conn x) bs = false ->
  bside_finish7 x None (feed_bytes7 (l7_conn x) {| e_now := kb7_now wb; e_rand := l7_rand x |} bs) = Ok (x, []).
Proof. intros wb from bs t x. apply bside_finish7_inert. reflexivity. Qed.

(* (4) a concrete byte-level history: the full token handshake, a vital chunk, a duplicate
   delivery; the bytes in flight at the end (nothing was dropped). The first datagram is the
   519-byte token request (header, TOKEN, own token, 507 zero bytes). *)
Definition demo_bytes_trace7 : list llabel7 :=
  [ L7App SA7 Op7Connect;                        (* A: token request (header token NONE) *)
    L7Deliver SA7 0;                             (* B draws its token and answers with TokenMsg *)
    L7Deliver SB7 0;                             (* A learns B's token and sends Connect *)
    L7Deliver SA7 1;                             (* B: Connect -> Pending, emits Accept *)
    L7Deliver SB7 1;                             (* A: Accept -> online, Ready *)
    L7App SA7 (Op7Send [11; 12; 13] true); L7App SA7 Op7Flush;
    L7Deliver SA7 2; L7Deliver SA7 2 ].          (* the chunk datagram arrives twice *)

Example C01_bytes_example7 :
  admissible_bytes_run7 (link_bytes7_new [[9; 9; 9; 9]; [8; 8; 8; 8]] [[1; 2; 3; 4]; [5; 6; 7; 8]]) demo_bytes_trace7 /\
  match link_bytes_run7 (link_bytes7_new [[9; 9; 9; 9]; [8; 8; 8; 8]] [[1; 2; 3; 4]; [5; 6; 7; 8]]) demo_bytes_trace7 with
  | Ok wb =>
    map (fun bf => length (bf7_bytes bf)) (kb7_ab wb) = [519; 12; 13]%nat /\
    map bf7_bytes (skipn 1 (kb7_ab wb)) =
      [ [4; 0; 0; 1; 2; 3; 4; 1; 9; 9; 9; 9];                 (* control, token 01020304, Connect, own token *)
        [0; 0; 1; 1; 2; 3; 4; 64; 3; 1; 11; 12; 13] ] /\      (* 1 chunk, token; vital, size 3, seq 1, data *)
    map bf7_bytes (kb7_ba wb) =
      [ [4; 0; 0; 9; 9; 9; 9; 5; 1; 2; 3; 4];                 (* control, token 09090909, Token, own token *)
        [4; 0; 0; 9; 9; 9; 9; 2] ] /\                         (* control, token 09090909, Accept *)
    l7_sub (kb7_a wb) = [[11; 12; 13]] /\ l7_del (kb7_b wb) = [[11; 12; 13]] /\
    l7_ready (kb7_a wb) = 1 /\ l7_answered (kb7_b wb) = true
  | _ => False
  end.
Proof.
  split.
  - apply C01_bytes_admissible7; try (apply tokens_bytesb7_ok; vm_compute; reflexivity).
    split; [apply admissible_runb_ok7; vm_compute; reflexivity|apply bytes_labelb7_ok; vm_compute; reflexivity].
  - vm_compute. repeat split.
Qed.

Print Assumptions C01_bytes_simulation7.
Print Assumptions C01_bytes_admissible7.
Print Assumptions C01_bytes_prefix7.
Print Assumptions C01_bytes_nonvital_genuine7.
Print Assumptions C01_bytes_ready7.
Print Assumptions C01_bytes_corruption7_partial.
Print Assumptions C01_bytes_example7.

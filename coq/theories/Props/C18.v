(* C18 — server-info parsing is total; merging parts is order-free and idempotent.
   Only the property theorems (about Model/ServerBrowse.v), each closed by lemmas of
   Proofs/ServerBrowse*.v, with the axioms they depend on printed.

   Reading guide for the merge theorems (definitions in Proofs/ServerBrowseMerge.v):
     parts            the PartialServerInfo values parsed from the datagrams of ONE info
     same_info parts  same token and (multi-part) version; masks of different parts disjoint; a part
                      with an empty mask has no client; the main parts agree on the header and the
                      non-main parts agree on the header (64-player legacy: all parts agree)
     o : list nat     an order = non-empty list of indices into parts, repetitions allowed
     merged rep parts o   first part = initial state, the others merged in with
                      PartialServerInfo::merge (rep = false: the code as it is; rep = true: with the
                      repair `self.received |= other.received`); None if any merge returns Err
     received_clients parts o   the clients of every part that occurs in o, each part once
     has_repeat o     class K18: some part occurs twice in o *)
From LibTw2 Require Import Base.Res Model.Varint Model.Packer Model.ServerBrowse
  Proofs.VarintProofs Proofs.ServerBrowseTotal Proofs.ServerBrowseSort Proofs.ServerBrowseMerge
  Proofs.ServerBrowseParse Proofs.ServerBrowseParts.
From Coq Require Import ZArith List Sorting.Permutation Sorting.Sorted.
Open Scope Z_scope.

(* For every byte string (shorter than 2^31) every parser returns a value or nothing: no
   panic site of the model is reachable and no loop runs out of fuel; merge has no panic site;
   get_info / take_info panic only on more than i32::MAX collected clients (`assert_i32`). *)
Theorem C18_total : forall bs, datagram_ok bs = true ->
  ok_or_err (parse_response bs)
  /\ (forall k, ok_or_err (parse_info k bs))
  /\ (forall r k payload, parse_response bs = Ok r -> response_info r = Some (k, payload) ->
        ok_or_err (parse_info k payload))
  /\ ok_or_err (parse_list5 bs) /\ ok_or_err (parse_list6 bs)
  /\ ok_or_err (parse_count bs) /\ ok_or_err (parse_token7 bs)
  /\ (forall a b, ok_or_err (snd (merge a b)))
  /\ (forall p, Z.of_nat (length (i_clients (p_info p))) <= i32_max ->
        ok_or_err (get_info p) /\ ok_or_err (take_info p)).
Proof.
  intros bs H. split; [apply parse_response_total|].
  split; [intros k; apply parse_info_total, H|].
  split; [intros r k payload; apply response_info_total, H|].
  split; [destruct (parse_list5_ok bs) as [l ->]; exact I|].
  split; [destruct (parse_list6_ok bs) as [l ->]; exact I|].
  split; [apply parse_count_total|]. split; [apply parse_token7_total|].
  split; [intros a b; apply merge_total|]. intros p; apply get_info_total.
Qed.

(* The code as it is: two orders WITHOUT a repeated part that cover the same set of parts never
   fail to merge and end with the same header, the same clients up to their order and the same
   answer from get_info (which sorts). *)
Theorem C18_merge_order_free : forall parts o1 o2, same_info parts = true ->
  order_ok parts o1 = true -> order_ok parts o2 = true -> same_set o1 o2 = true ->
  has_repeat o1 = false -> has_repeat o2 = false ->
  exists s1 s2, merged false parts o1 = Some s1 /\ merged false parts o2 = Some s2
    /\ hdr s1 = hdr s2 /\ Permutation (cl s1) (cl s2)
    /\ info_of (get_info s1) = info_of (get_info s2).
Proof.
  intros parts o1 o2 Hs H1 H2 Hset Hr1 Hr2.
  destruct (merge_order_free parts Hs false o1 o2 H1 H2 Hset (fun _ => conj Hr1 Hr2))
    as (s1 & s2 & A & B & C & D & _ & E).
  exists s1, s2. repeat split; assumption.
Qed.

(* The code as it is, orders without a repeated part: get_info is Some exactly when the parts
   merged carry as many clients as the info announces (pm: any part of a 64-player legacy info,
   the main part of an extended info), and the info handed out then has the announcing part's
   header and lists exactly the received clients, each part's clients once, sorted; take_info
   hands out the same info. *)
Theorem C18_complete_iff : forall parts o m pm, same_info parts = true ->
  order_ok parts o = true -> has_repeat o = false ->
  In m o -> nth_error parts m = Some pm -> (ver pm = V6Ex -> is_main pm = true) ->
  Z.of_nat (length (received_clients parts o)) <= i32_max ->
  exists st, merged false parts o = Some st /\
    match get_info st with
    | Ok (i, st') =>
      Z.of_nat (length (received_clients parts o)) = i_num_clients (p_info pm)
      /\ i_clients i = sort_clients (received_clients parts o)
      /\ Permutation (i_clients i) (received_clients parts o)
      /\ set_clients i [] = hdr pm
      /\ take_info st = Ok (i, {| p_info := default_info; p_received := u64_ones |})
    | Err _ => Z.of_nat (length (received_clients parts o)) <> i_num_clients (p_info pm)
    | _ => False
    end.
Proof.
  intros parts o m pm Hs Ho Hr. exact (merge_complete_iff parts Hs false o m pm Ho (fun _ => Hr)).
Qed.

(* What "announced" means before the main part of an extended info has arrived (code as it is,
   not a repair): the state then carries the default header of a `more` part, which announces 0
   clients, so get_info is Some exactly when the `more` parts merged so far carry no client at all
   (real servers never send such a part); with at least one client it stays None until the main
   part arrives, and then C18_complete_iff applies. *)
Theorem C18_complete_without_main : forall parts o m pm, same_info parts = true ->
  order_ok parts o = true -> has_repeat o = false ->
  In m o -> nth_error parts m = Some pm ->
  (forall j pj, In j o -> nth_error parts j = Some pj -> is_main pj = false) ->
  hdr pm = more_hdr (tok pm) ->
  Z.of_nat (length (received_clients parts o)) <= i32_max ->
  exists st, merged false parts o = Some st /\
    (is_ok (get_info st) = true <-> received_clients parts o = []).
Proof.
  intros parts o m pm Hs Ho Hr Hm Hpm Hnomain Hh Hlen.
  destruct (merge_complete_gen parts Hs false o m pm Ho (fun _ => Hr) Hm Hpm) as [st [Hmg Hg]].
  { intros j pj Hj Hpj Hmain. rewrite (Hnomain j pj Hj Hpj) in Hmain. discriminate. }
  { exact Hlen. }
  exists st. split; [exact Hmg|].
  assert (Hz : i_num_clients (p_info pm) = 0).
  { change (i_num_clients (hdr pm) = 0). rewrite Hh. reflexivity. }
  rewrite Hz in Hg.
  destruct (get_info st) as [[i st']| | |]; cbn [is_ok]; try contradiction.
  - destruct Hg as (Hn & _). split; [intros _|reflexivity].
    destruct (received_clients parts o); [reflexivity|cbn [length] in Hn; lia].
  - split; [discriminate|]. intros E. rewrite E in Hg. cbn [length] in Hg. contradiction Hg. reflexivity.
Qed.

(* the documented sort: a permutation of the input, sorted by derive(Ord), and canonical *)
Theorem C18_sort : forall l l',
  Permutation (sort_clients l) l /\ StronglySorted cle (sort_clients l)
  /\ (Permutation l l' -> sort_clients l = sort_clients l').
Proof.
  intros l l'. split; [apply sort_clients_perm|]. split; [apply sort_clients_sorted|apply sort_clients_canonical].
Qed.

(* Whatever datagram the three partial parsers accept, the PartialServerInfo they hand to merge
   meets the per-part conditions of same_info: a multi-part version; no client without a bit in the
   mask; an extended main part has mask 1; a `more` part has the one bit of its packet number
   1..63, is not a main part and has the default header with its token (so all `more` parts with
   the same token agree on the header). *)
Theorem C18_parsed_parts : forall k bs p, is_partial_kind k = true -> parse_info k bs = Ok p ->
  is_multipart (ver p) = true /\ part_wf p = true
  /\ match k with
     | K664 => ver p = V664 /\ is_main p = false
     | K6Ex => ver p = V6Ex /\ p_received p = 1 /\ is_main p = true
     | K6ExMore => ver p = V6Ex /\ is_main p = false /\ hdr p = more_hdr (tok p)
                   /\ exists n, 1 <= n < 64 /\ p_received p = Z.shiftl 1 n
     | _ => True
     end.
Proof. exact parsed_part_wf. Qed.

(* info_read_int_v5 is str::parse::<i32>: an optional sign, at least one ASCII digit, the decimal
   value, None outside the i32 range (so "", "-", "+", "2147483648", "1x" are None, "-2147483648",
   "+7", "-0", "007" are values); such a text is ASCII, so the from_utf8 check never rejects it. *)
Theorem C18_parse_i32 : forall s,
  parse_i32 s =
  match s with
  | [] => None
  | c :: r =>
    let '(neg, ds) := if c =? 45 then (true, r) else if c =? 43 then (false, r) else (false, s) in
    match ds with
    | [] => None
    | _ => if forallb is_digit ds then
             let v := if neg then - digits_value 0 ds else digits_value 0 ds in
             if is_i32 v then Some v else None
           else None
    end
  end.
Proof. exact parse_i32_decimal. Qed.

(* truncated_arraystring: a prefix of at most cap bytes cut at a character boundary, the whole
   string if it fits; ArrayString::push_str never overflows *)
Theorem C18_truncation : forall cap s,
  exists k, truncated_arraystring cap s = Ok (firstn k s) /\ (k <= cap)%nat
    /\ is_char_boundary s k = true /\ ((length s <= cap)%nat -> firstn k s = s).
Proof. exact truncated_arraystring_spec. Qed.

(* ---------- a concrete 3-part extended info, parsed by the model from its datagrams ---------- *)

(* "7" "v" "n" "m" "1" "2" "g" "0" | 0/3 players 3/3 clients | "" | client "a" "" 0 0 player "" *)
Definition ex_main : bytes :=
  [55;0; 118;0; 110;0; 109;0; 49;0; 50;0; 103;0; 48;0; 48;0; 51;0; 51;0; 51;0; 0;
   97;0; 0; 48;0; 48;0; 49;0; 0].
(* "7" packet 1 "" | client "b" *)
Definition ex_more1 : bytes := [55;0; 49;0; 0; 98;0; 0; 48;0; 48;0; 49;0; 0].
(* "7" packet 2 "" | client "c" *)
Definition ex_more2 : bytes := [55;0; 50;0; 0; 99;0; 0; 48;0; 48;0; 49;0; 0].

Definition ex_parts : list psi :=
  match parse_info K6Ex ex_main, parse_info K6ExMore ex_more1, parse_info K6ExMore ex_more2 with
  | Ok a, Ok b, Ok c => [a; b; c]
  | _, _, _ => []
  end.

Definition summary (r : option psi) : option (nat * Z * bool) :=
  match r with
  | Some s => Some (length (cl s), p_received s, is_ok (get_info s))
  | None => None
  end.

Definition recv_of (r : res unit psi) : option Z :=
  match r with Ok p => Some (p_received p) | _ => None end.

(* K18 (known finding): with the code as it is a repeated part is not recognised. Order 0,1,2 is
   complete (3 clients); order 0,1,1,2 covers the same parts but lists client "b" twice and is
   not complete — and `received` is still only the mask of the main part. *)
Theorem K18_refuted : exists parts o1 o2,
  same_info parts = true /\ order_ok parts o1 = true /\ order_ok parts o2 = true
  /\ same_set o1 o2 = true /\ has_repeat o1 = false /\ has_repeat o2 = true
  /\ exists s1 s2, merged false parts o1 = Some s1 /\ merged false parts o2 = Some s2
     /\ is_ok (get_info s1) = true /\ get_info s2 = Err tt
     /\ length (cl s2) = S (length (cl s1)) /\ p_received s2 = 1.
Proof.
  exists ex_parts, [0; 1; 2]%nat, [0; 1; 1; 2]%nat.
  repeat (split; [vm_compute; reflexivity|]).
  eexists. eexists. split; [vm_compute; reflexivity|]. split; [vm_compute; reflexivity|].
  repeat split; vm_compute; reflexivity.
Qed.

(* ---------- what the one-line repair `self.received |= other.received` establishes ---------- *)

(* any two orders, with any repetition, that cover the same set of parts *)
Theorem C18_repaired_merge_order_free : forall parts o1 o2, same_info parts = true ->
  order_ok parts o1 = true -> order_ok parts o2 = true -> same_set o1 o2 = true ->
  exists s1 s2, merged true parts o1 = Some s1 /\ merged true parts o2 = Some s2
    /\ hdr s1 = hdr s2 /\ Permutation (cl s1) (cl s2) /\ p_received s1 = p_received s2
    /\ info_of (get_info s1) = info_of (get_info s2).
Proof.
  intros parts o1 o2 Hs H1 H2 Hset.
  destruct (merge_order_free parts Hs true o1 o2 H1 H2 Hset) as (s1 & s2 & A & B & C & D & E & F);
    [intros X; discriminate X|].
  specialize (E eq_refl). exists s1, s2. repeat split; assumption.
Qed.

Theorem C18_repaired_complete_iff : forall parts o m pm, same_info parts = true ->
  order_ok parts o = true ->
  In m o -> nth_error parts m = Some pm -> (ver pm = V6Ex -> is_main pm = true) ->
  Z.of_nat (length (received_clients parts o)) <= i32_max ->
  exists st, merged true parts o = Some st /\
    match get_info st with
    | Ok (i, st') =>
      Z.of_nat (length (received_clients parts o)) = i_num_clients (p_info pm)
      /\ i_clients i = sort_clients (received_clients parts o)
      /\ Permutation (i_clients i) (received_clients parts o)
      /\ set_clients i [] = hdr pm
      /\ take_info st = Ok (i, {| p_info := default_info; p_received := u64_ones |})
    | Err _ => Z.of_nat (length (received_clients parts o)) <> i_num_clients (p_info pm)
    | _ => False
    end.
Proof.
  intros parts o m pm Hs Ho. apply (merge_complete_iff parts Hs true o m pm Ho). intros X; discriminate X.
Qed.

(* non-vacuity: the three datagrams parse, the family meets same_info, orders with and without a
   repeated part meet the hypotheses, and the theorems' conclusions are the concrete values *)
Example C18_nonvacuous :
  datagram_ok ex_main = true /\ length ex_parts = 3%nat /\ same_info ex_parts = true
  /\ map is_main ex_parts = [true; false; false] /\ map p_received ex_parts = [1; 2; 4]
  /\ order_ok ex_parts [2; 0; 1]%nat = true /\ same_set [0; 1; 2]%nat [2; 0; 1]%nat = true
  /\ has_repeat [2; 0; 1]%nat = false
  /\ summary (merged false ex_parts [0; 1; 2]%nat) = Some (3%nat, 1, true)
  /\ summary (merged false ex_parts [2; 0; 1]%nat) = Some (3%nat, 1, true)
  /\ summary (merged false ex_parts [2; 1]%nat) = Some (2%nat, 2, false)
  (* a repeated part: recognised only with the repair *)
  /\ has_repeat [1; 2; 2; 0; 1; 0]%nat = true /\ same_set [0; 1; 2]%nat [1; 2; 2; 0; 1; 0]%nat = true
  /\ summary (merged true ex_parts [1; 2; 2; 0; 1; 0]%nat) = Some (3%nat, 7, true)
  /\ summary (merged true ex_parts [0; 1; 2]%nat) = Some (3%nat, 7, true)
  /\ summary (merged false ex_parts [1; 2; 2; 0; 1; 0]%nat) = Some (4%nat, 1, false)
  (* the repaired bounds of defect #19: packet number 64 is refused, not shifted *)
  /\ parse_info K6ExMore [55;0; 54;52;0; 0] = Err tt
  /\ recv_of (parse_info K6ExMore [55;0; 54;51;0; 0]) = Some 9223372036854775808
  (* str::parse::<i32> and the truncation at a character boundary ("aé" into one byte of room) *)
  /\ map parse_i32 [[45;50;49;52;55;52;56;51;54;52;56]; [50;49;52;55;52;56;51;54;52;56]; [43;55]; [45]; []; [48;48;55]; [49;120]]
     = [Some (-2147483648); None; Some 7; None; None; Some 7; None]
  /\ truncated_arraystring 2 [97; 195; 169] = Ok [97].
Proof. vm_compute. repeat split; reflexivity. Qed.

Print Assumptions C18_total.
Print Assumptions C18_merge_order_free.
Print Assumptions C18_complete_iff.
Print Assumptions C18_complete_without_main.
Print Assumptions C18_sort.
Print Assumptions C18_parsed_parts.
Print Assumptions C18_parse_i32.
Print Assumptions C18_truncation.
Print Assumptions K18_refuted.
Print Assumptions C18_repaired_merge_order_free.
Print Assumptions C18_repaired_complete_iff.
Print Assumptions C18_nonvacuous.

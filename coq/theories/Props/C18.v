From LibTw2 Require Import Base.Res Model.ServerBrowse.
Open Scope Z_scope.
Example C18_nonvacuous : parse_response [] = Err tt.
Proof. reflexivity. Qed.
Print Assumptions C18_nonvacuous.

(* C06 -- the packet reader is total and stays inside its buffers; what it accepts can be
   written again and is read back as the same value. Models: Model/Packet6.v (0.6 / DDNet),
   Model/Packet7.v (0.7) over the generated header functions. `bs` ranges over ALL byte strings
   (bytes_ok: every element in 0..255), the token hint over None / Some true / Some false, the
   scratch capacity over everything >= MAX_PACKETSIZE. The Huffman decoder is an arbitrary
   function in the totality theorems; the bounds theorem assumes it respects its capacity. *)
From LibTw2 Require Import Base.Res Model.PacketTypes Model.PacketBase.
From LibTw2 Require Gen.Consts6 Gen.Bits6 Gen.Consts7 Gen.Bits7 Model.Packet6 Model.Packet7.
From LibTw2 Require Proofs.Packet6Chunks Proofs.Packet7Chunks Proofs.Packet6Total Proofs.Packet7Total Proofs.PktToy.
From LibTw2 Require Model.PacketInst Proofs.PacketInstProofs.
From Coq Require Import ZArith List.
Open Scope Z_scope.

Definition no_panic {E A} (r : res E A) : Prop :=
  match r with Ok _ | Err _ => True | Panic _ | OutOfFuel => False end.

(* ---- Packet::read never panics and never runs out of (structural) fuel ---- *)
Theorem C06_total6 : forall (decomp : Packet6.HuffC) bs hint cap,
  bytes_ok bs = true -> (1400 <= cap)%nat -> no_panic (snd (Packet6.read6 decomp bs hint cap)).
Proof.
  intros decomp bs hint cap Hb Hc.
  pose proof (Packet6Total.read6_good decomp bs hint cap None Hb Hc I) as H.
  unfold Packet6Total.good_result6 in H. unfold no_panic.
  destruct (snd (Packet6.read6 decomp bs hint cap)) as [[p vs]|e|s|]; auto.
Qed.

Theorem C06_total7 : forall (decomp : Packet7.HuffC7) bs cap,
  bytes_ok bs = true -> (1400 <= cap)%nat -> no_panic (snd (Packet7.read7 decomp bs cap)).
Proof.
  intros decomp bs cap Hb Hc.
  pose proof (Packet7Total.read7_good decomp bs cap None Hb Hc I) as H.
  unfold Packet7Total.good_result7 in H. unfold no_panic.
  destruct (snd (Packet7.read7 decomp bs cap)) as [[p vs]|e|s|]; auto.
Qed.

(* the contract of the scratch buffer: fewer than MAX_PACKETSIZE bytes trips the assert *)
Theorem C06_small_scratch_panics : forall decomp bs hint cap, (cap < 1400)%nat ->
  Packet6.read6 decomp bs hint cap = ([], Panic Packet6.site6_read_small_buffer)
  /\ Packet7.read7 decomp bs cap = ([], Panic Packet7.site7_read_small_buffer).
Proof.
  intros decomp bs hint cap Hc. unfold Packet6.read6, Packet6.read_impl6, Packet7.read7, Packet7.read_impl7.
  replace (Z.of_nat cap <? Consts6.MAX_PACKETSIZE) with true
    by (symmetry; apply Z.ltb_lt; unfold Consts6.MAX_PACKETSIZE; apply Nat2Z.inj_lt in Hc; exact Hc).
  replace (Z.of_nat cap <? Consts7.MAX_PACKETSIZE) with true
    by (symmetry; apply Z.ltb_lt; unfold Consts7.MAX_PACKETSIZE; apply Nat2Z.inj_lt in Hc; exact Hc).
  split; reflexivity.
Qed.

(* ---- the other entry points: decompress_if_needed is total as well; read_panic_on_decompression
   panics exactly where its name says (a compressed, connected datagram), nowhere else ---- *)
Theorem C06_other_entry_points : forall (decomp : Packet6.HuffC) bs hint cap,
  bytes_ok bs = true -> (1400 <= cap)%nat ->
  no_panic (Packet6.decompress_if_needed6 decomp bs cap)
  /\ no_panic (Packet7.decompress_if_needed7 decomp bs cap)
  /\ match snd (Packet6.read_nodecomp6 bs hint) with
     | Panic s => s = Packet6.site6_read_no_buffer /\ Packet6.needs_decompression6 bs = true
     | OutOfFuel => False
     | _ => True
     end
  /\ match snd (Packet7.read_nodecomp7 bs) with
     | Panic s => s = Packet7.site7_read_no_buffer /\ Packet7.needs_decompression7 bs = true
     | OutOfFuel => False
     | _ => True
     end.
Proof.
  intros decomp bs hint cap Hb Hc. split; [|split; [|split]].
  - pose proof (Packet6Total.decompress_if_needed6_total decomp bs cap Hb Hc) as H.
    unfold no_panic. destruct (Packet6.decompress_if_needed6 decomp bs cap); auto.
  - pose proof (Packet7Total.decompress_if_needed7_total decomp bs cap Hb Hc) as H.
    unfold no_panic. destruct (Packet7.decompress_if_needed7 decomp bs cap); auto.
  - exact (Packet6Total.read_nodecomp6_spec bs hint Hb).
  - exact (Packet7Total.read_nodecomp7_spec bs Hb).
Qed.

(* ---- every returned view lies inside the input or inside the scratch buffer, and the
   returned value is inside the size limits of the writer ---- *)
Theorem C06_views_in_bounds6 : forall (decomp : Packet6.HuffC) bs hint cap ws p vs,
  (forall y c d, decomp y c = Some d -> (length d <= c)%nat /\ bytes_ok d = true) ->
  bytes_ok bs = true -> (1400 <= cap)%nat ->
  Packet6.read6 decomp bs hint cap = (ws, Ok (p, vs)) ->
  Forall (Packet6Total.view_ok (length bs) (Some cap)) vs /\ Packet6.expressible6 p = true
  /\ Packet6.packet_bytes_ok6 p = true.
Proof.
  intros decomp bs hint cap ws p vs Hd Hb Hc E.
  pose proof (Packet6Total.read6_good decomp bs hint cap (Some cap) Hb Hc (conj eq_refl Hd)) as H.
  rewrite E in H. unfold Packet6Total.good_result6 in H. cbn [snd] in H. destruct H as (Hx & Hv & [Hn|Hpb]); [discriminate Hn|].
  split; [|split]; assumption.
Qed.

Theorem C06_views_in_bounds7 : forall (decomp : Packet7.HuffC7) bs cap ws p vs,
  (forall y c d, decomp y c = Some d -> (length d <= c)%nat /\ bytes_ok d = true) ->
  bytes_ok bs = true -> (1400 <= cap)%nat ->
  Packet7.read7 decomp bs cap = (ws, Ok (p, vs)) ->
  Forall (Packet7Total.view_ok (length bs) (Some cap)) vs /\ Packet7.expressible7 p = true
  /\ Packet7.packet_bytes_ok7 p = true.
Proof.
  intros decomp bs cap ws p vs Hd Hb Hc E.
  pose proof (Packet7Total.read7_good decomp bs cap (Some cap) Hb Hc (conj eq_refl Hd)) as H.
  rewrite E in H. unfold Packet7Total.good_result7 in H. cbn [snd] in H. destruct H as (Hx & Hv & [Hn|Hpb]); [discriminate Hn|].
  split; [|split]; assumption.
Qed.

(* ---- the chunk iterator: never panics, at most length/2 chunks, every chunk is a slice of
   the payload (ANY list of numbers as payload, any announced chunk count >= 0); the bound on
   the length is where the i32 counter of the iterator would wrap (2^31 bytes) ---- *)
Theorem C06_chunks_total6 : forall payload n, 0 <= n -> Z.of_nat (length payload) <= 2147483648 ->
  exists cs ws it', Packet6.chunks_iter_all6 payload n = Ok (cs, ws, it')
    /\ (length cs <= length payload / 2)%nat
    /\ Forall (Packet6Chunks.chunk_in payload) cs
    /\ Packet6.ci6_data it' = [].
Proof. exact Packet6Chunks.chunks_total6. Qed.

Theorem C06_chunks_total7 : forall payload n, 0 <= n -> Z.of_nat (length payload) <= 2147483648 ->
  exists cs ws it', Packet7.chunks_iter_all7 payload n = Ok (cs, ws, it')
    /\ (length cs <= length payload / 2)%nat
    /\ Forall (Packet7Chunks.chunk_in payload) cs
    /\ Packet7.ci7_data it' = [].
Proof. exact Packet7Chunks.chunks_total7. Qed.

(* ---- accept => rewrite: outside class K06 (0.7 also K06T) ---- *)
Theorem C06_accept_rewrite6 : forall (comp decomp : Packet6.HuffC),
  (forall x c y, bytes_ok x = true -> comp x c = Some y -> forall c', (length x <= c')%nat -> decomp y c' = Some x) ->
  (forall y c d, decomp y c = Some d -> (length d <= c)%nat /\ bytes_ok d = true) ->
  forall bs hint cap ws p vs, bytes_ok bs = true -> (1400 <= cap)%nat ->
  Packet6.read6 decomp bs hint cap = (ws, Ok (p, vs)) -> Packet6.K06_6 p = false ->
  forall cap', (1400 <= cap')%nat ->
  exists out, Packet6.write6 comp p cap' = Ok out /\ (length out <= 1400)%nat
    /\ exists ws' vs', Packet6.read6 decomp out (Packet6.true_hint6 p) cap = (ws', Ok (p, vs')).
Proof.
  intros comp decomp Hrt Hd bs hint cap ws p vs Hb Hc E Hk cap' Hc'.
  exact (Packet6Total.accept_rewrite6 comp decomp Hrt Hd bs hint cap ws p vs Hb Hc E Hk cap' Hc').
Qed.

Theorem C06_accept_rewrite7 : forall (comp decomp : Packet7.HuffC7),
  (forall x c y, bytes_ok x = true -> comp x c = Some y -> forall c', (length x <= c')%nat -> decomp y c' = Some x) ->
  (forall y c d, decomp y c = Some d -> (length d <= c)%nat /\ bytes_ok d = true) ->
  forall bs cap ws p vs, bytes_ok bs = true -> (1400 <= cap)%nat ->
  Packet7.read7 decomp bs cap = (ws, Ok (p, vs)) -> Packet7.K06_7 p = false -> Packet7.K06T_7 p = false ->
  forall cap', (1400 <= cap')%nat ->
  exists out, Packet7.write7 comp p cap' = Ok out /\ (length out <= 1400)%nat
    /\ exists ws' vs', Packet7.read7 decomp out cap = (ws', Ok (p, vs')).
Proof.
  intros comp decomp Hrt Hd bs cap ws p vs Hb Hc E Hk Hkt cap' Hc'.
  exact (Packet7Total.accept_rewrite7 comp decomp Hrt Hd bs cap ws p vs Hb Hc E Hk Hkt cap' Hc').
Qed.

(* ---- the same with the model of the real coder over the built-in table: its round trip, its
   capacity bound and the byte-ness of its output are theorems (PacketInstProofs), so nothing is
   assumed about the coder any more ---- *)
Theorem C06_accept_rewrite6_huffman : forall bs hint cap ws p vs, bytes_ok bs = true -> (1400 <= cap)%nat ->
  PacketInst.read6_tw bs hint cap = (ws, Ok (p, vs)) -> Packet6.K06_6 p = false ->
  forall cap', (1400 <= cap')%nat ->
  exists out, PacketInst.write6_tw p cap' = Ok out /\ (length out <= 1400)%nat
    /\ exists ws' vs', PacketInst.read6_tw out (Packet6.true_hint6 p) cap = (ws', Ok (p, vs')).
Proof. exact (C06_accept_rewrite6 PacketInst.tw_comp PacketInst.tw_decomp PacketInstProofs.tw_rt PacketInstProofs.tw_ok). Qed.

Theorem C06_accept_rewrite7_huffman : forall bs cap ws p vs, bytes_ok bs = true -> (1400 <= cap)%nat ->
  PacketInst.read7_tw bs cap = (ws, Ok (p, vs)) -> Packet7.K06_7 p = false -> Packet7.K06T_7 p = false ->
  forall cap', (1400 <= cap')%nat ->
  exists out, PacketInst.write7_tw p cap' = Ok out /\ (length out <= 1400)%nat
    /\ exists ws' vs', PacketInst.read7_tw out cap = (ws', Ok (p, vs')).
Proof. exact (C06_accept_rewrite7 PacketInst.tw_comp PacketInst.tw_decomp PacketInstProofs.tw_rt PacketInstProofs.tw_ok). Qed.

Theorem C06_views_in_bounds_huffman :
  (forall bs hint cap ws p vs, bytes_ok bs = true -> (1400 <= cap)%nat ->
     PacketInst.read6_tw bs hint cap = (ws, Ok (p, vs)) ->
     Forall (Packet6Total.view_ok (length bs) (Some cap)) vs /\ Packet6.expressible6 p = true
     /\ Packet6.packet_bytes_ok6 p = true)
  /\ (forall bs cap ws p vs, bytes_ok bs = true -> (1400 <= cap)%nat ->
     PacketInst.read7_tw bs cap = (ws, Ok (p, vs)) ->
     Forall (Packet7Total.view_ok (length bs) (Some cap)) vs /\ Packet7.expressible7 p = true
     /\ Packet7.packet_bytes_ok7 p = true).
Proof.
  split.
  - intros bs hint cap ws p vs. exact (C06_views_in_bounds6 PacketInst.tw_decomp bs hint cap ws p vs PacketInstProofs.tw_ok).
  - intros bs cap ws p vs. exact (C06_views_in_bounds7 PacketInst.tw_decomp bs cap ws p vs PacketInstProofs.tw_ok).
Qed.

(* ---- the known-finding classes are real: the reader accepts such a value, the writer does
   not write it (for every coder, every capacity) ---- *)
Theorem C06_K06_refuted :
  (exists bs p ws vs, bytes_ok bs = true
     /\ Packet6.read6 (fun _ _ => None) bs None 1400 = (ws, Ok (p, vs)) /\ Packet6.K06_6 p = true
     /\ forall comp cap, Packet6.write6 comp p cap = Err Consts6.WE6TooLongData)
  /\ (exists bs p ws vs, bytes_ok bs = true
     /\ Packet7.read7 (fun _ _ => None) bs 1400 = (ws, Ok (p, vs)) /\ Packet7.K06_7 p = true
     /\ forall comp cap, Packet7.write7 comp p cap = Err Consts7.WE7TooLongData).
Proof.
  split.
  - destruct Packet6Total.K06_accepted6 as (bs & p & ws & vs & Hb & Hr & Hk).
    exists bs, p, ws, vs. repeat split; try assumption.
    intros comp cap. apply Packet6Total.K06_refused6. exact Hk.
  - destruct Packet7Total.K06_accepted7 as (bs & p & ws & vs & Hb & Hr & Hk).
    exists bs, p, ws, vs. repeat split; try assumption.
    intros comp cap. apply Packet7Total.K06_refused7. exact Hk.
Qed.

Theorem C06_K06T_refuted :
  exists bs p ws vs, bytes_ok bs = true
    /\ Packet7.read7 (fun _ _ => None) bs 1400 = (ws, Ok (p, vs)) /\ Packet7.K06T_7 p = true
    /\ forall comp cap, (8 <= cap)%nat -> Packet7.write7 comp p cap = Panic Packet7.site7_response_token_none.
Proof.
  exists [4; 0; 0; 1; 2; 3; 4; 1; 255; 255; 255; 255]. eexists. eexists. eexists.
  split; [vm_compute; reflexivity|]. split; [vm_compute; reflexivity|]. split; [vm_compute; reflexivity|].
  intros comp cap Hc. apply Packet7Total.K06T_panics7; [reflexivity|reflexivity|exact Hc].
Qed.

Example C06_nonvacuous :
  (forall y c d, PktToy.toy_decomp y c = Some d -> (length d <= c)%nat /\ bytes_ok d = true)
  /\ bytes_ok [16; 0; 0; 4; 97; 98; 0; 1; 2; 3; 4] = true
  /\ Packet6.read6 PktToy.toy_decomp [16; 0; 0; 4; 97; 98; 0; 1; 2; 3; 4] None 1400
     = ([], Ok (P6Connected 0 (Some [1; 2; 3; 4]) (P6Control (C6Close [97; 98])),
                [{| v_src := Input; v_off := 4; v_len := 2 |}]))
  /\ Packet6.read6 PktToy.toy_decomp [128; 0; 1; 200] (Some false) 1400
     = ([], Ok (P6Connected 0 None (P6Chunks false 1 (repeat 0 200%nat)),
                [{| v_src := Scratch; v_off := 3; v_len := 200 |}]))
  /\ snd (Packet6.read6 PktToy.toy_decomp [128; 0; 1; 255; 255] (Some false) 1400) = Err Consts6.E6Compression
  /\ Packet7.read7 PktToy.toy_decomp [0; 0; 1; 9; 9; 9; 9; 0; 16; 1; 2] 1400
     = ([], Ok (P7Connected 0 [9; 9; 9; 9] (P7Chunks false 1 [0; 16; 1; 2]),
                [{| v_src := Input; v_off := 7; v_len := 4 |}]))
  /\ Packet7.chunks_iter_all7 [0; 2; 1; 2; 64; 1; 7; 5] 2
     = Ok ([({| ch_data := [1; 2]; ch_vital := None |}, {| v_src := Input; v_off := 2; v_len := 2 |});
            ({| ch_data := [5]; ch_vital := Some (7, false) |}, {| v_src := Input; v_off := 7; v_len := 1 |})],
           [], {| Packet7.ci7_data := []; Packet7.ci7_pos := 8; Packet7.ci7_remaining := 0; Packet7.ci7_checked := true |}).
Proof. split; [exact PktToy.toy_ok|]. vm_compute. repeat split. Qed.

Print Assumptions C06_total6.
Print Assumptions C06_total7.
Print Assumptions C06_small_scratch_panics.
Print Assumptions C06_other_entry_points.
Print Assumptions C06_views_in_bounds6.
Print Assumptions C06_views_in_bounds7.
Print Assumptions C06_chunks_total6.
Print Assumptions C06_chunks_total7.
Print Assumptions C06_accept_rewrite6.
Print Assumptions C06_accept_rewrite7.
Print Assumptions C06_accept_rewrite6_huffman.
Print Assumptions C06_accept_rewrite7_huffman.
Print Assumptions C06_views_in_bounds_huffman.
Print Assumptions C06_K06_refuted.
Print Assumptions C06_K06T_refuted.
Print Assumptions C06_nonvacuous.

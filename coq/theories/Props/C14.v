(* C14 — generated message and object codecs match the protocol descriptions. *)
From LibTw2 Require Import Base.Res Model.Varint Model.Packer Model.Codec Proofs.CodecMatch.
From LibTw2 Require Gen.Rs_tw05 Gen.Spec_tw05 Gen.Rs_tw06 Gen.Spec_tw06 Gen.Rs_tw07 Gen.Spec_tw07
  Gen.Rs_ddnet Gen.Spec_ddnet.
From Coq Require Import ZArith List String.
Open Scope Z_scope.

Theorem C14_codecs_match_tw05 :
  Rs_tw05.codecs = Spec_tw05.codecs /\ Rs_tw05.objs = Spec_tw05.objs
  /\ Rs_tw05.codec_names = Spec_tw05.codec_names /\ Rs_tw05.obj_names = Spec_tw05.obj_names.
Proof. apply tables_match_nil. vm_compute. reflexivity. Qed.

Print Assumptions C14_codecs_match_tw05.

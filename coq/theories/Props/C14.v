(* C14 — generated message and object codecs match the protocol descriptions.

   Rs_<proto>   : the codec tables read off the generated Rust (gamenet/<proto>/src)
   Spec_<proto> : the codec tables derived from gamenet/generate/spec/<proto>.json alone
   Model/Codec.v: one interpreter giving every table entry its meaning (tied to the real
                  crates by the correspondence run of ./check).
   This file holds only the property theorems, each closed by lemmas from Proofs/Codec*.v. *)
From LibTw2 Require Import Base.Res Model.Varint Model.Packer Model.Codec
  Proofs.VarintProofs Proofs.CodecMatch Proofs.CodecDecode Proofs.CodecEncode Proofs.CodecTotal
  Proofs.CodecReject Proofs.CodecObj Proofs.CodecMsg Proofs.CodecAll.
From LibTw2 Require Gen.Rs_tw05 Gen.Spec_tw05 Gen.Rs_tw06 Gen.Spec_tw06 Gen.Rs_tw07 Gen.Spec_tw07
  Gen.Rs_ddnet Gen.Spec_ddnet.
From Coq Require Import ZArith List String Lia.
Open Scope Z_scope.

(* ---- 1. every generated codec is the described one (re-decided on every run; a failure
        prints the names of the codecs that differ) ---- *)

Theorem C14_codecs_match_tw05 :
  Rs_tw05.codecs = Spec_tw05.codecs /\ Rs_tw05.objs = Spec_tw05.objs
  /\ Rs_tw05.codec_names = Spec_tw05.codec_names /\ Rs_tw05.obj_names = Spec_tw05.obj_names.
Proof. apply tables_match_nil. vm_compute. reflexivity. Qed.

Theorem C14_codecs_match_tw06 :
  Rs_tw06.codecs = Spec_tw06.codecs /\ Rs_tw06.objs = Spec_tw06.objs
  /\ Rs_tw06.codec_names = Spec_tw06.codec_names /\ Rs_tw06.obj_names = Spec_tw06.obj_names.
Proof. apply tables_match_nil. vm_compute. reflexivity. Qed.

Theorem C14_codecs_match_tw07 :
  Rs_tw07.codecs = Spec_tw07.codecs /\ Rs_tw07.objs = Spec_tw07.objs
  /\ Rs_tw07.codec_names = Spec_tw07.codec_names /\ Rs_tw07.obj_names = Spec_tw07.obj_names.
Proof. apply tables_match_nil. vm_compute. reflexivity. Qed.

Theorem C14_codecs_match_ddnet :
  Rs_ddnet.codecs = Spec_ddnet.codecs /\ Rs_ddnet.objs = Spec_ddnet.objs
  /\ Rs_ddnet.codec_names = Spec_ddnet.codec_names /\ Rs_ddnet.obj_names = Spec_ddnet.obj_names.
Proof. apply tables_match_nil. vm_compute. reflexivity. Qed.

(* ---- 2. every generated codec is well-formed, and no dispatcher has two arms for one id ---- *)

Theorem C14_wf_all :
  forallb wf_codec all_codecs = true /\ forallb wf_ocodec all_objs = true
  /\ ids_unique Rs_tw05.codecs = true /\ ids_unique Rs_tw06.codecs = true
  /\ ids_unique Rs_tw07.codecs = true /\ ids_unique Rs_ddnet.codecs = true
  /\ all_codecs <> [] /\ all_objs <> [].
Proof. vm_compute. repeat split; discriminate. Qed.

(* ---- 3. round trip, for EVERY well-formed codec and EVERY described value ---- *)

(* the canonical bytes decode to the value, without warnings (demo framing or not), and the
   generated encode writes exactly the canonical bytes — or reports CapacityError, exactly when
   they do not fit *)
Theorem C14_roundtrip : forall c demo vs cap, wf_codec c = true -> well_typed (c_dec c) vs = true ->
  decode c demo (canonical c vs) = Ok (vs, [])
  /\ encode c vs cap = if (List.length (canonical c vs) <=? cap)%nat then Ok (canonical c vs) else Err CapacityErr.
Proof.
  intros c demo vs cap Hwf Ht. destruct (wf_parts c Hwf) as [Hm [Hl [He _]]]. split.
  - apply decode_canonical; assumption.
  - apply encode_canonical; assumption.
Qed.

(* the same through the dispatchers: id in front (ordinal << 1 | sys, or sys-flag + UUID, or the
   8-byte connless id), table lookup, body *)
Theorem C14_msg_roundtrip : forall tbl c demo vs cap, ids_unique tbl = true -> In c tbl ->
  wf_codec c = true -> well_typed (c_dec c) vs = true ->
  match c_kind c with
  | KSystem => decode_sysgame tbl true demo (canonical_msg c vs) = (Ok (c, vs), [])
  | KGame => decode_sysgame tbl false demo (canonical_msg c vs) = (Ok (c, vs), [])
  | KConnless => decode_connless tbl demo (canonical_msg c vs) = (Ok (c, vs), [])
  | KObjMsg => True
  end
  /\ (c_kind c <> KObjMsg ->
      encode_msg c vs cap =
      if (List.length (canonical_msg c vs) <=? cap)%nat then Ok (canonical_msg c vs) else Err CapacityErr).
Proof.
  intros tbl c demo vs cap Hu Hin Hwf Ht. split.
  - destruct (c_kind c) eqn:Ek; [| | |exact I].
    + pose proof (decode_sysgame_canonical tbl c demo vs Hu Hin Hwf (or_introl Ek) Ht) as H.
      unfold is_sys in H. rewrite Ek in H. exact H.
    + pose proof (decode_sysgame_canonical tbl c demo vs Hu Hin Hwf (or_intror Ek) Ht) as H.
      unfold is_sys in H. rewrite Ek in H. exact H.
    + exact (decode_connless_canonical tbl c demo vs Hu Hin Hwf Ek Ht).
  - intros Hk. apply encode_msg_canonical; assumption.
Qed.

(* instantiated: every generated (= described, by 1.) codec round-trips *)
Theorem C14_generated_roundtrip : forall c, In c all_codecs -> forall demo vs cap,
  well_typed (c_dec c) vs = true ->
  decode c demo (canonical c vs) = Ok (vs, [])
  /\ encode c vs cap = if (List.length (canonical c vs) <=? cap)%nat then Ok (canonical c vs) else Err CapacityErr.
Proof.
  intros c Hin demo vs cap Ht. apply C14_roundtrip; [|exact Ht].
  destruct C14_wf_all as [H _]. rewrite forallb_forall in H. apply H, Hin.
Qed.

(* ---- 4. a violated constraint is rejected, with the error of the violated member ---- *)

(* members pre are described values, member m has the right shape but breaks its constraint
   (out-of-range / negative / below-minimum / non-boolean int, unknown enum value, control
   character in a strict string, text that is not an i32): the decoder fails with that error,
   whatever follows *)
Theorem C14_rejects : forall c demo pre m post vs v e tail, c_dec c = pre ++ m :: post ->
  forallb mop_ok pre = true -> no_rest pre = true -> well_typed pre vs = true ->
  violation m v = Some e -> bytes_ok tail = true ->
  decode c demo (enc_values pre vs ++ raw_value m v ++ tail) = Err e.
Proof. exact rejects. Qed.

(* input that ends in front of a member that must read, or inside a fixed-size raw member
   (uuid, sha256, u8, be_u16) *)
Theorem C14_rejects_short : forall c demo pre m post vs r, c_dec c = pre ++ m :: post ->
  forallb mop_ok pre = true -> no_rest pre = true -> well_typed pre vs = true -> mop_ok m = true ->
  short_for m r = true -> bytes_ok r = true ->
  decode c demo (enc_values pre vs ++ r) = Err UnexpectedEnd.
Proof. exact rejects_short. Qed.

(* ---- 5. decoding is total: a value or an error, on every byte string / word list ---- *)

Theorem C14_total :
  (forall c demo bs, forallb mop_ok (c_dec c) = true -> ok_or_err (decode c demo bs))
  /\ (forall tbl sys demo bs, tbl_ok tbl = true -> ok_or_err (fst (decode_sysgame tbl sys demo bs)))
  /\ (forall tbl demo bs, tbl_ok tbl = true -> ok_or_err (fst (decode_connless tbl demo bs)))
  /\ (forall tbl id ws, ok_or_err (fst (decode_snap_obj tbl id ws)))
  /\ tbl_ok Rs_tw05.codecs = true /\ tbl_ok Rs_tw06.codecs = true
  /\ tbl_ok Rs_tw07.codecs = true /\ tbl_ok Rs_ddnet.codecs = true.
Proof.
  split; [intros; apply decode_total; assumption|].
  split; [exact decode_sysgame_total|]. split; [exact decode_connless_total|].
  split; [exact decode_snap_obj_total|]. vm_compute. repeat split.
Qed.

(* ---- 6. snapshot objects are re-exposed as the same words — unless the struct has a bool ---- *)

Theorem C14_obj_words : forall o ws vs pad, wf_ocodec o = true -> k14 o = false -> o_dec o <> [] ->
  forallb is_i32 ws = true -> decode_obj o ws = (Ok vs, false) ->
  encode_obj o vs pad = Ok ws.
Proof.
  intros o ws vs pad Hwf Hk. apply obj_words; [exact Hwf|].
  unfold k14 in Hk. destruct (no_bool o); [reflexivity|discriminate].
Qed.

(* words built from the description (every word satisfies its member) are accepted without warning and
   come back unchanged; a word that breaks its member is rejected *)
Theorem C14_obj_roundtrip : forall o ws pad, wf_ocodec o = true -> k14 o = false -> o_dec o <> [] ->
  words_typed (o_dec o) ws = true ->
  exists vs, decode_obj o ws = (Ok vs, false) /\ encode_obj o vs pad = Ok ws.
Proof.
  intros o ws pad Hwf Hk. apply obj_roundtrip; [exact Hwf|].
  unfold k14 in Hk. destruct (no_bool o); [reflexivity|discriminate].
Qed.

Theorem C14_obj_rejects : forall o ipre i is pre w post e, o_dec o = ipre ++ i :: is ->
  words_typed ipre pre = true -> check_int i w = Err e ->
  decode_obj o (pre ++ w :: post) = (Err e, false).
Proof. exact obj_rejects. Qed.

(* exactly these generated objects are in class K14 *)
Theorem C14_k14_objects :
  k14_names Rs_tw05.obj_names Rs_tw05.objs = [] /\ k14_names Rs_tw06.obj_names Rs_tw06.objs = []
  /\ k14_names Rs_tw07.obj_names Rs_tw07.objs
     = ["obj_player_input"; "obj_de_client_info"; "obj_damage"]%string
  /\ k14_names Rs_ddnet.obj_names Rs_ddnet.objs = ["obj_ddnet_spectator_info"]%string
  /\ forallb (fun o => negb (match o_dec o with [] => true | _ => false end)) all_objs = true.
Proof. vm_compute. repeat split. Qed.

(* K14: 0.7 PlayerInput, decoded from [1,10,-10,1,7,0,3,2,0,0], comes back with whatever the
   padding bytes next to `jump` and `hook` hold — here 0xde *)
Theorem K14_refuted : exists o ws vs pad ws',
  In o Rs_tw07.objs /\ wf_ocodec o = true /\ k14 o = true /\ forallb is_i32 ws = true
  /\ decode_obj o ws = (Ok vs, false) /\ encode_obj o vs pad = Ok ws' /\ ws' <> ws
  /\ ws = [1; 10; -10; 1; 7; 0; 3; 2; 0; 0]
  /\ ws' = [1; 10; -10; -555819519; 7; -555819520; 3; 2; 0; 0].
Proof.
  exists Rs_tw07.obj_player_input, [1; 10; -10; 1; 7; 0; 3; 2; 0; 0],
    [VInt 1; VInt 10; VInt (-10); VBool true; VInt 7; VBool false; VInt 3; VInt 2; VInt 0; VInt 0],
    (fun _ => 222), [1; 10; -10; -555819519; 7; -555819520; 3; 2; 0; 0].
  repeat split; try (vm_compute; reflexivity); try discriminate.
  vm_compute. tauto.
Qed.

(* the [bool; 6] of 0.7 DeClientInfo packs six members into two words: 54 words come back for 58 *)
Theorem K14_refuted_length : exists o ws vs pad ws',
  In o Rs_tw07.objs /\ decode_obj o ws = (Ok vs, false) /\ encode_obj o vs pad = Ok ws'
  /\ List.length ws = 58%nat /\ List.length ws' = 54%nat.
Proof.
  exists Rs_tw07.obj_de_client_info, (repeat 0 58).
  eexists. exists (fun _ => 0). eexists.
  split; [vm_compute; tauto|]. split; [vm_compute; reflexivity|]. split; [vm_compute; reflexivity|].
  split; reflexivity.
Qed.

(* ---- non-vacuity ---- *)

Example C14_nonvacuous :
  (* 0.6 connless Info: int-strings, strict strings, a client list *)
  let c := Rs_tw06.connless_info in
  let vs := [VInt (-7); VBytes [48; 46; 54]; VBytes [97; 98]; VBytes [100; 109; 49]; VBytes [68; 77];
             VInt 1; VInt 2; VInt 16; VInt 3; VInt 16; VBytes [110; 0; 99; 0]] in
  wf_codec c = true /\ well_typed (c_dec c) vs = true
  /\ canonical_msg c vs = [255; 255; 255; 255; 105; 110; 102; 51; 45; 55; 0; 48; 46; 54; 0; 97; 98; 0; 100; 109; 49; 0;
                           68; 77; 0; 49; 0; 50; 0; 49; 54; 0; 51; 0; 49; 54; 0; 110; 0; 99; 0]
  /\ decode_connless Rs_tw06.codecs false (canonical_msg c vs) = (Ok (c, vs), [])
  /\ encode_msg c vs 41 = Ok (canonical_msg c vs) /\ encode_msg c vs 40 = Err CapacityErr
  (* a control character in the (strict) name is rejected *)
  /\ violation MStrStrict (VBytes [97; 31]) = Some ControlCharacters
  /\ decode c false ([45; 55; 0; 48; 46; 54; 0] ++ [97; 31; 0] ++ [1; 2; 3]) = Err ControlCharacters
  (* 0.6 game SvEmoticon: a ranged int one past its maximum, an unknown enum value *)
  /\ violation (MI (IRange 0 15)) (VInt 16) = Some IntOutOfRange
  /\ decode_sysgame Rs_tw06.codecs false false [20; 16; 0] = (Err IntOutOfRange, [])
  /\ decode_sysgame Rs_tw06.codecs false false [20; 15; 16] = (Err IntOutOfRange, [])
  /\ decode_sysgame Rs_tw06.codecs false false [20; 15; 14]
     = (Ok (Rs_tw06.game_sv_emoticon, [VInt 15; VInt 14]), [])
  (* an object without a bool member gives its words back *)
  /\ wf_ocodec Rs_tw06.obj_player_input = true /\ k14 Rs_tw06.obj_player_input = false
  /\ decode_obj Rs_tw06.obj_player_input [1; 10; -10; 1; 7; 0; 3; 2; 0; 0]
     = (Ok [VInt 1; VInt 10; VInt (-10); VInt 1; VInt 7; VInt 0; VInt 3; VInt 2; VInt 0; VInt 0], false).
Proof. vm_compute. repeat split. Qed.

Print Assumptions C14_codecs_match_tw05.
Print Assumptions C14_codecs_match_tw06.
Print Assumptions C14_codecs_match_tw07.
Print Assumptions C14_codecs_match_ddnet.
Print Assumptions C14_wf_all.
Print Assumptions C14_roundtrip.
Print Assumptions C14_msg_roundtrip.
Print Assumptions C14_generated_roundtrip.
Print Assumptions C14_rejects.
Print Assumptions C14_rejects_short.
Print Assumptions C14_total.
Print Assumptions C14_obj_words.
Print Assumptions C14_obj_roundtrip.
Print Assumptions C14_obj_rejects.
Print Assumptions C14_k14_objects.
Print Assumptions K14_refuted.
Print Assumptions K14_refuted_length.
Print Assumptions C14_nonvacuous.

(* C13 - client and server snapshot state never diverge silently.
   Model: Model/Storage.v (Storage and Manager of libtw2-snapshot, the sender loop of
   server/src/main.rs, and a link with a lossy / duplicating / reordering channel in each direction)
   on top of Model/Snap.v and Model/Receiver.v.  Only the property theorems, each closed by lemmas of
   Proofs/Storage*.v.

   Vocabulary:
     label            World w | SendTick | Deliver k | Drop k | SendAck | DeliverAck k | DropAck k | ForgeAck v
                      | ResetMgr (Manager::reset)
                      (Deliver / DeliverAck leave the message in the channel: duplication; k is any
                      position: reordering; ForgeAck: any i32 appears on the ack channel);
                      Inject m (a message nobody sent) is outside follows_api - it exists to run the
                      error paths of the Manager against the code
     lrun sz s tr     the link after the labels tr (Panic / OutOfFuel if either side panics / the model gives up)
     follows_api      at every SendTick the caller's obligations hold (Model/Storage.v send_api_ok):
                      a fresh larger i32 tick, items Builder::add_item accepts and does not refuse,
                      pre-agreed sizes respected, the packed delta fits the 64 KiB buffer of the sender
                      loop, and K09: no item keeps its (raw) key and changes its length against the
                      snapshot the delta is taken from - the known-finding class of C09, a hypothesis here
     hist_snap s t    ghost: the snapshot the sender built for tick t
     l_accepted s     ghost: every (tick, snapshot) a Manager::snap* call has returned Ok(Some(_)) for
     sz               the table of pre-agreed object sizes (the same on both sides)
     feed_all sz m ms the answers of Manager m to the messages ms, fed in order (Proofs/StorageTotal.v)
     msg_ok m         the data of m are bytes, at most 65536 of them *)
From LibTw2 Require Import Base.Res Model.Receiver Proofs.ReceiverBase Proofs.ReceiverChunks
  Proofs.ReceiverSteps Proofs.ReceiverXfer Proofs.ReceiverProofs Proofs.StorageRecv.
From LibTw2 Require Import Model.Varint Model.Packer Model.Snap Proofs.SnapBase Proofs.SnapRep
  Proofs.SnapObs Proofs.SnapBuilder Proofs.SnapC10.
From LibTw2 Require Import Model.Storage Proofs.StorageSnap Proofs.StorageBase Proofs.StorageInv Proofs.StorageTotal.
From Coq Require Import ZArith List Lia Bool.
Import ListNotations.
Open Scope Z_scope.

(* AGREEMENT.  For every table of sizes, every start tick, every history of worlds and every pattern
   of loss, duplication and reordering on both channels (forged acknowledgements included): every
   snapshot the receiving Manager has accepted for a tick t is, item for item, the snapshot the sender
   built for t - same enumeration (type, id, data in order), same lookups by ordinal or UUID type,
   same checksum, same UUID registry. *)
Theorem C13_agree : forall sz t0 tr s,
  follows_api sz (link_init t0) tr = true -> lrun sz (link_init t0) tr = Ok s ->
  forall t X, In (t, X) (l_accepted s) ->
  exists H, hist_snap s t = Some H
    /\ (forall E, @snap_items E X = @snap_items E H)
    /\ (forall E ty id, @snap_item E X ty id = @snap_item E H ty id)
    /\ Snap.crc (sn_raw X) = Snap.crc (sn_raw H)
    /\ sn_ext X = sn_ext H.
Proof.
  intros sz t0 tr s Hf Hr t X Hin.
  destruct (lrun_linv sz tr (link_init t0) (linv_init sz t0) Hf) as (s' & Hr' & I).
  rewrite Hr in Hr'. injection Hr' as <-.
  destruct (li_acc sz s I t X Hin) as (e & He & HL). exists (h_snap e).
  split; [unfold hist_snap; rewrite He; reflexivity|]. apply (like_same _ _ HL).
Qed.

(* the same for what the Manager keeps: every stored snapshot (the bases of later deltas) is a copy *)
Theorem C13_stored_agree : forall sz t0 tr s,
  follows_api sz (link_init t0) tr = true -> lrun sz (link_init t0) tr = Ok s ->
  forall t X, In (t, X) (st_snaps (m_store (l_mgr s))) ->
  exists H, hist_snap s t = Some H
    /\ (forall E, @snap_items E X = @snap_items E H)
    /\ Snap.crc (sn_raw X) = Snap.crc (sn_raw H).
Proof.
  intros sz t0 tr s Hf Hr t X Hin.
  destruct (lrun_linv sz tr (link_init t0) (linv_init sz t0) Hf) as (s' & Hr' & I).
  rewrite Hr in Hr'. injection Hr' as <-.
  destruct (mi_snaps _ _ (li_mgr sz s I) t X Hin) as (e & He & HL). exists (h_snap e).
  split; [unfold hist_snap; rewrite He; reflexivity|]. destruct (like_same _ _ HL) as (O1 & _ & O3 & _). auto.
Qed.

(* the two ghosts are what they are said to be: an accepting Deliver is logged under the tick of the
   message, a SendTick records the snapshot it built under its tick, no other label touches either *)
Theorem C13_ghosts : forall sz s l s' o, lstep sz s l = Ok (s', o) ->
  match l, o with
  | Deliver _, ODeliver tick (Ok (Some X), _) _ => l_accepted s' = (tick, X) :: l_accepted s
  | Inject _, ODeliver tick (Ok (Some X), _) _ =>
      l_accepted s' = (tick, X) :: l_accepted s /\ sd_hist (l_sender s') = sd_hist (l_sender s)
  | SendTick, OSent x =>
      sd_hist (l_sender s') = (sn_tick x, {| h_snap := sn_snap x; h_base := sn_base x; h_bytes := sn_bytes x |})
                              :: sd_hist (l_sender s)
      /\ l_accepted s' = l_accepted s
  | SendTick, _ => False
  | _, _ => l_accepted s' = l_accepted s /\ sd_hist (l_sender s') = sd_hist (l_sender s)
  end.
Proof.
  intros sz s l s' o H. destruct l as [w| |k|k| |k|k|v| |mi]; cbn [lstep] in H.
  - injection H as <- <-. split; reflexivity.
  - destruct (sender_send sz _ _ _) as [[st' x]| | |]; cbn [bind] in H; try discriminate.
    injection H as <- <-. split; reflexivity.
  - destruct (nth_error (l_chan s) k) as [m|]; [|injection H as <- <-; split; reflexivity].
    unfold deliver in H. destruct (manager_feed sz (l_mgr s) m) as [mg' [r ws]].
    destruct r as [[X|]|e|p|]; try discriminate; injection H as <- <-; cbn [l_accepted l_sender]; try reflexivity; split; reflexivity.
  - injection H as <- <-. split; reflexivity.
  - injection H as <- <-. split; reflexivity.
  - destruct (nth_error (l_acks s) k) as [v|]; [|injection H as <- <-; split; reflexivity].
    destruct (set_delta_tick _ v) as [st' [r weird]]. injection H as <- <-. split; reflexivity.
  - injection H as <- <-. split; reflexivity.
  - injection H as <- <-. split; reflexivity.
  - injection H as <- <-. split; reflexivity.
  - unfold deliver in H. destruct (manager_feed sz (l_mgr s) mi) as [mg' [r ws]].
    destruct r as [[X|]|e|p|]; try discriminate; injection H as <- <-; cbn [l_accepted l_sender]; split; reflexivity.
Qed.

(* ON ERROR THE ACKNOWLEDGED TICK DOES NOT ADVANCE.  For every Manager state and every message
   (hostile ones included): when the call returns an error, the acknowledged tick afterwards is
   cleared exactly for Storage::UnknownSnap and Storage::InvalidCrc and unchanged for every other
   error (errors of the DeltaReceiver, a delta that does not parse, Storage::OldDelta, a delta that
   does not apply) - in particular it can be the tick of the failing message only if it already was. *)
Theorem C13_error_no_advance : forall sz m msg m' e ws,
  manager_feed sz m msg = (m', (Err e, ws)) ->
  (clears_ack e = true -> manager_ack m' = None)
  /\ (clears_ack e = false -> manager_ack m' = manager_ack m)
  /\ (manager_ack m' = manager_ack m \/ manager_ack m' = None)
  /\ (manager_ack m' = Some (msg_tick msg) -> manager_ack m = Some (msg_tick msg)).
Proof.
  intros sz m msg m' e ws H. destruct (feed_error_ack sz m msg m' e ws H) as [H1 H2].
  split; [exact H1|]. split; [exact H2|].
  destruct (clears_ack e); [specialize (H1 eq_refl)|specialize (H2 eq_refl)].
  - split; [right; exact H1|]. rewrite H1. discriminate.
  - split; [left; exact H2|]. rewrite H2. auto.
Qed.

(* the other two answers, for every Manager state and every message: Ok(None) (a part was stored)
   leaves the Storage - and with it the acknowledged tick - untouched; Ok(Some(snap)) sets the
   acknowledged tick to the tick under which `snap` is now the newest stored snapshot *)
Theorem C13_ok_answers : forall sz m msg m' o ws,
  manager_feed sz m msg = (m', (Ok o, ws)) ->
  match o with
  | None => m_store m' = m_store m
  | Some X => exists t rest, manager_ack m' = Some t /\ st_snaps (m_store m') = (t, X) :: rest
  end.
Proof. exact feed_ok_ack. Qed.

(* NOT SILENTLY, AND NOT NEEDLESSLY.  In every reachable state, whatever a delivered message of the
   sender is answered with is an accepted snapshot, "part stored", or one of five refusals: an old
   tick, a duplicate part, a transfer of more than 32 parts, Storage::OldDelta, or a base the Manager
   does not (any longer) hold - never InvalidCrc, never a delta that fails to parse or to apply; and
   the only warnings are the DeltaReceiver's. *)
Theorem C13_genuine_refusals : forall sz t0 tr s k s' tick r ws ack,
  follows_api sz (link_init t0) tr = true -> lrun sz (link_init t0) tr = Ok s ->
  lstep sz s (Deliver k) = Ok (s', ODeliver tick (r, ws) ack) ->
  (forall e, r = Err e -> refusal e = true) /\ only_receiver_warnings ws = true.
Proof.
  intros sz t0 tr s k s' tick r ws ack Hf Hr Hs.
  destruct (lrun_linv sz tr (link_init t0) (linv_init sz t0) Hf) as (s1 & Hr' & I).
  rewrite Hr in Hr'. injection Hr' as <-. apply (deliver_refusals sz s k s' tick r ws ack I Hs).
Qed.

(* PROGRESS (beyond the property; it shows that agreement is not kept by refusing everything, and
   that the link recovers).  In every reachable state: a SendTick whose delta is taken against the
   empty snapshot - nothing acknowledged yet, or the acknowledgement was cleared by an error and the
   client's -1 has reached the sender, or the acknowledged snapshot was unknown - and fits one message
   is accepted by the Manager as soon as that message is delivered, whatever was lost, duplicated or
   reordered before; the acknowledged tick becomes its tick. *)
Theorem C13_full_snapshot_accepted : forall sz t0 tr s s1 x,
  follows_api sz (link_init t0) tr = true -> lrun sz (link_init t0) tr = Ok s ->
  api_ok sz s SendTick = true -> lstep sz s SendTick = Ok (s1, OSent x) ->
  sn_base x = -1 -> (length (sn_bytes x) <= 900)%nat ->
  exists s2 X ws,
    lstep sz s1 (Deliver (length (l_chan s))) = Ok (s2, ODeliver (sn_tick x) (Ok (Some X), ws) (Some (sn_tick x)))
    /\ (forall E, @snap_items E X = @snap_items E (sn_snap x)).
Proof.
  intros sz t0 tr s s1 x Hf Hr Hapi Hs Hb Hl.
  destruct (lrun_linv sz tr (link_init t0) (linv_init sz t0) Hf) as (s' & Hr' & I).
  rewrite Hr in Hr'. injection Hr' as <-.
  destruct (fresh_single_accepted sz s s1 x I Hapi Hs Hb Hl) as (s2 & X & ws & E & HL).
  exists s2, X, ws. split; [exact E|]. apply (like_same _ _ HL).
Qed.

(* The stronger clause of DESIGN.md ("after an error the acknowledged tick is never the tick of the
   failing message") is false, and harmlessly so: a duplicate of a message that was accepted is
   answered Err(Receiver(OldDelta)) and the acknowledged tick stays at that tick. *)
Definition dup_w : world := [(Ordinal 5, 1, [9; 9])].
Definition dup_tr : list label := [World dup_w; SendTick; Deliver 0%nat].
Theorem C13_error_never_own_tick_refuted : exists s m m' e ws,
  lrun (fun _ => None) (link_init 0) dup_tr = Ok s /\ nth_error (l_chan s) 0 = Some m
  /\ manager_feed (fun _ => None) (l_mgr s) m = (m', (Err e, ws))
  /\ e = MReceiver OldDelta /\ manager_ack m' = Some (msg_tick m) /\ manager_ack (l_mgr s) = Some (msg_tick m).
Proof.
  destruct (lrun (fun _ => None) (link_init 0) dup_tr) as [s| | |] eqn:E; try (vm_compute in E; discriminate).
  destruct (nth_error (l_chan s) 0) as [m|] eqn:Em.
  2:{ exfalso. revert Em. vm_compute in E. injection E as <-. vm_compute. discriminate. }
  exists s, m. vm_compute in E. injection E as <-. vm_compute in Em. injection Em as <-.
  eexists _, _, _. split; [reflexivity|]. split; [reflexivity|]. vm_compute. repeat split.
Qed.

(* NO PANIC.  As long as the sender follows the storage API, neither side panics (and the model never
   gives up), for every loss / duplication / reordering pattern on both channels, including
   acknowledgements for snapshots the sender has dropped and acknowledgements nobody sent. *)
Theorem C13_no_panic : forall sz t0 tr, follows_api sz (link_init t0) tr = true ->
  exists s, lrun sz (link_init t0) tr = Ok s.
Proof.
  intros sz t0 tr Hf. destruct (lrun_linv sz tr (link_init t0) (linv_init sz t0) Hf) as (s & Hr & _).
  exists s. exact Hr.
Qed.

(* Beyond the property: the receiving side does not panic on ANY stream of messages - any ticks,
   part numbers and checksums, any bytes as data (at most 64 KiB per message), in any order - fed
   into a new Manager: every call ends with a value or an error. *)
Theorem C13_manager_total : forall sz msgs, forallb msg_ok msgs = true ->
  Forall (fun r => match r with Ok _ | Err _ => True | _ => False end) (feed_all sz manager_new msgs).
Proof. intros sz msgs H. apply (feed_all_total sz msgs manager_new mgood_new H). Qed.

(* K09 is a real precondition: a snapshot in which an item keeps its raw key and changes its length
   against the acknowledged base makes Delta::create panic inside Storage::add_snap.  Second witness:
   at the level of (UUID type, id) every item keeps its length, but a fresh Builder numbers the UUID
   types in order of first use, so the raw key 0x4000/1 changes its meaning and its length. *)
Definition k09_tr : list label :=
  [World [(Ordinal 5, 1, [9; 9])]; SendTick; Deliver 0%nat; SendAck; DeliverAck 0%nat;
   World [(Ordinal 5, 1, [9; 9; 9])]; SendTick].
Definition k09_uuid_tr : list label :=
  [World [(Uuid 10, 1, [1; 2]); (Uuid 11, 1, [1; 2; 3])]; SendTick; Deliver 0%nat; SendAck; DeliverAck 0%nat;
   World [(Uuid 11, 1, [1; 2; 3])]; SendTick].
Theorem C13_K09_panics :
  lrun (fun _ => None) (link_init 0) k09_tr = Panic site_create_mismatch
  /\ follows_api (fun _ => None) (link_init 0) k09_tr = false
  /\ lrun (fun _ => None) (link_init 0) k09_uuid_tr = Panic site_create_mismatch
  /\ follows_api (fun _ => None) (link_init 0) k09_uuid_tr = false.
Proof. vm_compute. repeat split. Qed.

(* non-vacuity: ordinal and UUID items appearing, changing and vanishing; a two-part snapshot; loss,
   duplication and reordering on both channels; an acknowledgement for a snapshot the sender has
   dropped; a forged acknowledgement; an UnknownSnap that clears the acknowledged tick *)
Definition nv_sz : osize := fun ty => if ty =? 5 then Some 2 else None.
Definition nv_big : list Z := repeat 100000 320.
Definition nv_w1 : world := [(Ordinal 5, 1, [9; 9]); (Uuid 77, 3, [1; 2; 3])].
Definition nv_w2 : world := [(Ordinal 5, 1, [9; 10]); (Ordinal 6, 1, nv_big)].
Definition nv_w3 : world := [(Uuid 78, 3, [4]); (Uuid 77, 3, [1; 2; 4]); (Ordinal 6, 1, nv_big)].
Definition nv_tr : list label :=
  [World nv_w1; SendTick; Deliver 0%nat; Deliver 0%nat; SendAck; DeliverAck 0%nat;
   World nv_w2; World nv_w2; SendTick;           (* tick 3, two parts, against tick 1 *)
   Deliver 2%nat; Deliver 2%nat; Deliver 1%nat;  (* reordered, with a duplicate part *)
   SendAck; SendAck; DropAck 1%nat; DeliverAck 1%nat;   (* ack 3: the sender drops tick 1 *)
   DeliverAck 0%nat;                             (* the old ack 1 again: unknown by now, back to full snapshots *)
   World nv_w3; SendTick; Drop 3%nat;            (* tick 4, first part lost *)
   World nv_w3; SendTick;                        (* tick 5 *)
   Deliver 3%nat; Deliver 5%nat; Deliver 4%nat;  (* half of tick 4, then tick 5 replaces it *)
   SendAck;
   ForgeAck 4; DeliverAck 3%nat;                 (* an ack for tick 4, which the client never got *)
   World nv_w1; SendTick; Deliver 6%nat;         (* tick 6 against 4: UnknownSnap, ack cleared *)
   SendAck; DeliverAck 4%nat;                    (* ack -1 *)
   World nv_w1; SendTick; Deliver 7%nat;         (* tick 7, full *)
   Deliver 1%nat].                               (* an old part: OldDelta *)
Example C13_nonvacuous :
  follows_api nv_sz (link_init 0) nv_tr = true
  /\ match lrun nv_sz (link_init 0) nv_tr with
     | Ok s =>
       map fst (l_accepted s) = [7; 5; 3; 1]
       /\ map (fun ts => @snap_items unit (snd ts)) (l_accepted s)
          = [Ok (2, [(Ordinal 5, 1, [9; 9]); (Uuid 77, 3, [1; 2; 3])]);
             Ok (3, [(Ordinal 6, 1, nv_big); (Uuid 78, 3, [4]); (Uuid 77, 3, [1; 2; 4])]);
             Ok (2, [(Ordinal 5, 1, [9; 10]); (Ordinal 6, 1, nv_big)]);
             Ok (2, [(Ordinal 5, 1, [9; 9]); (Uuid 77, 3, [1; 2; 3])])]
       /\ length (l_chan s) = 8%nat
       /\ l_acks s = [1; 3; 5; 4; -1]
       /\ map fst (st_snaps (m_store (l_mgr s))) = [7; 5]
       /\ map fst (st_snaps (sd_store (l_sender s))) = [7; 6; 5; 4]
       /\ manager_ack (l_mgr s) = Some 7
     | _ => False
     end.
Proof. vm_compute. repeat split. Qed.

Print Assumptions C13_agree.
Print Assumptions C13_stored_agree.
Print Assumptions C13_ghosts.
Print Assumptions C13_error_no_advance.
Print Assumptions C13_ok_answers.
Print Assumptions C13_genuine_refusals.
Print Assumptions C13_full_snapshot_accepted.
Print Assumptions C13_error_never_own_tick_refuted.
Print Assumptions C13_no_panic.
Print Assumptions C13_manager_total.
Print Assumptions C13_K09_panics.
Print Assumptions C13_nonvacuous.

(* C03 -- datagrams without the agreed token are inert.
   Stated on the connection models Conn6.v / Conn7.v, whose `feed` takes what the packet
   reader returns (Props/C05-C06 cover the reader); a datagram the reader rejects is the
   label OpFeedGarbage. *)
From LibTw2 Require Import Base.Res Model.PacketTypes Model.ConnCore Model.Conn6 Model.Conn7
  Proofs.ConnInert Proofs.ConnFeedBytes6.
From Coq Require Import ZArith List.
Open Scope Z_scope.

(* 0.6 with the DDNet token extension: once the token t is fixed (acceptor pending, or online),
   a connection-oriented datagram carrying any other token, or none, changes nothing: same state
   (timers included), same environment, no event, no datagram -- only a warning *)
Theorem C03_inert6 : forall c e d t,
  token_fixed6 c t -> conn_oriented d = true -> dgram_tok d <> Some t ->
  feed c e d = Ok (mk c e [] [] [WTokenMismatch] ROk).
Proof. exact inert6. Qed.

(* the same for BYTES: feed_bytes6 = the library's packet reader (Model/Packet6.v with the Huffman
   decoder of Model/Huffman.v, given the token hint the connection passes and a 1400-byte scratch
   buffer) followed by feed. For every byte string whatsoever -- well-formed of every kind, mutated,
   truncated, compressed, random: unless the reader returns a connection-oriented packet carrying
   exactly the agreed token, nothing happens (a warning at most). *)
Theorem C03_inert6_bytes : forall c e bs t,
  token_fixed6 c t -> bytes_ok bs = true -> reads_connless6 c bs = false -> carried_token6 c bs <> Some t ->
  exists ws, feed_bytes6 c e bs = Ok (mk c e [] [] ws ROk).
Proof. exact inert6_bytes. Qed.

(* truncated / mutated / random bytes the reader rejects *)
Theorem C03_garbage6 : forall c e, step c e OpFeedGarbage = Ok (mk c e [] [] [] ROk).
Proof. exact garbage_inert6. Qed.

(* 0.7: every state from the token request on has a fixed own token *)
Theorem C03_inert7 : forall c e d t,
  token_fixed7 c t -> conn_oriented d = true -> carried7 d <> t -> exception7 c d = false ->
  feed7 c e d = Ok (mk7 c e [] [] [W7TokenMismatch] R7Ok).
Proof. exact inert7. Qed.

Theorem C03_inert7_connless : forall c e tk rs pl,
  (tk <> own_token (c7_state c) \/ rs <> their_token (c7_state c)) ->
  exists w, feed7 c e (DConnless tk rs pl) = Ok (mk7 c e [] [] [w] R7Ok).
Proof. exact inert7_connless. Qed.

(* the protocol's explicit exception: an unauthenticated token request while a 0.7 acceptor
   waits for the connect is answered, but changes no state and yields no event *)
Theorem C03_exception7 : forall c e own tk ack their,
  c7_state c = PendingConnect7 own -> own <> TOKEN_NONE ->
  (match tk with Some t0 => t0 | None => TOKEN_NONE end) = TOKEN_NONE ->
  0 <= ack < SEQ_MOD ->
  feed7 c e (DControl tk ack (TokenMsg their)) =
  Ok (mk7 c e [DControl (Some their) 0 (TokenMsg own)] [] [] R7Ok).
Proof. exact exception7_answer. Qed.

(* tokens handed out by an acceptor are never a reserved value *)
Theorem C03_tokens_not_reserved6 : forall c e d out t,
  c_state c = Unconnected -> feed c e d = Ok out -> c_state (out_conn out) = Pending (Some t) ->
  t <> TOKEN_NONE /\ t <> TOKEN_RESERVED.
Proof. exact handed_out_token6. Qed.

Theorem C03_tokens_not_reserved7 : forall rnd t r, token_random7 rnd = Ok (t, r) -> t <> TOKEN_NONE.
Proof. exact token_random7_not_none. Qed.

(* non-vacuity: a token-fixed online 0.6 endpoint ignores a Close carrying a neighbouring token,
   and accepts the same Close with the right one *)
Example C03_nonvacuous :
  let c := {| c_state := Online (online_new (Some [1;2;3;4]) (Some [1;2;3;4])); c_send := Some 5 |} in
  let e := {| e_now := 0; e_rand := [] |} in
  token_fixed6 c [1;2;3;4]
  /\ feed c e (DControl (Some [1;2;3;5]) 0 (Close [120])) = Ok (mk c e [] [] [WTokenMismatch] ROk)
  /\ feed c e (DControl None 0 (Close [120])) = Ok (mk c e [] [] [WTokenMismatch] ROk)
  /\ feed c e (DControl (Some [1;2;3;4]) 0 (Close [120]))
     = Ok (mk {| c_state := Disconnected; c_send := Some 5 |} e [] [EvDisconnect [120]] [] ROk).
Proof. vm_compute. repeat split. Qed.

Print Assumptions C03_inert6.
Print Assumptions C03_inert6_bytes.
Print Assumptions C03_garbage6.
Print Assumptions C03_inert7.
Print Assumptions C03_inert7_connless.
Print Assumptions C03_exception7.
Print Assumptions C03_tokens_not_reserved6.
Print Assumptions C03_tokens_not_reserved7.
Print Assumptions C03_nonvacuous.

(* C03 at the byte level, Teeworlds 0.7 (the 0.6 twin is C03_inert6_bytes in Props/C03.v).
   feed_bytes7 = the library's packet reader (Model/Packet7.v with the Huffman decoder of
   Model/Huffman.v and a 1400-byte scratch buffer; the 0.7 Packet::read takes no token hint)
   followed by connection7.rs's feed on the value it returns. *)
From LibTw2 Require Import Base.Res Model.PacketTypes Model.ConnCore Model.Conn7 Model.Packet7 Model.PacketInst
  Proofs.ConnInert Proofs.ConnFeedBytes7.
From Coq Require Import ZArith List.
Open Scope Z_scope.

(* For every byte string whatsoever -- well-formed of every kind, mutated, truncated, compressed,
   random: once the own token t is fixed (every state from the token request on), unless
     - the reader returns a connection-oriented packet carrying exactly t, or
     - (the documented exception) the endpoint waits for the connect (PendingConnect) and the
       reader returns a Token message whose header token is ff ff ff ff, or
     - the reader returns a connectionless packet with both tokens right,
   nothing happens: same state (timers included), same environment, no event, no datagram --
   a warning at most. *)
Theorem C03_inert7_bytes : forall c e bs t,
  token_fixed7 c t -> bytes_ok bs = true ->
  carried_token7 bs <> Some t -> token_request_exception7 c bs = false -> connless_tokens_right7 c bs = false ->
  exists ws, feed_bytes7 c e bs = Ok (mk7 c e [] [] ws R7Ok).
Proof. exact inert7_bytes. Qed.

(* the exception itself: the unauthenticated token request is answered; no state change, no event *)
Theorem C03_exception7_bytes : forall c e bs own ack their,
  c7_state c = PendingConnect7 own -> own <> PacketTypes.TOKEN_NONE -> bytes_ok bs = true ->
  read_packet7 bs = Some (P7Connected ack PacketTypes.TOKEN_NONE (P7Control (C7Token their))) ->
  feed_bytes7 c e bs = Ok (mk7 c e [DControl (Some their) 0 (TokenMsg own)] [] [] R7Ok).
Proof. exact exception7_bytes. Qed.

(* non-vacuity: a token-fixed online 0.7 endpoint ignores the bytes of a Close carrying a
   neighbouring token and of a connectionless packet with a wrong response token, and obeys
   the bytes of the same Close with the right token *)
Definition close_bytes7 (tok : token) : bytes :=
  match write7_tw (P7Connected 0 tok (P7Control (C7Close [120]))) 1400 with Ok bs => bs | _ => [] end.
Definition connless_bytes7 (tok resp : token) : bytes :=
  match write7_tw (P7Connless [1; 2] tok resp) 1400 with Ok bs => bs | _ => [] end.
Example C03v7_nonvacuous :
  let c := {| c7_state := Online7 (online_new (Some [1;2;3;4]) (Some [5;6;7;8])); c7_send := Some 5 |} in
  let e := {| e_now := 0; e_rand := [] |} in
  token_fixed7 c [1;2;3;4]
  /\ length (close_bytes7 [1;2;3;5]) = 10%nat
  /\ feed_bytes7 c e (close_bytes7 [1;2;3;5]) = Ok (mk7 c e [] [] [W7TokenMismatch] R7Ok)
  /\ feed_bytes7 c e (connless_bytes7 [1;2;3;4] [5;6;7;9]) = Ok (mk7 c e [] [] [W7ConnlessResponseTokenMismatch] R7Ok)
  /\ feed_bytes7 c e [1; 2; 3] = Ok (mk7 c e [] [] [] R7Ok)
  /\ feed_bytes7 c e (connless_bytes7 [1;2;3;4] [5;6;7;8]) = Ok (mk7 c e [] [EvConnless [1; 2]] [] R7Ok)
  /\ feed_bytes7 c e (close_bytes7 [1;2;3;4])
     = Ok (mk7 {| c7_state := Disconnected7; c7_send := Some 5 |} e [] [EvDisconnect [120]] [] R7Ok).
Proof. vm_compute. repeat split. Qed.

Print Assumptions C03_inert7_bytes.
Print Assumptions C03_exception7_bytes.
Print Assumptions C03v7_nonvacuous.

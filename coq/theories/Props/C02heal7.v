(* C02 (0.7), progress at the level of the link: once the network stops misbehaving and both
   applications flush / tick when their deadlines have passed, every submitted vital chunk is
   delivered and acknowledged and nothing stays queued -- within three ticks. Mirror of
   Props/C02heal.v (0.6) over the 0.7 link.

   The world is the two-endpoint link of C01 for 0.7 (Model/Link7.v: two conn7 endpoints, the
   datagrams in flight, ghost histories l7_sub / l7_del). For EVERY state w of the link that
   satisfies the C01 invariant (so in particular every state reachable by an admissible history),
   in which both ends are online, each end puts the other end's token on its datagrams (0.7 has one
   token per end, carried in every packet header) and the random streams are usable, there is a
   finite schedule `heal_schedule7 na nb dt1 n1 dt2 n2 dt3 n3` (Proofs/Link7Heal.v):

     A flushes;  the network loses the na + nb datagrams in flight (the misbehaving prefix ends);
     [time passes until A's deadlines have run out; A ticks; A flushes]; A's n1 datagrams arrive, oldest first, each once;
     [the same for B];                                                    B's n2 datagrams arrive;
     [the same for A];                                                    A's n3 datagrams arrive

   that is a legal continuation (admissible_run7), contains no send / connect / disconnect, and
   ends in the quiescent state: both histories complete (l7_del = l7_sub of the peer), both ends
   online with empty resend queues, empty packets under construction, no pending resend request,
   nothing in flight. The token hypothesis is an invariant of every admissible history from the
   initial state (C02_tokens_agree7, Proofs/Link7Tok.v). *)
From LibTw2 Require Import Base.Res Model.PacketTypes Model.ConnCore Model.Conn7 Model.LinkGhost Model.Link7
  Proofs.ConnCoreInv Proofs.Conn7Inv Proofs.LinkArith Proofs.LinkCore Proofs.Link7Inv Proofs.ConnProgress
  Proofs.Link7Heal Proofs.Link7Tok.
From Coq Require Import ZArith List Lia.
Open Scope Z_scope.

(* the schedule, explicitly *)
Theorem C02_heal_schedule7 : forall w oa ob,
  link_inv7 w -> c7_state (l7_conn (k7_a w)) = Online7 oa -> c7_state (l7_conn (k7_b w)) = Online7 ob ->
  o_their oa = o_own ob -> o_their ob = o_own oa ->
  rand_ok7 {| e_now := k7_now w; e_rand := l7_rand (k7_a w) |} ->
  rand_ok7 {| e_now := k7_now w; e_rand := l7_rand (k7_b w) |} ->
  exists na nb dt1 n1 dt2 n2 dt3 n3 w' oa' ob',
    0 <= dt1 /\ 0 <= dt2 /\ 0 <= dt3 /\
    admissible_run7 w (heal_schedule7 na nb dt1 n1 dt2 n2 dt3 n3) /\
    link_run7 w (heal_schedule7 na nb dt1 n1 dt2 n2 dt3 n3) = Ok w' /\ link_inv7 w' /\
    l7_sub (k7_a w') = l7_sub (k7_a w) /\ l7_sub (k7_b w') = l7_sub (k7_b w) /\
    l7_del (k7_b w') = l7_sub (k7_a w') /\ l7_del (k7_a w') = l7_sub (k7_b w') /\
    c7_state (l7_conn (k7_a w')) = Online7 oa' /\ c7_state (l7_conn (k7_b w')) = Online7 ob' /\
    o_queue oa' = [] /\ o_queue ob' = [] /\
    pc_chunks (o_packet oa') = [] /\ pc_chunks (o_packet ob') = [] /\
    o_rr oa' = false /\ o_rr ob' = false /\ k7_ab w' = [] /\ k7_ba w' = [].
Proof. exact heal_link7. Qed.

(* the quiescent state *)
Definition quiescent7 (w : link7) : Prop :=
  l7_del (k7_b w) = l7_sub (k7_a w) /\ l7_del (k7_a w) = l7_sub (k7_b w) /\
  k7_ab w = [] /\ k7_ba w = [] /\
  exists oa ob, c7_state (l7_conn (k7_a w)) = Online7 oa /\ c7_state (l7_conn (k7_b w)) = Online7 ob /\
    o_queue oa = [] /\ o_queue ob = [] /\ pc_chunks (o_packet oa) = [] /\ pc_chunks (o_packet ob) = [] /\
    o_rr oa = false /\ o_rr ob = false.

(* ... in the form of the property: a legal continuation made of ticks, flushes, time and the
   network only (heal_label7), at most three ticks, losses only in the prefix and afterwards every
   datagram leaves the network by being delivered, oldest first (orderly7) *)
Theorem C02_heal7 : forall w oa ob,
  link_inv7 w -> c7_state (l7_conn (k7_a w)) = Online7 oa -> c7_state (l7_conn (k7_b w)) = Online7 ob ->
  o_their oa = o_own ob -> o_their ob = o_own oa ->
  rand_ok7 {| e_now := k7_now w; e_rand := l7_rand (k7_a w) |} ->
  rand_ok7 {| e_now := k7_now w; e_rand := l7_rand (k7_b w) |} ->
  exists ls w',
    admissible_run7 w ls /\ Forall heal_label7 ls /\ (ticks7 ls <= 3)%nat /\
    (exists na nb post, ls = [L7App SA7 Op7Flush] ++ drops7 SA7 na ++ drops7 SB7 nb ++ post /\ orderly7 post) /\
    link_run7 w ls = Ok w' /\ link_inv7 w' /\
    l7_sub (k7_a w') = l7_sub (k7_a w) /\ l7_sub (k7_b w') = l7_sub (k7_b w) /\ quiescent7 w'.
Proof.
  intros w oa ob Hi Ha Hb Hta Htb Hra Hrb.
  destruct (heal_link7 w oa ob Hi Ha Hb Hta Htb Hra Hrb)
    as [na [nb [dt1 [n1 [dt2 [n2 [dt3 [n3 [w' [oa' [ob' [D1 [D2 [D3 [Hadm [Hrun [Hi' [Sa [Sb [Db [Da [Oa [Ob [Qa [Qb [Pa [Pb [Ra [Rb [Ba Bb]]]]]]]]]]]]]]]]]]]]]]]]]]]]]].
  exists (heal_schedule7 na nb dt1 n1 dt2 n2 dt3 n3), w'.
  split; [exact Hadm|]. split; [apply heal_labels7; assumption|]. split; [rewrite ticks_heal7; lia|].
  split.
  { destruct (heal_schedule_shape7 na nb dt1 n1 dt2 n2 dt3 n3) as [post [E Ho]]. exists na, nb, post. split; assumption. }
  split; [exact Hrun|]. split; [exact Hi'|]. split; [exact Sa|]. split; [exact Sb|].
  unfold quiescent7. split; [exact Db|]. split; [exact Da|]. split; [exact Ba|]. split; [exact Bb|].
  exists oa', ob'. repeat split; assumption.
Qed.

Lemma admissible_run_app7 l1 : forall w w1 l2, admissible_run7 w l1 -> link_run7 w l1 = Ok w1 ->
  admissible_run7 w1 l2 -> admissible_run7 w (l1 ++ l2).
Proof.
  induction l1 as [|l l1 IH]; intros w w1 l2 H1 R1 H2; cbn [app admissible_run7 link_run7] in *.
  - injection R1 as <-. exact H2.
  - destruct H1 as [Hl H1]. split; [exact Hl|]. destruct (link_step7 w l) as [wm| | |]; try exact I.
    eapply IH; eassumption.
Qed.
Lemma link_run_app7 l1 : forall w w1 l2, link_run7 w l1 = Ok w1 -> link_run7 w (l1 ++ l2) = link_run7 w1 l2.
Proof.
  induction l1 as [|l l1 IH]; intros w w1 l2 R1; cbn [app link_run7] in *.
  - injection R1 as <-. reflexivity.
  - destruct (link_step7 w l) as [wm| | |]; try discriminate. eapply IH, R1.
Qed.

(* the two ends of a reachable link agree on the tokens: each end expects its own token (drawn once,
   at Op7Connect or when it answers the first TokenMsg) and has learnt the other end's token from a
   TokenMsg / Connect the other end really sent. The hypotheses `o_their oa = o_own ob` and
   `o_their ob = o_own oa` above are an invariant *)
Theorem C02_tokens_agree7 : forall ra rb ls w oa ob,
  admissible_run7 (link7_new ra rb) ls -> link_run7 (link7_new ra rb) ls = Ok w ->
  c7_state (l7_conn (k7_a w)) = Online7 oa -> c7_state (l7_conn (k7_b w)) = Online7 ob ->
  o_their oa = o_own ob /\ o_their ob = o_own oa.
Proof. exact tokens_agree7. Qed.

(* ... and for every reachable state: any admissible history of the link that leaves both ends online
   (with usable random streams) can be continued by a healing schedule; the whole history is
   admissible and ends quiescent *)
Theorem C02_heal_reachable7 : forall ra rb ls0 w oa ob,
  admissible_run7 (link7_new ra rb) ls0 -> link_run7 (link7_new ra rb) ls0 = Ok w ->
  c7_state (l7_conn (k7_a w)) = Online7 oa -> c7_state (l7_conn (k7_b w)) = Online7 ob ->
  rand_ok7 {| e_now := k7_now w; e_rand := l7_rand (k7_a w) |} ->
  rand_ok7 {| e_now := k7_now w; e_rand := l7_rand (k7_b w) |} ->
  exists ls w',
    admissible_run7 (link7_new ra rb) (ls0 ++ ls) /\ link_run7 (link7_new ra rb) (ls0 ++ ls) = Ok w' /\
    Forall heal_label7 ls /\ (ticks7 ls <= 3)%nat /\
    (exists na nb post, ls = [L7App SA7 Op7Flush] ++ drops7 SA7 na ++ drops7 SB7 nb ++ post /\ orderly7 post) /\
    l7_sub (k7_a w') = l7_sub (k7_a w) /\ l7_sub (k7_b w') = l7_sub (k7_b w) /\ quiescent7 w'.
Proof.
  intros ra rb ls0 w oa ob Hadm Hrun Ha Hb Hra Hrb.
  destruct (tokens_agree7 ra rb ls0 w oa ob Hadm Hrun Ha Hb) as [Hta Htb].
  destruct (link_run_inv7 ls0 _ (link7_new_inv ra rb) Hadm) as [w0 [Hrun0 Hi]].
  rewrite Hrun in Hrun0. injection Hrun0 as <-.
  destruct (C02_heal7 w oa ob Hi Ha Hb Hta Htb Hra Hrb) as [ls [w' [A [L [T [S [R [_ [Sa [Sb Q]]]]]]]]]].
  exists ls, w'. split; [eapply admissible_run_app7; eassumption|].
  split; [rewrite (link_run_app7 ls0 _ w ls Hrun); exact R|].
  repeat (split; [assumption|]). exact Q.
Qed.

(* non-vacuity: a concrete 0.7 history -- the full handshake (token request, TokenMsg, Connect,
   Accept), one chunk delivered (which takes B online), then two chunks of A and one of B submitted
   and flushed while the network delivers nothing -- ends in a state that meets every hypothesis of
   the theorems above and is far from quiescent: unacknowledged chunks in both resend queues,
   datagrams (among them the stale handshake) in flight, histories incomplete; the two ends hold
   different tokens *)
Definition heal_demo7 : list llabel7 :=
  [ L7App SA7 Op7Connect;                        (* A: token request (header token NONE) *)
    L7Deliver SA7 0;                             (* B draws its token and answers with TokenMsg *)
    L7Deliver SB7 0;                             (* A learns B's token and sends Connect *)
    L7Deliver SA7 1;                             (* B: Connect -> Pending, emits Accept *)
    L7Deliver SB7 1;                             (* A: Accept -> online *)
    L7App SA7 (Op7Send [11] true); L7App SA7 Op7Flush; L7Deliver SA7 2;       (* B is online, has [11] *)
    L7App SA7 (Op7Send [22] true); L7App SA7 (Op7Send [33] true); L7App SA7 Op7Flush;   (* lost *)
    L7App SB7 (Op7Send [44] true); L7App SB7 Op7Flush;                       (* lost *)
    L7Time 300000 ].
Definition heal_demo_start7 : link7 := link7_new [[9; 9; 9; 9]; [8; 8; 8; 8]] [[1; 2; 3; 4]; [5; 6; 7; 8]].

Example C02_heal_nonvacuous7 :
  exists w oa ob,
    admissible_run7 heal_demo_start7 heal_demo7 /\ link_run7 heal_demo_start7 heal_demo7 = Ok w /\
    link_inv7 w /\ c7_state (l7_conn (k7_a w)) = Online7 oa /\ c7_state (l7_conn (k7_b w)) = Online7 ob /\
    o_their oa = o_own ob /\ o_their ob = o_own oa /\
    o_own oa = Some [9; 9; 9; 9] /\ o_own ob = Some [1; 2; 3; 4] /\
    rand_ok7 {| e_now := k7_now w; e_rand := l7_rand (k7_a w) |} /\
    rand_ok7 {| e_now := k7_now w; e_rand := l7_rand (k7_b w) |} /\
    length (o_queue oa) = 3%nat /\ length (o_queue ob) = 1%nat /\
    l7_sub (k7_a w) = [[11]; [22]; [33]] /\ l7_del (k7_b w) = [[11]] /\
    l7_sub (k7_b w) = [[44]] /\ l7_del (k7_a w) = [] /\ length (k7_ab w) = 4%nat /\ length (k7_ba w) = 3%nat.
Proof.
  assert (Hadm : admissible_run7 heal_demo_start7 heal_demo7) by (apply admissible_runb_ok7; vm_compute; reflexivity).
  destruct (link_run_inv7 heal_demo7 _ (link7_new_inv _ _) Hadm) as [w [Hrun Hi]].
  exists w. pose proof Hrun as Hrun'. vm_compute in Hrun'. injection Hrun' as Hw.
  rewrite <- Hw in *. clear Hw.
  eexists _, _. split; [exact Hadm|]. split; [exact Hrun|]. split; [exact Hi|].
  split; [reflexivity|]. split; [reflexivity|]. split; [reflexivity|]. split; [reflexivity|].
  split; [reflexivity|]. split; [reflexivity|].
  split; [apply rand_okb7_ok; reflexivity|]. split; [apply rand_okb7_ok; reflexivity|].
  repeat split.
Qed.

(* ... and the schedule computed for that state: 4 + 3 datagrams lost (the stale handshake datagrams
   and the chunks); A resends after 0.7 s (one datagram), B resends at once (one datagram), A sends
   a keep-alive 0.5 s later; the link is quiescent 1.2 s after the network has healed *)
Example C02_heal_demo_run7 :
  admissible_run7 heal_demo_start7 (heal_demo7 ++ heal_schedule7 4 3 700000 1 0 1 500000 1) /\
  match link_run7 heal_demo_start7 (heal_demo7 ++ heal_schedule7 4 3 700000 1 0 1 500000 1) with
  | Ok w =>
    l7_del (k7_b w) = [[11]; [22]; [33]] /\ l7_del (k7_a w) = [[44]] /\ k7_ab w = [] /\ k7_ba w = [] /\
    k7_now w = 1500000 /\
    match c7_state (l7_conn (k7_a w)), c7_state (l7_conn (k7_b w)) with
    | Online7 oa, Online7 ob =>
      o_queue oa = [] /\ o_queue ob = [] /\ o_packet oa = pc_empty /\ o_packet ob = pc_empty /\
      o_rr oa = false /\ o_rr ob = false
    | _, _ => False
    end
  | _ => False
  end.
Proof.
  split; [apply admissible_runb_ok7; vm_compute; reflexivity|].
  vm_compute. repeat split.
Qed.

Print Assumptions C02_heal_schedule7.
Print Assumptions C02_heal7.
Print Assumptions C02_tokens_agree7.
Print Assumptions C02_heal_reachable7.
Print Assumptions C02_heal_nonvacuous7.
Print Assumptions C02_heal_demo_run7.

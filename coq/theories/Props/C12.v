(* C12 -- stage 1: the model of the UNCHANGED tree refutes the property (DESIGN.md section 9 #11, #12). *)
From LibTw2 Require Import Base.Res Model.Receiver.
From Coq Require Import ZArith List.
Open Scope Z_scope.

Definition demo_data : bytes := map (fun i => Z.of_nat i mod 256) (seq 0 2000).

Definition has_warning (os : list outcome) : bool := existsb (fun o => negb (length (snd o) =? 0)%nat) os.

(* #11: a consistent 3-part transfer, fed in order into a fresh receiver, warns DifferingAttributes *)
Theorem C12_exactly_once_refuted : exists tick base crc data ms,
  delta_chunks tick base data crc = Ok ms /\ has_warning (snd (run new_receiver ms)) = true.
Proof. exists 10, 7, 42, demo_data. eexists. split; [vm_compute; reflexivity|vm_compute; reflexivity]. Qed.

(* #12: delta_chunks panics for i32 arguments *)
Theorem C12_chunks_total_refuted : exists tick base, is_i32 tick = true /\ is_i32 base = true
  /\ delta_chunks tick base [] 0 = Panic site_chunks_sub.
Proof. exists 2147483647, (-1). vm_compute. repeat split. Qed.

Print Assumptions C12_exactly_once_refuted.
Print Assumptions C12_chunks_total_refuted.

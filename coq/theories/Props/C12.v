(* C12 -- a multi-part snapshot transfer reassembles exactly once.
   Model: Model/Receiver.v (delta_chunks of snapshot/src/snap.rs, DeltaReceiver of
   snapshot/src/receiver.rs, after the two repairs recorded in known_findings/C12.json).
   This file holds only the property theorems, each closed by a lemma proved in
   Proofs/Receiver*.v, and prints their assumptions.

   Vocabulary (Proofs/ReceiverXfer.v, Proofs/ReceiverSteps.v, Proofs/ReceiverProofs.v):
     item              := Part i (message number i of the transfer) | Other m (any other message)
     item_msg ms it    := the message fed for an item (nth i ms / m)
     item_ok T n it    := Part i: i < n;  Other m: msg_tick m < T and data of at most 2^26 bytes
     seen items i      := Part i occurs in items;   covers n items := every i < n is seen
     run s ms          := feed the messages in order: (final state, outcome per message);
                          outcome = (Ok (Some delivery) | Ok None | Err e | Panic site, warnings in order)
     wf s              := a state no call can panic from (parts < num_parts <= 32, ranges inside
                          receive_buf, at most 2^26 bytes per stored part); new_receiver is wf
     before s T        := nothing of tick T or newer has been accepted by s
     delivered t b d c := {| delta_tick := b; tick := t; data_and_crc := None if d = [] else Some (d, c) |}
     quiet it o        := Part: o is (Ok None, []) or (Err DuplicatePart, []);
                          Other m: o is no panic and hands out at most tick (msg_tick m)
     delivers T o      := o is Ok (Some rd) with rd_tick rd = T *)
From LibTw2 Require Import Base.Res Model.Receiver Proofs.ReceiverBase Proofs.ReceiverChunks
  Proofs.ReceiverSteps Proofs.ReceiverXfer Proofs.ReceiverProofs.
From Coq Require Import ZArith List.
Open Scope Z_scope.

(* the sender never panics (for every i32 tick / base, also when their difference overflows) and cuts
   the data into ceil(len/900) messages -- one SnapEmpty for no data -- of at most 900 bytes each,
   all of the given tick, whose data concatenate to the original *)
Theorem C12_chunks : forall data tick base crc, (length data <= 32 * 900)%nat ->
  exists ms, delta_chunks tick base data crc = Ok ms
    /\ length ms = Nat.max 1 ((length data + 899) / 900)
    /\ (length ms <= 32)%nat
    /\ concat (map msg_data ms) = data
    /\ Forall (fun m => msg_tick m = tick /\ (length (msg_data m) <= 900)%nat) ms.
Proof. exact chunks_total. Qed.

(* EXACTLY ONCE. For every data length up to 32 parts, every tick / base / crc, every schedule `items`
   (any order, any duplication, interleaved with arbitrary messages of older ticks) that contains all
   parts, fed into any well-formed receiver that has not yet accepted this tick:
   the schedule splits at the first position where all parts have been seen; the answer there is the
   original data with the original tick, base tick and crc, without a warning; every answer before it
   is quiet (stored / duplicate without warning, older ticks hand out only themselves); every answer
   after it, to whatever message, is Err OldDelta. *)
Theorem C12_exactly_once : forall data tick base crc ms s0 items,
  (length data <= 32 * 900)%nat -> is_i32 base = true ->
  delta_chunks tick base data crc = Ok ms ->
  wf s0 = true -> before s0 tick = true ->
  forallb (item_ok tick (length ms)) items = true ->
  covers (length ms) items = true ->
  exists pre i post opre opost,
    items = pre ++ Part i :: post
    /\ covers (length ms) pre = false /\ covers (length ms) (pre ++ [Part i]) = true
    /\ snd (run s0 (map (item_msg ms) items))
       = opre ++ (Ok (Some (delivered tick base data crc)), []) :: opost
    /\ Forall2 quiet pre opre
    /\ Forall (fun o => o = (Err OldDelta, [])) opost.
Proof. exact exactly_once. Qed.

(* the same, position by position: the answer to part i after the items `pre` is
     Err OldDelta       if pre already contains all parts,
     Err DuplicatePart  else if part i occurs in pre,
     Ok (Some delivery) else if pre ++ [Part i] contains all parts,
     Ok None            otherwise,
   always without a warning; an older message is answered Err OldDelta once a part has been fed *)
Theorem C12_every_answer : forall data tick base crc ms s0 items,
  (length data <= 32 * 900)%nat -> is_i32 base = true ->
  delta_chunks tick base data crc = Ok ms ->
  wf s0 = true -> before s0 tick = true ->
  forallb (item_ok tick (length ms)) items = true ->
  answers_ok tick (length ms) (delivered tick base data crc) [] items (snd (run s0 (map (item_msg ms) items))).
Proof. exact every_answer. Qed.

(* as long as a part is missing nothing of the transfer is handed out *)
Theorem C12_incomplete_never_delivers : forall data tick base crc ms s0 items,
  (length data <= 32 * 900)%nat -> is_i32 base = true ->
  delta_chunks tick base data crc = Ok ms ->
  wf s0 = true -> before s0 tick = true ->
  forallb (item_ok tick (length ms)) items = true ->
  covers (length ms) items = false ->
  Forall2 quiet items (snd (run s0 (map (item_msg ms) items))).
Proof. exact incomplete_never_delivers. Qed.

(* AT MOST ONCE, unconditionally: whatever messages are fed into whatever state (hostile part numbers,
   inconsistent attributes, newer and older ticks), no tick is handed out twice *)
Theorem C12_at_most_once : forall T ms s,
  (length (filter (delivers T) (snd (run s ms))) <= 1)%nat.
Proof. exact at_most_once. Qed.

(* a message with a tick older than the newest seen changes nothing and yields OldDelta *)
Theorem C12_old_ticks_harmless : forall s m t, newest_seen s = Some t -> msg_tick m < t ->
  recv_step s m = (s, (Err OldDelta, [])).
Proof. exact old_tick_refused. Qed.

(* a (well-formed) message of a newer tick discards the partial older transfer: the receiver answers
   and continues exactly like one (s2) that has the same previous tick and no transfer in progress;
   afterwards every message of the replaced tick or older is refused *)
Theorem C12_newer_replaces : forall s1 s2 c1 m,
  msg_wellformed m = true -> r_cur s1 = Some c1 -> c_tick c1 < msg_tick m ->
  r_prev s2 = r_prev s1 -> takes_fresh s2 (msg_tick m) = true ->
  recv_step s1 m = recv_step s2 m
  /\ newest_seen (fst (recv_step s1 m)) = Some (msg_tick m)
  /\ forall m', msg_tick m' <= c_tick c1 ->
       recv_step (fst (recv_step s1 m)) m' = (fst (recv_step s1 m), (Err OldDelta, [])).
Proof. exact newer_replaces. Qed.

(* no call panics from a well-formed state, well-formedness is kept, and what is handed out carries
   the tick of the message that completed it *)
Theorem C12_no_panic : forall s m, wf s = true -> msg_small m = true ->
  wf (fst (recv_step s m)) = true
  /\ is_panic (fst (snd (recv_step s m))) = false
  /\ forall rd, fst (snd (recv_step s m)) = Ok (Some rd) -> rd_tick rd = msg_tick m.
Proof. intros s m Hwf Hs. destruct (step_wf s m Hwf Hs) as [H1 [H2 H3]]. auto. Qed.

(* non-vacuity: a 3-part transfer (2000 bytes, tick 10 on base 7) delivered out of order with a
   duplicate and an older message in between, into a receiver that has completed tick 5 and holds
   half of tick 7; then a newer tick replacing a half-received transfer *)
Definition demo_data : bytes := map (fun i => Z.of_nat i mod 256) (seq 0 2000).
Definition demo_s0 : receiver :=
  fst (run new_receiver [MSnapSingle 5 1 0 [1; 2; 3]; MSnap 7 2 2 0 9 [4; 4]]).
Definition demo_items : list item :=
  [Part 2; Other (MSnap 9 1 2 1 0 [7]); Part 0; Part 2; Part 1; Part 1; Other (MSnapEmpty 8 1)].

Example C12_nonvacuous : exists ms,
  delta_chunks 10 7 demo_data 42 = Ok ms /\ length ms = 3%nat
  /\ wf demo_s0 = true /\ before demo_s0 10 = true /\ r_cur demo_s0 <> None
  /\ forallb (item_ok 10 3) demo_items = true /\ covers 3 demo_items = true
  /\ snd (run demo_s0 (map (item_msg ms) demo_items))
     = [(Ok None, []); (Err OldDelta, []); (Ok None, []); (Err DuplicatePart, []);
        (Ok (Some (delivered 10 7 demo_data 42)), []); (Err OldDelta, []); (Err OldDelta, [])]
  /\ (* a newer tick replaces the half-received transfer *)
     let s1 := fst (run demo_s0 (map (item_msg ms) [Part 2; Part 0])) in
     let s2 := {| r_prev := r_prev s1; r_cur := None; r_parts := []; r_buf := []; r_result := [] |} in
     msg_wellformed (MSnapSingle 11 10 3 [9]) = true /\ takes_fresh s2 11 = true
     /\ snd (recv_step s1 (MSnapSingle 11 10 3 [9]))
        = (Ok (Some {| rd_delta_tick := 1; rd_tick := 11; rd_data_and_crc := Some ([9], 3) |}), [])
     /\ snd (recv_step (fst (recv_step s1 (MSnapSingle 11 10 3 [9]))) (nth 1 ms dflt_msg)) = (Err OldDelta, []).
Proof.
  eexists. split; [vm_compute; reflexivity|].
  split; [vm_compute; reflexivity|]. split; [vm_compute; reflexivity|]. split; [vm_compute; reflexivity|].
  split; [vm_compute; discriminate|]. split; [vm_compute; reflexivity|]. split; [vm_compute; reflexivity|].
  split; [vm_compute; reflexivity|]. vm_compute. repeat split.
Qed.

Print Assumptions C12_chunks.
Print Assumptions C12_exactly_once.
Print Assumptions C12_every_answer.
Print Assumptions C12_incomplete_never_delivers.
Print Assumptions C12_at_most_once.
Print Assumptions C12_old_ticks_harmless.
Print Assumptions C12_newer_replaces.
Print Assumptions C12_no_panic.
Print Assumptions C12_nonvacuous.

(* C11 - snapshot and delta parsers are total and enforce their limits.
   Only the property theorems (about Model/Snap.v), closed by lemmas of Proofs/Snap*.v.
   `fine r` : r is a value or an error (no Panic, no OutOfFuel).
   snap_accepted / delta_accepted : the values obtainable from the readers (of u8 bytes / i32
   words shorter than 2^31 items) and from read_with_delta / Delta::create on accepted values. *)
From LibTw2 Require Import Base.Res Model.Varint Model.Packer Model.Snap
  Proofs.SnapBase Proofs.SnapRep Proofs.SnapDelta Proofs.SnapApply Proofs.SnapTotal Proofs.SnapTotal2
  Proofs.SnapSer Proofs.SnapReg Proofs.SnapObs Proofs.SnapBuilder Proofs.SnapC10 Proofs.SnapC11 Proofs.SnapAlloc.
From Coq Require Import ZArith List Lia.
Import ListNotations.
Open Scope Z_scope.

(* no reader panics or runs out of fuel on any input; applying any accepted delta to any accepted
   snapshot ends with a value or an error *)
Theorem C11_total :
  (forall ints, forallb is_i32 ints = true ->
     fine (fst (raw_read_from_ints ints)) /\ fine (fst (snap_read_from_ints ints)))
  /\ (forall bs, bytes_ok bs = true ->
     fine (fst (raw_read_bytes bs)) /\ fine (fst (snap_read_bytes bs)))
  /\ (forall sz ints, forallb is_i32 ints = true -> Z.of_nat (length ints) < i32_max ->
     fine (fst (delta_read_from_ints sz ints)))
  /\ (forall sz bs, bytes_ok bs = true -> Z.of_nat (length bs) < i32_max ->
     fine (fst (delta_read_bytes sz bs)))
  /\ (forall S d, snap_accepted S -> delta_accepted d ->
     fine (fst (raw_read_with_delta (sn_raw S) d)) /\ fine (fst (snap_read_with_delta S d))).
Proof.
  split; [|split; [|split; [|split]]].
  - intros ints Hi. split; [|apply (wpost_fine _ _ (snap_read_from_ints_good ints Hi))].
    pose proof (read_from_ints_good ints Hi) as H. destruct (raw_read_from_ints ints) as [[R| | |] ws]; cbn; auto.
  - intros bs Hb. split; [|apply (wpost_fine _ _ (snap_read_bytes_good bs Hb))].
    pose proof (read_bytes_good bs Hb) as H. destruct (raw_read_bytes bs) as [[R| | |] ws]; cbn; auto.
  - intros sz ints Hi Hn. apply (wpost_fine _ _ (delta_read_from_ints_post sz ints Hi Hn)).
  - intros sz bs Hb Hn. apply (wpost_fine _ _ (delta_read_bytes_post sz bs Hb Hn)).
  - intros S d HS Hd. destruct (proj2 accepted_good S HS) as [G _]. pose proof (proj1 accepted_good d Hd) as D.
    split; [apply (wpost_fine _ _ (read_with_delta_good _ d (sg_raw _ G) D))|apply (wpost_fine _ _ (snap_read_with_delta_good S d G D))].
Qed.

(* every accepted snapshot holds at most 1024 items and serialises to at most 64 KiB *)
Theorem C11_limits : forall S, snap_accepted S ->
  Z.of_nat (length (rs_offs (sn_raw S))) <= 1024
  /\ ser_size (Z.of_nat (length (rs_offs (sn_raw S)))) (Z.of_nat (length (rs_buf (sn_raw S)))) <= 65536
  /\ exists l, snap_ints (sn_raw S) = Ok l /\ 4 * Z.of_nat (length l) <= 65536
       /\ forall cap, (length l <= cap)%nat -> raw_write_to_ints (sn_raw S) cap = Ok l.
Proof.
  intros S HS. destruct (proj2 accepted_good S HS) as [G C]. pose proof (sg_raw _ G) as GR.
  split; [apply (g_n _ GR)|]. split; [apply (g_sz _ GR)|].
  destruct (snap_roundtrip S GR C) as (l & _ & _ & _ & El & _ & Hl & _). exists l. split; [exact El|]. split; [exact Hl|].
  intros cap Hc. unfold raw_write_to_ints. rewrite El. unfold MAX_SNAPSHOT_SIZE in *.
  replace (cap <? length l)%nat with false by (symmetry; apply Nat.ltb_ge; lia).
  replace (65536 <? 4 * Z.of_nat (length l)) with false by (symmetry; apply Z.ltb_ge; lia). reflexivity.
Qed.

(* an accepted snapshot can be written and read back to a snapshot that cannot be told apart,
   and every other operation runs on it: enumerate, look up (type ids in their documented
   range), checksum, recycle + add, diff against any accepted snapshot (K09 aside) - and the
   delta applied gives that snapshot back *)
Theorem C11_reusable : forall S, snap_accepted S ->
  (exists l bs S' ws, snap_ints (sn_raw S) = Ok l /\ ints_to_bytes l = Ok bs
      /\ snap_read_from_ints l = (Ok S', ws) /\ snap_read_bytes bs = (Ok S', ws)
      /\ (forall E, @snap_items E S' = @snap_items E S)
      /\ (forall E t id, @snap_item E S' t id = @snap_item E S t id)
      /\ crc (sn_raw S') = crc (sn_raw S) /\ snap_accepted S')
  /\ (exists r, @snap_items unit S = Ok r)
  /\ (forall t id, (forall o, t = Ordinal o -> 0 < o < OFFSET_EXTENDED_TYPE_ID) -> exists r, @snap_item unit S t id = Ok r)
  /\ (exists b, snap_recycle S = Ok b
        /\ forall t id data, (forall o, t = Ordinal o -> 0 < o < OFFSET_EXTENDED_TYPE_ID) ->
             fine (snd (builder_add b t id data)))
  /\ (forall S2, snap_accepted S2 ->
        (k09 (sn_raw S) (sn_raw S2) = false ->
           exists d S' ws, create_raw (sn_raw S) (sn_raw S2) = Ok d /\ delta_accepted d
                     /\ snap_read_with_delta S d = (Ok S', ws)
                     /\ (forall E, @snap_items E S' = @snap_items E S2)
                     /\ (forall E t id, @snap_item E S' t id = @snap_item E S2 t id)
                     /\ crc (sn_raw S') = crc (sn_raw S2))
        /\ (k09 (sn_raw S) (sn_raw S2) = true -> exists s, create_raw (sn_raw S) (sn_raw S2) = Panic s)).
Proof.
  intros S HS. destruct (proj2 accepted_good S HS) as [G C]. pose proof (sg_raw _ G) as GR.
  split; [|split; [|split; [|split]]].
  - destruct (snap_roundtrip S GR C) as (l & bs & S' & ws & E1 & E2 & Hlen & E3 & E4 & _ & _ & O1 & O2 & O3 & _).
    exists l, bs, S', ws. repeat split; try assumption.
    destruct (g_rep _ GR) as [ch R].
    destruct (snap_wire_roundtrip (sn_raw S) ch GR R) as (l' & _ & _ & El' & Hi & _). rewrite E1 in El'. injection El' as <-.
    apply (sacc_ints l ws S' Hi E3).
  - apply snap_items_fine, G.
  - intros t id Ho. apply snap_item_fine; assumption.
  - destruct (snap_recycle_fine S G) as (b & Eb & Hn & _). exists b. split; [exact Eb|].
    intros t id data Ho. apply builder_add_fine; [exact Ho|]. unfold OFFSET_EXTENDED_TYPE_ID. lia.
  - intros S2 HS2. destruct (proj2 accepted_good S2 HS2) as [G2 _].
    destruct (create_fine_or_k09 _ _ GR (sg_raw _ G2)) as [H1 H2]. split; [|exact H2].
    intros Hk. destruct (accepted_after_delta S S2 HS HS2 Hk) as (d & S' & ws & Ed & Er & _ & HL).
    destruct (like_observables S2 S' HL) as (O1 & O2 & O3). exists d, S', ws.
    split; [exact Ed|]. split; [apply (dacc_create S S2 d HS HS2 Ed)|]. split; [exact Er|]. split; [exact O1|]. split; [exact O2|exact O3].
Qed.

(* Allocation clause, first half: whatever a reader RETURNS holds no more words (buffer words +
   map/set entries) than the input had units.  The full clause - the high-water mark of every
   buffer, map and set during the call, on successful AND failing reads, is at most a small
   multiple of the input - is proved on the cost-instrumented twins in Props/C11alloc.v
   (C11_alloc, C11_alloc_erasure); the real allocator's slack (Vec doubling, BTreeMap nodes) is
   tied to the model's high-water mark by the harness (real peak bytes <= 16 x words + 512). *)
Theorem C11_alloc_partial :
  (forall ints S ws, raw_read_from_ints ints = (Ok S, ws) -> held S <= Z.of_nat (length ints))
  /\ (forall bs S ws, bytes_ok bs = true -> raw_read_bytes bs = (Ok S, ws) -> held S <= Z.of_nat (length bs))
  /\ (forall sz ints d ws, delta_read_from_ints sz ints = (Ok d, ws) -> dheld d <= Z.of_nat (length ints) + 1)
  /\ (forall sz bs d ws, bytes_ok bs = true -> delta_read_bytes sz bs = (Ok d, ws) -> dheld d <= Z.of_nat (length bs) + 1).
Proof.
  split; [exact read_from_ints_size|]. split; [exact read_bytes_size|].
  split; [exact delta_read_from_ints_size|exact delta_read_bytes_size].
Qed.

(* the hypotheses are met by concrete values: a snapshot with a UUID registry item, a type beyond
   0x4000, a delta, and a rejected input for each of the repaired defects *)
Definition exInts : list Z := [40; 3; 0; 20; 32; 16384; 1; 2; 3; 4; 327681; 9; 9; 1073741831; 7].
Definition exDelta : list Z := [0; 1; 0; 5; 1; 3; 1; 2; 3].

Example C11_nonvacuous :
  forallb is_i32 exInts = true
  /\ match snap_read_from_ints exInts, delta_read_from_ints (fun _ => None) exDelta with
     | (Ok X, []), (Ok d, []) =>
       sn_ext X = [(79228162551157825753847955460, 16384)] /\ d_del d = []
       /\ fst (snap_read_with_delta X d) = Err DeltaDifferingSizes
       /\ @snap_items unit X = Ok (2, [(Ordinal 5, 1, [9; 9]); (Uuid 79228162551157825753847955460, 7, [7])])
     | _, _ => False
     end
  /\ fst (snap_read_from_ints [20; 1; 0; 5; 1; 2; 3; 4]) = Err InvalidUuidType
  /\ fst (raw_read_from_ints [8; 2; 0; 4; 65537; 65537]) = Err DuplicateKey.
Proof. vm_compute. repeat split. Qed.

Print Assumptions C11_total.
Print Assumptions C11_limits.
Print Assumptions C11_reusable.
Print Assumptions C11_alloc_partial.
Print Assumptions C11_nonvacuous.

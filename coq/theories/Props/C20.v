(* C20 -- the multi-peer endpoint (net/src/net.rs) keeps peers isolated.

   Model/NetEndpoint.v is the endpoint over the single-connection model of Conn6.v. A history is
   any list of labels: clock advances and calls (datagrams from any address -- given as the packet
   reader's answer under each token hint --, connect / accept / reject / disconnect / ignore / send /
   flush / send_connless, ticks), each call with the values `secure_random` returns during it.
   `valid_net_api` is the contract net.rs' own asserts impose (live pids, accept/reject on pending
   peers, disconnect on others, send/flush on online peers, one live peer per remote address, what
   the reader can return, NUL-free reasons, not all 2^32 peer ids in use).

   For one address `a`, Proofs/NetEndpointSpec.v defines the address in isolation: a slot holding at
   most one `conn6`, driven through Conn6.step by the labels that concern `a` only (`label_for a`:
   datagrams from `a`, connect to `a`, calls on the pid that currently belongs to `a` -- accept is the
   feed of the canonical connect packet, exactly as net.rs does it --, every tick; all other calls are
   `ASkip`, a stutter). `obs_for a` restricts what the endpoint showed at a step to `a`: events of
   a's peer, datagrams whose destination is `a`, warnings about `a`, the result of a call about `a`,
   and a's deadline.

   The statements are about the code after the two repairs found with this check (fix commits
   b23a063: packets from a not yet accepted peer no longer reach its connection -- defect #21;
   e2e7a4f: Net::reject sends the close message itself instead of panicking). *)
From LibTw2 Require Import Base.Res Model.PacketTypes Model.ConnCore Model.Conn6 Model.NetEndpoint
  Proofs.ConnCoreInv Proofs.Conn6Inv Proofs.NetEndpointSpec Proofs.NetEndpointSim Proofs.NetEndpointInv
  Proofs.NetEndpointPids.
From Coq Require Import ZArith List Bool.
Open Scope Z_scope.

(* Inside the contract no call panics or fails to return, in any history: in particular no remote
   address can take the endpoint down. Every datagram handed to Callback::send is well-formed. *)
Theorem C20_no_panic : forall tr acc, valid_net_api (net_new acc) 0 tr ->
  exists n' now' recs, run_net (net_new acc) 0 tr = Ok (n', now', recs) /\ net_ok n' /\
    Forall (fun r => match nr_out r with Some out => sent_ok (no_sent out) | None => True end) recs.
Proof. intros tr acc Hv. exact (run_net_ok tr (net_new acc) 0 (net_new_ok acc) Hv). Qed.

(* Isolation. For every valid history and every address a: the endpoint's run, projected onto a
   (events, outgoing datagrams WITH destination a, warnings, results, a's deadline after every step,
   and the final connection of a's peer), IS the run of the isolated address on the sub-history
   that concerns a. *)
Theorem C20_simulation : forall tr acc a, valid_net_api (net_new acc) 0 tr ->
  exists n' now' recs, run_net (net_new acc) 0 tr = Ok (n', now', recs) /\
    run_addr acc None 0 (map (label_for a) recs) = Ok (view n' a, now', map (obs_for a) recs).
Proof.
  intros tr acc a Hv. destruct (run_net_ok tr _ 0 (net_new_ok acc) Hv) as [n' [now' [recs [Hr _]]]].
  exists n', now', recs. split; [exact Hr|].
  exact (proj2 (proj2 (run_sim tr _ 0 _ _ _ a (proj1 (net_new_ok acc)) (valid_one_peer tr _ _ Hv) Hr))).
Qed.

(* The same for every history that ran to its end, under the only part of the contract isolation
   needs: the application does not connect twice to one address. *)
Theorem C20_simulation_any_run : forall tr acc a n' now' recs,
  one_peer_per_addr (net_new acc) 0 tr ->
  run_net (net_new acc) 0 tr = Ok (n', now', recs) ->
  run_addr acc None 0 (map (label_for a) recs) = Ok (view n' a, now', map (obs_for a) recs).
Proof.
  intros tr acc a n' now' recs Hc Hr.
  exact (proj2 (proj2 (run_sim tr _ 0 _ _ _ a (proj1 (net_new_ok acc)) Hc Hr))).
Qed.

(* One call, from any state with distinct pids and addresses: for each address either one step of
   its isolated slot with the same outputs, or nothing at all (no event, no datagram to it, no
   warning, the slot -- state machine, queues, timers -- unchanged). *)
Theorem C20_step_isolation : forall n e o out, tab_ok (n_peers n) -> connect_ok n o -> net_step n e o = Ok out ->
  tab_ok (n_peers (no_net out)) /\ forall a, sim_at n e o out a.
Proof. intros n e o out Hok Hc H. destruct (step_sim n e o out Hok Hc H) as [H1 [_ H2]]. split; assumption. Qed.

(* Calls that concern other addresses are stutters of the isolated run: dropping them changes nothing
   but the positions in the observation list. *)
Definition is_skip (l : alabel) : bool := match l with ASkip => true | _ => false end.
Theorem C20_skips_are_stutters : forall acc tr s now s' now' obs,
  run_addr acc s now tr = Ok (s', now', obs) ->
  run_addr acc s now (filter (fun l => negb (is_skip l)) tr) =
    Ok (s', now', map snd (filter (fun x => negb (is_skip (fst x))) (combine tr obs))).
Proof.
  intros acc tr. induction tr as [|l tr IH]; intros s now s' now' obs H.
  - cbn [run_addr] in H. injection H as <- <- <-. reflexivity.
  - destruct l as [dt|rnd o|]; cbn [run_addr filter is_skip negb] in *.
    + destruct (run_addr acc s (now + dt) tr) as [[[s1 now1] obs1]| | |] eqn:Er; try discriminate.
      injection H as <- <- <-. rewrite (IH _ _ _ _ _ Er). reflexivity.
    + destruct (astep acc s (mkenv now rnd) o) as [out| | |]; try discriminate.
      destruct (run_addr acc (ao_slot out) now tr) as [[[s1 now1] obs1]| | |] eqn:Er; try discriminate.
      injection H as <- <- <-. rewrite (IH _ _ _ _ _ Er). reflexivity.
    + destruct (run_addr acc s now tr) as [[[s1 now1] obs1]| | |] eqn:Er; try discriminate.
      injection H as <- <- <-. cbn [combine filter fst is_skip negb]. exact (IH _ _ _ _ _ Er).
Qed.

(* The endpoint's deadline is the minimum of the deadlines of the addresses it holds peers for. *)
Theorem C20_needs_tick : forall n, tab_ok (n_peers n) ->
  net_needs_tick n = fold_right tmin None (map (fun a => slot_tick (view n a)) (addrs (n_peers n))).
Proof. intros n [_ Ha]. exact (needs_tick_min (n_peers n) Ha). Qed.

(* A datagram from an address with no peer changes the peer table iff it is a Connect on an
   accepting endpoint, and then adds exactly one pending peer (fresh connection, unused pid,
   announced by one Connect event); nothing is ever sent in answer. *)
Theorem C20_unknown_addr : forall n e a r out, view n a = None -> net_step n e (NFeed a r) = Ok out ->
  match is_connect r, n_accept n with
  | Some tok, true =>
    exists pid, get_peer (n_peers n) pid = None /\
      n_peers (no_net out) = n_peers n ++ [(pid, peer_new a tok)] /\
      no_events out = [{| ne_addr := a; ne_pid := Some pid; ne_kind := NKConnect |}] /\ no_sent out = []
  | _, _ =>
    n_peers (no_net out) = n_peers n /\ no_sent out = [] /\
    forall ev, In ev (no_events out) -> exists payload, ev = {| ne_addr := a; ne_pid := None; ne_kind := NKConn (EvConnless payload) |}
  end.
Proof. exact unknown_addr. Qed.

(* Peer ids of live peers are distinct in every state any history reaches (valid or not). *)
Theorem C20_pids_distinct : forall tr acc n' now' recs,
  run_net (net_new acc) 0 tr = Ok (n', now', recs) ->
  NoDup (pids (n_peers n')) /\ Forall (fun r => NoDup (pids (n_peers (nr_post r)))) recs.
Proof. intros tr acc n' now' recs H. apply (run_pids tr (net_new acc) 0 n' now' recs); [constructor|exact H]. Qed.

(* A peer is gone after it was disconnected by either side. *)
Theorem C20_gone_after_disconnect : forall n e o out pid, NoDup (pids (n_peers n)) -> net_step n e o = Ok out ->
  (exists r, o = NDisconnect pid r) \/ (exists r, o = NReject pid r) \/ o = NIgnore pid ->
  pid_live (no_net out) pid = false.
Proof. exact gone_after_call. Qed.

Theorem C20_gone_after_close : forall n e a r out pid reason, NoDup (pids (n_peers n)) ->
  net_step n e (NFeed a r) = Ok out ->
  In {| ne_addr := a; ne_pid := Some pid; ne_kind := NKConn (EvDisconnect reason) |} (no_events out) ->
  pid_live (no_net out) pid = false.
Proof. exact gone_after_close. Qed.

(* "The calls on the pid that belongs to address a" is well-defined: a live pid keeps its address and
   token flag across every call (`keeps`), and every event carries the pid under which the table holds
   the event's address (before the call for what a peer's connection reports, after it for the Connect
   event of a new pending peer). *)
Theorem C20_pid_owner_stable : forall n e o out, NoDup (pids (n_peers n)) -> net_step n e o = Ok out ->
  forall pid p p', get_peer (n_peers n) pid = Some p -> get_peer (n_peers (no_net out)) pid = Some p' ->
    p_addr p' = p_addr p /\ p_token p' = p_token p.
Proof.
  intros n e o out Hnd H pid p p' Hg Hg'. pose proof (step_keeps n e o out Hnd H pid p' Hg') as Hk.
  rewrite Hg in Hk. exact Hk.
Qed.

Theorem C20_event_pids : forall n e o out, NoDup (pids (n_peers n)) -> net_step n e o = Ok out ->
  Forall (event_pid_ok n (no_net out)) (no_events out).
Proof. exact step_event_pids. Qed.

(* ---------- the two defects, pinned on the code as it was ---------- *)
(* #21: with the routing before fix b23a063 a repeated Connect makes the pending peer's connection
   answer before the application accepted, and Net::accept then panics *)
Example C20_defect21_before_fix_refuted :
  exists e a r pid, raw_ok r /\ rand_ok e /\
    match net_feed_before_fix (net_new true) e a r with
    | Ok o1 =>
      no_events o1 = [{| ne_addr := a; ne_pid := Some pid; ne_kind := NKConnect |}] /\ no_sent o1 = [] /\
      match net_feed_before_fix (no_net o1) e a r with
      | Ok o2 => no_sent o2 = [(a, DControl (Some [1; 2; 3; 4]) 0 ConnectAccept)] /\
                 net_step (no_net o2) e (NAccept pid) = Panic site_accept_not_pending
      | _ => False
      end
    | _ => False
    end.
Proof.
  exists (mkenv 0 [[1; 2; 3; 4]]), 7, (fun _ => Some (DControl (Some TOKEN_NONE) 0 (Connect None))), 0.
  split; [intros h d H; injection H as <-; cbn; split; [reflexivity|unfold SEQ_MOD; split; [apply Z.le_refl|reflexivity]]|].
  split; [split; [repeat constructor|eexists _, _; reflexivity]|].
  vm_compute. repeat split; reflexivity.
Qed.

(* Net::reject before fix e2e7a4f panicked on every pending peer, whatever the reason *)
Theorem C20_reject_before_fix_refuted : forall n e pid p reason,
  get_peer (n_peers n) pid = Some p -> is_unconnected (p_conn p) = true ->
  exists s, net_reject_before_fix n e pid reason = Panic s.
Proof.
  intros n e pid p reason Hg Hu. unfold net_reject_before_fix. rewrite Hg, Hu. cbn [negb].
  unfold peer_call, step. unfold is_unconnected in Hu. destruct (c_state (p_conn p)); try discriminate.
  destruct (existsb (fun b => b =? 0) reason); cbn [bind]; eexists; reflexivity.
Qed.

(* ---------- non-vacuity, and the history of defect #21 on the repaired code ---------- *)
(* address 7 sends Connect twice before the application decides (the history that used to kill
   Net::accept), address 9 connects too; 7 is accepted, 9 rejected; a tick. *)
Definition connect_raw : raw := fun _ => Some (DControl (Some TOKEN_NONE) 0 (Connect None)).
Definition rnd1 : list token := [[1; 2; 3; 4]].
Definition demo : list nlabel :=
  [ NCall rnd1 (NFeed 7 connect_raw); NCall rnd1 (NFeed 7 connect_raw); NCall rnd1 (NFeed 9 connect_raw);
    NClock 500000; NCall rnd1 NTick;
    NCall rnd1 (NAccept 0); NCall rnd1 (NReject 1 [102; 117; 108; 108]);
    NClock 500000; NCall rnd1 NTick ].

Lemma connect_raw_ok : raw_ok connect_raw.
Proof.
  intros h d H. injection H as <-. cbn. split; [reflexivity|]. unfold SEQ_MOD. split; [apply Z.le_refl|reflexivity].
Qed.
Lemma rnd1_ok now : rand_ok (mkenv now rnd1).
Proof. split; [repeat constructor|]. eexists _, _. reflexivity. Qed.

Ltac run_step :=
  match goal with
  | |- context [net_step ?n ?e ?o] =>
    let v := eval vm_compute in (net_step n e o) in change (net_step n e o) with v; cbn iota; cbn [no_net]
  end.

Example C20_nonvacuous :
  valid_net_api (net_new true) 0 demo /\
  match run_net (net_new true) 0 demo with
  | Ok (n', _, recs) =>
    map (fun r => match nr_out r with Some out => (no_sent out, map ne_pid (no_events out)) | None => ([], []) end) recs =
      [ ([], [Some 0]); ([], []); ([], [Some 1]); ([], []); ([], []);
        ([(7, DControl (Some [1; 2; 3; 4]) 0 ConnectAccept)], []);
        ([(9, DControl None 0 (Close [102; 117; 108; 108]))], []);
        ([], []);
        ([(7, DControl (Some [1; 2; 3; 4]) 0 ConnectAccept)], []) ]
    /\ pids (n_peers n') = [0]
  | _ => False
  end.
Proof.
  split.
  - unfold demo. cbn [valid_net_api valid_nop].
    split; [split; [exact connect_raw_ok|split; [apply rnd1_ok|vm_compute; reflexivity]]|]. run_step.
    split; [split; [exact connect_raw_ok|split; [apply rnd1_ok|vm_compute; reflexivity]]|]. run_step.
    split; [split; [exact connect_raw_ok|split; [apply rnd1_ok|vm_compute; reflexivity]]|]. run_step.
    split; [exact I|]. run_step.
    split; [eexists; split; [reflexivity|split; [reflexivity|apply rnd1_ok]]|]. run_step.
    split; [eexists; split; [reflexivity|split; [reflexivity|split; [reflexivity|cbn; repeat constructor]]]|]. run_step.
    split; [exact I|]. run_step. exact I.
  - vm_compute. split; reflexivity.
Qed.

Print Assumptions C20_no_panic.
Print Assumptions C20_simulation.
Print Assumptions C20_simulation_any_run.
Print Assumptions C20_step_isolation.
Print Assumptions C20_skips_are_stutters.
Print Assumptions C20_needs_tick.
Print Assumptions C20_unknown_addr.
Print Assumptions C20_pids_distinct.
Print Assumptions C20_gone_after_disconnect.
Print Assumptions C20_gone_after_close.
Print Assumptions C20_pid_owner_stable.
Print Assumptions C20_event_pids.
Print Assumptions C20_defect21_before_fix_refuted.
Print Assumptions C20_reject_before_fix_refuted.
Print Assumptions C20_nonvacuous.

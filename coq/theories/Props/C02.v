(* C02 -- every call returns; a deadline is reported while work is pending.
   (The bounded-rounds progress theorem is in Proofs/ConnProgress.v when present.) *)
From LibTw2 Require Import Base.Res Model.PacketTypes Model.ConnCore Model.Conn6 Model.Conn7
  Model.LinkGhost Model.Link6
  Proofs.ConnCoreInv Proofs.Conn6Inv Proofs.Conn7Inv Proofs.LinkArith Proofs.LinkCore Proofs.Link6Inv
  Proofs.ConnProgress.
From Coq Require Import ZArith List.
Open Scope Z_scope.

(* every call returns: from every reachable state every valid call yields Ok -- in particular not
   OutOfFuel, the model's outcome for a loop that does not end. The only loop with a data-dependent
   bound is resend; its fuel is the explicit bound resend_fuel = 2 * |resend queue| + 2. *)
Theorem C02_calls_return6 : forall ls e o, valid_run6 conn6_new e (ls ++ [LOp o]) ->
  exists c' e' ds, run6 conn6_new e (ls ++ [LOp o]) = Ok (c', e', ds).
Proof.
  intros ls e o Hv. destruct (run_ok6 _ conn6_new e conn6_new_ok Hv) as [c' [e' [ds [H _]]]].
  exists c', e', ds. exact H.
Qed.
Theorem C02_calls_return7 : forall ls e o, valid_run7 conn7_new e (ls ++ [L7Op o]) ->
  exists c' e' ds, run7 conn7_new e (ls ++ [L7Op o]) = Ok (c', e', ds).
Proof.
  intros ls e o Hv. destruct (run_ok7 _ conn7_new e conn7_new_ok Hv) as [c' [e' [ds [H _]]]].
  exists c', e', ds. exact H.
Qed.

(* the resend loop itself: with the fuel the model gives it, it terminates from every state
   satisfying the invariant, whatever is queued (all accepted chunk sizes included) *)
Theorem C02_resend_terminates : forall pp now o, pp_ok pp -> online_ok pp o -> tok_ok (o_their o) ->
  exists o' ds ts, online_resend pp now o = Ok (o', ds, ts).
Proof.
  intros pp now o Hpp Hok Ht. destruct (online_resend_ok pp now o Hpp Hok Ht) as [o' [ds [ts [H _]]]].
  exists o', ds, ts. exact H.
Qed.

(* while the endpoint is mid-handshake or online, the reported deadline is finite; for every
   reachable state *)
Theorem C02_deadline_finite6 : forall ls e c' e' ds, valid_run6 conn6_new e ls ->
  run6 conn6_new e ls = Ok (c', e', ds) -> active6 c' -> needs_tick c' <> None.
Proof.
  intros ls e c' e' ds Hv Hr Ha. destruct (run_ok6 ls conn6_new e conn6_new_ok Hv) as [c2 [e2 [ds2 [H [Hok _]]]]].
  rewrite Hr in H. injection H as <- <- <-. exact (deadline6 c' Hok Ha).
Qed.
Theorem C02_deadline_finite7 : forall ls e c' e' ds, valid_run7 conn7_new e ls ->
  run7 conn7_new e ls = Ok (c', e', ds) -> active7 c' -> needs_tick7 c' <> None.
Proof.
  intros ls e c' e' ds Hv Hr Ha. destruct (run_ok7 ls conn7_new e conn7_new_ok Hv) as [c2 [e2 [ds2 [H [Hok _]]]]].
  rewrite Hr in H. injection H as <- <- <-. exact (deadline7 c' Hok Ha).
Qed.

(* chunks get through (the step that does the work, both protocol versions): the sender has
   submitted |sub| vital chunks and still holds a+1..|sub| in its resend queue, the receiver has been
   handed d of them (a <= d). When the resend deadline passes (online_resend) and the packet is
   flushed (online_flush: the next tick / flush), then whatever these two calls emit, delivered in
   order, leaves the receiver's acknowledgement at |sub| -- every submitted chunk is delivered -- and
   nothing stays in the sender's packet. *)
Theorem C02_catch_up : forall pp now o sub nvs a d rr o1 ds ts o2 ds2,
  snd_inv o sub nvs a -> pk_count_ok (o_packet_nv o) -> o_queue o <> [] ->
  a <= d <= zlen sub ->
  online_resend pp now o = Ok (o1, ds, ts) -> online_flush pp o1 = Ok (o2, ds2) ->
  exists rr' evs, recv_chunks (seqof d) rr (flat (ds ++ ds2)) = Ok (seqof (zlen sub), rr', evs)
                  /\ pc_chunks (o_packet o2) = [].
Proof. exact catch_up. Qed.

(* ... and its hypotheses hold in every reachable state of the 0.6 link of property C01: if A is
   online with unacknowledged chunks and B is online, one resend + flush at A, delivered in order
   to B, completes the delivery of everything A's application submitted *)
Theorem C02_catch_up_reachable6 : forall ra rb ls w oa ob now o1 ds ts o2 ds2,
  admissible_run (link_new ra rb) ls -> link_run (link_new ra rb) ls = Ok w ->
  c_state (l_conn (k_a w)) = Online oa -> c_state (l_conn (k_b w)) = Online ob ->
  o_queue oa <> [] ->
  online_resend params6 now oa = Ok (o1, ds, ts) -> online_flush params6 o1 = Ok (o2, ds2) ->
  exists rr' evs, recv_chunks (o_ack ob) (o_rr ob) (flat (ds ++ ds2))
                  = Ok (seqof (zlen (l_sub (k_a w))), rr', evs).
Proof.
  intros ra rb ls w oa ob now o1 ds ts o2 ds2 Hadm Hrun Hoa Hob Hq Hr Hf.
  destruct (link_run_inv ls _ (link_new_inv ra rb) Hadm) as [w' [Hrun' [HA [HB _]]]].
  rewrite Hrun in Hrun'. injection Hrun' as <-.
  destruct (online_parts _ _ _ _ _ _ HA Hoa) as [_ [_ [Hcnv [a [Hsnd [Ha _]]]]]].
  destruct (sv_online _ _ _ _ _ HB ob Hob) as [_ [_ [_ Hackb]]].
  pose proof (sv_dle _ _ _ _ _ HB) as Hdle.
  rewrite Hackb.
  destruct (catch_up params6 now oa _ _ a (zlen (l_del (k_b w))) (o_rr ob) o1 ds ts o2 ds2 Hsnd Hcnv Hq
              (conj Ha Hdle) Hr Hf) as [rr' [evs [E _]]].
  exists rr', evs. exact E.
Qed.

(* non-vacuity, and the witness of the repaired defect 8ebb95a: a 0.7 endpoint with a 1390-byte
   vital chunk in its resend queue; the resend returns and emits the chunk in a 1400-byte datagram *)
Example C02_nonvacuous :
  let big := repeat 65 1390 in
  let o := online_new (Some [1;1;1;1]) (Some [2;2;2;2]) in
  match online_send params7 0 o big true with
  | Ok (o1, _, SendOk) =>
    match online_flush params7 o1 with
    | Ok (o2, [DChunks _ _ _ 1 _]) =>
      match online_resend params7 2000000 o2 with
      | Ok (o3, [], false) => pc_len (o_packet o3) = 1393 /\ chunks_dgram_size params7 (o_their o3) 1393 = 1400
      | _ => False
      end
    | _ => False
    end
  | _ => False
  end.
Proof. vm_compute. split; reflexivity. Qed.

Print Assumptions C02_calls_return6.
Print Assumptions C02_calls_return7.
Print Assumptions C02_resend_terminates.
Print Assumptions C02_deadline_finite6.
Print Assumptions C02_deadline_finite7.
Print Assumptions C02_catch_up.
Print Assumptions C02_catch_up_reachable6.
Print Assumptions C02_nonvacuous.

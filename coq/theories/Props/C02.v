(* C02 -- every call returns; a deadline is reported while work is pending.
   (The bounded-rounds progress theorem is in Proofs/ConnProgress.v when present.) *)
From LibTw2 Require Import Base.Res Model.PacketTypes Model.ConnCore Model.Conn6 Model.Conn7
  Proofs.ConnCoreInv Proofs.Conn6Inv Proofs.Conn7Inv.
From Coq Require Import ZArith List.
Open Scope Z_scope.

(* every call returns: from every reachable state every valid call yields Ok -- in particular not
   OutOfFuel, the model's outcome for a loop that does not end. The only loop with a data-dependent
   bound is resend; its fuel is the explicit bound resend_fuel = 2 * |resend queue| + 2. *)
Theorem C02_calls_return6 : forall ls e o, valid_run6 conn6_new e (ls ++ [LOp o]) ->
  exists c' e' ds, run6 conn6_new e (ls ++ [LOp o]) = Ok (c', e', ds).
Proof.
  intros ls e o Hv. destruct (run_ok6 _ conn6_new e conn6_new_ok Hv) as [c' [e' [ds [H _]]]].
  exists c', e', ds. exact H.
Qed.
Theorem C02_calls_return7 : forall ls e o, valid_run7 conn7_new e (ls ++ [L7Op o]) ->
  exists c' e' ds, run7 conn7_new e (ls ++ [L7Op o]) = Ok (c', e', ds).
Proof.
  intros ls e o Hv. destruct (run_ok7 _ conn7_new e conn7_new_ok Hv) as [c' [e' [ds [H _]]]].
  exists c', e', ds. exact H.
Qed.

(* the resend loop itself: with the fuel the model gives it, it terminates from every state
   satisfying the invariant, whatever is queued (all accepted chunk sizes included) *)
Theorem C02_resend_terminates : forall pp now o, pp_ok pp -> online_ok pp o -> tok_ok (o_their o) ->
  exists o' ds ts, online_resend pp now o = Ok (o', ds, ts).
Proof.
  intros pp now o Hpp Hok Ht. destruct (online_resend_ok pp now o Hpp Hok Ht) as [o' [ds [ts [H _]]]].
  exists o', ds, ts. exact H.
Qed.

(* while the endpoint is mid-handshake or online, the reported deadline is finite; for every
   reachable state *)
Theorem C02_deadline_finite6 : forall ls e c' e' ds, valid_run6 conn6_new e ls ->
  run6 conn6_new e ls = Ok (c', e', ds) -> active6 c' -> needs_tick c' <> None.
Proof.
  intros ls e c' e' ds Hv Hr Ha. destruct (run_ok6 ls conn6_new e conn6_new_ok Hv) as [c2 [e2 [ds2 [H [Hok _]]]]].
  rewrite Hr in H. injection H as <- <- <-. exact (deadline6 c' Hok Ha).
Qed.
Theorem C02_deadline_finite7 : forall ls e c' e' ds, valid_run7 conn7_new e ls ->
  run7 conn7_new e ls = Ok (c', e', ds) -> active7 c' -> needs_tick7 c' <> None.
Proof.
  intros ls e c' e' ds Hv Hr Ha. destruct (run_ok7 ls conn7_new e conn7_new_ok Hv) as [c2 [e2 [ds2 [H [Hok _]]]]].
  rewrite Hr in H. injection H as <- <- <-. exact (deadline7 c' Hok Ha).
Qed.

(* non-vacuity, and the witness of the repaired defect 8ebb95a: a 0.7 endpoint with a 1390-byte
   vital chunk in its resend queue; the resend returns and emits the chunk in a 1400-byte datagram *)
Example C02_nonvacuous :
  let big := repeat 65 1390 in
  let o := online_new (Some [1;1;1;1]) (Some [2;2;2;2]) in
  match online_send params7 0 o big true with
  | Ok (o1, _, SendOk) =>
    match online_flush params7 o1 with
    | Ok (o2, [DChunks _ _ _ 1 _]) =>
      match online_resend params7 2000000 o2 with
      | Ok (o3, [], false) => pc_len (o_packet o3) = 1393 /\ chunks_dgram_size params7 (o_their o3) 1393 = 1400
      | _ => False
      end
    | _ => False
    end
  | _ => False
  end.
Proof. vm_compute. split; reflexivity. Qed.

Print Assumptions C02_calls_return6.
Print Assumptions C02_calls_return7.
Print Assumptions C02_resend_terminates.
Print Assumptions C02_deadline_finite6.
Print Assumptions C02_deadline_finite7.
Print Assumptions C02_nonvacuous.

(* C07 (continued) - Huffman::from_frequencies builds a well-formed table for EVERY frequency
   vector for which it returns one, so the codec theorems of Props/C07.v (stated over
   every table with wf_table t = true) apply to every table the crate can construct, not
   only to the built-in one. Only the theorems; the proofs are in Proofs/HuffmanBuild.v
   (forest invariant of the combining loop, one tree rooted at ROOT_IDX at its end, the
   explicit-stack depth-first walk stores at every leaf the path from the root or overflows
   its 24-entry stack).

   `from_frequencies` (Model/Huffman.v) checks `frequencies.len() == 256` itself
   (Panic site_ff_len otherwise), and nothing in the construction depends on the values
   being u32 (saturating_add is a Z.min): the theorems need no hypothesis on the vector
   beyond `from_frequencies freqs = Ok t`. *)
From LibTw2 Require Import Base.Res Model.Huffman Gen.HuffTable Model.HuffmanRef
  Proofs.HuffmanBits Proofs.HuffmanCompress Proofs.HuffmanBuild Props.C07.
From Coq Require Import ZArith List Lia Bool.
Import ListNotations.
Open Scope Z_scope.

(* (1) every table from_frequencies returns is a well-formed prefix code over the 257 symbols *)
Theorem C07_from_frequencies_wf : forall freqs t,
  from_frequencies freqs = Ok t -> wf_table t = true.
Proof. intros freqs t H. exact (proj1 (from_frequencies_wf freqs t H)). Qed.

(* ... and a tree whose leaves sit at the depth their num_bits says (the hypothesis
   `tree_table` of C07_ref_decompress, written out as in C07_builtin_tree) *)
Theorem C07_from_frequencies_tree : forall freqs t,
  from_frequencies freqs = Ok t -> depths_ok t 24 ROOT_IDX 0 = true.
Proof. intros freqs t H. exact (proj2 (from_frequencies_wf freqs t H)). Qed.

(* (2) the complete outcome on 256 frequencies (any values): a well-formed table, or the
   panic of the push on the full 24-entry DFS stack (K07) - no other panic site (node index,
   to_node's assert, set_from's assert), no error, and the fuel of the model (300 / 4000 / 30)
   always suffices *)
Theorem C07_from_frequencies_outcome : forall freqs, length freqs = 256%nat ->
  (exists t, from_frequencies freqs = Ok t /\ wf_table t = true /\ depths_ok t 24 ROOT_IDX 0 = true)
  \/ from_frequencies freqs = Panic site_stack_push.
Proof. exact from_frequencies_outcome. Qed.

Theorem C07_from_frequencies_fails_only_by_stack : forall freqs s, length freqs = 256%nat ->
  from_frequencies freqs = Panic s -> s = site_stack_push.
Proof.
  intros freqs s Hlen H. destruct (from_frequencies_outcome freqs Hlen) as [(t & E & _)|E];
    rewrite E in H; [discriminate|]. now injection H as <-.
Qed.

Theorem C07_from_frequencies_never_errs : forall freqs,
  match from_frequencies freqs with
  | Ok t => wf_table t = true
  | Panic s => s = if (length freqs =? 256)%nat then site_stack_push else site_ff_len
  | Err _ | OutOfFuel => False
  end.
Proof.
  intros freqs. destruct (Nat.eqb_spec (length freqs) 256) as [Hlen|Hlen].
  - destruct (from_frequencies_outcome freqs Hlen) as [(t & E & Hwf & _)|E]; rewrite E; auto.
  - now rewrite (from_frequencies_len_panic freqs Hlen).
Qed.

(* (3) the codec theorems of Props/C07.v for every table from_frequencies can return and every
   byte string, both output forms (bug = false: compress, bug = true: compress_bug):
   lossless with arbitrary trailing bytes; through the Vec API; exact predicted lengths =
   exact capacity need; the decoder is total, bounded and fails only by capacity *)
Theorem C07_from_frequencies_roundtrip : forall freqs t, from_frequencies freqs = Ok t ->
  (forall x bug ccap c tail cap fuel,
     bytes_ok x = true -> compress t x bug ccap = Ok c ->
     (length x <= cap)%nat -> (length c <= fuel)%nat ->
     decompress fuel t (c ++ tail) cap = Ok x)
  /\ (forall x, bytes_ok x = true ->
        exists c, compress_into_vec t x = Ok c /\ decompress_into_vec t c = Ok x)
  /\ (forall x (bug : bool), bytes_ok x = true ->
        exists n : nat,
          (if bug then compressed_len_bug t x else compressed_len t x) = Ok (Z.of_nat n)
          /\ (forall cap, (n <= cap)%nat -> exists c, compress t x bug cap = Ok c /\ length c = n)
          /\ (forall cap, (cap < n)%nat -> compress t x bug cap = Err tt)
          /\ (n <= 3 * length x + 4)%nat)
  /\ (forall y cap,
        (forall fuel, (dec_fuel y cap <= fuel)%nat ->
           decompress fuel t y cap = decompress (dec_fuel y cap) t y cap)
        /\ match decompress (dec_fuel y cap) t y cap with
           | Ok out => (length out <= cap)%nat
           | Err e => e = Capacity
           | Panic _ | OutOfFuel => False
           end).
Proof.
  intros freqs t H. pose proof (C07_from_frequencies_wf freqs t H) as Hwf.
  split; [|split; [|split]].
  - intros x bug ccap c tail cap fuel. now apply C07_roundtrip.
  - intros x. now apply C07_roundtrip_vec.
  - intros x bug. now apply C07_len.
  - intros y cap. now apply C07_decoder_total.
Qed.

(* what the compressor writes with such a table: the code words, EOF, zero padding *)
Theorem C07_from_frequencies_spec : forall freqs t x bug ccap c,
  from_frequencies freqs = Ok t -> bytes_ok x = true ->
  compress t x bug ccap = Ok c ->
  bytes_ok c = true
  /\ exists pad : nat, bits_of_bytes c = encode_bits t x ++ repeat false pad
       /\ (pad < 8 \/ (bug = true /\ pad = 8))%nat.
Proof. intros freqs t x bug ccap c H. apply C07_spec. exact (C07_from_frequencies_wf freqs t H). Qed.

(* the models of the C++ compressor / decoder holding such a table (C07_ref_compress,
   C07_ref_decompress): both of their table hypotheses are now discharged *)
Theorem C07_from_frequencies_ref_compress : forall freqs t x cap,
  from_frequencies freqs = Ok t -> bytes_ok x = true -> (1 <= cap)%nat ->
  ref_compress t x cap = compress t x true cap.
Proof. intros freqs t x cap H. apply C07_ref_compress. exact (C07_from_frequencies_wf freqs t H). Qed.

Theorem C07_from_frequencies_ref_decompress : forall freqs t y fuel cap res,
  from_frequencies freqs = Ok t -> bytes_ok y = true ->
  ref_decompress fuel t y cap = Ok res ->
  forall cap' fuel', (length res <= cap')%nat -> (dec_fuel y cap' <= fuel')%nat ->
  decompress fuel' t y cap' = Ok res.
Proof.
  intros freqs t y fuel cap res H. apply C07_ref_decompress.
  - exact (C07_from_frequencies_wf freqs t H).
  - exact (C07_from_frequencies_tree freqs t H).
Qed.

(* non-vacuity: a skewed vector (2^i for the first 16 bytes, 2^17 for the others; nothing like
   data/frequencies) is accepted, its code words are 7 to 24 bits long (24 = the limit of
   wf_table and of the DFS stack; bytes 0, 1, 2 get 24, 23, 22 bits), the table differs from the built-in one and round-trips;
   two more small counts make the tree 25 high and hit the panic branch of the outcome theorem *)
Definition skewed (n : nat) (big : Z) : list Z :=
  map (fun i => if (i <? n)%nat then 2 ^ Z.of_nat i else big) (seq 0 256).
Definition skewed_table : table :=
  match from_frequencies (skewed 16 (2 ^ 17)) with Ok t => t | _ => empty_table end.

Example C07build_nonvacuous :
  length (skewed 16 (2 ^ 17)) = 256%nat
  /\ forallb (fun v => (0 <=? v) && (v <=? u32_max)) (skewed 16 (2 ^ 17)) = true
  /\ skewed 16 (2 ^ 17) <> frequencies
  /\ from_frequencies (skewed 16 (2 ^ 17)) = Ok skewed_table
  /\ fold_left Nat.max (map (@length bool) (repr_of skewed_table)) 0%nat = 24%nat
  /\ fold_left Nat.min (map (@length bool) (repr_of skewed_table)) 99%nat = 7%nat
  /\ repr_of skewed_table <> repr_of teeworlds
  /\ wf_table skewed_table = true
  /\ compress skewed_table [0; 1; 0; 2; 0; 128; 255] false 20
     = Ok [120; 0; 128; 120; 0; 64; 60; 0; 64; 60; 0; 16; 15; 0; 48; 15; 31; 15; 0; 0]
  /\ compress skewed_table [0; 1; 0; 2; 0; 128; 255] false 19 = Err tt
  /\ compressed_len skewed_table [0; 1; 0; 2; 0; 128; 255] = Ok 20
  /\ decompress 21 skewed_table
       [120; 0; 128; 120; 0; 64; 60; 0; 64; 60; 0; 16; 15; 0; 48; 15; 31; 15; 0; 0; 77] 7
     = Ok [0; 1; 0; 2; 0; 128; 255]
  /\ from_frequencies (skewed 18 (2 ^ 17)) = Panic site_stack_push
  /\ forallb (fun v => (0 <=? v) && (v <=? u32_max)) (skewed 18 (2 ^ 17)) = true.
Proof.
  vm_compute. repeat split; discriminate.
Qed.

Print Assumptions C07_from_frequencies_wf.
Print Assumptions C07_from_frequencies_tree.
Print Assumptions C07_from_frequencies_outcome.
Print Assumptions C07_from_frequencies_fails_only_by_stack.
Print Assumptions C07_from_frequencies_never_errs.
Print Assumptions C07_from_frequencies_roundtrip.
Print Assumptions C07_from_frequencies_spec.
Print Assumptions C07_from_frequencies_ref_compress.
Print Assumptions C07_from_frequencies_ref_decompress.
Print Assumptions C07build_nonvacuous.

(* C03: a connection-oriented datagram that does not carry the agreed token is inert. *)
From LibTw2 Require Import Base.Res Model.PacketTypes Model.ConnCore Model.Conn6 Model.Conn7.
From Coq Require Import ZArith Lia Bool List.
Open Scope Z_scope.

Lemma tok_eqb_true a b : tok_eqb a b = true <-> a = b.
Proof.
  unfold tok_eqb. destruct a as [x|], b as [y|]; try (split; [discriminate|discriminate]); try tauto.
  destruct (list_eq_dec Z.eq_dec x y) as [->|Hn]; split; intros H; try reflexivity; try discriminate.
  injection H as ->. contradiction.
Qed.

(* ---------- 0.6 ---------- *)

Definition token_fixed6 (c : conn6) (t : token) : Prop :=
  state_token (c_state c) = Some (Some t).

Definition conn_oriented (d : dgram) : bool :=
  match d with DConnless _ _ _ => false | _ => true end.

Theorem inert6 c e d t :
  token_fixed6 c t -> conn_oriented d = true -> dgram_tok d <> Some t ->
  feed c e d = Ok (mk c e [] [] [WTokenMismatch] ROk).
Proof.
  unfold token_fixed6. intros Hfix Hco Hne.
  destruct d as [tk rs pl|tk ack ctl|tk ack rr n cs]; [discriminate Hco| |];
    unfold feed; cbn [dgram_tok dgram_ack] in *; rewrite Hfix;
    (destruct (tok_eqb tk (Some t)) eqn:E; [apply tok_eqb_true in E; contradiction|]);
    reflexivity.
Qed.

Theorem garbage_inert6 c e : step c e OpFeedGarbage = Ok (mk c e [] [] [] ROk).
Proof. reflexivity. Qed.

(* once the token is fixed it stays fixed for as long as the endpoint is pending or online:
   no datagram and no call changes it *)
Theorem token_random_not_reserved rnd t r :
  token_random rnd = Ok (t, r) -> t <> TOKEN_NONE /\ t <> TOKEN_RESERVED.
Proof.
  induction rnd as [|x rnd IH]; cbn [token_random]; [discriminate|].
  destruct (list_eq_dec Z.eq_dec x TOKEN_NONE) as [->|H1]; [exact IH|].
  destruct (list_eq_dec Z.eq_dec x TOKEN_RESERVED) as [->|H2]; [exact IH|].
  intros H; injection H as <- <-. split; assumption.
Qed.

(* the only place where a 0.6 acceptor hands out a token *)
Theorem handed_out_token6 c e d out t :
  c_state c = Unconnected -> feed c e d = Ok out -> c_state (out_conn out) = Pending (Some t) ->
  t <> TOKEN_NONE /\ t <> TOKEN_RESERVED.
Proof.
  intros Hst Hf Hp. unfold feed in Hf. rewrite Hst in Hf. cbn [state_token] in Hf.
  destruct d as [tk rs pl|tk ack ctl|tk ack rr n cs]; cbn [dgram_tok dgram_ack] in Hf.
  - injection Hf as <-. cbn in Hp. rewrite Hst in Hp. discriminate.
  - destruct ((ack <? 0) || (SEQ_MOD <=? ack)); [discriminate|].
    destruct ctl as [|resp| | |reason|resp]; try (injection Hf as <-; cbn in Hp; discriminate).
    destruct tk as [tk|].
    + destruct (list_eq_dec Z.eq_dec tk TOKEN_NONE) as [->|Hn].
      * destruct (token_random (e_rand e)) as [[nt rnd']| | |] eqn:Er; cbn [bind] in Hf; try discriminate.
        unfold tick_action in Hf. cbn [c_state send_control] in Hf.
        destruct (MAX_PACKETSIZE <? control_size params6 (Some nt) ConnectAccept); cbn [bind] in Hf; [discriminate|].
        injection Hf as <-. cbn in Hp. injection Hp as <-. eapply token_random_not_reserved, Er.
      * injection Hf as <-. cbn in Hp. discriminate.
    + unfold tick_action in Hf. cbn [c_state send_control] in Hf.
      destruct (MAX_PACKETSIZE <? control_size params6 None ConnectAccept); cbn [bind] in Hf; [discriminate|].
      injection Hf as <-. cbn in Hp. discriminate.
  - destruct ((ack <? 0) || (SEQ_MOD <=? ack)); [discriminate|].
    injection Hf as <-. cbn in Hp. discriminate.
Qed.

(* ---------- 0.7 ---------- *)

Definition token_fixed7 (c : conn7) (t : token) : Prop := own_token (c7_state c) = Some t.

Definition carried7 (d : dgram) : token :=
  match dgram_tok d with Some t => t | None => TOKEN_NONE end.

Definition exception7 (c : conn7) (d : dgram) : bool :=
  match c7_state c, d with
  | PendingConnect7 _, DControl _ _ (TokenMsg _) => tokb (carried7 d) TOKEN_NONE
  | _, _ => false
  end.

Lemma tokb_true a b : tokb a b = true <-> a = b.
Proof. unfold tokb. destruct (list_eq_dec Z.eq_dec a b); split; intros; try reflexivity; try assumption; try discriminate. contradiction. Qed.
Lemma tokb_false a b : tokb a b = false <-> a <> b.
Proof. unfold tokb. destruct (list_eq_dec Z.eq_dec a b); split; intros; try reflexivity; try assumption; try discriminate. contradiction. Qed.

Theorem inert7 c e d t :
  token_fixed7 c t -> conn_oriented d = true -> carried7 d <> t -> exception7 c d = false ->
  feed7 c e d = Ok (mk7 c e [] [] [W7TokenMismatch] R7Ok).
Proof.
  unfold token_fixed7, carried7. intros Hfix Hco Hne Hex.
  destruct d as [tk rs pl|tk ack ctl|tk ack rr n cs]; [discriminate Hco| |];
    unfold feed7; cbn [dgram_tok] in *; rewrite Hfix.
  - set (tok := match tk with Some t0 => t0 | None => TOKEN_NONE end) in *.
    assert (Hsel : (if (match ctl with TokenMsg _ => true | _ => false end
                       && match c7_state c with PendingConnect7 _ => true | _ => false end
                       && tokb tok TOKEN_NONE) then TOKEN_NONE else t) = t).
    { destruct ctl; try reflexivity. destruct (c7_state c) eqn:Es; try reflexivity.
      unfold exception7 in Hex. rewrite Es in Hex. unfold carried7 in Hex. cbn [dgram_tok] in Hex.
      fold tok in Hex. rewrite Hex. reflexivity. }
    rewrite Hsel. apply tokb_false in Hne. rewrite Hne. reflexivity.
  - set (tok := match tk with Some t0 => t0 | None => TOKEN_NONE end) in *.
    cbn [andb]. apply tokb_false in Hne. rewrite Hne. reflexivity.
Qed.

(* connectionless 0.7 datagrams carry both tokens: a wrong one makes them inert as well *)
Theorem inert7_connless c e tk rs pl :
  (tk <> own_token (c7_state c) \/ rs <> their_token (c7_state c)) ->
  exists w, feed7 c e (DConnless tk rs pl) = Ok (mk7 c e [] [] [w] R7Ok).
Proof.
  intros H. unfold feed7.
  assert (Ho : forall a b, otokb a b = true <-> a = b).
  { intros a b. unfold otokb. destruct a, b; try (split; [discriminate|discriminate]); try tauto.
    rewrite tokb_true. split; [intros ->; reflexivity|intros E; injection E; auto]. }
  destruct (otokb tk (own_token (c7_state c))) eqn:E1; cbn [negb].
  - destruct (otokb rs (their_token (c7_state c))) eqn:E2; cbn [negb]; [|eexists; reflexivity].
    apply Ho in E1. apply Ho in E2. destruct H; contradiction.
  - eexists; reflexivity.
Qed.

(* the explicit exception: an unauthenticated token request while waiting for the connect is
   answered, but changes nothing and yields no event *)
Theorem exception7_answer c e own tk ack their :
  c7_state c = PendingConnect7 own -> own <> TOKEN_NONE ->
  (match tk with Some t0 => t0 | None => TOKEN_NONE end) = TOKEN_NONE ->
  0 <= ack < SEQ_MOD ->
  feed7 c e (DControl tk ack (TokenMsg their)) =
  Ok (mk7 c e [DControl (Some their) 0 (TokenMsg own)] [] [] R7Ok).
Proof.
  intros Hst Hown Htk Hack. unfold feed7. rewrite Hst. cbn [own_token]. rewrite Htk.
  cbn [andb]. replace (tokb TOKEN_NONE TOKEN_NONE) with true by (symmetry; apply tokb_true; reflexivity).
  replace (tokb TOKEN_NONE TOKEN_NONE) with true by (symmetry; apply tokb_true; reflexivity).
  cbn [negb]. replace ((ack <? 0) || (SEQ_MOD <=? ack)) with false by (unfold SEQ_MOD in *; lia).
  unfold send_control_with7. apply tokb_false in Hown. rewrite Hown.
  assert (Hs : (MAX_PACKETSIZE <? control_size params7 (Some their) (TokenMsg own)) = false).
  { unfold control_size, params7, MAX_PACKETSIZE; cbn [p_v7].
    destruct (list_eq_dec Z.eq_dec their TOKEN_NONE); reflexivity. }
  rewrite Hs. cbn [bind]. destruct c as [st sd]. cbn in Hst. subst st. reflexivity.
Qed.

Theorem token_random7_not_none rnd t r : token_random7 rnd = Ok (t, r) -> t <> TOKEN_NONE.
Proof.
  induction rnd as [|x rnd IH]; cbn [token_random7]; [discriminate|].
  destruct (tokb x TOKEN_NONE) eqn:E; [exact IH|].
  intros H; injection H as <- <-. apply tokb_false, E.
Qed.

(* C02 for 0.6 at the level of the link, the handshake half: from every state of the two-endpoint
   link in which the connecting side A is mid-handshake (Connecting) and the accepting side B has
   either not seen a Connect yet (Unconnected) or has answered and waits (Pending), there is a
   finite schedule -- the network loses what is in flight, one side lets its 500 ms handshake timer
   run out and ticks, every datagram emitted from then on is delivered exactly once -- after which
   A is online and has been told Ready exactly once, and B is pending with the token A uses.

   In net/src/connection.rs the acceptor leaves Pending only when the first *chunk* datagram of
   the connector arrives (`Control(Accept) => return none`); ticks and flushes alone never emit
   one from a connector that has nothing to send (no_chunks_run below). So the acceptor goes
   online with the first send of A's application; that step and the healing schedule of
   Link6Heal.v are composed in progress_link. late_accept_link covers the states in between: A is
   online and has something to send or resend, B is still pending. *)
From LibTw2 Require Import Base.Res Model.PacketTypes Model.ConnCore Model.Conn6 Model.LinkGhost Model.Link6
  Proofs.ConnCoreInv Proofs.Conn6Inv Proofs.LinkArith Proofs.LinkCore Proofs.Link6Inv Proofs.ConnProgress
  Proofs.Link6Heal Proofs.Link6Tok.
From Coq Require Import ZArith Lia Bool List.
Open Scope Z_scope.

(* ================= part 1: one endpoint ================= *)

(* a call that touches none of the ghost histories and draws no random token *)
Definition keeps (x x' : lside) : Prop :=
  l_rand x' = l_rand x /\ l_sub x' = l_sub x /\ l_del x' = l_del x /\ l_nvs x' = l_nvs x /\
  l_nvr x' = l_nvr x.

Lemma ctl_fits tok c : match c with Close _ => False | _ => True end ->
  (MAX_PACKETSIZE <? control_size params6 tok c) = false.
Proof. intros H. destruct c; try contradiction; destruct tok; reflexivity. Qed.

Lemma triggered_some t now : t <= now -> triggered (Some t) now = true.
Proof. intros H. cbn. apply Z.leb_le, H. Qed.

(* the connecting side's handshake timer has run out: the Connect is sent again *)
Lemma hs_tick_connecting now x ta :
  c_state (l_conn x) = Connecting -> c_send (l_conn x) = Some ta -> ta <= now ->
  exists x', side_step now x OpTick = Ok (x', [mkf x (DControl (Some TOKEN_NONE) 0 (Connect None))]) /\
    l_conn x' = {| c_state := Connecting; c_send := Some (now + ms 500) |} /\ keeps x x' /\
    l_ready x' = l_ready x /\ l_answered x' = l_answered x.
Proof.
  destruct x as [[st sd] rnd sub del nvs nvr rdy ans]. cbn [l_conn c_state c_send]. intros -> -> Hle.
  unfold side_step, step. cbn [l_conn c_state c_send e_now l_rand].
  rewrite (triggered_some _ _ Hle). unfold tick_action. cbn [c_state send_control].
  rewrite ctl_fits by exact I. cbn [bind].
  eexists. split; [reflexivity|]. cbn. rewrite !app_nil_r, orb_false_r.
  split; [reflexivity|]. split; [repeat split|]. split; [change (ready_events []) with 0; lia|reflexivity].
Qed.

(* the pending side's handshake timer has run out: the ConnectAccept is sent again *)
Lemma hs_tick_pending now y t tb :
  c_state (l_conn y) = Pending t -> c_send (l_conn y) = Some tb -> tb <= now ->
  exists y', side_step now y OpTick = Ok (y', [mkf y (DControl t 0 ConnectAccept)]) /\
    l_conn y' = {| c_state := Pending t; c_send := Some (now + ms 500) |} /\ keeps y y' /\
    l_ready y' = l_ready y /\ l_answered y' = true.
Proof.
  destruct y as [[st sd] rnd sub del nvs nvr rdy ans]. cbn [l_conn c_state c_send]. intros -> -> Hle.
  unfold side_step, step. cbn [l_conn c_state c_send e_now l_rand].
  rewrite (triggered_some _ _ Hle). unfold tick_action. cbn [c_state send_control].
  rewrite ctl_fits by exact I. cbn [bind].
  eexists. split; [reflexivity|]. cbn. rewrite !app_nil_r, orb_true_r.
  split; [reflexivity|]. split; [repeat split|]. split; [change (ready_events []) with 0; lia|reflexivity].
Qed.

Lemma token_none_eq (A : Type) (a b : A) :
  (if list_eq_dec Z.eq_dec TOKEN_NONE TOKEN_NONE then a else b) = a.
Proof. destruct (list_eq_dec Z.eq_dec TOKEN_NONE TOKEN_NONE); [reflexivity|contradiction]. Qed.

(* a Connect with a token request reaches an acceptor that has not seen one: it draws a token,
   becomes pending and answers *)
Lemma hs_feed_connect now y ack r nt rnd' :
  c_state (l_conn y) = Unconnected -> token_random (l_rand y) = Ok (nt, rnd') -> 0 <= ack < SEQ_MOD ->
  exists y', side_step now y (OpFeed (DControl (Some TOKEN_NONE) ack (Connect r)))
             = Ok (y', [mkf y (DControl (Some nt) 0 ConnectAccept)]) /\
    l_conn y' = {| c_state := Pending (Some nt); c_send := Some (now + ms 500) |} /\
    l_rand y' = rnd' /\ l_sub y' = l_sub y /\ l_del y' = l_del y /\ l_nvs y' = l_nvs y /\ l_nvr y' = l_nvr y /\
    l_ready y' = l_ready y /\ l_answered y' = true.
Proof.
  destruct y as [[st sd] rnd sub del nvs nvr rdy ans]. cbn [l_conn c_state c_send l_rand]. intros -> Hr Hack.
  unfold side_step, step, feed. cbn [l_conn c_state c_send e_now e_rand l_rand dgram_tok dgram_ack state_token].
  replace ((ack <? 0) || (SEQ_MOD <=? ack)) with false by lia.
  rewrite token_none_eq, Hr. cbn [bind]. unfold tick_action. cbn [c_state send_control].
  rewrite ctl_fits by exact I. cbn [bind].
  eexists. split; [reflexivity|]. cbn. rewrite !app_nil_r, orb_true_r.
  split; [reflexivity|]. repeat (split; [reflexivity|]). split; [change (ready_events []) with 0; lia|reflexivity].
Qed.

(* the ConnectAccept reaches the connecting side: online, Ready, an Accept is sent *)
Lemma hs_feed_connect_accept now x tok ack :
  c_state (l_conn x) = Connecting -> 0 <= ack < SEQ_MOD ->
  exists x', side_step now x (OpFeed (DControl tok ack ConnectAccept))
             = Ok (x', [mkf x (DControl tok 0 Accept)]) /\
    l_conn x' = {| c_state := Online (online_new tok tok); c_send := c_send (l_conn x) |} /\ keeps x x' /\
    l_ready x' = l_ready x + 1 /\ l_answered x' = l_answered x.
Proof.
  destruct x as [[st sd] rnd sub del nvs nvr rdy ans]. cbn [l_conn c_state c_send]. intros -> Hack.
  unfold side_step, step, feed. cbn [l_conn c_state c_send e_now e_rand l_rand dgram_tok dgram_ack state_token].
  replace ((ack <? 0) || (SEQ_MOD <=? ack)) with false by lia.
  cbn [send_control]. rewrite ctl_fits by exact I. cbn [bind].
  eexists. split; [reflexivity|]. cbn. rewrite !app_nil_r, orb_false_r.
  split; [reflexivity|]. split; [repeat split|]. split; reflexivity.
Qed.

(* a control datagram other than Close with the right token reaches the pending side: nothing happens *)
Lemma hs_feed_pending_ctl now y t ack c :
  c_state (l_conn y) = Pending t -> 0 <= ack < SEQ_MOD ->
  match c with Close _ => False | _ => True end ->
  exists y', side_step now y (OpFeed (DControl t ack c)) = Ok (y', []) /\
    l_conn y' = l_conn y /\ keeps y y' /\ l_ready y' = l_ready y /\ l_answered y' = l_answered y.
Proof.
  destruct y as [[st sd] rnd sub del nvs nvr rdy ans]. cbn [l_conn c_state c_send]. intros -> Hack Hc.
  unfold side_step, step, feed. cbn [l_conn c_state c_send e_now e_rand l_rand dgram_tok dgram_ack state_token].
  rewrite tok_eqb_refl. cbn [negb].
  replace ((ack <? 0) || (SEQ_MOD <=? ack)) with false by lia.
  destruct c; try contradiction;
    (eexists; split; [reflexivity|]; cbn; rewrite !app_nil_r, orb_false_r;
     split; [reflexivity|]; split; [repeat split|]; split; [change (ready_events []) with 0; lia|reflexivity]).
Qed.

(* ================= part 2: the link, step by step ================= *)
Definition mkl (xa xb : lside) (ab ba : list flight) (now : Z) : link :=
  {| k_a := xa; k_b := xb; k_ab := ab; k_ba := ba; k_now := now |}.

Lemma link_eta w : w = mkl (k_a w) (k_b w) (k_ab w) (k_ba w) (k_now w).
Proof. destruct w; reflexivity. Qed.

Lemma lstep_time xa xb ab ba now dt :
  link_step (mkl xa xb ab ba now) (LTime dt) = Ok (mkl xa xb ab ba (now + dt)).
Proof. reflexivity. Qed.
Lemma lstep_appA xa xb ab ba now op x' fl : side_step now xa op = Ok (x', fl) ->
  link_step (mkl xa xb ab ba now) (LApp SA op) = Ok (mkl x' xb (ab ++ fl) ba now).
Proof. intros H. cbn. rewrite H. reflexivity. Qed.
Lemma lstep_appB xa xb ab ba now op y' fl : side_step now xb op = Ok (y', fl) ->
  link_step (mkl xa xb ab ba now) (LApp SB op) = Ok (mkl xa y' ab (ba ++ fl) now).
Proof. intros H. cbn. rewrite H. reflexivity. Qed.
Lemma lstep_delA xa xb f ab ba now y' fl : side_step now xb (OpFeed (f_d f)) = Ok (y', fl) ->
  link_step (mkl xa xb (f :: ab) ba now) (LDeliver SA 0) = Ok (mkl xa y' (f :: ab) (ba ++ fl) now).
Proof. intros H. cbn. rewrite H. reflexivity. Qed.
Lemma lstep_delB xa xb f ab ba now x' fl : side_step now xa (OpFeed (f_d f)) = Ok (x', fl) ->
  link_step (mkl xa xb ab (f :: ba) now) (LDeliver SB 0) = Ok (mkl x' xb (ab ++ fl) (f :: ba) now).
Proof. intros H. cbn. rewrite H. reflexivity. Qed.
Lemma lstep_dropA xa xb f ab ba now :
  link_step (mkl xa xb (f :: ab) ba now) (LDrop SA 0) = Ok (mkl xa xb ab ba now).
Proof. reflexivity. Qed.
Lemma lstep_dropB xa xb f ab ba now :
  link_step (mkl xa xb ab (f :: ba) now) (LDrop SB 0) = Ok (mkl xa xb ab ba now).
Proof. reflexivity. Qed.

Lemma adm_tick w s : admissible w (LApp s OpTick).
Proof. cbn. repeat split. Qed.
Lemma adm_delA xa xb f ab ba now : fresh f xb -> rand_ok {| e_now := now; e_rand := l_rand xb |} ->
  admissible (mkl xa xb (f :: ab) ba now) (LDeliver SA 0).
Proof. intros H1 H2. cbn. split; assumption. Qed.
Lemma adm_delB xa xb f ab ba now : fresh f xa -> rand_ok {| e_now := now; e_rand := l_rand xa |} ->
  admissible (mkl xa xb ab (f :: ba) now) (LDeliver SB 0).
Proof. intros H1 H2. cbn. split; assumption. Qed.

(* the oldest datagram from A / from B arrives and leaves the network *)
Lemma drainA xa xb f ab ba now y' fl :
  fresh f xb -> rand_ok {| e_now := now; e_rand := l_rand xb |} ->
  side_step now xb (OpFeed (f_d f)) = Ok (y', fl) ->
  sched (mkl xa xb (f :: ab) ba now) (drain SA 1) (mkl xa y' ab (ba ++ fl) now).
Proof.
  intros H1 H2 H3. eapply sched_cons; [apply adm_delA; assumption|apply lstep_delA, H3|].
  eapply sched_cons; [exact I|apply lstep_dropA|apply sched_nil].
Qed.
Lemma drainB xa xb f ab ba now x' fl :
  fresh f xa -> rand_ok {| e_now := now; e_rand := l_rand xa |} ->
  side_step now xa (OpFeed (f_d f)) = Ok (x', fl) ->
  sched (mkl xa xb ab (f :: ba) now) (drain SB 1) (mkl x' xb (ab ++ fl) ba now).
Proof.
  intros H1 H2 H3. eapply sched_cons; [apply adm_delB; assumption|apply lstep_delB, H3|].
  eapply sched_cons; [exact I|apply lstep_dropB|apply sched_nil].
Qed.

Lemma drainA_nil xa xb f ab ba now y' :
  fresh f xb -> rand_ok {| e_now := now; e_rand := l_rand xb |} ->
  side_step now xb (OpFeed (f_d f)) = Ok (y', []) ->
  sched (mkl xa xb (f :: ab) ba now) (drain SA 1) (mkl xa y' ab ba now).
Proof. intros H1 H2 H3. pose proof (drainA xa xb f ab ba now y' [] H1 H2 H3) as H. rewrite app_nil_r in H. exact H. Qed.

Lemma fresh_ctl x y tok ack c : zlen (l_sub y) - zlen (l_del x) < 1024 -> fresh (mkf x (DControl tok ack c)) y.
Proof. intros H. split; [exact H|]. intros ch s r []. Qed.

(* the two handshake schedules (after the losses) *)
Definition hs_connect (dt : Z) : list llabel :=
  [LTime dt; LApp SA OpTick] ++ drain SA 1 ++ drain SB 1 ++ drain SA 1.
Definition hs_answer (dt : Z) : list llabel :=
  [LTime dt; LApp SB OpTick] ++ drain SB 1 ++ drain SA 1.

(* what the handshake schedule reaches: A online and Ready, B pending with the same token, the
   network empty, no history touched *)
Record hs_done (xa xb xa' xb' : lside) (tok : option token) : Prop := {
  hd_a : c_state (l_conn xa') = Online (online_new tok tok);
  hd_b : c_state (l_conn xb') = Pending tok;
  hd_keep : l_sub xa' = l_sub xa /\ l_del xa' = l_del xa /\ l_nvs xa' = l_nvs xa /\ l_nvr xa' = l_nvr xa /\
            l_sub xb' = l_sub xb /\ l_del xb' = l_del xb /\ l_nvs xb' = l_nvs xb /\ l_nvr xb' = l_nvr xb;
  hd_ready : l_ready xa' = l_ready xa + 1 /\ l_ready xb' = l_ready xb;
  hd_ans : l_answered xb' = true;
  hd_randa : l_rand xa' = l_rand xa;
}.

(* B has not seen a Connect: A's timer runs out, A repeats the Connect, B answers, A is online *)
Lemma handshake_connect xa xb now ta nt rnd' :
  c_state (l_conn xa) = Connecting -> c_send (l_conn xa) = Some ta ->
  c_state (l_conn xb) = Unconnected -> token_random (l_rand xb) = Ok (nt, rnd') ->
  l_sub xa = [] -> l_del xa = [] -> l_sub xb = [] -> l_del xb = [] ->
  (forall t, rand_ok {| e_now := t; e_rand := l_rand xa |}) ->
  (forall t, rand_ok {| e_now := t; e_rand := l_rand xb |}) ->
  (forall t, rand_ok {| e_now := t; e_rand := rnd' |}) ->
  exists xa' xb',
    sched (mkl xa xb [] [] now) (hs_connect (Z.max 0 (ta - now))) (mkl xa' xb' [] [] (now + Z.max 0 (ta - now))) /\
    hs_done xa xb xa' xb' (Some nt) /\ l_rand xb' = rnd'.
Proof.
  intros Ca Sa Cb Hr SubA DelA SubB DelB Ra Rb Rb'. set (dt := Z.max 0 (ta - now)). set (t1 := now + dt).
  assert (Hle : ta <= t1) by (unfold t1, dt; lia).
  destruct (hs_tick_connecting t1 xa ta Ca Sa Hle) as [xa1 [T1 [Ca1 [[Ka1 [Ka2 [Ka3 [Ka4 Ka5]]]] [Ry1 An1]]]]].
  destruct (hs_feed_connect t1 xb 0 None nt rnd' Cb Hr) as [xb1 [T2 [Cb1 [Kb1 [Kb2 [Kb3 [Kb4 [Kb5 [Ry2 An2]]]]]]]]];
    [unfold SEQ_MOD; lia|].
  assert (Ca1' : c_state (l_conn xa1) = Connecting) by (rewrite Ca1; reflexivity).
  destruct (hs_feed_connect_accept t1 xa1 (Some nt) 0 Ca1') as [xa2 [T3 [Ca2 [[Kc1 [Kc2 [Kc3 [Kc4 Kc5]]]] [Ry3 An3]]]]];
    [unfold SEQ_MOD; lia|].
  assert (Cb1' : c_state (l_conn xb1) = Pending (Some nt)) by (rewrite Cb1; reflexivity).
  destruct (hs_feed_pending_ctl t1 xb1 (Some nt) 0 Accept Cb1') as [xb2 [T4 [Cb2 [[Kd1 [Kd2 [Kd3 [Kd4 Kd5]]]] [Ry4 An4]]]]];
    [unfold SEQ_MOD; lia|exact I|].
  exists xa2, xb2. split; [|split].
  - unfold hs_connect.
    eapply sched_cons; [exact I|apply lstep_time|]. fold t1.
    eapply sched_cons; [apply adm_tick|apply lstep_appA, T1|]. cbn [app].
    eapply sched_app.
    { eapply drainA; [|apply Rb|exact T2].
      apply fresh_ctl. rewrite SubB, DelA. cbn. lia. }
    cbn [app]. eapply sched_app.
    { eapply drainB; [|rewrite Ka1; apply Ra|exact T3].
      apply fresh_ctl. rewrite Ka2, SubA, DelB. cbn. lia. }
    cbn [app].
    eapply drainA_nil; [|rewrite Kb1; apply Rb'|exact T4].
    apply fresh_ctl. rewrite Kb2, SubB, Ka3, DelA. cbn. lia.
  - constructor.
    + rewrite Ca2. reflexivity.
    + rewrite Cb2, Cb1. reflexivity.
    + repeat split; congruence.
    + split; [rewrite Ry3, Ry1; reflexivity|congruence].
    + congruence.
    + congruence.
  - congruence.
Qed.

(* B is pending: its timer runs out, it repeats the ConnectAccept, A is online *)
Lemma handshake_answer xa xb now tok tb :
  c_state (l_conn xa) = Connecting ->
  c_state (l_conn xb) = Pending tok -> c_send (l_conn xb) = Some tb ->
  l_sub xa = [] -> l_del xa = [] -> l_sub xb = [] -> l_del xb = [] ->
  (forall t, rand_ok {| e_now := t; e_rand := l_rand xa |}) ->
  (forall t, rand_ok {| e_now := t; e_rand := l_rand xb |}) ->
  exists xa' xb',
    sched (mkl xa xb [] [] now) (hs_answer (Z.max 0 (tb - now))) (mkl xa' xb' [] [] (now + Z.max 0 (tb - now))) /\
    hs_done xa xb xa' xb' tok /\ l_rand xb' = l_rand xb.
Proof.
  intros Ca Cb Sb SubA DelA SubB DelB Ra Rb. set (dt := Z.max 0 (tb - now)). set (t1 := now + dt).
  assert (Hle : tb <= t1) by (unfold t1, dt; lia).
  destruct (hs_tick_pending t1 xb tok tb Cb Sb Hle) as [xb1 [T1 [Cb1 [[Kb1 [Kb2 [Kb3 [Kb4 Kb5]]]] [Ry1 An1]]]]].
  destruct (hs_feed_connect_accept t1 xa tok 0 Ca) as [xa1 [T2 [Ca1 [[Ka1 [Ka2 [Ka3 [Ka4 Ka5]]]] [Ry2 An2]]]]];
    [unfold SEQ_MOD; lia|].
  assert (Cb1' : c_state (l_conn xb1) = Pending tok) by (rewrite Cb1; reflexivity).
  destruct (hs_feed_pending_ctl t1 xb1 tok 0 Accept Cb1') as [xb2 [T3 [Cb2 [[Kd1 [Kd2 [Kd3 [Kd4 Kd5]]]] [Ry3 An3]]]]];
    [unfold SEQ_MOD; lia|exact I|].
  exists xa1, xb2. split; [|split].
  - unfold hs_answer.
    eapply sched_cons; [exact I|apply lstep_time|]. fold t1.
    eapply sched_cons; [apply adm_tick|apply lstep_appB, T1|]. cbn [app].
    eapply sched_app.
    { eapply drainB; [|apply Ra|exact T2].
      apply fresh_ctl. rewrite SubA, DelB. cbn. lia. }
    cbn [app].
    eapply drainA_nil; [|rewrite Kb1; apply Rb|exact T3].
    apply fresh_ctl. rewrite Kb2, SubB, DelA. cbn. lia.
  - constructor.
    + rewrite Ca1. reflexivity.
    + rewrite Cb2, Cb1. reflexivity.
    + repeat split; congruence.
    + split; [exact Ry2|congruence].
    + congruence.
    + congruence.
  - congruence.
Qed.

(* ================= part 3: the handshake from an arbitrary state of the link ================= *)
Definition hs_schedule (fresh : bool) (na nb : nat) (dt : Z) : list llabel :=
  drops SA na ++ drops SB nb ++ (if fresh then hs_connect dt else hs_answer dt).

Lemma sched_inv w ls w' : link_inv w -> sched w ls w' -> link_inv w'.
Proof.
  intros Hi [Ha Hr]. destruct (link_run_inv ls w Hi Ha) as [w2 [Hr2 Hi2]]. rewrite Hr in Hr2.
  injection Hr2 as <-. exact Hi2.
Qed.

Definition acceptor_waits (st : state6) : Prop :=
  match st with Unconnected | Pending _ => True | _ => False end.

(* the random streams: usable now, and B's still usable after it has drawn its token *)
Definition hs_rand_ok (w : link) : Prop :=
  rand_ok {| e_now := k_now w; e_rand := l_rand (k_a w) |} /\
  rand_ok {| e_now := k_now w; e_rand := l_rand (k_b w) |} /\
  (c_state (l_conn (k_b w)) = Unconnected ->
   forall t r, token_random (l_rand (k_b w)) = Ok (t, r) -> rand_ok {| e_now := k_now w; e_rand := r |}).

Lemma never_online_fresh x subY delY nvsY ansY :
  side_inv x subY delY nvsY ansY -> never_online (c_state (l_conn x)) ->
  l_sub x = [] /\ l_del x = [] /\ l_nvs x = [] /\ l_ready x = 0.
Proof. intros H. exact (sv_fresh _ _ _ _ _ H). Qed.

Theorem handshake_link w :
  link_inv w -> c_state (l_conn (k_a w)) = Connecting -> acceptor_waits (c_state (l_conn (k_b w))) ->
  hs_rand_ok w ->
  exists fresh na nb dt w' tok,
    0 <= dt /\ sched w (hs_schedule fresh na nb dt) w' /\ link_inv w' /\
    hs_done (k_a w) (k_b w) (k_a w') (k_b w') tok /\ k_ab w' = [] /\ k_ba w' = [] /\
    l_sub (k_a w) = [] /\ l_del (k_a w) = [] /\ l_sub (k_b w) = [] /\ l_del (k_b w) = [] /\
    l_ready (k_a w) = 0 /\
    rand_ok {| e_now := k_now w'; e_rand := l_rand (k_a w') |} /\
    rand_ok {| e_now := k_now w'; e_rand := l_rand (k_b w') |}.
Proof.
  intros Hi Ca Wb [Ra [Rb Rb']].
  pose proof (linv_side w SA Hi) as Ha. pose proof (linv_side w SB Hi) as Hb. cbn [get other] in Ha, Hb.
  destruct (never_online_fresh _ _ _ _ _ Ha) as [SubA [DelA [_ RdyA]]]; [rewrite Ca; exact I|].
  destruct (never_online_fresh _ _ _ _ _ Hb) as [SubB [DelB [_ RdyB]]];
    [destruct (c_state (l_conn (k_b w))); try contradiction; exact I|].
  pose proof (sv_conn _ _ _ _ _ Ha) as Hca. unfold conn_ok6 in Hca. rewrite Ca in Hca.
  destruct (c_send (l_conn (k_a w))) as [ta|] eqn:Sa; [|contradiction]. clear Hca.
  destruct (drop_all SA _ w eq_refl Hi) as [w1 [S1 [I1 [E1 [B1 [O1 N1]]]]]].
  destruct (drop_all SB _ w1 eq_refl I1) as [w2 [S2 [I2 [E2 [B2 [O2 N2]]]]]]. cbn [other] in O1, O2.
  assert (Ew2 : w2 = mkl (k_a w) (k_b w) [] [] (k_now w)).
  { rewrite (link_eta w2). unfold mkl. f_equal.
    - change (k_a w2) with (get w2 SA). rewrite E2, E1. reflexivity.
    - change (k_b w2) with (get w2 SB). rewrite E2, E1. reflexivity.
    - change (k_ab w2) with (bag w2 SA). rewrite O2. exact B1.
    - exact B2.
    - congruence. }
  assert (RA : forall t, rand_ok {| e_now := t; e_rand := l_rand (k_a w) |}) by (intros t; exact Ra).
  assert (RB : forall t, rand_ok {| e_now := t; e_rand := l_rand (k_b w) |}) by (intros t; exact Rb).
  destruct (c_state (l_conn (k_b w))) as [| |tok| |] eqn:Cb; try contradiction.
  - (* B has not seen a Connect *)
    destruct Rb as [Rb1 [nt [rnd' Hr]]]. cbn [e_rand] in Hr.
    assert (RB' : forall t, rand_ok {| e_now := t; e_rand := rnd' |}) by (intros t; exact (Rb' eq_refl nt rnd' Hr)).
    destruct (handshake_connect (k_a w) (k_b w) (k_now w) ta nt rnd' Ca Sa Cb Hr SubA DelA SubB DelB RA RB RB')
      as [xa' [xb' [S3 [D3 Er]]]].
    exists true, (length (bag w SA)), (length (bag w1 SB)), (Z.max 0 (ta - k_now w)),
      (mkl xa' xb' [] [] (k_now w + Z.max 0 (ta - k_now w))), (Some nt).
    split; [lia|].
    assert (Sall : sched w (hs_schedule true (length (bag w SA)) (length (bag w1 SB)) (Z.max 0 (ta - k_now w)))
                     (mkl xa' xb' [] [] (k_now w + Z.max 0 (ta - k_now w)))).
    { unfold hs_schedule. eapply sched_app; [exact S1|]. eapply sched_app; [exact S2|]. rewrite Ew2. exact S3. }
    split; [exact Sall|]. split; [exact (sched_inv _ _ _ Hi Sall)|]. cbn [mkl k_a k_b k_ab k_ba k_now].
    split; [exact D3|]. do 7 (split; [first [reflexivity|assumption]|]).
    split; [rewrite (hd_randa _ _ _ _ _ D3); apply RA|rewrite Er; apply RB'].
  - (* B is pending *)
    pose proof (sv_conn _ _ _ _ _ Hb) as Hcb. unfold conn_ok6 in Hcb. rewrite Cb in Hcb. destruct Hcb as [_ Hcb].
    destruct (c_send (l_conn (k_b w))) as [tb|] eqn:Sb; [|contradiction]. clear Hcb.
    destruct (handshake_answer (k_a w) (k_b w) (k_now w) tok tb Ca Cb Sb SubA DelA SubB DelB RA RB)
      as [xa' [xb' [S3 [D3 Er]]]].
    exists false, (length (bag w SA)), (length (bag w1 SB)), (Z.max 0 (tb - k_now w)),
      (mkl xa' xb' [] [] (k_now w + Z.max 0 (tb - k_now w))), tok.
    split; [lia|].
    assert (Sall : sched w (hs_schedule false (length (bag w SA)) (length (bag w1 SB)) (Z.max 0 (tb - k_now w)))
                     (mkl xa' xb' [] [] (k_now w + Z.max 0 (tb - k_now w)))).
    { unfold hs_schedule. eapply sched_app; [exact S1|]. eapply sched_app; [exact S2|]. rewrite Ew2. exact S3. }
    split; [exact Sall|]. split; [exact (sched_inv _ _ _ Hi Sall)|]. cbn [mkl k_a k_b k_ab k_ba k_now].
    split; [exact D3|]. do 7 (split; [first [reflexivity|assumption]|]).
    split; [rewrite (hd_randa _ _ _ _ _ D3); apply RA|rewrite Er; apply RB].
Qed.


(* ================= part 4: the first send takes the acceptor online ================= *)
Definition first_chunk (d : bytes) (v : bool) : chunk :=
  {| ch_data := d; ch_vital := if v then Some (1, false) else None |}.

Lemma hs_send now x tok d v :
  c_state (l_conn x) = Online (online_new tok tok) -> Z.of_nat (length d) < 1024 ->
  exists x1 o1, side_step now x (OpSend d v) = Ok (x1, []) /\
    c_state (l_conn x1) = Online o1 /\ o_own o1 = tok /\ o_their o1 = tok /\ o_ack o1 = 0 /\ o_rr o1 = false /\
    o_packet o1 = {| pc_num := 1; pc_chunks := [first_chunk d v] |} /\
    l_sub x1 = (if v then l_sub x ++ [d] else l_sub x) /\ l_del x1 = l_del x /\ l_rand x1 = l_rand x /\
    l_ready x1 = l_ready x.
Proof.
  destruct x as [[st sd] rnd sub del nvs nvr rdy ans]. cbn [l_conn c_state c_send]. intros -> Hl.
  pose proof (Nat2Z.is_nonneg (length d)) as Hl0.
  unfold side_step, step. cbn [l_conn c_state c_send e_now l_rand].
  unfold online_send.
  replace ((MAX_PAYLOAD <? Z.of_nat (length d)) || negb (p_v7 params6) && (2 ^ p_size_bits params6 <=? Z.of_nat (length d)))
    with false.
  2:{ symmetry. unfold params6, MAX_PAYLOAD. cbn [p_v7 p_size_bits negb andb]. change (2 ^ 10) with 1024. lia. }
  unfold can_fit_chunk. cbn [online_new o_packet pc_empty pc_num pc_len pc_chunks chunks_size].
  replace (negb ((0 <? 255) && (0 + chunk_hdr v + Z.of_nat (length d) <=? fit_limit pp6))) with false.
  2:{ symmetry. unfold fit_limit, params6, MAX_PAYLOAD, chunk_hdr. cbn [p_v7]. destruct v; cbn [negb]; apply negb_false_iff; lia. }
  cbn [bind]. unfold online_queue, pc_write_chunk.
  cbn [online_new o_packet o_packet_nv o_seq pc_empty pc_num pc_len pc_chunks chunks_size].
  replace (2 ^ p_size_bits pp6 <=? Z.of_nat (length d)) with false
    by (symmetry; unfold params6; cbn [p_size_bits]; change (2 ^ 10) with 1024; lia).
  replace (2048 <? Z.of_nat (length d)) with false by lia.
  unfold chunk_size, is_vital. cbn [ch_vital ch_data chunk_hdr].
  destruct v.
  - cbn [chunk_hdr]. replace (2048 <? 0 + (3 + Z.of_nat (length d))) with false by lia.
    cbn [Z.leb Z.compare bind].
    eexists _, _. split; [reflexivity|]. cbn. rewrite !app_nil_r.
    repeat split. change (ready_events []) with 0. lia.
  - cbn [chunk_hdr]. replace (2048 <? 0 + (2 + Z.of_nat (length d))) with false by lia.
    cbn [Z.leb Z.compare bind].
    eexists _, _. split; [reflexivity|]. cbn. rewrite !app_nil_r.
    repeat split. change (ready_events []) with 0. lia.
Qed.

Lemma hs_flush now x o tok d v :
  c_state (l_conn x) = Online o -> o_their o = tok -> o_ack o = 0 -> o_rr o = false ->
  o_packet o = {| pc_num := 1; pc_chunks := [first_chunk d v] |} -> Z.of_nat (length d) < 1024 ->
  exists x2, side_step now x OpFlush = Ok (x2, [mkf x (DChunks tok 0 false 1 [first_chunk d v])]) /\
    c_state (l_conn x2) = Online (o_clear o) /\ keeps x x2 /\ l_ready x2 = l_ready x.
Proof.
  destruct x as [[st sd] rnd sub del nvs nvr rdy ans]. cbn [l_conn c_state c_send]. intros -> Ht Ha Hr Hp Hl.
  pose proof (Nat2Z.is_nonneg (length d)) as Hl0.
  unfold side_step, step. cbn [l_conn c_state c_send e_now l_rand].
  unfold online_flush, can_send. rewrite Hp, Hr, Ht, Ha. cbn [pc_num Z.eqb negb orb].
  replace (MAX_PACKETSIZE <? chunks_dgram_size pp6 tok (pc_len {| pc_num := 1; pc_chunks := [first_chunk d v] |})) with false.
  2:{ symmetry. unfold chunks_dgram_size, pc_len, params6, MAX_PACKETSIZE, tok_size6, first_chunk, chunk_size, is_vital, chunk_hdr.
      cbn [p_v7 p_header pc_chunks chunks_size ch_vital ch_data]. destruct v, tok; unfold chunk_size, is_vital, chunk_hdr; cbn [ch_vital ch_data]; lia. }
  cbn [bind]. eexists. split; [reflexivity|]. cbn. rewrite !app_nil_r.
  repeat split. change (ready_events []) with 0. lia.
Qed.

Lemma hs_feed_first now y tok d v :
  c_state (l_conn y) = Pending tok ->
  exists y' ob, side_step now y (OpFeed (DChunks tok 0 false 1 [first_chunk d v])) = Ok (y', []) /\
    c_state (l_conn y') = Online ob /\ o_own ob = tok /\ l_sub y' = l_sub y /\ l_rand y' = l_rand y /\
    l_ready y' = l_ready y.
Proof.
  destruct y as [[st sd] rnd sub del nvs nvr rdy ans]. cbn [l_conn c_state c_send]. intros ->.
  unfold side_step, step, feed. cbn [l_conn c_state c_send e_now e_rand l_rand dgram_tok dgram_ack state_token].
  rewrite tok_eqb_refl. cbn [negb orb Z.ltb Z.leb Z.compare SEQ_MOD bind c_state c_send].
  destruct v; cbn; (eexists _, _; split; [reflexivity|]; cbn; repeat split); lia.
Qed.

Definition first_send (d : bytes) (v : bool) : list llabel :=
  [LApp SA (OpSend d v); LApp SA OpFlush] ++ drain SA 1.

Lemma first_send_link xa xb now tok d v :
  c_state (l_conn xa) = Online (online_new tok tok) -> c_state (l_conn xb) = Pending tok ->
  l_sub xa = [] -> l_del xa = [] -> l_sub xb = [] -> l_del xb = [] ->
  rand_ok {| e_now := now; e_rand := l_rand xb |} -> Z.of_nat (length d) < 1024 ->
  exists xa' xb' oa ob,
    sched (mkl xa xb [] [] now) (first_send d v) (mkl xa' xb' [] [] now) /\
    c_state (l_conn xa') = Online oa /\ c_state (l_conn xb') = Online ob /\ o_own oa = o_own ob /\
    can_send oa = false /\
    l_sub xa' = (if v then [d] else []) /\ l_sub xb' = [] /\
    l_rand xa' = l_rand xa /\ l_rand xb' = l_rand xb /\ l_ready xa' = l_ready xa.
Proof.
  intros Ca Cb SubA DelA SubB DelB Rb Hl.
  destruct (hs_send now xa tok d v Ca Hl) as [x1 [o1 [T1 [C1 [Own1 [Th1 [Ak1 [Rr1 [Pk1 [Sub1 [Del1 [Rn1 Ry1]]]]]]]]]]]].
  destruct (hs_flush now x1 o1 tok d v C1 Th1 Ak1 Rr1 Pk1 Hl) as [x2 [T2 [C2 [[K1 [K2 [K3 [K4 K5]]]] Ry2]]]].
  destruct (hs_feed_first now xb tok d v Cb) as [y1 [ob [T3 [C3 [Own3 [Sub3 [Rn3 Ry3]]]]]]].
  exists x2, y1, (o_clear o1), ob. split; [|split; [exact C2|split; [exact C3|]]].
  - unfold first_send.
    eapply sched_cons; [|apply lstep_appA, T1|].
    { cbn [admissible get mkl k_a k_now]. split; [exact I|]. split; [eexists; exact Ca|].
      unfold window_ok. rewrite Ca. destruct v; [cbn; lia|exact I]. }
    rewrite app_nil_r.
    eapply sched_cons; [|apply lstep_appA, T2|].
    { cbn [admissible get mkl k_a k_now]. split; [exact I|]. split; [eexists; exact C1|exact I]. }
    cbn [app]. eapply drainA_nil; [|exact Rb|exact T3].
    split.
    + cbn [mkf f_c]. rewrite SubB, Del1, DelA. cbn. lia.
    + intros c s r Hin Hv. cbn [mkf f_d f_n dgram_chunks] in *. destruct Hin as [<-|[]].
      rewrite Sub1, SubA, DelB. destruct v; cbn in Hv; [|discriminate]. injection Hv as <- _. cbn. lia.
  - split; [cbn; congruence|]. split; [reflexivity|]. split; [rewrite K2, Sub1, SubA; destruct v; reflexivity|].
    split; [congruence|]. split; [congruence|]. split; congruence.
Qed.

(* ---------- Ready is never taken back ---------- *)
Lemma ready_events_nonneg evs : 0 <= ready_events evs.
Proof. unfold ready_events. apply zlen_nonneg. Qed.

Lemma side_step_ready now x op x' fl : side_step now x op = Ok (x', fl) -> l_ready x <= l_ready x'.
Proof.
  intros H. apply side_step_inv in H as [out [_ [-> _]]]. cbn [after l_ready].
  pose proof (ready_events_nonneg (out_events out)). lia.
Qed.

Lemma link_step_ready w l w' s : link_step w l = Ok w' -> l_ready (get w s) <= l_ready (get w' s).
Proof.
  destruct l as [t o|dt|from k|from k]; cbn [link_step].
  - destruct (side_step (k_now w) (get w t) o) as [[x fl]| | |] eqn:E; try discriminate.
    intros H; injection H as <-. apply side_step_ready in E. destruct t, s; cbn [get set_side k_a k_b] in *; lia.
  - intros H; injection H as <-. destruct s; cbn; lia.
  - destruct (nth_error (bag w from) k) as [f|]; [|intros H; injection H as <-; lia].
    destruct (side_step (k_now w) (get w (other from)) (OpFeed (f_d f))) as [[x fl]| | |] eqn:E; try discriminate.
    intros H; injection H as <-. apply side_step_ready in E. destruct from, s; cbn [get other set_side k_a k_b] in *; lia.
  - intros H; injection H as <-. destruct from, s; cbn; lia.
Qed.

Lemma link_run_ready ls : forall w w' s, link_run w ls = Ok w' -> l_ready (get w s) <= l_ready (get w' s).
Proof.
  induction ls as [|l ls IH]; intros w w' s H; cbn [link_run] in H.
  - injection H as <-. lia.
  - destruct (link_step w l) as [w1| | |] eqn:E; try discriminate.
    pose proof (link_step_ready _ _ _ s E). pose proof (IH _ _ s H). lia.
Qed.

(* ---------- losses of nothing can be left out of a schedule ---------- *)
Lemma drops_noop s n w : bag w s = [] -> link_run w (drops s n) = Ok w.
Proof.
  intros Hb. destruct w as [xa xb ab ba now].
  destruct s; cbn [bag k_ab k_ba] in Hb; subst; (induction n as [|n IH]; [reflexivity|exact IH]).
Qed.

Lemma sched_split l1 : forall l2 w w', sched w (l1 ++ l2) w' -> exists w1, sched w l1 w1 /\ sched w1 l2 w'.
Proof.
  induction l1 as [|l l1 IH]; intros l2 w w' [A R]; cbn [app] in *.
  - exists w. split; [apply sched_nil|split; assumption].
  - cbn [admissible_run link_run] in A, R. destruct A as [Al A].
    destruct (link_step w l) as [wm| | |] eqn:E; try discriminate.
    destruct (IH l2 wm w' (conj A R)) as [w1 [S1 S2]]. exists w1. split; [|exact S2].
    eapply sched_cons; eassumption.
Qed.

Lemma flush_idle now x o x' fl : c_state (l_conn x) = Online o -> can_send o = false ->
  side_step now x OpFlush = Ok (x', fl) -> fl = [].
Proof.
  intros Hon Hc H. destruct (flush_side now x o x' fl Hon H) as [o' [ds [Ef [_ [-> _]]]]].
  unfold online_flush in Ef. rewrite Hc in Ef. cbn in Ef. injection Ef as _ <-. reflexivity.
Qed.

(* from a state with an empty network in which A has nothing to flush, the healing schedule needs no losses *)
Lemma heal_no_loss w oa na nb dt1 n1 dt2 n2 dt3 n3 w' :
  c_state (l_conn (k_a w)) = Online oa -> can_send oa = false -> k_ab w = [] -> k_ba w = [] ->
  sched w (heal_schedule na nb dt1 n1 dt2 n2 dt3 n3) w' -> sched w (heal_schedule 0 0 dt1 n1 dt2 n2 dt3 n3) w'.
Proof.
  intros Hon Hc Hab Hba H. unfold heal_schedule in *.
  apply sched_split in H as [w1 [S1 H]]. apply sched_split in H as [w2 [S2 H]]. apply sched_split in H as [w3 [S3 H]].
  assert (B1 : bag w1 SA = [] /\ bag w1 SB = []).
  { destruct S1 as [_ R]. cbn [link_run link_step get] in R.
    destruct (side_step (k_now w) (k_a w) OpFlush) as [[x fl]| | |] eqn:E; try discriminate.
    injection R as <-. rewrite (flush_idle _ _ _ _ _ Hon Hc E). cbn. rewrite Hab, Hba. split; reflexivity. }
  destruct B1 as [B1a B1b].
  assert (E2 : w2 = w1). { destruct S2 as [_ R]. rewrite (drops_noop SA na w1 B1a) in R. injection R as <-. reflexivity. }
  subst w2.
  assert (E3 : w3 = w1). { destruct S3 as [_ R]. rewrite (drops_noop SB nb w1 B1b) in R. injection R as <-. reflexivity. }
  subst w3.
  cbn [drops repeat]. change (sched w ([LApp SA OpFlush] ++ speak SA dt1 ++ drain SA n1 ++ speak SB dt2 ++ drain SB n2 ++ speak SA dt3 ++ drain SA n3) w').
  eapply sched_app; [exact S1|exact H].
Qed.

(* ================= part 5: handshake, first send, healing ================= *)
Definition progress_schedule (fresh : bool) (na nb : nat) (dt : Z) (d : bytes) (v : bool)
    (dt1 : Z) (n1 : nat) (dt2 : Z) (n2 : nat) (dt3 : Z) (n3 : nat) : list llabel :=
  hs_schedule fresh na nb dt ++ first_send d v ++ heal_schedule 0 0 dt1 n1 dt2 n2 dt3 n3.

Theorem progress_link w d v :
  link_inv w -> c_state (l_conn (k_a w)) = Connecting -> acceptor_waits (c_state (l_conn (k_b w))) ->
  hs_rand_ok w -> Z.of_nat (length d) < 1024 ->
  exists fresh na nb dt dt1 n1 dt2 n2 dt3 n3 w' oa' ob',
    0 <= dt /\ 0 <= dt1 /\ 0 <= dt2 /\ 0 <= dt3 /\
    sched w (progress_schedule fresh na nb dt d v dt1 n1 dt2 n2 dt3 n3) w' /\ link_inv w' /\
    l_ready (k_a w') = 1 /\
    l_sub (k_a w') = (if v then [d] else []) /\ l_sub (k_b w') = [] /\
    l_del (k_b w') = l_sub (k_a w') /\ l_del (k_a w') = l_sub (k_b w') /\
    c_state (l_conn (k_a w')) = Online oa' /\ c_state (l_conn (k_b w')) = Online ob' /\
    o_queue oa' = [] /\ o_queue ob' = [] /\
    pc_chunks (o_packet oa') = [] /\ pc_chunks (o_packet ob') = [] /\
    o_rr oa' = false /\ o_rr ob' = false /\ k_ab w' = [] /\ k_ba w' = [].
Proof.
  intros Hi Ca Wb Hr Hl.
  destruct (handshake_link w Hi Ca Wb Hr)
    as [fresh [na [nb [dt [w1 [tok [Hdt [S1 [I1 [D1 [Bab [Bba [SubA [DelA [SubB [DelB [RdyA [Ra1 Rb1]]]]]]]]]]]]]]]]]].
  destruct D1 as [Da Db [K1 [K2 [K3 [K4 [K5 [K6 [K7 K8]]]]]]] [Ry1 Ry2] An1 Rn1].
  assert (E1 : w1 = mkl (k_a w1) (k_b w1) [] [] (k_now w1)) by (rewrite (link_eta w1) at 1; rewrite Bab, Bba; reflexivity).
  destruct (first_send_link (k_a w1) (k_b w1) (k_now w1) tok d v Da Db) as
    [xa2 [xb2 [oa [ob [S2 [Ca2 [Cb2 [Own2 [Cs2 [Sub2a [Sub2b [Rn2a [Rn2b Ry2a]]]]]]]]]]]]]; try congruence.
  set (w2 := mkl xa2 xb2 [] [] (k_now w1)) in *.
  rewrite <- E1 in S2.
  pose proof (sched_inv _ _ _ I1 S2) as I2.
  destruct (heal_link w2 oa ob I2 Ca2 Cb2 Own2) as
    [na' [nb' [dt1 [n1 [dt2 [n2 [dt3 [n3 [w' [oa' [ob' [D1 [D2 [D3 [Hadm [Hrun [I3 [Sa [Sb [Db' [Da' [Oa [Ob [Qa [Qb [Pa [Pb [Rra [Rrb [Ba Bb]]]]]]]]]]]]]]]]]]]]]]]]]]]]]].
  { unfold w2. cbn [mkl k_a k_now]. rewrite Rn2a. exact Ra1. }
  { unfold w2. cbn [mkl k_b k_now]. rewrite Rn2b. exact Rb1. }
  pose proof (heal_no_loss w2 oa na' nb' dt1 n1 dt2 n2 dt3 n3 w' Ca2 Cs2 eq_refl eq_refl (conj Hadm Hrun)) as S3.
  exists fresh, na, nb, dt, dt1, n1, dt2, n2, dt3, n3, w', oa', ob'.
  do 4 (split; [assumption|]).
  split; [unfold progress_schedule; eapply sched_app; [exact S1|]; eapply sched_app; [exact S2|exact S3]|].
  split; [exact I3|].
  split.
  { pose proof (link_run_ready _ w2 w' SA (proj2 S3)) as Hm. cbn [get] in Hm.
    pose proof (sv_ready _ _ _ _ _ (linv_side w' SA I3)) as Hb. cbn [get] in Hb.
    assert (l_ready (k_a w2) = 1) by (unfold w2; cbn [mkl k_a]; rewrite Ry2a, Ry1, RdyA; reflexivity). lia. }
  split; [rewrite Sa; exact Sub2a|]. split; [rewrite Sb; exact Sub2b|].
  repeat (split; [assumption|]). assumption.
Qed.


(* ================= part 6: ticks and flushes alone never take the acceptor online ================= *)
(* a handshake datagram: a control message other than Close *)
Definition hs_ctl (d : dgram) : Prop :=
  match d with DControl _ _ (Close _) => False | DControl _ _ _ => True | _ => False end.
(* the connector is mid-handshake, or online with nothing to send *)
Definition connector_idle (st : state6) : Prop :=
  match st with
  | Connecting => True
  | Online o => pc_num (o_packet o) = 0 /\ o_rr o = false /\ o_queue o = []
  | _ => False
  end.
Definition quiet_op (o : op) : Prop :=
  match o with OpTick | OpFlush => True | OpFeed d => hs_ctl d | _ => False end.

Lemma idle_can_send o : pc_num (o_packet o) = 0 -> o_rr o = false -> can_send o = false.
Proof. intros H1 H2. unfold can_send. rewrite H1, H2. reflexivity. Qed.

Lemma connector_idle_step c e o out : connector_idle (c_state c) -> quiet_op o -> step c e o = Ok out ->
  connector_idle (c_state (out_conn out)) /\ Forall hs_ctl (out_sent out).
Proof.
  destruct c as [st sd]. cbn [c_state]. intros Hi Ho H.
  destruct o as [|data vital| | |reason|data|d| |]; try contradiction; unfold step in H; cbn [c_state c_send] in H.
  - (* flush *)
    destruct st as [| |t|on|]; try contradiction; try discriminate.
    destruct Hi as [H1 [H2 H3]]. unfold online_flush in H. rewrite (idle_can_send on H1 H2) in H. cbn [negb bind] in H.
    injection H as <-. cbn. split; [repeat split; assumption|constructor].
  - (* tick *)
    destruct st as [| |t|on|]; try contradiction.
    + destruct (triggered sd (e_now e)).
      * unfold tick_action in H. cbn [c_state send_control] in H. rewrite ctl_fits in H by exact I. cbn [bind] in H.
        injection H as <-. cbn. split; [exact I|]. constructor; [exact I|constructor].
      * injection H as <-. cbn. split; [exact I|constructor].
    + destruct Hi as [H1 [H2 H3]]. rewrite H3 in H. cbn [queue_back map last] in H.
      destruct (triggered sd (e_now e)).
      * unfold tick_action in H. cbn [c_state] in H. rewrite (idle_can_send on H1 H2) in H.
        cbn [send_control] in H. rewrite ctl_fits in H by exact I. cbn [bind] in H.
        injection H as <-. cbn. split; [repeat split; assumption|]. constructor; [exact I|constructor].
      * injection H as <-. cbn. split; [repeat split; assumption|constructor].
  - (* a handshake datagram arrives *)
    destruct d as [t1 t2 pl|tk ack ctl|tk ack rr n cs]; cbn [quiet_op hs_ctl] in Ho; try contradiction.
    unfold feed in H. cbn [c_state c_send dgram_tok dgram_ack] in H.
    destruct st as [| |t|on|]; try contradiction; cbn [state_token] in H.
    + destruct ((ack <? 0) || (SEQ_MOD <=? ack)); [discriminate|].
      destruct ctl as [|resp| | |reason|resp]; try contradiction;
        try (injection H as <-; cbn; split; [exact I|constructor]).
      cbn [send_control] in H. rewrite ctl_fits in H by exact I. cbn [bind] in H.
      injection H as <-. cbn. split; [repeat split|]. constructor; [exact I|constructor].
    + destruct Hi as [H1 [H2 H3]].
      destruct (negb (tok_eqb tk (o_own on))).
      { injection H as <-. cbn. split; [repeat split; assumption|constructor]. }
      destruct ((ack <? 0) || (SEQ_MOD <=? ack)); [discriminate|].
      rewrite (ack_empty on ack H3) in H.
      destruct ctl as [|resp| | |reason|resp]; try contradiction;
        (injection H as <-; cbn; split; [repeat split; assumption|constructor]).
Qed.

Lemma acceptor_waits_step c e o out : acceptor_waits (c_state c) -> quiet_op o -> step c e o = Ok out ->
  acceptor_waits (c_state (out_conn out)) /\ Forall hs_ctl (out_sent out).
Proof.
  destruct c as [st sd]. cbn [c_state]. intros Hi Ho H.
  destruct o as [|data vital| | |reason|data|d| |]; try contradiction; unfold step in H; cbn [c_state c_send] in H.
  - destruct st; try contradiction; discriminate.
  - destruct st as [| |t|on|]; try contradiction.
    + destruct (triggered sd (e_now e)); injection H as <-; cbn; (split; [exact I|constructor]).
    + destruct (triggered sd (e_now e)).
      * unfold tick_action in H. cbn [c_state send_control] in H. rewrite ctl_fits in H by exact I. cbn [bind] in H.
        injection H as <-. cbn. split; [exact I|]. constructor; [exact I|constructor].
      * injection H as <-. cbn. split; [exact I|constructor].
  - destruct d as [t1 t2 pl|tk ack ctl|tk ack rr n cs]; cbn [quiet_op hs_ctl] in Ho; try contradiction.
    unfold feed in H. cbn [c_state c_send dgram_tok dgram_ack] in H.
    assert (Hp : forall t e', tick_action {| c_state := Pending t; c_send := sd |} e' = Ok out ->
              acceptor_waits (c_state (out_conn out)) /\ Forall hs_ctl (out_sent out)).
    { intros t e' Ht. unfold tick_action in Ht. cbn [c_state send_control] in Ht. rewrite ctl_fits in Ht by exact I.
      cbn [bind] in Ht. injection Ht as <-. cbn. split; [exact I|]. constructor; [exact I|constructor]. }
    destruct st as [| |t|on|]; try contradiction; cbn [state_token] in H.
    + destruct ((ack <? 0) || (SEQ_MOD <=? ack)); [discriminate|].
      destruct ctl as [|resp| | |reason|resp]; try contradiction;
        try (injection H as <-; cbn; split; [exact I|constructor]).
      destruct tk as [tk|].
      * destruct (list_eq_dec Z.eq_dec tk TOKEN_NONE).
        -- destruct (token_random (e_rand e)) as [[nt rnd']| | |]; cbn [bind] in H; try discriminate. eapply Hp, H.
        -- injection H as <-. cbn. split; [exact I|constructor].
      * eapply Hp, H.
    + destruct (negb (tok_eqb tk t)).
      { injection H as <-. cbn. split; [exact I|constructor]. }
      destruct ((ack <? 0) || (SEQ_MOD <=? ack)); [discriminate|].
      destruct ctl as [|resp| | |reason|resp]; try contradiction;
        (injection H as <-; cbn; split; [exact I|constructor]).
Qed.

Definition hs_bag (fl : list flight) : Prop := Forall (fun f => hs_ctl (f_d f)) fl.

(* the connector has nothing to send, the acceptor waits, only handshake datagrams are in flight *)
Definition no_chunks (w : link) : Prop :=
  connector_idle (c_state (l_conn (k_a w))) /\ acceptor_waits (c_state (l_conn (k_b w))) /\
  hs_bag (k_ab w) /\ hs_bag (k_ba w).

Lemma hs_bag_new x ds : Forall hs_ctl ds -> hs_bag (map (mkf x) ds).
Proof. intros H. unfold hs_bag. apply Forall_map. exact H. Qed.

Lemma hs_bag_nth fl k f : hs_bag fl -> nth_error fl k = Some f -> hs_ctl (f_d f).
Proof. intros H Hk. unfold hs_bag in H. rewrite Forall_forall in H. apply H. eapply nth_error_In, Hk. Qed.

Theorem no_chunks_step w l w' : no_chunks w -> heal_label l -> link_step w l = Ok w' -> no_chunks w'.
Proof.
  intros [Ha [Hb [Hab Hba]]] Hl H. destruct l as [s o|dt|from k|from k]; cbn [link_step] in H.
  - assert (Hq : quiet_op o) by (destruct o; try contradiction; exact I).
    destruct (side_step (k_now w) (get w s) o) as [[x fl]| | |] eqn:E; try discriminate. injection H as <-.
    apply side_step_inv in E as [out [Hs [-> ->]]]. change (l_conn (after (get w s) o out)) with (out_conn out).
    destruct s; cbn [get] in Hs; unfold no_chunks, set_side; cbn [k_a k_b k_ab k_ba after l_conn].
    + destruct (connector_idle_step _ _ _ _ Ha Hq Hs) as [P1 P2].
      split; [exact P1|]. split; [exact Hb|]. split; [|exact Hba]. apply Forall_app. split; [exact Hab|apply hs_bag_new, P2].
    + destruct (acceptor_waits_step _ _ _ _ Hb Hq Hs) as [P1 P2].
      split; [exact Ha|]. split; [exact P1|]. split; [exact Hab|]. apply Forall_app. split; [exact Hba|apply hs_bag_new, P2].
  - injection H as <-. exact (conj Ha (conj Hb (conj Hab Hba))).
  - destruct (nth_error (bag w from) k) as [f|] eqn:Ek; [|injection H as <-; exact (conj Ha (conj Hb (conj Hab Hba)))].
    destruct (side_step (k_now w) (get w (other from)) (OpFeed (f_d f))) as [[x fl]| | |] eqn:E; try discriminate.
    injection H as <-. apply side_step_inv in E as [out [Hs [-> ->]]].
    destruct from; cbn [get other bag] in *; unfold no_chunks, set_side; cbn [k_a k_b k_ab k_ba after l_conn].
    + pose proof (hs_bag_nth _ _ _ Hab Ek) as Hq. unfold step in Hs.
      destruct (acceptor_waits_step _ _ (OpFeed (f_d f)) _ Hb Hq Hs) as [P1 P2].
      split; [exact Ha|]. split; [exact P1|]. split; [exact Hab|]. apply Forall_app. split; [exact Hba|apply hs_bag_new, P2].
    + pose proof (hs_bag_nth _ _ _ Hba Ek) as Hq. unfold step in Hs.
      destruct (connector_idle_step _ _ (OpFeed (f_d f)) _ Ha Hq Hs) as [P1 P2].
      split; [exact P1|]. split; [exact Hb|]. split; [|exact Hba]. apply Forall_app. split; [exact Hab|apply hs_bag_new, P2].
  - injection H as <-. unfold no_chunks. destruct from; cbn [k_a k_b k_ab k_ba].
    + split; [exact Ha|]. split; [exact Hb|]. split; [apply remove_nth_forall, Hab|exact Hba].
    + split; [exact Ha|]. split; [exact Hb|]. split; [exact Hab|apply remove_nth_forall, Hba].
Qed.

Theorem no_chunks_run ls : forall w w', no_chunks w -> Forall heal_label ls -> link_run w ls = Ok w' -> no_chunks w'.
Proof.
  induction ls as [|l ls IH]; intros w w' Hn Hl H; cbn [link_run] in H.
  - injection H as <-. exact Hn.
  - inversion Hl as [|l0 ls0 Hl1 Hl2]; subst. destruct (link_step w l) as [w1| | |] eqn:E; try discriminate.
    eapply IH; [eapply no_chunks_step; eassumption|exact Hl2|exact H].
Qed.

(* ================= part 7: what is in flight during a handshake (reachable states) ================= *)
Lemma move_never fed st st' : move fed st st' -> never_online st' -> never_online st.
Proof. destruct st, st'; cbn; tauto. Qed.

(* an endpoint that has never been online has emitted nothing but handshake datagrams *)
Lemma never_online_step c e o out :
  (app_op o \/ exists d, o = OpFeed d) -> step c e o = Ok out ->
  never_online (c_state (out_conn out)) -> never_online (c_state c) /\ Forall hs_ctl (out_sent out).
Proof.
  intros Ho H Hn.
  assert (Hm : exists fed, move fed (c_state c) (c_state (out_conn out))).
  { destruct Ho as [Ha|[d ->]].
    - exists None. apply (app_moves _ _ _ _ Ha H).
    - exists (Some d). unfold step in H. apply (feed_moves _ _ _ _ H). }
  destruct Hm as [fed Hm]. pose proof (move_never _ _ _ Hm Hn) as Hc. split; [exact Hc|]. clear Hm fed.
  destruct c as [st sd]. cbn [c_state] in Hc.
  assert (Hta : forall c' e', never_online (c_state c') -> tick_action c' e' = Ok out -> Forall hs_ctl (out_sent out)).
  { intros c' e' Hc' Ht. unfold tick_action in Ht. destruct (c_state c') as [| |t|on|] eqn:Es; try contradiction.
    - injection Ht as <-. constructor.
    - cbn [send_control] in Ht. rewrite ctl_fits in Ht by exact I. cbn [bind] in Ht. injection Ht as <-.
      constructor; [exact I|constructor].
    - cbn [send_control] in Ht. rewrite ctl_fits in Ht by exact I. cbn [bind] in Ht. injection Ht as <-.
      constructor; [exact I|constructor]. }
  destruct o as [|data vital| | |reason|data|d| |]; unfold step in H; cbn [c_state c_send] in H.
  - destruct st; try discriminate. eapply Hta; [|exact H]. exact I.
  - destruct st; try contradiction; discriminate.
  - destruct st; try contradiction; discriminate.
  - destruct st as [| |t|on|]; try contradiction;
      (destruct (triggered sd (e_now e)); [eapply Hta; [|exact H]; exact I|injection H as <-; constructor]).
  - destruct st as [| |t|on|]; try contradiction; try discriminate;
      (destruct (existsb _ reason); [discriminate|]);
      (destruct (send_control _ _); cbn [bind] in H; try discriminate; injection H as <-; cbn in Hn; contradiction).
  - destruct st; try contradiction; discriminate.
  - unfold feed in H. cbn [c_state c_send] in H.
    destruct d as [t1 t2 pl|tk ack ctl|tk ack rr n cs]; cbn [dgram_tok dgram_ack] in H.
    + injection H as <-. constructor.
    + destruct (match state_token st with Some expected => negb (tok_eqb tk expected) | None => false end);
        [injection H as <-; constructor|].
      destruct ((ack <? 0) || (SEQ_MOD <=? ack)); [discriminate|].
      destruct ctl as [|resp| | |reason|resp]; try (injection H as <-; constructor).
      * destruct st as [| |t|on|]; try contradiction; try (injection H as <-; constructor).
        destruct tk as [tk|].
        -- destruct (list_eq_dec Z.eq_dec tk TOKEN_NONE).
           ++ destruct (token_random (e_rand e)) as [[nt rnd']| | |]; cbn [bind] in H; try discriminate.
              eapply Hta; [|exact H]. exact I.
           ++ injection H as <-. constructor.
        -- eapply Hta; [|exact H]. exact I.
      * destruct st as [| |t|on|]; try contradiction; try (injection H as <-; constructor).
        destruct (send_control _ _); cbn [bind] in H; try discriminate. injection H as <-. cbn in Hn. contradiction.
    + destruct (match state_token st with Some expected => negb (tok_eqb tk expected) | None => false end);
        [injection H as <-; constructor|].
      destruct ((ack <? 0) || (SEQ_MOD <=? ack)); [discriminate|].
      destruct st as [| |t|on|]; try contradiction; try (injection H as <-; constructor).
      exfalso. cbn [c_state] in H.
      assert (Hrs : (if rr then do_resend {| c_state := Online (online_new t t); c_send := sd |} e (online_new t t)
                     else Ok ({| c_state := Online (online_new t t); c_send := sd |}, []))
                    = Ok ({| c_state := Online (online_new t t); c_send := sd |}, [])) by (destruct rr; reflexivity).
      rewrite Hrs in H. cbn [bind c_state c_send] in H.
      destruct (recv_chunks _ _ cs) as [[[a' r'] evs]| | |]; cbn [bind] in H; try discriminate.
      injection H as <-. cbn in Hn. exact Hn.
  - injection H as <-. constructor.
  - destruct Ho as [Ha|[d Hd]]; [contradiction|discriminate].
Qed.

Definition hs_bags (w : link) : Prop :=
  (never_online (c_state (l_conn (k_a w))) -> hs_bag (k_ab w)) /\
  (never_online (c_state (l_conn (k_b w))) -> hs_bag (k_ba w)).

Lemma hs_bags_side now z o z' fl bagz :
  side_step now z o = Ok (z', fl) -> (app_op o \/ exists d, o = OpFeed d) ->
  (never_online (c_state (l_conn z)) -> hs_bag bagz) ->
  never_online (c_state (l_conn z')) -> hs_bag (bagz ++ fl).
Proof.
  intros H Ho Hb Hn. apply side_step_inv in H as [out [Hs [-> ->]]].
  change (l_conn (after z o out)) with (out_conn out) in Hn.
  destruct (never_online_step _ _ _ _ Ho Hs Hn) as [P1 P2].
  apply Forall_app. split; [apply Hb, P1|apply hs_bag_new, P2].
Qed.

Theorem hs_bags_step w l w' : hs_bags w -> admissible w l -> link_step w l = Ok w' -> hs_bags w'.
Proof.
  intros [PA PB] Hadm Hs. destruct l as [s o|dt|from k|from k]; cbn [link_step] in Hs.
  - destruct Hadm as [Happ _].
    destruct (side_step (k_now w) (get w s) o) as [[z' fl]| | |] eqn:E; try discriminate. injection Hs as <-.
    destruct s; cbn [get] in E; unfold hs_bags, set_side; cbn [k_a k_b k_ab k_ba].
    + split; [|exact PB]. eapply hs_bags_side; [exact E|left; exact Happ|exact PA].
    + split; [exact PA|]. eapply hs_bags_side; [exact E|left; exact Happ|exact PB].
  - injection Hs as <-. exact (conj PA PB).
  - destruct (nth_error (bag w from) k) as [f|] eqn:Ek; [|injection Hs as <-; exact (conj PA PB)].
    destruct (side_step (k_now w) (get w (other from)) (OpFeed (f_d f))) as [[z' fl]| | |] eqn:E; try discriminate.
    injection Hs as <-.
    destruct from; cbn [get other bag] in *; unfold hs_bags, set_side; cbn [k_a k_b k_ab k_ba].
    + split; [exact PA|]. eapply hs_bags_side; [exact E|right; eexists; reflexivity|exact PB].
    + split; [|exact PB]. eapply hs_bags_side; [exact E|right; eexists; reflexivity|exact PA].
  - injection Hs as <-. unfold hs_bags. destruct from; cbn [k_a k_b k_ab k_ba].
    + split; [intros H; apply remove_nth_forall, PA, H|exact PB].
    + split; [exact PA|intros H; apply remove_nth_forall, PB, H].
Qed.

Theorem hs_bags_run ls : forall w w', hs_bags w -> admissible_run w ls -> link_run w ls = Ok w' -> hs_bags w'.
Proof.
  induction ls as [|l ls IH]; intros w w' Hi Ha Hr; cbn [admissible_run link_run] in *.
  - injection Hr as <-. exact Hi.
  - destruct Ha as [Ha1 Ha2]. destruct (link_step w l) as [w1| | |] eqn:E; try discriminate.
    eapply IH; [eapply hs_bags_step; eassumption|exact Ha2|exact Hr].
Qed.

Lemma hs_bags_new ra rb : hs_bags (link_new ra rb).
Proof. split; intros _; constructor. Qed.

(* ================= part 8: the peer of an endpoint that has not got past Connecting is not online ================= *)
Definition early (st : state6) : Prop := match st with Unconnected | Connecting => True | _ => False end.
Definition offline (st : state6) : Prop := match st with Online _ => False | _ => True end.
Definition is_connect (d : dgram) : Prop := match d with DControl _ _ (Connect _) => True | _ => False end.
Definition connect_bag (fl : list flight) : Prop := Forall (fun f => is_connect (f_d f)) fl.

Lemma early_never st : early st -> never_online st.
Proof. destruct st; cbn; tauto. Qed.

(* such an endpoint has emitted nothing but Connects *)
Lemma early_step c e o out :
  (app_op o \/ exists d, o = OpFeed d) -> step c e o = Ok out ->
  early (c_state (out_conn out)) -> early (c_state c) /\ Forall is_connect (out_sent out).
Proof.
  intros Ho H Hn.
  assert (Hm : exists fed, move fed (c_state c) (c_state (out_conn out))).
  { destruct Ho as [Ha|[d ->]].
    - exists None. apply (app_moves _ _ _ _ Ha H).
    - exists (Some d). unfold step in H. apply (feed_moves _ _ _ _ H). }
  destruct Hm as [fed Hm].
  assert (Hc : early (c_state c)) by (destruct (c_state c), (c_state (out_conn out)); cbn in *; tauto).
  split; [exact Hc|]. clear Hm fed.
  destruct c as [st sd]. cbn [c_state] in Hc.
  assert (Hta : forall c' e', early (c_state c') -> tick_action c' e' = Ok out -> Forall is_connect (out_sent out)).
  { intros c' e' Hc' Ht. unfold tick_action in Ht. destruct (c_state c') as [| |t|on|] eqn:Es; try contradiction.
    - injection Ht as <-. constructor.
    - cbn [send_control] in Ht. rewrite ctl_fits in Ht by exact I. cbn [bind] in Ht. injection Ht as <-.
      constructor; [exact I|constructor]. }
  destruct o as [|data vital| | |reason|data|d| |]; unfold step in H; cbn [c_state c_send] in H.
  - destruct st; try discriminate. eapply Hta; [|exact H]. exact I.
  - destruct st; try contradiction; discriminate.
  - destruct st; try contradiction; discriminate.
  - destruct st as [| |t|on|]; try contradiction;
      (destruct (triggered sd (e_now e)); [eapply Hta; [|exact H]; exact I|injection H as <-; constructor]).
  - destruct st as [| |t|on|]; try contradiction; try discriminate;
      (destruct (existsb _ reason); [discriminate|]);
      (destruct (send_control _ _); cbn [bind] in H; try discriminate; injection H as <-; cbn in Hn; contradiction).
  - destruct st; try contradiction; discriminate.
  - unfold feed in H. cbn [c_state c_send] in H.
    destruct d as [t1 t2 pl|tk ack ctl|tk ack rr n cs]; cbn [dgram_tok dgram_ack] in H.
    + injection H as <-. constructor.
    + destruct (match state_token st with Some expected => negb (tok_eqb tk expected) | None => false end);
        [injection H as <-; constructor|].
      destruct ((ack <? 0) || (SEQ_MOD <=? ack)); [discriminate|].
      destruct ctl as [|resp| | |reason|resp]; try (injection H as <-; constructor).
      * destruct st as [| |t|on|]; try contradiction; try (injection H as <-; constructor).
        assert (Hp : forall t e', tick_action {| c_state := Pending t; c_send := sd |} e' = Ok out -> False).
        { intros t e' Ht. apply tick_action_moves in Ht as [K _]. cbn [c_state keep] in K. rewrite K in Hn. exact Hn. }
        destruct tk as [tk|].
        -- destruct (list_eq_dec Z.eq_dec tk TOKEN_NONE).
           ++ destruct (token_random (e_rand e)) as [[nt rnd']| | |]; cbn [bind] in H; try discriminate.
              exfalso. eapply Hp, H.
           ++ injection H as <-. constructor.
        -- exfalso. eapply Hp, H.
      * destruct st as [| |t|on|]; try contradiction; try (injection H as <-; constructor).
        destruct (send_control _ _); cbn [bind] in H; try discriminate. injection H as <-. cbn in Hn. contradiction.
    + destruct (match state_token st with Some expected => negb (tok_eqb tk expected) | None => false end);
        [injection H as <-; constructor|].
      destruct ((ack <? 0) || (SEQ_MOD <=? ack)); [discriminate|].
      destruct st as [| |t|on|]; try contradiction; try (injection H as <-; constructor).
  - injection H as <-. constructor.
  - destruct Ho as [Ha|[d Hd]]; [contradiction|discriminate].
Qed.

(* an endpoint that is not online stays so under application calls and arriving Connects *)
Lemma offline_app c e o out : app_op o -> step c e o = Ok out -> offline (c_state c) -> offline (c_state (out_conn out)).
Proof.
  destruct c as [st sd]. intros Ha H Hoff. cbn [c_state] in Hoff.
  destruct o as [|data vital| | |reason|data|d| |]; try contradiction; unfold step in H; cbn [c_state c_send] in H.
  - destruct st; try discriminate. apply tick_action_moves in H as [K _]. cbn [c_state keep] in K. rewrite K. exact I.
  - destruct st; try contradiction; discriminate.
  - destruct st; try contradiction; discriminate.
  - destruct st as [| |t|on|]; try contradiction;
      (destruct (triggered sd (e_now e));
       [apply tick_action_moves in H as [K _]; cbn [c_state keep] in K; rewrite K; exact I|injection H as <-; exact I]).
  - destruct st as [| |t|on|]; try contradiction; try discriminate;
      (destruct (existsb _ reason); [discriminate|]);
      (destruct (send_control _ _); cbn [bind] in H; try discriminate; injection H as <-; exact I).
  - destruct st; try contradiction; discriminate.
Qed.

Lemma offline_feed_connect c e d out : is_connect d -> feed c e d = Ok out -> offline (c_state c) ->
  offline (c_state (out_conn out)).
Proof.
  destruct c as [st sd]. intros Hd H Hoff. cbn [c_state] in Hoff.
  destruct d as [t1 t2 pl|tk ack ctl|tk ack rr n cs]; try contradiction. destruct ctl; try contradiction.
  unfold feed in H. cbn [c_state c_send dgram_tok dgram_ack] in H.
  destruct (match state_token st with Some expected => negb (tok_eqb tk expected) | None => false end);
    [injection H as <-; exact Hoff|].
  destruct ((ack <? 0) || (SEQ_MOD <=? ack)); [discriminate|].
  destruct st as [| |t|on|]; try contradiction; try (injection H as <-; exact I).
  assert (Hp : forall t e', tick_action {| c_state := Pending t; c_send := sd |} e' = Ok out -> offline (c_state (out_conn out))).
  { intros t e' Ht. apply tick_action_moves in Ht as [K _]. cbn [c_state keep] in K. rewrite K. exact I. }
  destruct tk as [tk|].
  - destruct (list_eq_dec Z.eq_dec tk TOKEN_NONE).
    + destruct (token_random (e_rand e)) as [[nt rnd']| | |]; cbn [bind] in H; try discriminate. eapply Hp, H.
    + injection H as <-. exact I.
  - eapply Hp, H.
Qed.

Definition pre_inv (x y : state6) (bagx : list flight) : Prop := early x -> connect_bag bagx /\ offline y.

Definition early_inv (w : link) : Prop :=
  pre_inv (c_state (l_conn (k_a w))) (c_state (l_conn (k_b w))) (k_ab w) /\
  pre_inv (c_state (l_conn (k_b w))) (c_state (l_conn (k_a w))) (k_ba w).

(* one call at endpoint z (peer p) *)
Lemma early_side now z o z' fl (p : state6) bagz bagp :
  side_step now z o = Ok (z', fl) ->
  (app_op o \/ exists f, In f bagp /\ o = OpFeed (f_d f)) ->
  pre_inv (c_state (l_conn z)) p bagz -> pre_inv p (c_state (l_conn z)) bagp ->
  pre_inv (c_state (l_conn z')) p (bagz ++ fl) /\ pre_inv p (c_state (l_conn z')) bagp.
Proof.
  intros H Ho P1 P2. apply side_step_inv in H as [out [Hs [-> ->]]].
  change (l_conn (after z o out)) with (out_conn out).
  assert (Ho' : app_op o \/ exists d, o = OpFeed d).
  { destruct Ho as [Ha|[f [_ ->]]]; [left; exact Ha|right; eexists; reflexivity]. }
  split.
  - intros He. destruct (early_step _ _ _ _ Ho' Hs He) as [E1 E2]. destruct (P1 E1) as [Q1 Q2].
    split; [|exact Q2]. apply Forall_app. split; [exact Q1|]. apply Forall_map. exact E2.
  - intros He. destruct (P2 He) as [Q1 Q2]. split; [exact Q1|].
    destruct Ho as [Ha|[f [Hin ->]]].
    + eapply offline_app; eassumption.
    + unfold step in Hs. eapply offline_feed_connect; [|exact Hs|exact Q2].
      unfold connect_bag in Q1. rewrite Forall_forall in Q1. apply Q1, Hin.
Qed.

Theorem early_inv_step w l w' : early_inv w -> admissible w l -> link_step w l = Ok w' -> early_inv w'.
Proof.
  intros [PA PB] Hadm Hs. destruct l as [s o|dt|from k|from k]; cbn [link_step] in Hs.
  - destruct Hadm as [Happ _].
    destruct (side_step (k_now w) (get w s) o) as [[z' fl]| | |] eqn:E; try discriminate. injection Hs as <-.
    destruct s; cbn [get] in E; unfold early_inv, set_side; cbn [k_a k_b k_ab k_ba].
    + destruct (early_side _ _ _ _ _ _ _ _ E (or_introl Happ) PA PB) as [Q1 Q2]. split; assumption.
    + destruct (early_side _ _ _ _ _ _ _ _ E (or_introl Happ) PB PA) as [Q1 Q2]. split; assumption.
  - injection Hs as <-. exact (conj PA PB).
  - destruct (nth_error (bag w from) k) as [f|] eqn:Ek; [|injection Hs as <-; exact (conj PA PB)].
    destruct (side_step (k_now w) (get w (other from)) (OpFeed (f_d f))) as [[z' fl]| | |] eqn:E; try discriminate.
    injection Hs as <-. apply nth_error_In in Ek.
    destruct from; cbn [get other bag] in *; unfold early_inv, set_side; cbn [k_a k_b k_ab k_ba].
    + destruct (early_side _ _ _ _ _ _ _ _ E (or_intror (ex_intro _ f (conj Ek eq_refl))) PB PA) as [Q1 Q2].
      split; assumption.
    + destruct (early_side _ _ _ _ _ _ _ _ E (or_intror (ex_intro _ f (conj Ek eq_refl))) PA PB) as [Q1 Q2].
      split; assumption.
  - injection Hs as <-. unfold early_inv. destruct from; cbn [k_a k_b k_ab k_ba].
    + split; [|exact PB]. intros He. destruct (PA He) as [Q1 Q2]. split; [apply remove_nth_forall, Q1|exact Q2].
    + split; [exact PA|]. intros He. destruct (PB He) as [Q1 Q2]. split; [apply remove_nth_forall, Q1|exact Q2].
Qed.

Theorem early_inv_run ls : forall w w', early_inv w -> admissible_run w ls -> link_run w ls = Ok w' -> early_inv w'.
Proof.
  induction ls as [|l ls IH]; intros w w' Hi Ha Hr; cbn [admissible_run link_run] in *.
  - injection Hr as <-. exact Hi.
  - destruct Ha as [Ha1 Ha2]. destruct (link_step w l) as [w1| | |] eqn:E; try discriminate.
    eapply IH; [eapply early_inv_step; eassumption|exact Ha2|exact Hr].
Qed.

Lemma early_inv_new ra rb : early_inv (link_new ra rb).
Proof. split; intros _; (split; [constructor|exact I]). Qed.


(* ================= part 9: the shape of the schedules ================= *)
Lemma ticks_hs fresh na nb dt : ticks (hs_schedule fresh na nb dt) = 1%nat.
Proof. unfold hs_schedule. rewrite !ticks_app, !ticks_drops. destruct fresh; reflexivity. Qed.

Lemma heal_labels_drops s n : Forall heal_label (drops s n).
Proof. induction n as [|n IH]; [constructor|]. constructor; [exact I|exact IH]. Qed.
Lemma heal_labels_drain s n : Forall heal_label (drain s n).
Proof. induction n as [|n IH]; [constructor|]. constructor; [exact I|]. constructor; [exact I|exact IH]. Qed.

Lemma hs_labels fresh na nb dt : 0 <= dt -> Forall heal_label (hs_schedule fresh na nb dt).
Proof.
  intros H. unfold hs_schedule. apply Forall_app. split; [apply heal_labels_drops|].
  apply Forall_app. split; [apply heal_labels_drops|]. destruct fresh; repeat constructor; exact H.
Qed.

Lemma hs_shape fresh na nb dt :
  exists post, hs_schedule fresh na nb dt = drops SA na ++ drops SB nb ++ post /\ orderly post.
Proof. eexists. split; [reflexivity|]. destruct fresh; cbn; repeat split. Qed.

(* the only application call besides ticks and flushes: A's first send *)
Definition progress_label (d : bytes) (v : bool) (l : llabel) : Prop :=
  heal_label l \/ l = LApp SA (OpSend d v).
Definition is_send (l : llabel) : bool := match l with LApp _ (OpSend _ _) => true | _ => false end.
Definition sends (ls : list llabel) : nat := length (filter is_send ls).

Lemma sends_app a b : sends (a ++ b) = (sends a + sends b)%nat.
Proof. unfold sends. rewrite filter_app, app_length. reflexivity. Qed.
Lemma sends_heal ls : Forall heal_label ls -> sends ls = 0%nat.
Proof.
  induction 1 as [|l ls Hl _ IH]; [reflexivity|]. unfold sends in *. cbn [filter].
  destruct l as [s o|dt|s k|s k]; try exact IH. destruct o; try exact IH. contradiction.
Qed.

Lemma progress_shape fresh na nb dt d v dt1 n1 dt2 n2 dt3 n3 :
  0 <= dt -> 0 <= dt1 -> 0 <= dt2 -> 0 <= dt3 ->
  let ls := progress_schedule fresh na nb dt d v dt1 n1 dt2 n2 dt3 n3 in
  Forall (progress_label d v) ls /\ ticks ls = 4%nat /\ sends ls = 1%nat /\
  exists post, ls = drops SA na ++ drops SB nb ++ post /\ orderly post.
Proof.
  intros H0 H1 H2 H3 ls. unfold ls, progress_schedule.
  assert (Hh : Forall heal_label (heal_schedule 0 0 dt1 n1 dt2 n2 dt3 n3)) by (apply heal_labels; assumption).
  assert (Hs : Forall heal_label (hs_schedule fresh na nb dt)) by (apply hs_labels; exact H0).
  split; [|split; [|split]].
  - apply Forall_app. split; [eapply Forall_impl; [|exact Hs]; intros l Hl; left; exact Hl|].
    apply Forall_app. split; [|eapply Forall_impl; [|exact Hh]; intros l Hl; left; exact Hl].
    unfold first_send. constructor; [right; reflexivity|]. repeat constructor; left; exact I.
  - rewrite !ticks_app, ticks_hs, ticks_heal. reflexivity.
  - rewrite !sends_app, (sends_heal _ Hs), (sends_heal _ Hh). reflexivity.
  - destruct (heal_schedule_shape 0 0 dt1 n1 dt2 n2 dt3 n3) as [hp [Eh Oh]]. cbn [drops repeat app] in Eh.
    unfold hs_schedule. eexists. split; [rewrite <- !app_assoc; reflexivity|].
    apply orderly_app; [destruct fresh; cbn; repeat split|].
    apply orderly_app; [cbn; repeat split|]. rewrite Eh. exact Oh.
Qed.

(* ================= part 10: boolean mirrors of the hypotheses (for concrete states) ================= *)
Definition handshake_start (w : link) : Prop :=
  c_state (l_conn (k_a w)) = Connecting /\ acceptor_waits (c_state (l_conn (k_b w))).

Definition handshake_startb (w : link) : bool :=
  match c_state (l_conn (k_a w)), c_state (l_conn (k_b w)) with
  | Connecting, Unconnected | Connecting, Pending _ => true
  | _, _ => false
  end.

Definition hs_rand_okb (w : link) : bool :=
  rand_okb (l_rand (k_a w)) && rand_okb (l_rand (k_b w)) &&
  match c_state (l_conn (k_b w)) with
  | Unconnected => match token_random (l_rand (k_b w)) with Ok (_, r) => rand_okb r | _ => false end
  | _ => true
  end.

Lemma handshake_startb_ok w : handshake_startb w = true -> handshake_start w.
Proof.
  unfold handshake_startb, handshake_start.
  destruct (c_state (l_conn (k_a w))); try discriminate; destruct (c_state (l_conn (k_b w))); try discriminate;
    intros _; split; [reflexivity|exact I|reflexivity|exact I].
Qed.

Lemma hs_rand_okb_ok w : hs_rand_okb w = true -> hs_rand_ok w.
Proof.
  unfold hs_rand_okb, hs_rand_ok. intros H. apply andb_true_iff in H as [H H3]. apply andb_true_iff in H as [H1 H2].
  split; [apply rand_okb_ok, H1|]. split; [apply rand_okb_ok, H2|].
  intros Hu t r Hr. rewrite Hu, Hr in H3. apply rand_okb_ok, H3.
Qed.


(* ================= part 11: A is online and has something to send, B is still pending ================= *)
Definition is_chunks (d : dgram) : Prop := match d with DChunks _ _ _ _ _ => True | _ => False end.

Lemma flush_chunks pp o o' ds : online_flush pp o = Ok (o', ds) -> Forall is_chunks ds.
Proof.
  unfold online_flush. destruct (negb (can_send o)); [intros H; injection H as <- <-; constructor|].
  destruct (MAX_PACKETSIZE <? _); [discriminate|]. intros H; injection H as <- <-. constructor; [exact I|constructor].
Qed.

Lemma resend_loop_chunks pp : forall todo fuel o out ts o' out' ts',
  resend_loop pp fuel o todo out ts = Ok (o', out', ts') -> Forall is_chunks out -> Forall is_chunks out'.
Proof.
  induction todo as [|c rest IH].
  - intros fuel o out ts o' out' ts' H Ho. destruct fuel; cbn in H; injection H as <- <- <-; exact Ho.
  - induction fuel as [|fuel IHf]; intros o out ts o' out' ts' H Ho; cbn [resend_loop] in H; [discriminate|].
    destruct (can_fit_chunk _ _ _ _).
    + destruct (pc_write_chunk _ _ _ _) as [p| | |]; try discriminate. eapply IH; eassumption.
    + destruct (online_flush pp o) as [[o1 d1]| | |] eqn:Ef; try discriminate.
      eapply IHf; [eassumption|]. apply Forall_app. split; [exact Ho|eapply flush_chunks, Ef].
Qed.

Lemma resend_chunks pp now o o' ds ts : online_resend pp now o = Ok (o', ds, ts) -> Forall is_chunks ds.
Proof.
  unfold online_resend. destruct (o_queue o); [intros H; injection H as <- <- <-; constructor|].
  intros H. eapply resend_loop_chunks; [exact H|constructor].
Qed.

Lemma map_mkf_inj x x' ds ds' : map (mkf x) ds = map (mkf x') ds' -> ds = ds'.
Proof.
  intros H. apply (f_equal (map f_d)) in H. rewrite !map_fd_mkf in H. exact H.
Qed.

(* A lets both its deadlines pass, ticks and flushes; nothing is assumed about B *)
Lemma speak_alone w o :
  link_inv w -> c_state (l_conn (get w SA)) = Online o ->
  exists w' ds o2,
    sched w (speak SA (Z.max 0 (due (l_conn (get w SA)) - k_now w))) w' /\ link_inv w' /\
    bag w' SA = bag w SA ++ map (mkf (get w SA)) ds /\ bag w' SB = bag w SB /\
    get w' SB = get w SB /\
    l_sub (get w' SA) = l_sub (get w SA) /\ l_del (get w' SA) = l_del (get w SA) /\
    l_rand (get w' SA) = l_rand (get w SA) /\
    c_state (l_conn (get w' SA)) = Online o2 /\ o_own o2 = o_own o /\ o_their o2 = o_their o /\
    pc_chunks (o_packet o2) = [] /\ o_rr o2 = false /\
    ds <> [] /\ Forall (dg_ok (o_their o) (o_rr o)) ds /\
    Forall (fun d => tight (zlen (l_sub (get w SA))) (dgram_chunks d)) ds /\
    (o_queue o <> [] \/ can_send o = true -> Forall is_chunks ds).
Proof.
  intros Hi Hon. remember (get w SA) as x eqn:Ex.
  set (dt := Z.max 0 (due (l_conn x) - k_now w)).
  pose proof (linv_side w SA Hi) as Hsx. rewrite <- Ex in Hsx.
  pose proof (sv_conn _ _ _ _ _ Hsx) as Hc.
  destruct (sv_online _ _ _ _ _ Hsx o Hon) as [a [Hsnd [Ha Hack]]].
  destruct (ltime_step w dt) as [w1 [S1 [G1 [B1 [N1 I1]]]]]. specialize (I1 Hi).
  assert (A2 : admissible w1 (LApp SA OpTick)) by (cbn; repeat split).
  destruct (lapp_step w1 SA OpTick I1 A2) as [x1 [fl1 [T1 [L1 I2]]]]. rewrite G1, <- Ex in T1.
  assert (Hdue : due (l_conn x) <= k_now w1) by (rewrite N1; unfold dt; lia).
  destruct (tick_side _ x o x1 fl1 Hon Hc Hdue T1) as [_ [_ [_ [_ [o1 [ds1 [Hon1 [Efl1 Hcase]]]]]]]].
  assert (A3 : admissible (set_side w1 SA x1 fl1) (LApp SA OpFlush)).
  { cbn [admissible]. rewrite get_set_same. split; [exact I|]. split; [exists o1; exact Hon1|exact I]. }
  destruct (lapp_step _ SA OpFlush I2 A3) as [x2 [fl2 [T2 [L2 I3]]]].
  rewrite get_set_same, now_set in T2.
  destruct (speak_side _ x o a x1 fl1 x2 fl2 Hon Hc Hsnd Hack Hdue T1 T2)
    as [o2 [ds [Hconn2 [Hfl [Es [Ed [Er [To [Tt [P1 [P2 [P3 [P4 [P5 [P6 [P7 P8]]]]]]]]]]]]]]]].
  exists (set_side (set_side w1 SA x1 fl1) SA x2 fl2), ds, o2.
  split.
  { eapply sched_cons; [exact I|exact S1|]. eapply sched_cons; [exact A2|exact L1|].
    eapply sched_cons; [exact A3|exact L2|apply sched_nil]. }
  split; [exact I3|].
  split. { rewrite !bag_set_same, B1, <- app_assoc, Hfl. reflexivity. }
  split. { change SB with (other SA). rewrite !bag_set_other. apply B1. }
  split. { change SB with (other SA). rewrite !get_set_other. apply G1. }
  rewrite get_set_same. split; [exact Es|]. split; [exact Ed|]. split; [exact Er|].
  split; [rewrite Hconn2; reflexivity|]. split; [exact To|]. split; [exact Tt|].
  split; [exact P1|]. split; [exact P2|]. split; [exact P4|]. split; [exact P5|]. split; [exact P6|].
  (* everything emitted is a chunk datagram unless A was idle *)
  intros Hbusy.
  destruct (flush_side _ x1 o1 x2 fl2 Hon1 T2) as [o2' [ds2 [Ef2 [_ [Efl2 _]]]]].
  assert (Eds : ds = ds1 ++ ds2).
  { assert (Hs1 : l_sub x1 = l_sub x /\ l_del x1 = l_del x).
    { destruct (tick_side _ x o x1 fl1 Hon Hc Hdue T1) as [Q1 [Q2 _]]. split; assumption. }
    destruct Hs1 as [Q1 Q2].
    assert (Hm : map (mkf x1) ds2 = map (mkf x) ds2).
    { apply map_ext. intros d. unfold mkf. rewrite Q1, Q2. reflexivity. }
    rewrite Efl1, Efl2, Hm, <- map_app in Hfl. symmetry. eapply map_mkf_inj, Hfl. }
  rewrite Eds. apply Forall_app. split; [|eapply flush_chunks, Ef2].
  destruct Hcase as [[Hq [ts Er']]|[[Hq [Ecs Ef1]]|[Hq [Ecs _]]]].
  - eapply resend_chunks, Er'.
  - eapply flush_chunks, Ef1.
  - destruct Hbusy as [Hb|Hb]; [contradiction|congruence].
Qed.

(* the first chunk datagram reaches the pending acceptor: it is online, nothing is emitted *)
Lemma feed_chunks_pending now y t ack rr n cs y' fl :
  c_state (l_conn y) = Pending t -> side_step now y (OpFeed (DChunks t ack rr n cs)) = Ok (y', fl) ->
  fl = [] /\ exists ob, c_state (l_conn y') = Online ob /\ o_own ob = t /\ o_their ob = t /\
    l_sub y' = l_sub y /\ l_rand y' = l_rand y.
Proof.
  intros Hp H. apply side_step_inv in H as [out [Hs [-> ->]]].
  destruct y as [[st sd] rnd sub del nvs nvr rdy ans]. cbn [l_conn c_state c_send] in Hp. subst st.
  unfold step, feed in Hs. cbn [l_conn c_state c_send e_now e_rand l_rand dgram_tok dgram_ack state_token] in Hs.
  rewrite tok_eqb_refl in Hs. cbn [negb] in Hs.
  destruct ((ack <? 0) || (SEQ_MOD <=? ack)); [discriminate|].
  assert (Hrs : (if rr then do_resend {| c_state := Online (online_new t t); c_send := sd |}
                               {| e_now := now; e_rand := rnd |} (online_new t t)
                 else Ok ({| c_state := Online (online_new t t); c_send := sd |}, []))
                = Ok ({| c_state := Online (online_new t t); c_send := sd |}, [])) by (destruct rr; reflexivity).
  rewrite Hrs in Hs. cbn [bind c_state c_send] in Hs.
  destruct (recv_chunks _ _ cs) as [[[a' r'] evs]| | |]; cbn [bind] in Hs; try discriminate.
  injection Hs as <-. cbn. split; [reflexivity|]. eexists. repeat split.
Qed.

Definition late_schedule (na nb : nat) (dt : Z) (n : nat)
    (dt1 : Z) (n1 : nat) (dt2 : Z) (n2 : nat) (dt3 : Z) (n3 : nat) : list llabel :=
  drops SA na ++ drops SB nb ++ speak SA dt ++ drain SA n ++ heal_schedule 0 0 dt1 n1 dt2 n2 dt3 n3.

Lemma drain_S s n : drain s (S n) = drain s 1 ++ drain s n.
Proof. reflexivity. Qed.

Theorem late_accept_link w oa t :
  link_inv w -> c_state (l_conn (k_a w)) = Online oa -> c_state (l_conn (k_b w)) = Pending t ->
  o_own oa = t -> (o_queue oa <> [] \/ can_send oa = true) ->
  rand_ok {| e_now := k_now w; e_rand := l_rand (k_a w) |} ->
  rand_ok {| e_now := k_now w; e_rand := l_rand (k_b w) |} ->
  exists na nb dt n dt1 n1 dt2 n2 dt3 n3 w' oa' ob',
    0 <= dt /\ 0 <= dt1 /\ 0 <= dt2 /\ 0 <= dt3 /\
    sched w (late_schedule na nb dt n dt1 n1 dt2 n2 dt3 n3) w' /\ link_inv w' /\
    l_sub (k_a w') = l_sub (k_a w) /\ l_sub (k_b w') = l_sub (k_b w) /\
    l_del (k_b w') = l_sub (k_a w') /\ l_del (k_a w') = l_sub (k_b w') /\
    c_state (l_conn (k_a w')) = Online oa' /\ c_state (l_conn (k_b w')) = Online ob' /\
    o_queue oa' = [] /\ o_queue ob' = [] /\
    pc_chunks (o_packet oa') = [] /\ pc_chunks (o_packet ob') = [] /\
    o_rr oa' = false /\ o_rr ob' = false /\ k_ab w' = [] /\ k_ba w' = [].
Proof.
  intros Hi Hoa Hpb Htok Hbusy HrA HrB.
  set (subs := fun s => l_sub (get w s)). set (rnds := fun s => l_rand (get w s)).
  assert (HrndB : forall now, rand_ok {| e_now := now; e_rand := rnds SB |}) by (intros now; exact HrB).
  pose proof (linv_side w SA Hi) as HsA. pose proof (linv_side w SB Hi) as HsB. cbn [get other] in HsA, HsB.
  destruct (sv_fresh _ _ _ _ _ HsB) as [SubB [DelB _]]; [rewrite Hpb; exact I|].
  assert (DelA : l_del (k_a w) = []).
  { pose proof (sv_dle _ _ _ _ _ HsA) as Hd. rewrite SubB in Hd. destruct (l_del (k_a w)); [reflexivity|].
    unfold zlen in Hd. cbn [length] in Hd. lia. }
  pose proof (sv_conn _ _ _ _ _ HsA) as HcA. unfold conn_ok6 in HcA. rewrite Hoa in HcA.
  destruct HcA as [_ [HtA _]].
  assert (Eth : o_their oa = t) by congruence.
  (* everything in flight is lost *)
  destruct (drop_all SA _ w eq_refl Hi) as [w1 [S1 [I1 [E1 [B1 [O1 N1]]]]]].
  destruct (drop_all SB _ w1 eq_refl I1) as [w2 [S2 [I2 [E2 [B2 [O2 N2]]]]]]. cbn [other] in O1, O2.
  assert (E20 : forall s, get w2 s = get w s) by (intros s; rewrite E2, E1; reflexivity).
  assert (B2A : bag w2 SA = []) by (rewrite O2; exact B1).
  (* A speaks *)
  assert (Hoa2 : c_state (l_conn (get w2 SA)) = Online oa) by (rewrite E20; exact Hoa).
  destruct (speak_alone w2 oa I2 Hoa2)
    as [w3 [ds [oa3 [S3 [I3 [B3 [O3 [X3 [Sub3 [Del3 [Rn3 [Hoa3 [Own3 [Th3 [P3 [R3 [Ne3 [Dg3 [Ti3 Ch3]]]]]]]]]]]]]]]]]]].
  rewrite B2A in B3. cbn [app] in B3. rewrite B2 in O3. rewrite E20 in *.
  specialize (Ch3 Hbusy). rewrite Eth in Dg3.
  destruct ds as [|d1 rest]; [contradiction|]. clear Ne3.
  inversion Ch3 as [|d1' r' Hd1 _]; subst d1' r'.
  inversion Dg3 as [|d1' r' [_ [Tk1 _]] Dgr]; subst d1' r'.
  inversion Ti3 as [|d1' r' Ti1 Tir]; subst d1' r'.
  destruct d1 as [t1 t2 pl|tk ak ctl|tk ak rr n cs]; try contradiction. cbn [dgram_tok] in Tk1.
  subst tk.
  cbn [map] in B3.
  (* the first datagram takes B online *)
  set (f1 := mkf (get w SA) (DChunks t ak rr n cs)) in *.
  assert (Hpb3 : c_state (l_conn (get w3 SB)) = Pending t) by (rewrite X3; exact Hpb).
  assert (Hfresh : fresh f1 (get w3 (other SA))).
  { cbn [other]. rewrite X3. cbn [get]. split.
    - unfold f1. cbn [mkf f_c get]. rewrite SubB, DelA. cbn. lia.
    - intros c sq r Hin Hv. unfold f1 in *. cbn [mkf f_d f_n dgram_chunks get] in *.
      destruct (Ti1 c sq r Hin Hv) as [i [Hi1 ->]].
      rewrite (idx_of_spec (zlen (l_sub (k_a w))) (seqof i) i); [|lia|reflexivity]. rewrite DelB.
      pose proof (zlen_nonneg (l_sub (k_a w))). change (zlen (@nil bytes)) with 0. lia. }
  destruct (ldeliver_step w3 SA f1 _ I3 B3 Hfresh) as [A4 [y4 [fl4 [T4 [L4 I4]]]]].
  { cbn [other]. rewrite X3. cbn [get]. exact HrB. }
  cbn [other] in T4, L4, I4. rewrite X3 in T4. unfold f1 in T4. cbn [mkf f_d get] in T4.
  destruct (feed_chunks_pending _ _ t ak rr n cs y4 fl4 Hpb T4) as [-> [ob4 [Hob4 [Own4 [Th4 [Sub4 Rn4]]]]]].
  destruct (ldrop_step (set_side w3 SB y4 []) SA) as [w5 [S5 [G5 [B5 [O5 [N5 I5]]]]]]. specialize (I5 I4).
  cbn [other] in O5.
  assert (Hoa5 : c_state (l_conn (get w5 SA)) = Online oa3).
  { rewrite G5. change SA with (other SB). rewrite get_set_other. exact Hoa3. }
  assert (Hob5 : c_state (l_conn (get w5 (other SA))) = Online ob4).
  { cbn [other]. rewrite G5, get_set_same. exact Hob4. }
  assert (G5' : good w5 t subs rnds).
  { split; [exact I5|]. intros [|]; unfold subs, rnds.
    - exists oa3. split; [exact Hoa5|]. rewrite G5. change SA with (other SB). rewrite get_set_other. cbn [other].
      split; [congruence|]. split; [congruence|]. split; assumption.
    - exists ob4. rewrite G5, get_set_same. split; [exact Hob4|]. split; [exact Own4|]. split; [exact Th4|].
      cbn [get]. split; assumption. }
  assert (B5' : bag w5 SA = map (mkf (get w SA)) rest).
  { rewrite B5. change SA with (other SB). rewrite bag_set_other. cbn [other]. rewrite B3. reflexivity. }
  assert (F5 : Forall (fl_ok t (zlen (subs SA)) (zlen (subs SB))) (map (mkf (get w SA)) rest)).
  { unfold subs. cbn [get]. eapply fl_ok_map; [reflexivity| |exact Dgr|exact Tir|right].
    - rewrite SubB, DelA. cbn. lia.
    - rewrite SubB, DelA. reflexivity. }
  destruct (drain_all SA t subs rnds HrndB _ w5 ob4 G5' B5' F5 Hob5)
    as [w6 [ob6 [S6 [G6 [B6 [O6 [X6 [N6 [Hob6 _]]]]]]]]].
  cbn [other] in O6, Hob6.
  pose proof (proj1 G6) as I6.
  destruct (proj2 G6 SA) as [oa6 [Hoa6 [Own6 [Th6 [SubA6 RnA6]]]]].
  destruct (proj2 G6 SB) as [ob6' [Hob6' [OwnB6 [ThB6 [SubB6 RnB6]]]]].
  rewrite Hob6 in Hob6'. injection Hob6' as <-.
  assert (Eoa6 : oa6 = oa3) by (rewrite X6, Hoa5 in Hoa6; injection Hoa6 as <-; reflexivity). subst oa6.
  assert (Bab6 : k_ab w6 = []) by exact B6.
  assert (Bba6 : k_ba w6 = []).
  { change (k_ba w6) with (bag w6 SB). rewrite O6, O5, bag_set_same, O3. reflexivity. }
  (* the healing schedule *)
  destruct (heal_link w6 oa3 ob6 I6 Hoa6 Hob6) as
    [na' [nb' [dt1 [n1 [dt2 [n2 [dt3 [n3 [w' [oa' [ob' [D1 [D2 [D3 [Hadm [Hrun [I7 [Sa [Sb [Db' [Da' [Oa [Ob [Qa [Qb [Pa [Pb [Rra [Rrb [Ba Bb]]]]]]]]]]]]]]]]]]]]]]]]]]]]]].
  { congruence. }
  { change (k_a w6) with (get w6 SA). rewrite RnA6. exact HrA. }
  { change (k_b w6) with (get w6 SB). rewrite RnB6. exact HrB. }
  assert (Cs6 : can_send oa3 = false).
  { pose proof (sv_conn _ _ _ _ _ (linv_side w6 SA I6)) as Hc. unfold conn_ok6 in Hc. rewrite Hoa6 in Hc.
    destruct Hc as [[[Hn _] _] _]. rewrite P3 in Hn. apply idle_can_send; [exact Hn|exact R3]. }
  pose proof (heal_no_loss w6 oa3 na' nb' dt1 n1 dt2 n2 dt3 n3 w' Hoa6 Cs6 Bab6 Bba6 (conj Hadm Hrun)) as S7.
  exists (length (bag w SA)), (length (bag w1 SB)), (Z.max 0 (due (l_conn (get w SA)) - k_now w2)),
    (S (length (map (mkf (get w SA)) rest))), dt1, n1, dt2, n2, dt3, n3, w', oa', ob'.
  split; [lia|]. do 3 (split; [assumption|]).
  split.
  { unfold late_schedule. eapply sched_app; [exact S1|]. eapply sched_app; [exact S2|]. eapply sched_app; [exact S3|].
    eapply sched_app; [|exact S7]. rewrite drain_S. eapply sched_app; [|exact S6].
    eapply sched_cons; [exact A4|exact L4|]. eapply sched_cons; [exact I|exact S5|apply sched_nil]. }
  split; [exact I7|].
  split; [rewrite Sa; exact SubA6|]. split; [rewrite Sb; exact SubB6|].
  repeat (split; [assumption|]). assumption.
Qed.

Lemma late_shape na nb dt n dt1 n1 dt2 n2 dt3 n3 :
  0 <= dt -> 0 <= dt1 -> 0 <= dt2 -> 0 <= dt3 ->
  let ls := late_schedule na nb dt n dt1 n1 dt2 n2 dt3 n3 in
  Forall heal_label ls /\ ticks ls = 4%nat /\
  exists post, ls = drops SA na ++ drops SB nb ++ post /\ orderly post.
Proof.
  intros H0 H1 H2 H3 ls. unfold ls, late_schedule.
  assert (Hh : Forall heal_label (heal_schedule 0 0 dt1 n1 dt2 n2 dt3 n3)) by (apply heal_labels; assumption).
  split; [|split].
  - apply Forall_app. split; [apply heal_labels_drops|]. apply Forall_app. split; [apply heal_labels_drops|].
    apply Forall_app. split; [repeat constructor; exact H0|]. apply Forall_app. split; [apply heal_labels_drain|exact Hh].
  - rewrite !ticks_app, !ticks_drops, ticks_drain, ticks_heal. reflexivity.
  - destruct (heal_schedule_shape 0 0 dt1 n1 dt2 n2 dt3 n3) as [hp [Eh Oh]]. cbn [drops repeat app] in Eh.
    eexists. split; [reflexivity|].
    apply orderly_app; [exact I|]. apply orderly_app; [apply orderly_drain|]. rewrite Eh. exact Oh.
Qed.

(* A online with nothing in its resend queue while B is still pending: nothing was ever submitted *)
Lemma pending_idle_nothing w oa t :
  link_inv w -> c_state (l_conn (k_a w)) = Online oa -> c_state (l_conn (k_b w)) = Pending t ->
  o_queue oa = [] ->
  l_sub (k_a w) = [] /\ l_del (k_a w) = [] /\ l_sub (k_b w) = [] /\ l_del (k_b w) = [].
Proof.
  intros Hi Hoa Hpb Hq.
  pose proof (linv_side w SA Hi) as HsA. pose proof (linv_side w SB Hi) as HsB. cbn [get other] in HsA, HsB.
  destruct (sv_fresh _ _ _ _ _ HsB) as [SubB [DelB _]]; [rewrite Hpb; exact I|].
  assert (Hnil : forall l : list bytes, zlen l <= 0 -> l = []).
  { intros l H. destruct l; [reflexivity|]. unfold zlen in H. cbn [length] in H. lia. }
  split; [|split; [|split; assumption]].
  - destruct (sv_online _ _ _ _ _ HsA oa Hoa) as [a [Hs [Ha _]]].
    pose proof (si_queue _ _ _ _ Hs) as Hqi. rewrite Hq in Hqi. cbn in Hqi.
    apply Hnil. rewrite DelB in Ha. change (zlen (@nil bytes)) with 0 in Ha. lia.
  - apply Hnil. pose proof (sv_dle _ _ _ _ _ HsA) as Hd. rewrite SubB in Hd. exact Hd.
Qed.


(* ================= part 12: both sides called connect: neither ever gets an answer ================= *)
Definition connect_op (o : op) : Prop :=
  match o with OpTick | OpFlush => True | OpFeed d => is_connect d | _ => False end.

Lemma connecting_step c e o out : c_state c = Connecting -> connect_op o -> step c e o = Ok out ->
  c_state (out_conn out) = Connecting /\ Forall is_connect (out_sent out).
Proof.
  destruct c as [st sd]. cbn [c_state]. intros -> Ho H.
  destruct o as [|data vital| | |reason|data|d| |]; try contradiction; unfold step in H; cbn [c_state c_send] in H.
  - discriminate.
  - destruct (triggered sd (e_now e)).
    + unfold tick_action in H. cbn [c_state send_control] in H. rewrite ctl_fits in H by exact I. cbn [bind] in H.
      injection H as <-. cbn. split; [reflexivity|]. constructor; [exact I|constructor].
    + injection H as <-. cbn. split; [reflexivity|constructor].
  - destruct d as [t1 t2 pl|tk ack ctl|tk ack rr n cs]; cbn [connect_op is_connect] in Ho; try contradiction.
    destruct ctl; try contradiction.
    unfold feed in H. cbn [c_state c_send dgram_tok dgram_ack state_token] in H.
    destruct ((ack <? 0) || (SEQ_MOD <=? ack)); [discriminate|].
    injection H as <-. cbn. split; [reflexivity|constructor].
Qed.

Definition both_connecting (w : link) : Prop :=
  c_state (l_conn (k_a w)) = Connecting /\ c_state (l_conn (k_b w)) = Connecting /\
  connect_bag (k_ab w) /\ connect_bag (k_ba w).

Theorem both_connecting_step w l w' : both_connecting w -> heal_label l -> link_step w l = Ok w' -> both_connecting w'.
Proof.
  intros [Ha [Hb [Hab Hba]]] Hl H. destruct l as [s o|dt|from k|from k]; cbn [link_step] in H.
  - assert (Hq : connect_op o) by (destruct o; try contradiction; exact I).
    destruct (side_step (k_now w) (get w s) o) as [[x fl]| | |] eqn:E; try discriminate. injection H as <-.
    apply side_step_inv in E as [out [Hs [-> ->]]].
    destruct s; cbn [get] in Hs; unfold both_connecting, set_side; cbn [k_a k_b k_ab k_ba after l_conn].
    + destruct (connecting_step _ _ _ _ Ha Hq Hs) as [P1 P2].
      split; [exact P1|]. split; [exact Hb|]. split; [|exact Hba].
      apply Forall_app. split; [exact Hab|apply Forall_map; exact P2].
    + destruct (connecting_step _ _ _ _ Hb Hq Hs) as [P1 P2].
      split; [exact Ha|]. split; [exact P1|]. split; [exact Hab|].
      apply Forall_app. split; [exact Hba|apply Forall_map; exact P2].
  - injection H as <-. exact (conj Ha (conj Hb (conj Hab Hba))).
  - destruct (nth_error (bag w from) k) as [f|] eqn:Ek; [|injection H as <-; exact (conj Ha (conj Hb (conj Hab Hba)))].
    destruct (side_step (k_now w) (get w (other from)) (OpFeed (f_d f))) as [[x fl]| | |] eqn:E; try discriminate.
    injection H as <-. apply side_step_inv in E as [out [Hs [-> ->]]]. apply nth_error_In in Ek.
    destruct from; cbn [get other bag] in *; unfold both_connecting, set_side; cbn [k_a k_b k_ab k_ba after l_conn].
    + assert (Hq : connect_op (OpFeed (f_d f))).
      { unfold connect_bag in Hab. rewrite Forall_forall in Hab. exact (Hab f Ek). }
      destruct (connecting_step _ _ _ _ Hb Hq Hs) as [P1 P2].
      split; [exact Ha|]. split; [exact P1|]. split; [exact Hab|].
      apply Forall_app. split; [exact Hba|apply Forall_map; exact P2].
    + assert (Hq : connect_op (OpFeed (f_d f))).
      { unfold connect_bag in Hba. rewrite Forall_forall in Hba. exact (Hba f Ek). }
      destruct (connecting_step _ _ _ _ Ha Hq Hs) as [P1 P2].
      split; [exact P1|]. split; [exact Hb|]. split; [|exact Hba].
      apply Forall_app. split; [exact Hab|apply Forall_map; exact P2].
  - injection H as <-. unfold both_connecting. destruct from; cbn [k_a k_b k_ab k_ba].
    + split; [exact Ha|]. split; [exact Hb|]. split; [apply remove_nth_forall, Hab|exact Hba].
    + split; [exact Ha|]. split; [exact Hb|]. split; [exact Hab|apply remove_nth_forall, Hba].
Qed.

Theorem both_connecting_run ls : forall w w', both_connecting w -> Forall heal_label ls -> link_run w ls = Ok w' ->
  both_connecting w'.
Proof.
  induction ls as [|l ls IH]; intros w w' Hn Hl H; cbn [link_run] in H.
  - injection H as <-. exact Hn.
  - inversion Hl as [|l0 ls0 Hl1 Hl2]; subst. destruct (link_step w l) as [w1| | |] eqn:E; try discriminate.
    eapply IH; [eapply both_connecting_step; eassumption|exact Hl2|exact H].
Qed.

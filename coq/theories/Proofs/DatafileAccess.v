(* On a reader that passed check() (reader_inv) every accessor returns a value or an
   error -- no panic, no fuel exhaustion -- and what it returns lies inside the item area
   / the data section. *)
From LibTw2 Require Import Base.Res Model.Datafile Proofs.DatafileBase Proofs.DatafileParse Proofs.DatafileCheck.
From Coq Require Import ZArith List Lia Bool.
Import ListNotations.
Open Scope Z_scope.

(* an ItemView is the sub-slice [iv_off, iv_off+iv_len) of items_raw, behind an item header *)
Definition view_inside (r : reader) (v : item_view) : Prop :=
  2 <= iv_off v /\ 0 <= iv_len v /\ iv_off v + iv_len v <= zlen (r_items_raw r) /\
  iv_data v = firstn (Z.to_nat (iv_len v)) (skipn (Z.to_nat (iv_off v)) (r_items_raw r)) /\
  0 <= iv_type v < 65536 /\ 0 <= iv_id v < 65536.

Lemma ih_type_id_range a : 0 <= ih_type_id a < 65536.
Proof. unfold ih_type_id. apply Z.mod_pos_bound. lia. Qed.
Lemma ih_id_range a : 0 <= ih_id a < 65536.
Proof. unfold ih_id. apply Z.mod_pos_bound. lia. Qed.

Lemma skipn_skipn' {A} (x y : nat) (l : list A) : skipn x (skipn y l) = skipn (y + x) l.
Proof.
  revert l. induction y; intros l; [reflexivity|]. destruct l; cbn [skipn plus].
  - destruct x; reflexivity.
  - apply IHy.
Qed.

Lemma item_spec r i : reader_inv r -> 0 <= i < h_num_items (r_hdr r) ->
  exists v a b, item r i = Ok v /\ view_inside r v /\ item_header r i = Ok (a, b)
    /\ iv_type v = ih_type_id a /\ iv_id v = ih_id a /\ iv_len v = b / 4
    /\ exists off, znth (r_item_offsets r) i = Some off /\ iv_off v = off / 4 + 2.
Proof.
  intros Hinv Hi. pose proof (ri_pre r Hinv) as Hp.
  destruct (ri_items r Hinv i Hi) as (off & a & b & Hz & Ho & H4 & Hf & Hb & Hb4 & Hs).
  pose proof (rp_hdr r Hp) as Hh. destruct Hh as [_ _ _ _ _ _ Hsi _ _]. unfold i32_max in Hsi.
  pose proof (rp_raw_len r Hp) as Hl.
  assert (Hi0 : 0 <= i) by lia. assert (Hs8 : off + 8 <= h_size_items (r_hdr r)) by lia.
  destruct (item_header_ok r i off Hp Hi0 Hz Ho H4 Hs8) as (a' & b' & Hih & Hf' & _).
  rewrite Hf in Hf'. inversion Hf'; subst a' b'. clear Hf'.
  assert (Hq : 0 <= off / 4 /\ 4 * (off / 4) = off).
  { pose proof (Z.div_mod off 4). split; [apply Z.div_pos; lia|lia]. }
  assert (Hqb : 0 <= b / 4 /\ 4 * (b / 4) = b).
  { pose proof (Z.div_mod b 4). split; [apply Z.div_pos; lia|lia]. }
  unfold item. rewrite Hih. cbn [bind snd fst].
  rewrite (index_of_znth _ _ _ _ Hi0 Hz). cbn [bind].
  rewrite assert_usize_ok by lia. cbn [bind].
  rewrite rsom_1_4_ok by (unfold two64; lia). cbn [bind].
  rewrite slice_from_ok by lia. cbn [bind].
  assert (Hlen1 : zlen (skipn (Z.to_nat (off / 4)) (r_items_raw r)) = zlen (r_items_raw r) - off / 4).
  { rewrite zlen_skipn by (unfold zlen in *; lia). lia. }
  rewrite slice_from_ok by lia. cbn [bind].
  rewrite assert_usize_ok by lia. cbn [bind].
  rewrite rsom_1_4_ok by (unfold two64; lia). cbn [bind].
  rewrite skipn_skipn'.
  assert (Hlen2 : zlen (skipn (Z.to_nat (off / 4) + Z.to_nat 2) (r_items_raw r)) = zlen (r_items_raw r) - off / 4 - 2).
  { rewrite zlen_skipn by (unfold zlen in *; lia). lia. }
  rewrite slice_to_ok by lia. cbn [bind].
  eexists. exists a, b. split; [reflexivity|]. cbn [iv_type iv_id iv_off iv_len iv_data].
  split; [|repeat split; auto; exists off; auto].
  unfold view_inside. cbn [iv_type iv_id iv_off iv_len iv_data].
  repeat split; try lia; try apply ih_type_id_range; try apply ih_id_range.
  f_equal. f_equal. lia.
Qed.

(* ---------- ranges ---------- *)
Lemma collect_range_spec {A} (f : Z -> res err A) (P : A -> Prop) : forall fuel lo hi,
  hi - lo <= Z.of_nat fuel -> (forall k, lo <= k < hi -> ok_with (f k) P /\ exists x, f k = Ok x) ->
  exists l, collect_range fuel f lo hi = Ok l /\ Forall P l /\ zlen l = Z.max 0 (hi - lo).
Proof.
  induction fuel as [|fuel IH]; intros lo hi Hfuel Hf; cbn [collect_range].
  - destruct (hi <=? lo) eqn:E0; [apply Z.leb_le in E0|apply Z.leb_gt in E0; lia].
    exists []. repeat split; [constructor|rewrite zlen_nil; lia].
  - destruct (hi <=? lo) eqn:E0; [apply Z.leb_le in E0|apply Z.leb_gt in E0].
    { exists []. repeat split; [constructor|rewrite zlen_nil; lia]. }
    destruct (Hf lo ltac:(lia)) as (HP & x & Hx). rewrite Hx in *. cbn [bind ok_with] in *.
    destruct (IH (lo + 1) hi ltac:(lia) ltac:(intros; apply Hf; lia)) as (l & Hl & HPl & Hlen).
    rewrite Hl. cbn [bind]. exists (x :: l). repeat split; [constructor; assumption|].
    rewrite zlen_cons. lia.
Qed.

Lemma item_type_indices_spec r ty : reader_inv r ->
  exists s e, item_type_indices r ty = Ok (s, e) /\ 0 <= s <= e /\ e <= h_num_items (r_hdr r)
    /\ ((s = 0 /\ e = 0) \/ exists t, In t (r_item_types r) /\ t_type_id t = ty /\ s = t_start t /\ e = t_start t + t_num t).
Proof.
  intros Hinv. pose proof (ri_types r Hinv) as Ht. pose proof (rp_hdr r (ri_pre r Hinv)) as Hh.
  destruct Hh as [_ _ _ _ Hni _ _ _ _]. unfold i32_max in Hni.
  unfold item_type_indices. induction (r_item_types r) as [|t rest IH]; cbn [item_type_indices_loop].
  - exists 0, 0. repeat split; auto; lia.
  - inversion Ht as [|? ? (Hty & Hst & Hnum & Hsum) Hrest]; subst.
    rewrite (Z.mod_small (t_type_id t)) by lia.
    destruct (t_type_id t =? ty) eqn:E; [apply Z.eqb_eq in E|].
    + rewrite !assert_usize_ok by lia. cbn [bind]. rewrite usize_add_ok by (unfold two64; lia). cbn [bind].
      exists (t_start t), (t_start t + t_num t). repeat split; try lia.
      right. exists t. repeat split; auto. left; reflexivity.
    + destruct (IH Hrest) as (s & e & H1 & H2 & H3 & H4). exists s, e. repeat split; auto; try lia.
      destruct H4 as [H4|(t' & Hin & H5)]; [left; exact H4|right; exists t'; split; [right; exact Hin|exact H5]].
Qed.

Lemma find_loop_spec r item_id : reader_inv r -> forall fuel lo hi,
  0 <= lo -> hi <= h_num_items (r_hdr r) -> hi - lo <= Z.of_nat fuel ->
  exists o, find_loop fuel r lo hi item_id = Ok o /\ match o with Some v => view_inside r v | None => True end.
Proof.
  intros Hinv. induction fuel as [|fuel IH]; intros lo hi Hlo Hhi Hfuel; cbn [find_loop].
  - destruct (hi <=? lo) eqn:E0; [|apply Z.leb_gt in E0; lia]. exists None. auto.
  - destruct (hi <=? lo) eqn:E0; [exists None; auto|]. apply Z.leb_gt in E0.
    destruct (item_spec r lo Hinv ltac:(lia)) as (v & a & b & Hv & Hin & _). rewrite Hv. cbn [bind].
    destruct (iv_id v =? item_id).
    + exists (Some v). auto.
    + apply IH; lia.
Qed.

(* ---------- data ---------- *)
Definition zcase (data_len : Z) (z : zres) : res err bytes :=
  match z with
  | ZOk out => if zlen out =? data_len then Ok out else Err CompressionWrongSize
  | ZErr code => Err (CompressionError code)
  end.

Lemma read_data_spec unc r i : reader_inv r -> 0 <= i < h_num_data (r_hdr r) ->
  exists off len,
    read_data_src r i = Ok (off, len) /\ 0 <= off /\ 0 <= len /\ off + len <= h_size_data (r_hdr r)
    /\ h_size_data (r_hdr r) <= zlen (r_data r)
    /\ znth (r_data_offsets r) i = Some off
    /\ (if i <? h_num_data (r_hdr r) - 1 then znth (r_data_offsets r) (i + 1) = Some (off + len)
        else off + len = h_size_data (r_hdr r))
    /\ let raw := firstn (Z.to_nat len) (skipn (Z.to_nat off) (r_data r)) in
       match r_uds r with
       | None => read_data unc r i = Ok raw
       | Some uds => exists u, znth uds i = Some u /\ 0 <= u <= 2147483647 /\ read_data unc r i = zcase u (unc u raw)
       end.
Proof.
  intros Hinv Hi. pose proof (ri_pre r Hinv) as Hp.
  pose proof (rp_hdr r Hp) as Hh. destruct Hh as [_ _ _ _ _ Hnd _ Hsd _]. unfold i32_max in *.
  pose proof (rp_doffsets_len r Hp) as Hdl. pose proof (rp_data_len r Hp) as Hdata.
  destruct (ri_data r Hinv i Hi) as (o & Hz & Ho & Hu).
  assert (Hi0 : 0 <= i) by lia. assert (Hi1 : 0 <= i + 1) by lia.
  assert (He : exists e, (if i <? zlen (r_data_offsets r) - 1
                then let* x := index (r_data_offsets r) (i + 1) site_index_data_offsets in Ok (as_usize x)
                else Ok (as_usize (h_size_data (r_hdr r)))) = (Ok e : res err Z) /\ o <= e <= h_size_data (r_hdr r)
                /\ (if i <? h_num_data (r_hdr r) - 1 then znth (r_data_offsets r) (i + 1) = Some e else e = h_size_data (r_hdr r))).
  { rewrite <- Hdl. destruct (i <? zlen (r_data_offsets r) - 1) eqn:E; [apply Z.ltb_lt in E|apply Z.ltb_ge in E].
    - destruct (ri_data r Hinv (i + 1) ltac:(lia)) as (o' & Hz' & Ho' & _).
      rewrite (index_of_znth _ _ _ _ Hi1 Hz'). cbn [bind]. exists o'.
      rewrite as_usize_small by lia. split; [reflexivity|]. split; [|exact Hz']. split; [|lia].
      apply (ri_sorted r Hinv i (i + 1) o o'); auto; lia.
    - exists (h_size_data (r_hdr r)). rewrite as_usize_small by lia. split; [reflexivity|]. split; [lia|reflexivity]. }
  destruct He as (e & He & Hoe & Hnext).
  assert (Hsrc : read_data_src r i = Ok (o, e - o)).
  { unfold read_data_src, data_size_file. rewrite (index_of_znth _ _ _ _ Hi0 Hz). cbn [bind].
    rewrite usize_sub_ok by lia. cbn [bind]. rewrite He. cbn [bind].
    rewrite (as_usize_small o) by lia.
    destruct (o <=? e) eqn:E; [|apply Z.leb_gt in E; lia]. cbn [negb].
    rewrite usize_sub_ok by lia. cbn [bind]. unfold u32_of, two32. rewrite Z.mod_small by lia. reflexivity. }
  exists o, (e - o). split; [exact Hsrc|]. split; [lia|]. split; [lia|]. split; [lia|]. split; [lia|].
  split; [exact Hz|]. split; [replace (o + (e - o)) with e by lia; exact Hnext|].
  cbv zeta. unfold read_data. rewrite Hsrc. cbn [bind fst snd].
  assert (Hseek : seek_read_exact (r_data r) o (e - o) = Ok (firstn (Z.to_nat (e - o)) (skipn (Z.to_nat o) (r_data r)))).
  { unfold seek_read_exact. cbv zeta.
    rewrite (Z.max_r 0 (zlen (r_data r) - o)) by lia. rewrite Z.min_l by lia. rewrite Z.eqb_refl. cbn [negb].
    destruct (e - o <=? 0) eqn:E; [apply Z.leb_le in E|reflexivity].
    replace (e - o) with 0 by lia. reflexivity. }
  rewrite Hseek. cbn [bind].
  destruct (r_uds r) as [uds|]; [|reflexivity].
  destruct Hu as (u & Hzu & Hu). exists u. repeat split; try lia; auto.
  rewrite (index_of_znth _ _ _ _ Hi0 Hzu). cbn [bind]. rewrite as_usize_small by lia. reflexivity.
Qed.

Lemma zcase_no_panic u z : no_panic (zcase u z).
Proof. destruct z; cbn; [destruct (_ =? _)|]; exact I. Qed.

Lemma read_data_no_panic unc r i : reader_inv r -> 0 <= i < h_num_data (r_hdr r) -> no_panic (read_data unc r i).
Proof.
  intros Hinv Hi. destruct (read_data_spec unc r i Hinv Hi) as (off & len & _ & _ & _ & _ & _ & _ & _ & H).
  cbv zeta in H. destruct (r_uds r).
  - destruct H as (u & _ & _ & ->). apply zcase_no_panic.
  - rewrite H. exact I.
Qed.

Lemma data_iter_loop_no_panic unc r : reader_inv r -> forall fuel lo hi,
  0 <= lo -> hi <= h_num_data (r_hdr r) -> hi - lo <= Z.of_nat fuel ->
  exists l, data_iter_loop fuel unc r lo hi = Ok l.
Proof.
  intros Hinv. induction fuel as [|fuel IH]; intros lo hi Hlo Hhi Hfuel; cbn [data_iter_loop].
  - destruct (hi <=? lo) eqn:E0; [|apply Z.leb_gt in E0; lia]. eauto.
  - destruct (hi <=? lo) eqn:E0; [eauto|]. apply Z.leb_gt in E0.
    pose proof (read_data_no_panic unc r lo Hinv ltac:(lia)) as Hnp.
    destruct (IH (lo + 1) hi ltac:(lia) Hhi ltac:(lia)) as (l & Hl). rewrite Hl. cbn [bind].
    destruct (read_data unc r lo); cbn in Hnp; try contradiction; eauto.
Qed.

(* ---------- every call ---------- *)
Definition value_inside (r : reader) (v : value) : Prop :=
  match v with
  | VItem it => view_inside r it
  | VOptItem (Some it) => view_inside r it
  | VItems l => Forall (view_inside r) l
  | VRange s e => 0 <= s <= e /\ e <= h_num_items (r_hdr r)
  | VTypes l => Forall (fun t => 0 <= t < 65536) l
  | _ => True
  end.

Lemma item_type_spec r i : reader_inv r -> 0 <= i < h_num_item_types (r_hdr r) ->
  exists t, item_type r i = Ok t /\ 0 <= t < 65536.
Proof.
  intros Hinv Hi. pose proof (ri_pre r Hinv) as Hp.
  destruct (index_ok (EE := err) (r_item_types r) i site_index_item_types) as (t & Hidx & Hz).
  { rewrite (rp_types_len r Hp). lia. }
  unfold item_type. rewrite Hidx. cbn [bind].
  pose proof (ri_types r Hinv) as Ht. rewrite Forall_forall in Ht.
  assert (Hi0 : 0 <= i) by lia.
  destruct (Ht t (znth_In _ _ _ Hi0 Hz)) as (Hty & _).
  rewrite assert_u16_ok by lia. eauto.
Qed.

Theorem run_call_spec unc r c : reader_inv r -> valid_call r c = true ->
  ok_with (run_call unc r c) (value_inside r) /\ exists v, run_call unc r c = Ok v \/ exists e, run_call unc r c = Err e.
Proof.
  intros Hinv Hv. pose proof (ri_pre r Hinv) as Hp. pose proof (rp_hdr r Hp) as Hh.
  destruct Hh as [_ _ _ Hnit Hni Hnd _ _ _]. unfold i32_max in *.
  assert (Hitems : forall lo hi, 0 <= lo -> hi <= h_num_items (r_hdr r) ->
            exists l, collect_range (S (length (r_item_offsets r))) (item r) lo hi = Ok l /\ Forall (view_inside r) l).
  { intros lo hi Hlo Hhi.
    destruct (collect_range_spec (item r) (view_inside r) (S (length (r_item_offsets r))) lo hi) as (l & Hl & HP & _).
    - pose proof (rp_offsets_len r Hp) as Hlen. unfold zlen in Hlen. lia.
    - intros k Hk. destruct (item_spec r k Hinv ltac:(lia)) as (v & a & b & Hvk & Hin & _).
      rewrite Hvk. cbn. eauto.
    - eauto. }
  assert (Hfin : forall (x : res err value), ok_with x (value_inside r) ->
            ok_with x (value_inside r) /\ exists v, x = Ok v \/ exists e, x = Err e).
  { intros x Hx. split; [exact Hx|]. destruct x; cbn in Hx; try contradiction.
    - exists a. auto.
    - exists (VNum 0). right. eauto. }
  apply Hfin.
  destruct c; cbn [run_call valid_call] in *.
  - exact I.
  - unfold num_items. rewrite assert_usize_ok by lia. exact I.
  - unfold num_data. rewrite assert_usize_ok by lia. exact I.
  - unfold num_item_types. rewrite assert_usize_ok by lia. exact I.
  - destruct (item_spec r i Hinv ltac:(lia)) as (v & a & b & Hvk & Hin & _). rewrite Hvk. exact Hin.
  - destruct (item_type_spec r i Hinv ltac:(lia)) as (t & Ht & _). rewrite Ht. exact I.
  - destruct (item_type_indices_spec r type_id Hinv) as (s & e & Hse & H1 & H2 & _). rewrite Hse. cbn. lia.
  - unfold find_item. destruct (item_type_indices_spec r type_id Hinv) as (s & e & Hse & H1 & H2 & _).
    rewrite Hse. cbn [bind fst snd].
    destruct (find_loop_spec r id Hinv (S (length (r_item_offsets r))) s e) as (o & Ho & Hin); try lia.
    { pose proof (rp_offsets_len r Hp) as Hlen. unfold zlen in Hlen. lia. }
    rewrite Ho. cbn. destruct o; auto.
  - unfold items, num_items. rewrite assert_usize_ok by lia. cbn [bind].
    destruct (Hitems 0 (h_num_items (r_hdr r))) as (l & Hl & HP); try lia. rewrite Hl. exact HP.
  - unfold item_types, num_item_types. rewrite assert_usize_ok by lia. cbn [bind].
    destruct (collect_range_spec (item_type r) (fun t => 0 <= t < 65536) (S (length (r_item_types r))) 0 (h_num_item_types (r_hdr r))) as (l & Hl & HP & _).
    + pose proof (rp_types_len r Hp) as Hlen. unfold zlen in Hlen. lia.
    + intros k Hk. destruct (item_type_spec r k Hinv ltac:(lia)) as (t & Ht & Hr). rewrite Ht. cbn. eauto.
    + rewrite Hl. exact HP.
  - unfold item_type_items. destruct (item_type_indices_spec r type_id Hinv) as (s & e & Hse & H1 & H2 & _).
    rewrite Hse. cbn [bind fst snd].
    destruct (Hitems s e) as (l & Hl & HP); try lia. rewrite Hl. exact HP.
  - pose proof (read_data_no_panic unc r i Hinv ltac:(lia)) as Hnp.
    destruct (read_data unc r i); cbn in *; auto.
  - unfold data_iter, num_data. rewrite assert_usize_ok by lia. cbn [bind].
    destruct (data_iter_loop_no_panic unc r Hinv (S (length (r_data_offsets r))) 0 (h_num_data (r_hdr r))) as (l & Hl); try lia.
    { pose proof (rp_doffsets_len r Hp) as Hlen. unfold zlen in Hlen. lia. }
    rewrite Hl. exact I.
Qed.

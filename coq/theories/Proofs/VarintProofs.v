(* Theorems about the varint codec, proved on the arithmetic forms and
   transported to the bit-level model by read_int_arith / write_int_arith. *)
From LibTw2 Require Import Base.Res Base.Bits Model.Varint Proofs.VarintArith.
From Coq Require Import ZArith Lia Bool List ZifyBool.
Open Scope Z_scope.
Ltac Zify.zify_post_hook ::= Z.div_mod_to_equations.

Lemma write_int_a_bytes_ok v : is_i32 v = true -> bytes_ok (write_int_a v) = true.
Proof.
  unfold is_i32, i32_min, i32_max. intros Hv.
  assert (Hm : 0 <= mag v < 2147483648) by (unfold mag; destruct (v <? 0) eqn:E; lia).
  assert (Hs : 0 <= sgn v <= 1) by (unfold sgn; destruct (v <? 0); lia).
  unfold write_int_a, bytes_ok, byte_ok.
  set (p := mag v) in *. set (s := sgn v) in *.
  destruct (p <? 64) eqn:E1; [cbn [forallb]; lia|].
  destruct (p <? 8192) eqn:E2; [cbn [forallb]; lia|].
  destruct (p <? 1048576) eqn:E3; [cbn [forallb]; lia|].
  destruct (p <? 134217728) eqn:E4; cbn [forallb]; lia.
Qed.

Lemma bytes_ok_app a b : bytes_ok a = true -> bytes_ok b = true -> bytes_ok (a ++ b) = true.
Proof. unfold bytes_ok. intros Ha Hb. rewrite forallb_app, Ha, Hb. reflexivity. Qed.

Lemma write_int_a_length v : 1 <= Z.of_nat (length (write_int_a v)) <= 5.
Proof.
  unfold write_int_a.
  destruct (mag v <? 64); [cbn [length]; lia|].
  destruct (mag v <? 8192); [cbn [length]; lia|].
  destruct (mag v <? 1048576); [cbn [length]; lia|].
  destruct (mag v <? 134217728); cbn [length]; lia.
Qed.

Lemma fin_mag v : is_i32 v = true -> fin (sgn v) (mag v) = v.
Proof.
  unfold is_i32, i32_min, i32_max, fin, sgn, mag, i32_of, all_ones32, two31, two32. intros H.
  destruct (v <? 0) eqn:E; cbn [Z.eqb Pos.eqb].
  - destruct (4294967295 - (- v - 1) <? 2147483648) eqn:E2; lia.
  - destruct (v <? 2147483648) eqn:E2; lia.
Qed.

Ltac fin_eq :=
  match goal with
  | |- Ok (fin ?a ?b, _, _) = Ok (fin ?c ?d, _, _) =>
    replace a with c by lia; replace b with d by lia; reflexivity
  end.

Theorem roundtrip_a v rest : is_i32 v = true ->
  read_int_a (write_int_a v ++ rest) = Ok (v, [], rest).
Proof.
  intros Hv. rewrite <- (fin_mag v Hv) at 2.
  unfold is_i32, i32_min, i32_max in Hv.
  assert (Hm : 0 <= mag v < 2147483648) by (unfold mag; destruct (v <? 0) eqn:E; lia).
  assert (Hs : sgn v = 0 \/ sgn v = 1) by (unfold sgn; destruct (v <? 0); lia).
  unfold write_int_a. set (p := mag v) in *. set (s := sgn v) in *.
  destruct (p <? 64) eqn:E1.
  { cbn [app read_int_a]. replace (64 * s + p <? 128) with true by lia.
    fin_eq. }
  destruct (p <? 8192) eqn:E2.
  { cbn [app read_int_a]. replace (128 + 64 * s + p mod 64 <? 128) with false by lia.
    replace (p / 64 <? 128) with true by lia. unfold ovl. replace (p / 64 =? 0) with false by lia.
    fin_eq. }
  destruct (p <? 1048576) eqn:E3.
  { cbn [app read_int_a]. replace (128 + 64 * s + p mod 64 <? 128) with false by lia.
    replace (128 + (p / 64) mod 128 <? 128) with false by lia.
    replace (p / 8192 <? 128) with true by lia. unfold ovl. replace (p / 8192 =? 0) with false by lia.
    fin_eq. }
  destruct (p <? 134217728) eqn:E4.
  { cbn [app read_int_a]. replace (128 + 64 * s + p mod 64 <? 128) with false by lia.
    replace (128 + (p / 64) mod 128 <? 128) with false by lia.
    replace (128 + (p / 8192) mod 128 <? 128) with false by lia.
    replace (p / 1048576 <? 128) with true by lia. unfold ovl.
    replace (p / 1048576 =? 0) with false by lia.
    fin_eq. }
  cbn [app read_int_a]. replace (128 + 64 * s + p mod 64 <? 128) with false by lia.
  replace (128 + (p / 64) mod 128 <? 128) with false by lia.
  replace (128 + (p / 8192) mod 128 <? 128) with false by lia.
  replace (128 + (p / 1048576) mod 128 <? 128) with false by lia.
  unfold ovl. replace (p / 134217728 =? 0) with false by lia.
  replace (p / 134217728 <? 16) with true by lia.
  fin_eq.
Qed.

Theorem varint_roundtrip v rest : is_i32 v = true -> bytes_ok rest = true ->
  exists bs, write_int v = Ok bs
    /\ read_int (bs ++ rest) = Ok (v, [], rest)
    /\ (1 <= length bs <= 5)%nat.
Proof.
  intros Hv Hr. exists (write_int_a v). split; [apply write_int_arith, Hv|]. split.
  - rewrite read_int_arith by (apply bytes_ok_app; [apply write_int_a_bytes_ok, Hv|exact Hr]).
    apply roundtrip_a, Hv.
  - pose proof (write_int_a_length v). lia.
Qed.

(* ---- totality and the only failure ---- *)

Definition all_ext (bs : bytes) : bool := forallb (fun b => 128 <=? b) bs.

Theorem read_int_a_fails_iff bs :
  read_int_a bs = Err tt <-> ((length bs < 5)%nat /\ all_ext bs = true).
Proof.
  unfold all_ext.
  destruct bs as [|b0 [|b1 [|b2 [|b3 [|b4 r]]]]]; cbn [read_int_a forallb length];
    repeat match goal with |- context [if ?c <? 128 then _ else _] => destruct (c <? 128) eqn:? end;
    split; intros H; try discriminate; try (split; [lia|lia]); try reflexivity;
    try (destruct H as [H1 H2]; lia).
Qed.

Definition ok_or_err {E A} (r : res E A) : Prop :=
  match r with Ok _ | Err _ => True | _ => False end.

Theorem read_int_a_total bs : ok_or_err (read_int_a bs).
Proof.
  destruct bs as [|b0 [|b1 [|b2 [|b3 [|b4 r]]]]]; cbn [read_int_a];
    repeat match goal with |- context [if ?c <? 128 then _ else _] => destruct (c <? 128) end;
    exact I.
Qed.

(* ---- canonical form ---- *)

Lemma mag_sgn_fin s m : s = 0 \/ s = 1 -> 0 <= m < 2147483648 ->
  mag (fin s m) = m /\ sgn (fin s m) = s.
Proof.
  unfold mag, sgn, fin, i32_of, all_ones32, two31, two32. intros [-> | ->] Hm; cbn [Z.eqb Pos.eqb].
  - replace (m <? 2147483648) with true by lia. destruct (m <? 0) eqn:E; lia.
  - replace (4294967295 - m <? 2147483648) with false by lia.
    replace (4294967295 - m - 4294967296 <? 0) with true by lia. lia.
Qed.

Lemma fin_is_i32 s m : 0 <= m < 4294967296 -> is_i32 (fin s m) = true.
Proof.
  unfold is_i32, i32_min, i32_max, fin, i32_of, all_ones32, two31, two32. intros Hm.
  destruct (s =? 1).
  - destruct (4294967295 - m <? 2147483648) eqn:E; lia.
  - destruct (m <? 2147483648) eqn:E; lia.
Qed.

(* what read_int_a consumed *)
Definition consumed_of (bs rest : bytes) : bytes := firstn (length bs - length rest) bs.

Theorem read_int_a_consumes bs v ws rest : read_int_a bs = Ok (v, ws, rest) ->
  bs = consumed_of bs rest ++ rest /\ (1 <= length (consumed_of bs rest) <= 5)%nat /\ is_i32 v = true.
Proof.
  unfold consumed_of.
  destruct bs as [|b0 [|b1 [|b2 [|b3 [|b4 r]]]]]; cbn [read_int_a];
    repeat match goal with |- context [if ?c <? 128 then _ else _] => destruct (c <? 128) eqn:? end;
    intros H; try discriminate; injection H as <- <- <-; cbn [length];
    repeat match goal with |- context [(S ?a - ?a)%nat] => replace (S a - a)%nat with 1%nat by lia end;
    repeat match goal with |- context [(S (S ?a) - ?a)%nat] => replace (S (S a) - a)%nat with 2%nat by lia end;
    repeat match goal with |- context [(S (S (S ?a)) - ?a)%nat] => replace (S (S (S a)) - a)%nat with 3%nat by lia end;
    repeat match goal with |- context [(S (S (S (S ?a))) - ?a)%nat] => replace (S (S (S (S a))) - a)%nat with 4%nat by lia end;
    repeat match goal with |- context [(S (S (S (S (S ?a)))) - ?a)%nat] => replace (S (S (S (S (S a)))) - a)%nat with 5%nat by lia end;
    cbn [firstn app length]; (split; [reflexivity|split;[lia|apply fin_is_i32; lia]]).
Qed.

(* shape of one successful read: k bytes consumed, explicit value *)
Definition sg (b0 : Z) : Z := (b0 / 64) mod 2.
Definition m1 b0 : Z := b0 mod 64.
Definition m2 b0 b1 : Z := m1 b0 + (b1 mod 128) * 64.
Definition m3 b0 b1 b2 : Z := m2 b0 b1 + (b2 mod 128) * 8192.
Definition m4 b0 b1 b2 b3 : Z := m3 b0 b1 b2 + (b3 mod 128) * 1048576.
Definition m5 b0 b1 b2 b3 b4 : Z := m4 b0 b1 b2 b3 + (b4 mod 32) * 134217728.

Inductive read_shape (bs : bytes) (v : Z) (ws : list pwarn) (rest : bytes) : Prop :=
| RS1 b0 : bs = b0 :: rest -> b0 < 128 -> v = fin (sg b0) (m1 b0) -> ws = [] -> read_shape bs v ws rest
| RS2 b0 b1 : bs = b0 :: b1 :: rest -> 128 <= b0 -> b1 < 128 ->
    v = fin (sg b0) (m2 b0 b1) -> ws = ovl b1 [] -> read_shape bs v ws rest
| RS3 b0 b1 b2 : bs = b0 :: b1 :: b2 :: rest -> 128 <= b0 -> 128 <= b1 -> b2 < 128 ->
    v = fin (sg b0) (m3 b0 b1 b2) -> ws = ovl b2 [] -> read_shape bs v ws rest
| RS4 b0 b1 b2 b3 : bs = b0 :: b1 :: b2 :: b3 :: rest -> 128 <= b0 -> 128 <= b1 -> 128 <= b2 -> b3 < 128 ->
    v = fin (sg b0) (m4 b0 b1 b2 b3) -> ws = ovl b3 [] -> read_shape bs v ws rest
| RS5 b0 b1 b2 b3 b4 : bs = b0 :: b1 :: b2 :: b3 :: b4 :: rest ->
    128 <= b0 -> 128 <= b1 -> 128 <= b2 -> 128 <= b3 ->
    v = fin (sg b0) (m5 b0 b1 b2 b3 b4) ->
    ws = ovl b4 (if b4 <? 16 then [] else [NonZeroIntPadding]) -> read_shape bs v ws rest.

Lemma read_int_a_inv bs v ws rest : read_int_a bs = Ok (v, ws, rest) -> read_shape bs v ws rest.
Proof.
  destruct bs as [|b0 r0]; cbn [read_int_a]; [discriminate|].
  destruct (b0 <? 128) eqn:E0.
  { intros H; injection H as <- <- <-. eapply RS1; try reflexivity. lia. }
  destruct r0 as [|b1 r1]; [discriminate|].
  destruct (b1 <? 128) eqn:E1.
  { intros H; injection H as <- <- <-. eapply RS2; try reflexivity; lia. }
  destruct r1 as [|b2 r2]; [discriminate|].
  destruct (b2 <? 128) eqn:E2.
  { intros H; injection H as <- <- <-. eapply RS3; try reflexivity; lia. }
  destruct r2 as [|b3 r3]; [discriminate|].
  destruct (b3 <? 128) eqn:E3.
  { intros H; injection H as <- <- <-. eapply RS4; try reflexivity; lia. }
  destruct r3 as [|b4 r4]; [discriminate|].
  intros H; injection H as <- <- <-. eapply RS5; try reflexivity; lia.
Qed.

Lemma consumed_app a rest : consumed_of (a ++ rest) rest = a.
Proof.
  unfold consumed_of. rewrite app_length.
  replace (length a + length rest - length rest)%nat with (length a) by lia.
  rewrite firstn_app, Nat.sub_diag, firstn_all. cbn [firstn]. apply app_nil_r.
Qed.

Ltac bytes_facts :=
  repeat match goal with Hb : bytes_ok (_ :: _) = true |- _ =>
    let H := fresh "Hbyte" in apply bytes_ok_cons in Hb as [H Hb] end.

Ltac use_mag :=
  match goal with |- context [fin ?s ?m] =>
    let Hm := fresh "Hm" in let Hs := fresh "Hs" in
    destruct (mag_sgn_fin s m) as [Hm Hs];
    [unfold sg; lia|unfold m5, m4, m3, m2, m1; lia|]; unfold write_int_a; rewrite Hm, Hs end.

Ltac decide_lt c :=
  match goal with |- context [?m <? c] =>
    first [replace (m <? c) with true by (unfold m5, m4, m3, m2, m1; lia)
          |replace (m <? c) with false by (unfold m5, m4, m3, m2, m1; lia)] end.

(* no shorter encoding: the canonical encoding is never longer than what was consumed *)
Theorem shortest_a bs v ws rest : bytes_ok bs = true -> read_int_a bs = Ok (v, ws, rest) ->
  (length (write_int_a v) <= length (consumed_of bs rest))%nat.
Proof.
  intros Hok H. apply read_int_a_inv in H. destruct H; subst bs v.
  - change (b0 :: rest) with ([b0] ++ rest). rewrite consumed_app. bytes_facts.
    use_mag. decide_lt 64. cbn [length]. lia.
  - change (b0 :: b1 :: rest) with ([b0; b1] ++ rest). rewrite consumed_app. bytes_facts.
    use_mag. destruct (_ <? 64); [cbn [length]; lia|]. decide_lt 8192. cbn [length]. lia.
  - change (b0 :: b1 :: b2 :: rest) with ([b0; b1; b2] ++ rest). rewrite consumed_app. bytes_facts.
    use_mag. destruct (_ <? 64); [cbn [length]; lia|]. destruct (_ <? 8192); [cbn [length]; lia|].
    decide_lt 1048576. cbn [length]. lia.
  - change (b0 :: b1 :: b2 :: b3 :: rest) with ([b0; b1; b2; b3] ++ rest). rewrite consumed_app. bytes_facts.
    use_mag. destruct (_ <? 64); [cbn [length]; lia|]. destruct (_ <? 8192); [cbn [length]; lia|].
    destruct (_ <? 1048576); [cbn [length]; lia|].
    decide_lt 134217728. cbn [length]. lia.
  - change (b0 :: b1 :: b2 :: b3 :: b4 :: rest) with ([b0; b1; b2; b3; b4] ++ rest). rewrite consumed_app.
    match goal with |- context [write_int_a ?v] => pose proof (write_int_a_length v) end. cbn [length]. lia.
Qed.

(* warning-free implies canonical *)
Theorem warnfree_canonical_a bs v rest : bytes_ok bs = true -> read_int_a bs = Ok (v, [], rest) ->
  consumed_of bs rest = write_int_a v.
Proof.
  intros Hok H. apply read_int_a_inv in H.
  destruct H as [b0 ? ? ? Hw|b0 b1 ? ? ? ? Hw|b0 b1 b2 ? ? ? ? ? Hw|b0 b1 b2 b3 ? ? ? ? ? ? Hw
                |b0 b1 b2 b3 b4 ? ? ? ? ? ? Hw]; subst bs v; unfold ovl in Hw.
  - change (b0 :: rest) with ([b0] ++ rest). rewrite consumed_app. bytes_facts.
    use_mag. decide_lt 64. unfold m1, sg. f_equal. lia.
  - change (b0 :: b1 :: rest) with ([b0; b1] ++ rest). rewrite consumed_app. bytes_facts.
    destruct (b1 =? 0) eqn:Eb; [discriminate Hw|].
    use_mag. decide_lt 64. decide_lt 8192. unfold m2, m1, sg.
    f_equal; [lia|]. f_equal. lia.
  - change (b0 :: b1 :: b2 :: rest) with ([b0; b1; b2] ++ rest). rewrite consumed_app. bytes_facts.
    destruct (b2 =? 0) eqn:Eb; [discriminate Hw|].
    use_mag. decide_lt 64. decide_lt 8192. decide_lt 1048576. unfold m3, m2, m1, sg.
    f_equal; [lia|]. f_equal; [lia|]. f_equal. lia.
  - change (b0 :: b1 :: b2 :: b3 :: rest) with ([b0; b1; b2; b3] ++ rest). rewrite consumed_app. bytes_facts.
    destruct (b3 =? 0) eqn:Eb; [discriminate Hw|].
    use_mag. decide_lt 64. decide_lt 8192. decide_lt 1048576. decide_lt 134217728.
    unfold m4, m3, m2, m1, sg.
    f_equal; [lia|]. f_equal; [lia|]. f_equal; [lia|]. f_equal. lia.
  - change (b0 :: b1 :: b2 :: b3 :: b4 :: rest) with ([b0; b1; b2; b3; b4] ++ rest). rewrite consumed_app.
    bytes_facts.
    destruct (b4 =? 0) eqn:Eb; [destruct (b4 <? 16); discriminate Hw|].
    destruct (b4 <? 16) eqn:Ep; [|discriminate Hw].
    use_mag. decide_lt 64. decide_lt 8192. decide_lt 1048576. decide_lt 134217728.
    unfold m5, m4, m3, m2, m1, sg.
    f_equal; [lia|]. f_equal; [lia|]. f_equal; [lia|]. f_equal; [lia|]. f_equal. lia.
Qed.

(* canonical implies warning-free (from the round-trip) *)
Theorem canonical_warnfree_a bs v ws rest : read_int_a bs = Ok (v, ws, rest) ->
  is_i32 v = true -> bs = write_int_a v ++ rest -> ws = [].
Proof.
  intros H Hv ->. rewrite roundtrip_a in H by exact Hv. injection H as <-. reflexivity.
Qed.

(* ---- agreement with doc/int.md ---- *)

Lemma fin_doc b0 m : 0 <= b0 < 256 -> 0 <= m < 2147483648 ->
  fin ((b0 / 64) mod 2) m = if doc_sign b0 then - m - 1 else m.
Proof.
  intros Hb Hm. unfold fin, doc_sign, i32_of, all_ones32, two31, two32.
  destruct (64 <=? b0 mod 128) eqn:E.
  - replace ((b0 / 64) mod 2 =? 1) with true by lia.
    replace (4294967295 - m <? 2147483648) with false by lia. lia.
  - replace ((b0 / 64) mod 2 =? 1) with false by lia.
    replace (m <? 2147483648) with true by lia. reflexivity.
Qed.

Lemma doc_ext_lt b : doc_ext b = negb (b <? 128).
Proof. unfold doc_ext. lia. Qed.

Theorem doc_a bs : bytes_ok bs = true -> padding_zero bs = true ->
  match read_int_a bs with
  | Ok (v, _, _) => doc_value bs = Some v
  | _ => doc_value bs = None
  end.
Proof.
  intros Hok Hpad.
  destruct bs as [|b0 r0]; [reflexivity|]. apply bytes_ok_cons in Hok as [H0 Hok].
  cbn [read_int_a doc_value]. rewrite ?doc_ext_lt.
  destruct (b0 <? 128) eqn:E0.
  { cbn [doc_tail negb].
    rewrite fin_doc by lia. replace (b0 mod 64 + 0) with (b0 mod 64) by lia. reflexivity. }
  destruct r0 as [|b1 r1]; [reflexivity|]. apply bytes_ok_cons in Hok as [H1 Hok].
  cbn [doc_tail negb]. rewrite ?doc_ext_lt. change (2 ^ (27 - 7 * Z.of_nat 3)) with 64.
  destruct (b1 <? 128) eqn:E1.
  { cbn [doc_tail negb].
    rewrite fin_doc by lia. f_equal. destruct (doc_sign b0); lia. }
  destruct r1 as [|b2 r2]; [reflexivity|]. apply bytes_ok_cons in Hok as [H2 Hok].
  cbn [doc_tail negb]. rewrite ?doc_ext_lt. change (2 ^ (27 - 7 * Z.of_nat 2)) with 8192.
  destruct (b2 <? 128) eqn:E2.
  { cbn [doc_tail negb].
    rewrite fin_doc by lia. f_equal. destruct (doc_sign b0); lia. }
  destruct r2 as [|b3 r3]; [reflexivity|]. apply bytes_ok_cons in Hok as [H3 Hok].
  cbn [doc_tail negb]. rewrite ?doc_ext_lt. change (2 ^ (27 - 7 * Z.of_nat 1)) with 1048576.
  destruct (b3 <? 128) eqn:E3.
  { cbn [doc_tail negb].
    rewrite fin_doc by lia. f_equal. destruct (doc_sign b0); lia. }
  destruct r3 as [|b4 r4]; [reflexivity|]. apply bytes_ok_cons in Hok as [H4 Hok].
  cbn [doc_tail negb]. change (2 ^ 27) with 134217728.
  assert (Hp : b4 < 16).
  { unfold padding_zero in Hpad. rewrite !doc_ext_lt, E0, E1, E2, E3 in Hpad.
    cbn [andb negb orb] in Hpad. lia. }
  rewrite fin_doc by lia. f_equal. destruct (doc_sign b0); lia.
Qed.

(* Reading a stream that arrives in one piece = decoding its records one after the
   other (format::Item::decode) and feeding them to the message-level reader `mrun`. *)
From LibTw2 Require Import Base.Res Model.Varint Model.Packer Model.Teehistorian
  Proofs.TeehistFrag Proofs.TeehistParsers Proofs.TeehistReader.
From Coq Require Import List Lia Arith ZArith Bool.
Import ListNotations.
Open Scope Z_scope.

(* ---------------- inversion of parser combinators ---------------- *)

Lemma pbind_inv {A B} (p : parser A) (f : A -> parser B) bs b r :
  pbind p f bs = ROk b r -> exists a r1, p bs = ROk a r1 /\ f a r1 = ROk b r.
Proof. unfold pbind. destruct (p bs) as [a r1| | |]; try discriminate. intros H. eauto. Qed.

Lemma pret_inv {A} (a b : A) bs r : pret a bs = ROk b r -> a = b /\ bs = r.
Proof. unfold pret. intros H. injection H as <- <-. auto. Qed.

Ltac pinv H :=
  repeat match type of H with
         | pbind _ _ _ = ROk _ _ =>
           let a := fresh "a" in let r1 := fresh "r" in let H1 := fresh "Hp" in
           apply pbind_inv in H; destruct H as [a [r1 [H1 H]]]
         | (if ?c then _ else _) _ = ROk _ _ => destruct c eqn:?
         | pfail _ _ = ROk _ _ => discriminate H
         | pret _ _ = ROk _ _ => apply pret_inv in H; destruct H as [H ?]
         end.

(* ---------------- a decoded item has the shape its kind announces ---------------- *)

Definition is_other (f : fitem) : bool :=
  match f with FConsoleCommand _ _ _ _ | FPass _ _ | FUnknownEx _ _ => true | _ => false end.

Definition kind_matches (k : ikind) (f : fitem) : Prop :=
  match k with
  | IKPlayerDiff c => exists dx dy, f = FPlayerDiff c dx dy
  | IKFinish => f = FFinish
  | IKTickSkip => exists dt, f = FTickSkip dt /\ 0 <= dt
  | IKPlayerNew c => exists x y, f = FPlayerNew c x y
  | IKPlayerOld c => f = FPlayerOld c
  | IKInputDiff => exists c d, f = FInputDiff c d
  | IKInputNew => exists c d, f = FInputNew c d
  | IKMessage | IKJoin | IKDrop | IKConsoleCommand | IKEx => is_other f = true
  end.

Lemma decode_rest_kind k bs f r : decode_rest k bs = ROk f r -> kind_matches k f.
Proof.
  destruct k; cbn [decode_rest kind_matches]; intros H.
  - pinv H. subst. eauto.
  - pinv H. subst. reflexivity.
  - pinv H. subst. eexists. split; [reflexivity|]. apply Z.ltb_ge. assumption.
  - pinv H. subst. eauto.
  - pinv H. subst. reflexivity.
  - pinv H. subst. eauto.
  - pinv H. subst. eauto.
  - pinv H. subst. reflexivity.
  - pinv H. subst. reflexivity.
  - pinv H. subst. reflexivity.
  - unfold decode_console in H. pinv H. subst. reflexivity.
  - unfold decode_ex in H. pinv H.
    destruct (find_ex a ex_uuids) as [t|].
    + destruct (p_fields (tag_kinds t) a0); try discriminate. injection H as <- _. reflexivity.
    + pinv H. subst. reflexivity.
Qed.

Definition msg_ok (m : msg) : Prop := kind_matches (fst m) (snd m).

Lemma decodes_ok v bs ms : decodes v bs ms -> Forall msg_ok ms.
Proof.
  induction 1 as [bs r H|bs k r f r' ms Hk Hr Hn Hd IH].
  - constructor; [reflexivity|constructor].
  - constructor; [exact (decode_rest_kind _ _ _ _ Hr)|exact IH].
Qed.

(* ---------------- emit_pre has enough fuel ---------------- *)

Lemma emit_pre_fuel : forall n m r k, (ph_of r k <= n)%nat -> (ph_of r k <= m)%nat ->
  emit_pre n r k = emit_pre m r k.
Proof.
  induction n as [|n IH]; intros m r k Hn Hm.
  - pose proof (ph_of_pos r k). lia.
  - destruct m as [|m]; [pose proof (ph_of_pos r k); lia|].
    cbn [emit_pre]. destruct (before_item r k) as [it r'|e|r'] eqn:Eb; try reflexivity.
    destruct (before_item_emit _ _ _ _ Eb) as [_ Hlt].
    rewrite (IH m (set_next None r') k) by lia. reflexivity.
Qed.

Lemma emit_pre_S n r k : emit_pre (S n) r k =
  match before_item r k with
  | PreEmit it r' => let (its, x) := emit_pre n (set_next None r') k in (it :: its, x)
  | PreErr _ => ([], None)
  | PreRead r' => ([], Some r')
  end.
Proof. reflexivity. Qed.

(* ---------------- one-piece reads ---------------- *)

Section OnePiece.
  Variable hdr : bytes -> hverdict.
  Notation parseT := (parse_at hdr).
  Notation eofT := (FErr EUnexpectedEnd).
  Notation runT := (run pfailure eofT pidx pty parseT).
  Notation retryT := (retry pfailure eofT).

  Definition adv (b : buffer) (n : nat) : buffer := {| b_off := b_off b + n; b_data := b_data b |}.

  Lemma retry_nil {A} (parse : bytes -> outcome A pfailure) b : buf_ok b ->
    retryT parse b [] =
    match parse (pending b) with
    | POk a n => (Ok a, adv b n, [])
    | PNeedMore => (Err eofT, b, [])
    | PFail e => (Err e, b, [])
    end.
  Proof.
    intros H. cbn [retry]. replace (length (b_data b) <? b_off b)%nat with false
      by (symmetry; apply Nat.ltb_ge; exact H).
    reflexivity.
  Qed.

  (* a successful attempt of a stable parser leaves exactly its rest pending *)
  Lemma to_outcome_adv {A} (p : parser A) b a n : pstable p -> buf_ok b ->
    to_outcome p (pending b) = POk a n ->
    exists rest, p (pending b) = ROk a rest /\ pending (adv b n) = rest /\ buf_ok (adv b n).
  Proof.
    intros Hp Hok H. unfold to_outcome in H. specialize (Hp (pending b)).
    destruct (p (pending b)) as [a' rest| | |] eqn:Ep; try discriminate.
    injection H as <- <-. destruct Hp as [[c Hc] _]. exists rest. split; [reflexivity|].
    assert (Hn : (length (pending b) - length rest)%nat = length c) by (rewrite Hc, app_length; lia).
    rewrite Hn. unfold adv. rewrite pending_advance. split.
    - rewrite Hc. rewrite skipn_app_le by lia. rewrite skipn_all. reflexivity.
    - unfold buf_ok. cbn [b_off b_data]. pose proof (pending_length b Hok) as Hl. rewrite Hc in Hl.
      rewrite app_length in Hl. unfold buf_ok in Hok. lia.
  Qed.

  Notation loopT := (loop_t hdr).

  (* where the reader stands in the record sequence *)
  Definition cur (v : version) (r : reader) (bs : bytes) (ms : list msg) : Prop :=
    match r_next r with
    | None => decodes v bs ms
    | Some k => exists f r', decode_rest k bs = ROk f r'
                  /\ ((k = IKFinish /\ ms = [(k, f)])
                      \/ (k <> IKFinish /\ exists ms', ms = (k, f) :: ms' /\ decodes v r' ms'))
    end.

  Lemma after_item_none r f r' : after_item r f = Ok (None, r') -> f = FFinish.
  Proof.
    unfold after_item. destruct f; cbn beta iota zeta; try reflexivity.
    all: repeat match goal with
         | |- context [aget ?c ?m] => destruct (aget c m) as [?|]
         | |- context [let (_, _) := ?p in _] => destruct p
         | |- context [if ?c then _ else _] => destruct c
         | |- context [match checked_add ?a ?b with _ => _ end] => destruct (checked_add a b)
         end; intros H; discriminate.
  Qed.

  Lemma set_next_idem x y r : set_next x (set_next y r) = set_next x r.
  Proof. reflexivity. Qed.

  Lemma mrun_cons_pre it pre x f ms' :
    (let (pre0, x0) := (it :: pre, x) in
     match x0 with
     | None => (pre0, None)
     | Some r1 =>
       match after_item r1 f with
       | Ok (Some it', r2) => let (its, fin) := mrun r2 ms' in (pre0 ++ it' :: its, fin)
       | Ok (None, r2) => (pre0, Some r2)
       | _ => (pre0, None)
       end
     end) =
    (let (its, fin) :=
       (let (pre0, x0) := (pre, x) in
        match x0 with
        | None => (pre0, None)
        | Some r1 =>
          match after_item r1 f with
          | Ok (Some it', r2) => let (its, fin) := mrun r2 ms' in (pre0 ++ it' :: its, fin)
          | Ok (None, r2) => (pre0, Some r2)
          | _ => (pre0, None)
          end
        end) in (it :: its, fin)).
  Proof.
    destruct x as [r1|]; [|reflexivity].
    destruct (after_item r1 f) as [[[it'|] r2]|e|z|]; try reflexivity.
    destruct (mrun r2 ms') as [its fin]. reflexivity.
  Qed.

  Lemma before_item_version r k it r' : before_item r k = PreEmit it r' -> r_version r' = r_version r.
  Proof.
    unfold before_item.
    repeat match goal with
           | |- context [if ?c then _ else _] => destruct c
           | |- context [match ?x with _ => _ end] => destruct x
           end; intros Eb; try discriminate; injection Eb as _ <-; reflexivity.
  Qed.

  Lemma after_item_version r f x r' : after_item r f = Ok (x, r') -> r_version r' = r_version r.
  Proof.
    unfold after_item.
    assert (Hm : r_version (match fitem_cid f with
                            | Some c => set_max_cid (Z.max (r_max_cid r) c) r
                            | None => r
                            end) = r_version r) by (destruct (fitem_cid f); reflexivity).
    revert Hm.
    generalize (match fitem_cid f with
                | Some c => set_max_cid (Z.max (r_max_cid r) c) r
                | None => r
                end) as r1.
    intros r1 Hm. destruct f; cbn beta iota zeta.
    all: repeat match goal with
         | |- context [aget ?c ?m] => destruct (aget c m) as [?|]
         | |- context [let (_, _) := ?p in _] => destruct p
         | |- context [if ?c then _ else _] => destruct c
         | |- context [match checked_add ?a ?b with _ => _ end] => destruct (checked_add a b)
         end; intros H; try discriminate; injection H as _ <-;
      cbn [set_tick set_players set_inputs set_max_cid set_prev set_next set_in_tick r_version]; exact Hm.
  Qed.

  (* the induction step when the kind of the current record is already known *)
  Lemma step_known v fuel :
    (forall r b items rf, r_version r = v -> buf_ok b -> loopT fuel r b [] = (items, Ok rf) ->
       exists ms, cur v r (pending b) ms /\ mrun r ms = (items, Some rf)) ->
    forall r k b items rf, r_version r = v -> r_next r = Some k -> buf_ok b ->
      loopT (S fuel) r b [] = (items, Ok rf) ->
      exists ms, cur v r (pending b) ms /\ mrun r ms = (items, Some rf).
  Proof.
    intros IH r k b items rf Hv Hn Hok H.
    unfold loop_t in H. cbn [loop] in H. rewrite reader_read_go, Hn in H. unfold go in H.
    destruct (before_item (set_next None r) k) as [it r'|e|r'] eqn:Eb.
    - (* a marker is emitted, the kind stays pending *)
      cbn [run] in H.
      destruct (loop pfailure eofT pidx pty parseT reader item reader_read fuel r' b []) as [its fin] eqn:El.
      injection H as <- ->.
      destruct (before_item_emit _ _ _ _ Eb) as [Hn' Hlt].
      assert (Hv' : r_version r' = v) by (rewrite (before_item_version _ _ _ _ Eb); exact Hv).
      destruct (IH r' b its rf Hv' Hok El) as [ms [Hc Hm]].
      exists ms. split.
      + unfold cur in *. rewrite Hn. rewrite Hn' in Hc. exact Hc.
      + unfold cur in Hc. rewrite Hn' in Hc. destruct Hc as [f [rr [_ Hms]]].
        assert (Hshape : exists ms', ms = (k, f) :: ms').
        { destruct Hms as [[_ ->]|[_ [ms' [-> _]]]]; eauto. }
        destruct Hshape as [ms' ->]. cbn [mrun] in *.
        rewrite (emit_pre_S 3 (set_next None r) k), Eb.
        pose proof (ph_of_pos (set_next None r) k) as Hp.
        rewrite (emit_pre_fuel 3 4 (set_next None r') k) by lia.
        destruct (emit_pre 4 (set_next None r') k) as [pre x].
        rewrite mrun_cons_pre. rewrite Hm. reflexivity.
    - cbn [run] in H. discriminate.
    - (* the item is read *)
      pose proof (before_item_read _ _ _ Eb) as Hr0. subst r'. cbn [run] in H.
      rewrite retry_nil in H by exact Hok. cbn [parse_at] in H.
      destruct (to_outcome (decode_rest k) (pending b)) as [f n| |e] eqn:Eo; try discriminate.
      destruct (to_outcome_adv _ _ _ _ (decode_rest_stable k) Hok Eo) as [rest [Ed [Hp Hok']]].
      destruct (after_item (set_next None r) f) as [[[it|] r2]|e|z|] eqn:Ea; cbn [run] in H; try discriminate.
      + destruct (loop pfailure eofT pidx pty parseT reader item reader_read fuel r2 (adv b n) []) as [its fin] eqn:El.
        injection H as <- ->.
        pose proof (after_item_next _ _ _ _ Ea) as Hn2. cbn [set_next r_next] in Hn2.
        assert (Hv2 : r_version r2 = v) by (rewrite (after_item_version _ _ _ _ Ea); exact Hv).
        destruct (IH r2 (adv b n) its rf Hv2 Hok' El) as [ms' [Hc Hm]].
        unfold cur in Hc. rewrite Hn2, Hp in Hc.
        assert (Hk : k <> IKFinish).
        { intros ->. cbn [decode_rest] in Ed. apply pret_inv in Ed as [<- _]. cbn in Ea. discriminate. }
        exists ((k, f) :: ms'). split.
        * unfold cur. rewrite Hn. exists f, rest. split; [exact Ed|]. right. split; [exact Hk|]. eauto.
        * cbn [mrun]. rewrite (emit_pre_S 3), Eb, Ea, Hm. reflexivity.
      + injection H as <- <-.
        pose proof (after_item_none _ _ _ Ea) as ->.
        assert (Hk : k = IKFinish).
        { pose proof (decode_rest_kind _ _ _ _ Ed) as Hkm. destruct k; cbn in Hkm;
            try reflexivity; exfalso;
            repeat match goal with
                   | H : exists _, _ |- _ => destruct H
                   | H : _ /\ _ |- _ => destruct H
                   end; discriminate. }
        exists [(k, FFinish)]. split.
        * unfold cur. rewrite Hn. exists FFinish, rest. split; [exact Ed|]. left. auto.
        * cbn [mrun]. rewrite (emit_pre_S 3), Eb, Ea. reflexivity.
  Qed.

  (* reading a stream that is already completely in the buffer *)
  Theorem loop_mrun v : forall fuel r b items rf, r_version r = v -> buf_ok b ->
    loopT fuel r b [] = (items, Ok rf) ->
    exists ms, cur v r (pending b) ms /\ mrun r ms = (items, Some rf).
  Proof.
    induction fuel as [|fuel IH]; intros r b items rf Hv Hok H; [discriminate|].
    destruct (r_next r) as [k|] eqn:Hn.
    - eapply step_known; eassumption.
    - (* the kind is read first; from then on as if it had been the look-ahead *)
      pose proof H as H0.
      unfold loop_t in H. cbn [loop] in H. rewrite reader_read_go, Hn in H. cbn [run] in H.
      rewrite retry_nil in H by exact Hok. cbn [parse_at] in H.
      destruct (to_outcome (decode_kind (r_version r)) (pending b)) as [k n| |e] eqn:Eo; try discriminate.
      destruct (to_outcome_adv _ _ _ _ (decode_kind_stable _) Hok Eo) as [rest [Ed [Hp Hok']]].
      set (r1 := set_next (Some k) r).
      assert (H1 : loopT (S fuel) r1 (adv b n) [] = (items, Ok rf)).
      { unfold loop_t. cbn [loop]. rewrite reader_read_go. cbn [r1 set_next r_next]. exact H. }
      destruct (step_known v fuel IH r1 k (adv b n) items rf Hv eq_refl Hok' H1) as [ms [Hc Hm]].
      exists ms. split.
      + unfold cur in *. rewrite Hn. cbn [r1 set_next r_next] in Hc. rewrite Hp in Hc.
        rewrite Hv in Ed. destruct Hc as [f [r' [Hd [[-> ->]|[Hk [ms' [-> Hds]]]]]]].
        * cbn [decode_rest] in Hd. apply pret_inv in Hd as [<- _]. eapply dec_finish. exact Ed.
        * eapply dec_cons; eassumption.
      + destruct ms as [|[k' f'] ms']; [exact Hm|]. exact Hm.
  Qed.
End OnePiece.

(* Finite sweeps used by the packet-header proofs: a boolean predicate over one or two
   bytes (or over a 16-bit value split into two bytes) is evaluated on every value by
   vm_compute and lifted to a universally quantified statement by forallb_forall.
   These are proofs over genuinely finite domains, not samples. *)
From LibTw2 Require Import Base.Res Base.Bits.
From Coq Require Import ZArith Lia Bool List.
Open Scope Z_scope.

Lemma byte_sweep2 (P : Z -> Z -> bool) :
  forallb (fun a => forallb (P a) all_bytes) all_bytes = true ->
  forall a b, 0 <= a < 256 -> 0 <= b < 256 -> P a b = true.
Proof.
  intros H a b Ha Hb. rewrite forallb_forall in H.
  specialize (H a (in_all_bytes a Ha)). exact (byte_sweep _ H b Hb).
Qed.

(* a value below 2^16 is hi * 256 + lo *)
Lemma word_sweep (P : Z -> bool) :
  forallb (fun a => forallb (fun b => P (a * 256 + b)) all_bytes) all_bytes = true ->
  forall x, 0 <= x < 65536 -> P x = true.
Proof.
  intros H x Hx.
  pose proof (byte_sweep2 (fun a b => P (a * 256 + b)) H (x / 256) (x mod 256)) as Hs.
  cbv beta in Hs.
  replace (x / 256 * 256 + x mod 256) with x in Hs
    by (pose proof (Z.div_mod x 256); lia).
  apply Hs.
  - split; [apply Z.div_pos; lia | apply Z.div_lt_upper_bound; lia].
  - apply Z.mod_pos_bound; lia.
Qed.

(* a byte and a 16-bit value *)
Lemma byte_word_sweep (P : Z -> Z -> bool) :
  forallb (fun c => forallb (fun a => forallb (fun b => P c (a * 256 + b)) all_bytes) all_bytes) all_bytes = true ->
  forall c x, 0 <= c < 256 -> 0 <= x < 65536 -> P c x = true.
Proof.
  intros H c x Hc Hx. rewrite forallb_forall in H.
  specialize (H c (in_all_bytes c Hc)). exact (word_sweep (P c) H x Hx).
Qed.

(* small ranges [0, n) *)
Definition zrange (n : nat) : list Z := map Z.of_nat (seq 0 n).
Lemma in_zrange n x : 0 <= x < Z.of_nat n -> In x (zrange n).
Proof.
  intros H. unfold zrange. apply in_map_iff. exists (Z.to_nat x). split; [lia|].
  apply in_seq. lia.
Qed.
Lemma range_sweep (n : nat) (P : Z -> bool) :
  forallb P (zrange n) = true -> forall x, 0 <= x < Z.of_nat n -> P x = true.
Proof. intros H x Hx. rewrite forallb_forall in H. apply H, in_zrange, Hx. Qed.
Lemma range_sweep2 (n m : nat) (P : Z -> Z -> bool) :
  forallb (fun a => forallb (P a) (zrange m)) (zrange n) = true ->
  forall a b, 0 <= a < Z.of_nat n -> 0 <= b < Z.of_nat m -> P a b = true.
Proof.
  intros H a b Ha Hb. rewrite forallb_forall in H.
  specialize (H a (in_zrange n a Ha)). exact (range_sweep m _ H b Hb).
Qed.

Lemma implb_elim (a b : bool) : implb a b = true -> a = true -> b = true.
Proof. destruct a, b; simpl; congruence. Qed.

Definition is_nil {A} (l : list A) : bool := match l with [] => true | _ => false end.
Lemma is_nil_true {A} (l : list A) : is_nil l = true -> l = [].
Proof. destruct l; simpl; congruence. Qed.
Lemma is_nil_false {A} (l : list A) : is_nil l = false -> l <> [].
Proof. destruct l; simpl; congruence. Qed.

(* goal `E = true` whose only free variables are the bytes x (and y): abstract and sweep *)
Ltac sweep1 x Hx :=
  match goal with
  | |- ?E = true =>
    let F := eval pattern x in E in
    match F with
    | ?f _ => change (f x = true); apply (byte_sweep f); [vm_compute; reflexivity | exact Hx]
    end
  end.

Ltac sweep2 x y Hx Hy :=
  match goal with
  | |- ?E = true =>
    let F := eval pattern x, y in E in
    match F with
    | ?f _ _ => change (f x y = true); apply (byte_sweep2 f); [vm_compute; reflexivity | exact Hx | exact Hy]
    end
  end.

(* x ranges over 16-bit values *)
Ltac sweepw x Hx :=
  match goal with
  | |- ?E = true =>
    let F := eval pattern x in E in
    match F with
    | ?f _ => change (f x = true); apply (word_sweep f); [vm_compute; reflexivity | exact Hx]
    end
  end.

(* c a byte, x a 16-bit value *)
Ltac sweepbw c x Hc Hx :=
  match goal with
  | |- ?E = true =>
    let F := eval pattern c, x in E in
    match F with
    | ?f _ _ => change (f c x = true); apply (byte_word_sweep f); [vm_compute; reflexivity | exact Hc | exact Hx]
    end
  end.

(* x in [0, n), y in [0, m); Hx : 0 <= x < Z.of_nat n (up to conversion) *)
Ltac rsweep1 n x Hx :=
  match goal with
  | |- ?E = true =>
    let F := eval pattern x in E in
    match F with
    | ?f _ => change (f x = true); apply (range_sweep n f); [vm_compute; reflexivity | exact Hx]
    end
  end.

Ltac rsweep2 n m x y Hx Hy :=
  match goal with
  | |- ?E = true =>
    let F := eval pattern x, y in E in
    match F with
    | ?f _ _ => change (f x y = true); apply (range_sweep2 n m f); [vm_compute; reflexivity | exact Hx | exact Hy]
    end
  end.

(* turn an equation between numbers / booleans / "list is empty" into `_ = true` *)
Ltac to_bool :=
  lazymatch goal with
  | |- @eq Z _ _ => apply Z.eqb_eq
  | |- @eq bool _ false => apply negb_true_iff
  | |- @eq bool _ true => idtac
  | |- @eq (list _) _ nil => apply is_nil_true
  end.

Lemma eqb_true_iff_l (a b : bool) : Bool.eqb a b = true -> (a = true <-> b = true).
Proof. destruct a, b; simpl; intuition congruence. Qed.

(* list facts shared by the packet proofs *)
Lemma firstn_app_exact {A} (a b : list A) : firstn (length a) (a ++ b) = a.
Proof. rewrite firstn_app, Nat.sub_diag, firstn_all. cbn [firstn]. apply app_nil_r. Qed.

Lemma skipn_app_exact {A} (a b : list A) : skipn (length a) (a ++ b) = b.
Proof. rewrite skipn_app, Nat.sub_diag, skipn_all. reflexivity. Qed.

Lemma bytes_ok_app a b : bytes_ok (a ++ b) = bytes_ok a && bytes_ok b.
Proof. unfold bytes_ok. apply forallb_app. Qed.
Lemma bytes_ok_firstn n l : bytes_ok l = true -> bytes_ok (firstn n l) = true.
Proof.
  revert n. induction l as [|b l IH]; intros n H; [destruct n; reflexivity|].
  destruct n as [|n]; [reflexivity|]. unfold bytes_ok in *. cbn [firstn forallb] in *.
  apply andb_true_iff in H as [Hb Hl]. rewrite Hb. cbn [andb]. apply IH, Hl.
Qed.
Lemma bytes_ok_skipn n l : bytes_ok l = true -> bytes_ok (skipn n l) = true.
Proof.
  revert n. induction l as [|b l IH]; intros n H; [destruct n; reflexivity|].
  destruct n as [|n]; [exact H|]. unfold bytes_ok in *. cbn [skipn forallb] in *.
  apply andb_true_iff in H as [Hb Hl]. apply IH, Hl.
Qed.

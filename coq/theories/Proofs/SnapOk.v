(* The boolean state predicate raw_ok implies the representation invariant. *)
From LibTw2 Require Import Base.Res Model.Varint Model.Snap Proofs.SnapBase Proofs.SnapRep Proofs.SnapDelta.
From Coq Require Import ZArith List Lia Bool Permutation.
Import ListNotations.
Open Scope Z_scope.

Lemma insert_off_perm x l : Permutation (insert_off x l) (x :: l).
Proof.
  induction l as [|y l IH]; cbn [insert_off]; [apply Permutation_refl|].
  destruct (range_leb (snd x) (snd y)); [apply Permutation_refl|].
  eapply Permutation_trans; [apply perm_skip, IH|apply perm_swap].
Qed.

Lemma isort_off_perm l : Permutation (isort_off l) l.
Proof.
  induction l as [|x l IH]; cbn [isort_off]; [apply Permutation_refl|].
  eapply Permutation_trans; [apply insert_off_perm|apply perm_skip, IH].
Qed.

Lemma skipn_skipn' {T} a : forall b (l : list T), skipn a (skipn b l) = skipn (b + a) l.
Proof.
  intros b. induction b as [|b IH]; intros l; [reflexivity|].
  destruct l as [|x l]; [cbn; rewrite skipn_nil; reflexivity|]. cbn [skipn Nat.add]. apply IH.
Qed.

(* the data a list of (key, range) pairs cuts out of a buffer *)
Definition cut (buf : list Z) (srt : list (Z * range)) : items :=
  map (fun kr => (fst kr, firstn (snd (snd kr) - fst (snd kr)) (skipn (fst (snd kr)) buf))) srt.

Lemma chain_cut buf : forall srt pos, chainb pos (map snd srt) (length buf) = true ->
  (pos <= length buf)%nat /\ flat (cut buf srt) = skipn pos buf /\ ranges_of pos (cut buf srt) = srt.
Proof.
  induction srt as [|[k [s e]] t IH]; intros pos H; cbn [map snd chainb] in H.
  - apply Nat.eqb_eq in H. subst. split; [lia|]. split; [|reflexivity]. cbn. rewrite skipn_all. reflexivity.
  - cbn [fst snd] in H. apply andb_true_iff in H. destruct H as [H He]. apply andb_true_iff in H. destruct H as [Hs Hle].
    apply Nat.eqb_eq in Hs. apply Nat.leb_le in Hle. subst s. destruct (IH _ He) as (Hb & Hf & Hr).
    split; [lia|]. cbn [cut map fst snd flat flat_map]. fold (cut buf t). fold (flat (cut buf t)).
    assert (Hlen : length (firstn (e - pos) (skipn pos buf)) = (e - pos)%nat)
      by (rewrite firstn_length, skipn_length; lia).
    split.
    + rewrite Hf. transitivity (firstn (e - pos) (skipn pos buf) ++ skipn (e - pos) (skipn pos buf));
        [|apply firstn_skipn]. f_equal. rewrite skipn_skipn'. f_equal. lia.
    + cbn [ranges_of]. rewrite Hlen. replace (pos + (e - pos))%nat with e by lia. rewrite Hr. reflexivity.
Qed.

Theorem raw_ok_rep S : raw_ok S = true ->
  exists ch, rep S ch /\ keys_i32 S /\ forallb is_i32 (rs_buf S) = true /\ lim_ok ch.
Proof.
  unfold raw_ok. intros H. repeat (apply andb_true_iff in H; destruct H as [H ?]).
  match goal with Hc : chainb _ _ _ = true |- _ => destruct (chain_cut _ _ _ Hc) as (_ & Hf & Hr) end.
  exists (cut (rs_buf S) (isort_off (rs_offs S))).
  assert (R : rep S (cut (rs_buf S) (isort_off (rs_offs S)))).
  { split; [rewrite Hf; reflexivity|rewrite Hr; apply Permutation_sym, isort_off_perm|assumption]. }
  split; [exact R|]. split; [assumption|]. split; [assumption|].
  destruct (rep_lengths _ _ R) as [L1 L2]. unfold lim_ok. rewrite <- L1, <- L2.
  split; apply Z.leb_le; assumption.
Qed.

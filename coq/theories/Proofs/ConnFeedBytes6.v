(* C03 at the byte level (0.6): feeding BYTES = the library's packet reader (Model/Packet6.v, with
   the token hint the connection passes) followed by the connection's feed on the value it returns. *)
From LibTw2 Require Import Base.Res Model.PacketTypes Model.PacketBase Model.Packet6 Model.PacketInst
  Model.ConnCore Model.Conn6 Proofs.ConnInert Proofs.Packet6Chunks Proofs.Packet6Total.
From Coq Require Import ZArith Lia Bool List.
Open Scope Z_scope.

Definition ctl_of6 (c : control6) : control :=
  match c with
  | C6KeepAlive => KeepAlive | C6Connect => Connect None | C6ConnectAccept => ConnectAccept
  | C6Accept => Accept | C6Close r => Close r
  end.

(* the value feed_impl works on: the packet as read, its chunks as the chunk iterator yields them *)
Definition abstract6 (p : packet6) : dgram :=
  match p with
  | P6Connless pl => DConnless None None pl
  | P6Connected ack tok (P6Control c) => DControl tok ack (ctl_of6 c)
  | P6Connected ack tok (P6Chunks rr n payload) =>
    DChunks tok ack rr n (match chunks_iter_all6 payload n with Ok (cvs, _, _) => map fst cvs | _ => [] end)
  end.

(* Connection::feed passes `self.state.token().map(|t| t.is_some())` as the token hint *)
Definition hint6 (c : conn6) : option bool :=
  match state_token (c_state c) with
  | Some (Some _) => Some true
  | Some None => Some false
  | None => None
  end.

Definition feed_bytes6 (c : conn6) (e : env) (bs : bytes) : res unit outcome :=
  match snd (read6_tw bs (hint6 c) 1400) with
  | Ok (p, _) => step c e (OpFeed (abstract6 p))
  | Err _ => step c e OpFeedGarbage            (* Warning::Read(e); nothing else happens *)
  | Panic s => Panic s
  | OutOfFuel => OutOfFuel
  end.

Definition carried_token6 (c : conn6) (bs : bytes) : option token :=
  match snd (read6_tw bs (hint6 c) 1400) with
  | Ok (P6Connected _ tok _, _) => tok
  | _ => None
  end.
Definition reads_connless6 (c : conn6) (bs : bytes) : bool :=
  match snd (read6_tw bs (hint6 c) 1400) with Ok (P6Connless _, _) => true | _ => false end.

(* every byte string: truncated, mutated, compressed, random ... *)
Theorem inert6_bytes c e bs t :
  token_fixed6 c t -> bytes_ok bs = true -> reads_connless6 c bs = false -> carried_token6 c bs <> Some t ->
  exists ws, feed_bytes6 c e bs = Ok (mk c e [] [] ws ROk).
Proof.
  intros Hfix Hb Hnc Htok. unfold feed_bytes6, carried_token6, reads_connless6 in *.
  pose proof (Packet6Total.read6_good tw_decomp bs (hint6 c) 1400 None Hb (le_n _) I) as Hgood.
  unfold read6_tw in *.
  destruct (snd (read6 tw_decomp bs (hint6 c) 1400)) as [[p vs]|er|s|] eqn:Er.
  - destruct p as [pl|ack tok ty]; [discriminate Hnc|].
    exists [WTokenMismatch]. unfold step. apply inert6 with (t := t); [exact Hfix| |].
    + destruct ty; reflexivity.
    + destruct ty; cbn; exact Htok.
  - exists []. reflexivity.
  - unfold Packet6Total.good_result6 in Hgood. rewrite Er in Hgood. contradiction.
  - unfold Packet6Total.good_result6 in Hgood. rewrite Er in Hgood. contradiction.
Qed.

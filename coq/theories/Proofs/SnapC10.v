(* C10 assembled. *)
From LibTw2 Require Import Base.Res Model.Varint Model.Packer Model.Snap Proofs.SnapBase Proofs.SnapRep Proofs.SnapDelta
  Proofs.SnapApply Proofs.SnapOk Proofs.SnapTotal Proofs.SnapTotal2 Proofs.SnapC09 Proofs.SnapSer Proofs.SnapReg
  Proofs.SnapObs Proofs.SnapBuilder Proofs.SnapBuilder2 Proofs.SnapBuilder3 Proofs.SnapWireInst.
From Coq Require Import ZArith List Lia Bool Permutation.
Import ListNotations.
Open Scope Z_scope.

Definition ops_ok (ops : list (tyid * Z * list Z)) : Prop :=
  forall t id data, In (t, id, data) ops -> op_ok t id data.

(* S' holds the same items and the same registry as S *)
Definition like (S S' : snap) : Prop :=
  sn_ext S' = sn_ext S /\ good (sn_raw S')
  /\ exists ch ch', rep (sn_raw S) ch /\ rep (sn_raw S') ch' /\ (forall k, aget k ch' = aget k ch).

Lemma like_observables S S' : like S S' ->
  (forall E, @snap_items E S' = @snap_items E S)
  /\ (forall E t id, @snap_item E S' t id = @snap_item E S t id)
  /\ crc (sn_raw S') = crc (sn_raw S).
Proof.
  intros (He & _ & ch & ch' & R & R' & Hl).
  destruct (same_observables S' S ch' ch R' R Hl He) as (O1 & O2 & O3 & _). repeat split; assumption.
Qed.

Theorem built_roundtrip ops : ops_ok ops ->
  let S := b_snap (build ops builder_new) in
  exists l bs S', snap_ints (sn_raw S) = Ok l /\ ints_to_bytes l = Ok bs
    /\ 4 * Z.of_nat (length l) <= MAX_SNAPSHOT_SIZE
    /\ snap_read_from_ints l = (Ok S', []) /\ snap_read_bytes bs = (Ok S', []) /\ like S S'.
Proof.
  intros Hok S. pose proof (build_bgood ops Hok builder_new bgood_new) as G. fold S in G.
  destruct (builder_consistent _ G) as [Ec GS]. fold S in Ec, GS. pose proof (bg_raw _ G) as GR. fold S in GR.
  destruct (g_rep _ GR) as [ch R].
  destruct (snap_wire_roundtrip (sn_raw S) ch GR R) as (l & R1 & ch1 & El & Hli & Hlen & Erd & Rr & Hlook).
  pose proof (build_from_raw_congr R1 ch1 (sn_raw S) ch Rr R Hlook) as Hcg. rewrite Ec in Hcg.
  destruct (build_from_raw R1) as [[S1| | |] ws1] eqn:Eb; try contradiction.
  destruct Hcg as (Hext & Hws & Hr1 & _). subst ws1.
  assert (Ers : snap_read_from_ints l = (Ok S1, [])).
  { unfold snap_read_from_ints. rewrite Erd. rewrite wbind_ok'. exact Eb. }
  exists l, (enc l), S1. split; [exact El|]. split; [apply ints_to_bytes_enc, Hli|]. split; [exact Hlen|].
  split; [exact Ers|]. split; [unfold snap_read_bytes; rewrite (read_bytes_enc l Hli); exact Ers|].
  split; [exact Hext|]. split.
  - rewrite Hr1. pose proof (read_from_ints_good l Hli) as Hg. rewrite Erd in Hg. exact Hg.
  - exists ch, ch1. split; [exact R|]. split; [rewrite Hr1; exact Rr|exact Hlook].
Qed.

(* after a delta between two builder-made snapshots *)
Theorem built_after_delta opsA opsB : ops_ok opsA -> ops_ok opsB ->
  let A := b_snap (build opsA builder_new) in
  let B := b_snap (build opsB builder_new) in
  k09 (sn_raw A) (sn_raw B) = false ->
  exists d S', create_raw (sn_raw A) (sn_raw B) = Ok d /\ snap_read_with_delta A d = (Ok S', []) /\ like B S'.
Proof.
  intros HokA HokB A B Hk.
  pose proof (build_bgood opsA HokA builder_new bgood_new) as GA. fold A in GA.
  pose proof (build_bgood opsB HokB builder_new bgood_new) as GB. fold B in GB.
  destruct (builder_consistent _ GB) as [EcB _]. fold B in EcB.
  pose proof (bg_raw _ GA) as GRA. pose proof (bg_raw _ GB) as GRB. fold A in GRA. fold B in GRB.
  destruct (g_rep _ GRA) as [chA HA]. destruct (g_rep _ GRB) as [chB HB].
  pose proof (k09_false _ _ _ _ HA HB Hk) as Hsl.
  destruct (apply_created (sn_raw A) (sn_raw B) chA chB HA HB (g_keys _ GRA) (g_keys _ GRB) (g_buf _ GRA) (g_buf _ GRB)
              (good_lim _ _ GRB HB) Hsl) as (B' & ch' & Eap & R' & Hlook).
  exists (created (sn_raw A) (sn_raw B) chA chB). 
  pose proof (build_from_raw_congr B' ch' (sn_raw B) chB R' HB Hlook) as Hcg. rewrite EcB in Hcg.
  destruct (build_from_raw B') as [[S1| | |] ws1] eqn:Eb; try contradiction.
  destruct Hcg as (Hext & Hws & Hr1 & _). subst ws1. exists S1.
  split; [apply create_raw_spec; try assumption; [apply (g_keys _ GRA)|apply (g_keys _ GRB)]|].
  split; [unfold snap_read_with_delta; rewrite Eap, wbind_ok'; exact Eb|].
  split; [exact Hext|]. split.
  - rewrite Hr1. pose proof (read_with_delta_good (sn_raw A) (created (sn_raw A) (sn_raw B) chA chB) GRA
                               (dgood_created _ _ chA chB HA HB (g_buf _ GRB))) as W.
    unfold wpost in W. rewrite Eap in W. exact W.
  - exists chB, ch'. split; [exact HB|]. split; [rewrite Hr1; exact R'|exact Hlook].
Qed.

(* lookups are determined by the snapshot *)
Lemma rep_lookups_unique S ch1 ch2 : rep S ch1 -> rep S ch2 -> forall k, aget k ch1 = aget k ch2.
Proof.
  intros R1 R2 k. destruct (aget k ch1) as [d|] eqn:E1.
  - destruct (rep_get_some _ _ _ _ R1 E1) as (r & Hr & _ & Hs). destruct (rep_get _ _ _ _ R2 Hr) as (_ & d' & _ & _ & Hd' & _ & Hs').
    specialize (Hs unit). specialize (Hs' unit). rewrite Hs in Hs'. injection Hs' as <-. symmetry. exact Hd'.
  - apply (rep_get_none _ _ _ R1) in E1. apply (rep_get_none _ _ _ R2) in E1. symmetry. exact E1.
Qed.

(* recycling a copy: the builder knows exactly the UUID types, and a new one gets a fresh number *)
Lemma reg_items_sizes l : length (reg_items l) = length l /\ length (flat (reg_items l)) = (4 * length l)%nat.
Proof.
  unfold reg_items. rewrite map_length. split; [reflexivity|].
  induction l as [|[u t] l IH]; [reflexivity|]. cbn [map flat flat_map snd length uuid_to_item_data app]. fold (flat (map (fun ut : Z * Z => (key TYPE_ID_EX (snd ut), uuid_to_item_data (fst ut))) l)).
  cbn [length]. lia.
Qed.

Theorem built_recycle ops S' : ops_ok ops ->
  let b := build ops builder_new in
  like (b_snap b) S' ->
  exists b', snap_recycle S' = Ok b' /\ bgood b' /\ b_next b' = b_next b /\ sn_ext (b_snap b') = sn_ext (b_snap b)
    /\ forall u id data, op_ok (Uuid u) id data ->
       let r := builder_add b' (Uuid u) id data in
       bgood (fst r)
       /\ (forall u' t, aget u' (sn_ext (b_snap b)) = Some t -> aget u' (sn_ext (b_snap (fst r))) = Some t)
       /\ (aget u (sn_ext (b_snap b)) = None ->
            (forall u', aget u' (sn_ext (b_snap b)) <> Some (b_next b))
            /\ (snd r = Ok tt -> aget u (sn_ext (b_snap (fst r))) = Some (b_next b))
            /\ (b_next b < 32768 ->
                Z.of_nat (length (sn_ext (b_snap b))) + 2 <= MAX_SNAPSHOT_ITEMS ->
                ser_size (Z.of_nat (length (sn_ext (b_snap b))) + 2)
                         (4 * Z.of_nat (length (sn_ext (b_snap b))) + 4 + Z.of_nat (length data)) <= MAX_SNAPSHOT_SIZE ->
                snd r = Ok tt)).
Proof.
  intros Hok b (He & GR' & ch & ch' & R & R' & Hl).
  pose proof (build_bgood ops Hok builder_new bgood_new) as G. fold b in G.
  destruct (bg_st _ G) as (ch0 & R0 & B0). pose proof (bg_next _ G) as Hn.
  (* the builder state transfers to S' *)
  assert (Hl0 : forall k, aget k ch0 = aget k ch').
  { intros k. rewrite Hl. apply (rep_lookups_unique _ _ _ R0 R). }
  pose proof (bstate_lookups ch0 ch' _ _ Hl0 B0) as B'. rewrite <- He in B'.
  destruct (recycle_builder_state S' ch' (b_next b) GR' R' B' Hn) as (b' & Er & Gb' & Hnext & Hext' & Rreg).
  exists b'. split; [exact Er|]. split; [exact Gb'|]. split; [exact Hnext|]. split; [rewrite Hext', He; reflexivity|].
  intros u id data Hop r.
  destruct (builder_add_bgood b' (Uuid u) id data Gb' Hop) as [Gr Fr]. fold r in Gr, Fr. split; [exact Gr|].
  assert (Hextb : sn_ext (b_snap b') = sn_ext (b_snap b)) by (rewrite Hext', He; reflexivity).
  destruct Hop as (Huok & Hid & Hd). cbn in Huok.
  (* unfold the one call *)
  unfold r, builder_add. rewrite Hextb, Hnext.
  destruct (aget u (sn_ext (b_snap b))) as [ty|] eqn:Hu.
  - split.
    + intros u' t Hu'. destruct (add_item (sn_raw (b_snap b')) ty id data); cbn [fst b_snap sn_ext]; rewrite ?Hextb; exact Hu'.
    + intros H; discriminate.
  - replace (OFFSET_EXTENDED_TYPE_ID <=? b_next b) with true by (symmetry; apply Z.leb_le; unfold OFFSET_EXTENDED_TYPE_ID; lia).
    cbn [negb].
    assert (Hfreshnum : forall u', aget u' (sn_ext (b_snap b)) <> Some (b_next b)).
    { intros u' Hu'. destruct (bs_entry _ _ _ B0 u' _ Hu') as [H1 _]. lia. }
    destruct (reg_items_sizes (sn_ext (b_snap b))) as [Lr1 Lr2].
    rewrite He in Rreg. destruct (rep_lengths _ _ Rreg) as [L1 L2]. rewrite Lr1 in L1. rewrite Lr2 in L2.
    assert (Hk0 : aget (key TYPE_ID_EX (b_next b)) (rs_offs (sn_raw (b_snap b'))) = None).
    { apply (rep_get_none _ _ _ Rreg). apply aget_none. unfold reg_items. rewrite map_map. cbn [fst]. intros Hin.
      apply in_map_iff in Hin. destruct Hin as [[u' t] [E Hin]]. cbn [snd] in E.
      pose proof (sortedb_nodup _ (bs_sorted _ _ _ B0)) as Hnde.
      destruct (bs_entry _ _ _ B0 u' t (in_aget u' t _ Hnde Hin)) as [H1 _].
      apply key_inj in E; try (unfold TYPE_ID_EX; lia). }
    destruct (Z.leb_spec MAX_EXTENDED_TYPE_ID (b_next b)) as [Hmax|Hmax].
    + cbn [fst snd]. split; [intros u' t Hu'; rewrite Hextb; exact Hu'|]. intros _. split; [exact Hfreshnum|].
      split; [intros H; discriminate|]. unfold MAX_EXTENDED_TYPE_ID in Hmax. intros; lia.
    + rewrite add_item_eq, Hk0.
      destruct (MAX_SNAPSHOT_ITEMS <? Z.of_nat (length (rs_offs (sn_raw (b_snap b')))) + 1) eqn:C1.
      { cbn [fst snd]. split; [intros u' t Hu'; rewrite Hextb; exact Hu'|]. intros _. split; [exact Hfreshnum|].
        split; [intros H; discriminate|]. intros _ Hroom _. apply Z.ltb_lt in C1. rewrite L1 in C1. lia. }
      destruct (MAX_SNAPSHOT_SIZE <? ser_size (Z.of_nat (length (rs_offs (sn_raw (b_snap b')))) + 1)
                  (Z.of_nat (length (rs_buf (sn_raw (b_snap b')))) + Z.of_nat (length (uuid_to_item_data u)))) eqn:C2.
      { cbn [fst snd]. split; [intros u' t Hu'; rewrite Hextb; exact Hu'|]. intros _. split; [exact Hfreshnum|].
        split; [intros H; discriminate|]. intros _ _ Hroom. apply Z.ltb_lt in C2. rewrite L1, L2 in C2.
        cbn [length uuid_to_item_data] in C2. unfold ser_size in *. pose proof (Zle_0_nat (length data)). lia. }
      cbn [b_snap sn_raw sn_ext].
      set (R1 := pushed (sn_raw (b_snap b')) (key TYPE_ID_EX (b_next b)) (uuid_to_item_data u)).
      destruct (pushed_length (sn_raw (b_snap b')) (key TYPE_ID_EX (b_next b)) (uuid_to_item_data u) Hk0) as [P1 P2]. fold R1 in P1, P2.
      assert (Hk1 : aget (key (b_next b) id) (rs_offs R1) = None).
      { unfold R1. cbn [pushed rs_offs]. rewrite aget_ains_other.
        - apply (rep_get_none _ _ _ Rreg). apply aget_none. unfold reg_items. rewrite map_map. cbn [fst]. intros Hin.
          apply in_map_iff in Hin. destruct Hin as [[u' t] [E Hin]]. cbn [snd] in E.
          pose proof (sortedb_nodup _ (bs_sorted _ _ _ B0)) as Hnde.
          destruct (bs_entry _ _ _ B0 u' t (in_aget u' t _ Hnde Hin)) as [H1 _].
          apply key_inj in E; try (unfold TYPE_ID_EX; lia). unfold TYPE_ID_EX in E. lia.
        - intros E. apply key_inj in E; try (unfold TYPE_ID_EX; lia). unfold TYPE_ID_EX in E. lia. }
      rewrite add_item_eq, Hk1.
      assert (Hkeep : forall u' t, aget u' (sn_ext (b_snap b)) = Some t ->
                aget u' (ains u (b_next b) (sn_ext (b_snap b))) = Some t).
      { intros u' t Hu'. assert (u' <> u) by (intros ->; congruence). rewrite aget_ains_other by assumption. exact Hu'. }
      destruct (MAX_SNAPSHOT_ITEMS <? Z.of_nat (length (rs_offs R1)) + 1) eqn:D1;
        [|destruct (MAX_SNAPSHOT_SIZE <? ser_size (Z.of_nat (length (rs_offs R1)) + 1)
                      (Z.of_nat (length (rs_buf R1)) + Z.of_nat (length data))) eqn:D2];
        cbn [fst snd b_snap sn_ext].
      * split; [exact Hkeep|]. intros _. split; [exact Hfreshnum|]. split; [intros _; apply aget_ains_same|].
        intros _ Hroom1 _. apply Z.ltb_lt in D1. rewrite P1, L1 in D1. unfold MAX_SNAPSHOT_ITEMS in *. lia.
      * split; [exact Hkeep|]. intros _. split; [exact Hfreshnum|]. split; [intros _; apply aget_ains_same|].
        intros _ _ Hroom2. apply Z.ltb_lt in D2. rewrite P1, P2, L1, L2 in D2. cbn [length uuid_to_item_data] in D2.
        unfold MAX_SNAPSHOT_SIZE, ser_size in *. lia.
      * split; [exact Hkeep|]. intros _. split; [exact Hfreshnum|]. split; [intros _; apply aget_ains_same|]. reflexivity.
Qed.

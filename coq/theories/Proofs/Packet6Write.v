(* 0.6 writer: Packet::write in closed form. Whenever write returns Ok, the output is
   `encoding6 p` (header bytes ++ body), and for values inside the size limits the
   writer succeeds as soon as the buffer is large enough. *)
From LibTw2 Require Import Base.Res Base.Bits Model.PacketTypes Model.PacketBase Gen.Consts6 Gen.Bits6
  Model.Packet6 Proofs.PktSweep Proofs.PktBits6.
From Coq Require Import ZArith Lia Bool List.
Open Scope Z_scope.

(* ---------- the bounded buffer ---------- *)

Definition wb_ext (t : wbuf) (bs : bytes) : wbuf := {| wb_data := wb_data t ++ bs; wb_cap := wb_cap t |}.

Lemma wb_write_fits t bs : (length (wb_data t) + length bs <= wb_cap t)%nat ->
  wb_write t bs = (wb_ext t bs, true).
Proof.
  intros H. unfold wb_write, wb_ext.
  replace (length bs <=? wb_cap t - length (wb_data t))%nat with true by (symmetry; apply Nat.leb_le; lia).
  reflexivity.
Qed.

Lemma wb_write_true t bs t' : wb_write t bs = (t', true) ->
  t' = wb_ext t bs /\ (length bs <= wb_cap t - length (wb_data t))%nat.
Proof.
  unfold wb_write, wb_ext. destruct (length bs <=? wb_cap t - length (wb_data t))%nat eqn:E; intros H.
  - injection H as <-. apply Nat.leb_le in E. split; [reflexivity|exact E].
  - discriminate.
Qed.

Lemma wstep6_ok t bs k t' : wstep6 t bs k = (t', Ok tt) ->
  k (wb_ext t bs) = (t', Ok tt) /\ (length bs <= wb_cap t - length (wb_data t))%nat.
Proof.
  unfold wstep6. destruct (wb_write t bs) as [t1 ok] eqn:E. destruct ok; [|discriminate].
  apply wb_write_true in E as [-> Hl]. intros H. split; assumption.
Qed.

Lemma wstep6_fits t bs k : (length (wb_data t) + length bs <= wb_cap t)%nat ->
  wstep6 t bs k = k (wb_ext t bs).
Proof. intros H. unfold wstep6. rewrite wb_write_fits by exact H. reflexivity. Qed.

(* ---------- the encoding ---------- *)

Definition hdr_bytes6 (h : PacketHeader6) : bytes :=
  match PacketHeader6_pack h with Ok hp => PacketHeaderPacked6_as_bytes hp | _ => [] end.

Definition opt_bytes (o : option bytes) : bytes := match o with Some b => b | None => [] end.
Definition is_some {A} (o : option A) : bool := match o with Some _ => true | None => false end.

Section Enc.
Variable comp : HuffC.

Definition chunks_compressed6 (payload' : bytes) : bool :=
  match comp payload' ARRAYVEC_CAP with Some s => (length s <? length payload')%nat | None => false end.

Definition chunks_body6 (payload' : bytes) : bytes :=
  if chunks_compressed6 payload' then opt_bytes (comp payload' ARRAYVEC_CAP) else payload'.

Definition chunks_flags6 (resend : bool) (payload' : bytes) : Z :=
  Z.lor (bool_flag resend PACKETFLAG_REQUEST_RESEND) (bool_flag (chunks_compressed6 payload') PACKETFLAG_COMPRESSION).

Definition control_body6 (c : control6) (tok : option token) : bytes :=
  [ctrl_magic6 c]
  ++ (if is_connect6 c && is_some tok then CTRLMSG_TOKEN_MAGIC else [])
  ++ (match c with C6Close m => m ++ [0] | _ => [] end)
  ++ opt_bytes tok.

Definition encoding6 (p : packet6) : bytes :=
  match p with
  | P6Connless payload => repeat 255 6 ++ payload
  | P6Connected ack tok (P6Chunks resend nc payload) =>
    let payload' := chunks_payload6 tok payload in
    hdr_bytes6 {| ph6_flags := chunks_flags6 resend payload'; ph6_ack := ack; ph6_num_chunks := nc |}
    ++ chunks_body6 payload'
  | P6Connected ack tok (P6Control c) =>
    hdr_bytes6 {| ph6_flags := PACKETFLAG_CONTROL; ph6_ack := ack; ph6_num_chunks := 0 |}
    ++ control_body6 c tok
  end.

Lemma write_header6_ok t h k t' : write_header6 t h k = (t', Ok tt) ->
  exists hp, PacketHeader6_pack h = Ok hp
    /\ k (wb_ext t (hdr_bytes6 h)) = (t', Ok tt)
    /\ (length (hdr_bytes6 h) <= wb_cap t - length (wb_data t))%nat.
Proof.
  unfold write_header6, hdr_bytes6. destruct (PacketHeader6_pack h) as [hp|e|s|]; try discriminate.
  - intros H. apply wstep6_ok in H as [H1 H2]. exists hp. repeat split; assumption.
  - destruct e.
Qed.

Ltac wsimp := cbn [wb_ext wb_data wb_cap wb_new app opt_bytes] in *.
Ltac wfin E :=
  destruct (Z.of_nat _ >? MAX_PACKETSIZE); [discriminate|]; unfold wdone6 in E; injection E as <-; wsimp;
  unfold CTRLMSG_TOKEN_MAGIC in *;
  rewrite <- ?app_assoc; cbn [app]; rewrite ?app_nil_r; split;
  [reflexivity | repeat (progress (rewrite ?app_length in *; cbn [length] in *)); lia].

Lemma wb_new_data cap : wb_data (wb_new cap) = [].
Proof. reflexivity. Qed.

(* what Ok means: the output is the encoding and fits the buffer *)
Theorem write6_ok_encoding p cap out : write6 comp p cap = Ok out ->
  out = encoding6 p /\ (length out <= cap)%nat.
Proof.
  unfold write6, write6_full. destruct p as [payload|ack tok ty].
  - (* connless *)
    unfold write_connless6. destruct (Z.of_nat (length payload) >? MAX_PAYLOAD); [discriminate|].
    destruct (wstep6 _ _ _) as [t r] eqn:E. destruct r as [[]| | |]; try discriminate.
    intros H. injection H as <-.
    apply wstep6_ok in E as [E H1]. apply wstep6_ok in E as [E H2].
    unfold wdone6 in E. injection E as <-.
    cbn [wb_ext wb_data wb_new wb_cap app] in *. split; [reflexivity|].
    change (Z.to_nat (HEADER_SIZE + PADDING_SIZE_CONNLESS)) with 6%nat in *.
    cbn [repeat length app] in *. lia.
  - unfold write_connected6. destruct ty as [resend nc payload|c].
    + (* chunks *)
      fold (chunks_compressed6 (chunks_payload6 tok payload)).
      destruct (write_header6 _ _ _) as [t r] eqn:E. destruct r as [[]| | |]; try discriminate.
      intros H. injection H as <-.
      apply write_header6_ok in E as (hp & Ehp & E & H1).
      apply wstep6_ok in E as [E H2]. unfold wdone6 in E. injection E as <-.
      cbn [wb_ext wb_data wb_new wb_cap app] in *. split.
      * unfold encoding6, chunks_body6, chunks_flags6, opt_bytes. reflexivity.
      * rewrite app_length in *. lia.
    + (* control *)
      unfold write_control6.
      destruct (write_header6 _ _ _) as [t r] eqn:E. destruct r as [[]| | |]; try discriminate.
      intros H. injection H as <-.
      apply write_header6_ok in E as (hp & Ehp & E & H1).
      apply wstep6_ok in E as [E H2]. wsimp.
      unfold encoding6, control_body6.
      destruct c as [| | | |m]; destruct tok as [tk|]; cbn [is_connect6 andb is_some] in *.
      all: try (destruct (has_nul m); [discriminate|]).
      all: repeat (apply wstep6_ok in E as [E ?]; wsimp).
      all: wfin E.
Qed.


(* ---------- the writer succeeds inside the size limits ---------- *)

Lemma hdr_bytes6_ok h : ph6_in_range h = true ->
  exists hp, PacketHeader6_pack h = Ok hp /\ hdr_bytes6 h = PacketHeaderPacked6_as_bytes hp
    /\ PacketHeaderPacked6_unpack_warn hp = (h, []) /\ length (hdr_bytes6 h) = 3%nat.
Proof.
  intros Hr. destruct (ph6_pack_unpack h Hr) as (hp & Ep & Eu & _).
  exists hp. unfold hdr_bytes6. rewrite Ep. repeat split; try assumption.
Qed.

Lemma chunks_flags6_range resend payload' : 0 <= chunks_flags6 resend payload' < 16.
Proof. unfold chunks_flags6. destruct resend, (chunks_compressed6 payload'); vm_compute; split; congruence. Qed.

Lemma chunks_body6_len payload' : (length (chunks_body6 payload') <= length payload')%nat.
Proof.
  unfold chunks_body6, chunks_compressed6. destruct (comp payload' ARRAYVEC_CAP) as [s|]; cbn [opt_bytes].
  - destruct (length s <? length payload')%nat eqn:E; [apply Nat.ltb_lt in E; lia|lia].
  - lia.
Qed.

Lemma chunks_payload6_expr tok payload :
  Z.of_nat (length payload) + (match tok with Some _ => TOKEN_SIZE | None => 0 end) <= MAX_PACKETSIZE - HEADER_SIZE ->
  match tok with Some t => token_ok t | None => true end = true ->
  chunks_payload6 tok payload = payload ++ opt_bytes tok
  /\ Z.of_nat (length (chunks_payload6 tok payload)) <= MAX_PACKETSIZE - HEADER_SIZE.
Proof.
  unfold chunks_payload6, token_ok, TOKEN_SIZE, MAX_PACKETSIZE, HEADER_SIZE. intros Hl Ht. destruct tok as [tk|]; cbn [opt_bytes].
  - apply Nat.eqb_eq in Ht. rewrite firstn_all2 by (rewrite app_length; unfold ARRAYVEC_CAP; lia).
    split; [reflexivity|]. rewrite app_length. lia.
  - rewrite app_nil_r. split; [reflexivity|lia].
Qed.

Theorem write6_ok p cap : expressible6 p = true -> K06_6 p = false -> (1400 <= cap)%nat ->
  write6 comp p cap = Ok (encoding6 p) /\ (length (encoding6 p) <= 1400)%nat.
Proof.
  intros Hx Hk Hcap. unfold write6, write6_full. destruct p as [payload|ack tok ty].
  - cbn [K06_6] in Hk. unfold write_connless6. rewrite Hk.
    change (Z.to_nat (HEADER_SIZE + PADDING_SIZE_CONNLESS)) with 6%nat.
    unfold MAX_PAYLOAD in Hk.
    rewrite wstep6_fits by (cbn; lia). rewrite wstep6_fits by (cbn; lia).
    unfold wdone6. cbn [wb_ext wb_data wb_new app encoding6]. split; [reflexivity|]. cbn [repeat app length]. lia.
  - cbn [expressible6] in Hx. apply andb_true_iff in Hx as [Hx Hty]. apply andb_true_iff in Hx as [Hack Htok].
    unfold write_connected6. destruct ty as [resend nc payload|c].
    + apply andb_true_iff in Hty as [Hnc Hlen]. apply Z.leb_le in Hlen.
      destruct (chunks_payload6_expr tok payload Hlen Htok) as [Epl Hpl].
      fold (chunks_compressed6 (chunks_payload6 tok payload)).
      fold (chunks_flags6 resend (chunks_payload6 tok payload)).
      pose proof (chunks_flags6_range resend (chunks_payload6 tok payload)) as Hf.
      pose proof (chunks_body6_len (chunks_payload6 tok payload)) as Hb.
      assert (Hr : ph6_in_range {| ph6_flags := chunks_flags6 resend (chunks_payload6 tok payload); ph6_ack := ack; ph6_num_chunks := nc |} = true).
      { unfold ph6_in_range, byteb. cbn [ph6_flags ph6_ack ph6_num_chunks]. lia. }
      destruct (hdr_bytes6_ok _ Hr) as (hp & Ep & Eh & _ & Hl3).
      unfold write_header6. rewrite Ep. rewrite <- Eh.
      unfold MAX_PACKETSIZE, HEADER_SIZE in Hpl.
      rewrite wstep6_fits by (cbn [wb_new wb_data wb_cap length]; lia).
      fold (chunks_body6 (chunks_payload6 tok payload)) || idtac.
      assert (Ebody : (if chunks_compressed6 (chunks_payload6 tok payload)
                       then match comp (chunks_payload6 tok payload) ARRAYVEC_CAP with Some s => s | None => [] end
                       else chunks_payload6 tok payload) = chunks_body6 (chunks_payload6 tok payload)) by reflexivity.
      rewrite Ebody.
      rewrite wstep6_fits by (cbn [wb_ext wb_new wb_data wb_cap app]; lia).
      unfold wdone6. cbn [wb_ext wb_data wb_new app encoding6]. split; [reflexivity|].
      rewrite app_length. lia.
    + assert (Hr : ph6_in_range {| ph6_flags := PACKETFLAG_CONTROL; ph6_ack := ack; ph6_num_chunks := 0 |} = true).
      { unfold ph6_in_range, byteb, PACKETFLAG_CONTROL. cbn [ph6_flags ph6_ack ph6_num_chunks]. lia. }
      destruct (hdr_bytes6_ok _ Hr) as (hp & Ep & Eh & _ & Hl3).
      unfold write_control6, write_header6. rewrite Ep. rewrite <- Eh.
      rewrite wstep6_fits by (cbn [wb_new wb_data wb_cap length]; lia).
      rewrite wstep6_fits by (cbn [wb_ext wb_new wb_data wb_cap length app]; rewrite ?app_length; cbn [length]; lia).
      unfold encoding6, control_body6, token_ok, MAX_PACKETSIZE, CTRLMSG_CLOSE_REASON_LENGTH in *.
      assert (Htl : match tok with Some t => length t = 4%nat | None => True end)
        by (destruct tok; [apply Nat.eqb_eq, Htok|exact I]).
      destruct c as [| | | |m]; destruct tok as [tk|]; cbn [is_connect6 andb is_some opt_bytes] in *.
      all: try (apply andb_true_iff in Hty as [Hn Hml]; apply negb_true_iff in Hn; rewrite Hn).
      all: unfold CTRLMSG_TOKEN_MAGIC.
      all: repeat (rewrite wstep6_fits by
             (cbn [wb_ext wb_new wb_data wb_cap app];
              repeat (progress (rewrite ?app_length; cbn [length])); lia));
           cbn [wb_ext wb_new wb_data wb_cap app].
      all: match goal with |- context [Z.of_nat ?l >? 1400] =>
             replace (Z.of_nat l >? 1400) with false
               by (symmetry; rewrite Z.gtb_ltb; apply Z.ltb_ge; repeat (progress (rewrite ?app_length; cbn [length])); lia)
           end.
      all: unfold wdone6; cbn [wb_ext wb_new wb_data wb_cap app]; rewrite <- ?app_assoc; cbn [app]; rewrite ?app_nil_r; split; [reflexivity|].
      all: repeat (progress (rewrite ?app_length; cbn [length])); lia.
Qed.

End Enc.

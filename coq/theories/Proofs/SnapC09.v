(* C09 assembled: create, wire, apply. *)
From LibTw2 Require Import Base.Res Model.Varint Model.Packer Model.Snap Proofs.SnapBase Proofs.SnapRep Proofs.SnapDelta
  Proofs.SnapApply Proofs.SnapOk Proofs.SnapWire Proofs.SnapWireInst.
From Coq Require Import ZArith List Lia Bool Permutation.
Import ListNotations.
Open Scope Z_scope.

Lemma sortedb_filter p l : sortedb l = true -> sortedb (filter p l) = true.
Proof.
  induction l as [|a l IH]; intros H; [reflexivity|]. apply sortedb_cons in H. destruct H as [Ha Hs].
  cbn [filter]. destruct (p a); [|apply IH, Hs]. apply sortedb_cons. split; [|apply IH, Hs].
  intros x Hx. apply filter_In in Hx. apply Ha, Hx.
Qed.

Lemma forallb_filter {T} (q p : T -> bool) l : forallb q l = true -> forallb q (filter p l) = true.
Proof.
  rewrite !forallb_forall. intros H x Hx. apply filter_In in Hx. apply H, Hx.
Qed.

Lemma filter_length_le' {T} (p : T -> bool) l : (length (filter p l) <= length l)%nat.
Proof. induction l as [|x l IH]; [cbn; lia|]. cbn [filter]. destruct (p x); cbn [length]; lia. Qed.

Lemma length_flat_perm a b : Permutation a b -> length (flat a) = length (flat b).
Proof.
  induction 1 as [|x a b _ IH|x y a|a b c _ IH1 _ IH2]; [reflexivity| | |congruence].
  - cbn [flat flat_map]. fold (flat a) (flat b). rewrite !app_length. lia.
  - cbn [flat flat_map]. fold (flat a). rewrite !app_length. lia.
Qed.

Lemma diffs_flat_length chA v : (forall k d, In (k, d) v -> length (diff_of chA (k, d)) = length d) ->
  length (flat (diffs chA v)) = length (flat v).
Proof.
  induction v as [|[k d] v IH]; intros H; [reflexivity|].
  cbn [diffs map flat flat_map snd fst]. fold (diffs chA v) (flat (diffs chA v)) (flat v).
  rewrite !app_length, (H k d) by (left; reflexivity). f_equal. apply IH. intros k' d' Hin. apply H. right. exact Hin.
Qed.

Theorem created_pre sz A B chA chB :
  rep A chA -> rep B chB -> keys_i32 A -> keys_i32 B ->
  forallb is_i32 (rs_buf A) = true -> forallb is_i32 (rs_buf B) = true ->
  lim_ok chA -> lim_ok chB -> same_len chA chB -> sizes_respected sz B = true ->
  created A B chA chB = delta_of (d_del (created A B chA chB)) (diffs chA (view B chB))
  /\ wire_pre sz (d_del (created A B chA chB)) (diffs chA (view B chB)).
Proof.
  intros HA HB IA IB HbA HbB LA LB Hsl Hsz. split; [reflexivity|].
  assert (Hdl : forall k d, In (k, d) (view B chB) -> length (diff_of chA (k, d)) = length d).
  { intros k d Hin. apply diff_len. intros f Hf. apply (Hsl k f d Hf). apply (in_view B chB k d HB Hin). }
  assert (Hkeys : map fst (diffs chA (view B chB)) = map fst (rs_offs B)).
  { unfold diffs. rewrite map_map. cbn [fst]. apply view_keys. }
  destruct (rep_lengths _ _ HA) as [LA1 LA2]. destruct (rep_lengths _ _ HB) as [LB1 LB2].
  destruct LA as [LA3 LA4]. destruct LB as [LB3 LB4]. unfold ser_size, MAX_SNAPSHOT_SIZE, MAX_SNAPSHOT_ITEMS, i32_max in *.
  assert (Hfl : length (flat (diffs chA (view B chB))) = length (flat chB)).
  { rewrite diffs_flat_length by exact Hdl. apply length_flat_perm, view_perm, HB. }
  cbn [created d_del]. split.
  - apply sortedb_filter, (rep_sorted _ _ HA).
  - apply forallb_filter, IA.
  - rewrite Hkeys. apply (rep_sorted _ _ HB).
  - rewrite Hkeys. apply IB.
  - apply forallb_flat_in. intros k d' Hin. unfold diffs in Hin. apply in_map_iff in Hin.
    destruct Hin as [[k0 dB] [E Hin]]. cbn [fst] in E. injection E as <- <-.
    unfold diff_of. cbn [fst snd]. destruct (aget k0 chA); [apply zip_with_i32, wsub_i32|].
    rewrite (rep_buf _ _ HB) in HbB. apply (flat_i32 chB k0 dB HbB). apply (in_view B chB k0 dB HB Hin).
  - apply Forall_forall. intros [k d'] Hin. unfold diffs in Hin. apply in_map_iff in Hin.
    destruct Hin as [[k0 dB] [E Hin]]. cbn [fst] in E. injection E as <- <-.
    unfold size_ok. cbn [fst snd]. rewrite (Hdl k0 dB Hin).
    pose proof (in_view B chB k0 dB HB Hin) as HkB.
    destruct (rep_get_some _ _ _ _ HB HkB) as (r & Hr & Hrl & _).
    unfold sizes_respected in Hsz. rewrite forallb_forall in Hsz. specialize (Hsz (k0, r) (aget_in _ _ _ Hr)).
    cbn [fst snd] in Hsz. destruct (sz (key_to_raw_type_id k0)).
    + apply Z.eqb_eq in Hsz. rewrite Hsz, Hrl. reflexivity.
    + assert (length dB <= length (flat chB))%nat; [|unfold i32_max; lia].
      apply aget_in in HkB. apply in_split in HkB. destruct HkB as (l1 & l2 & ->).
      rewrite flat_app. cbn [flat flat_map snd]. rewrite !app_length. lia.
  - intros k Hin Hd. rewrite Hkeys in Hin. apply filter_In in Hd. destruct Hd as [_ Hd].
    apply (rep_in_keys _ _ _ HB) in Hin. unfold absent in Hd. destruct (aget k chB); [discriminate|congruence].
  - pose proof (filter_length_le' (absent chB) (map fst (rs_offs A))) as Hle. rewrite map_length in Hle. unfold i32_max. lia.
  - unfold diffs. rewrite map_length. unfold view. rewrite map_length. unfold i32_max. lia.
  - rewrite Hfl. unfold i32_max. lia.
Qed.

(* the whole of C09 on the model *)
Theorem c09_main sz A B : raw_ok A = true -> raw_ok B = true -> k09 A B = false ->
  exists d B',
    create_raw A B = Ok d
    /\ raw_read_with_delta A d = (Ok B', [])
    /\ (forall E, @raw_items E B' = @raw_items E B)
    /\ (forall E ty id, @raw_item E B' ty id = @raw_item E B ty id)
    /\ crc B' = crc B
    /\ (sizes_respected sz B = true ->
        exists l bs, delta_ints sz d = Ok l /\ delta_read_from_ints sz l = (Ok d, [])
                     /\ ints_to_bytes l = Ok bs /\ delta_read_bytes sz bs = (Ok d, [])).
Proof.
  intros OA OB Hk.
  destruct (raw_ok_rep A OA) as (chA & HA & IA & HbA & LA).
  destruct (raw_ok_rep B OB) as (chB & HB & IB & HbB & LB).
  pose proof (k09_false _ _ _ _ HA HB Hk) as Hsl.
  destruct (apply_created A B chA chB HA HB IA IB HbA HbB LB Hsl) as (B' & ch' & Eap & R' & Hlook).
  exists (created A B chA chB), B'. split; [apply create_raw_spec; assumption|]. split; [exact Eap|].
  destruct (same_lookups _ _ _ _ R' HB Hlook) as (Hv & Hc & _).
  split; [intros E; rewrite (raw_items_rep B' ch' R'), (raw_items_rep B chB HB), Hv; reflexivity|].
  split; [intros E ty id; rewrite (raw_item_rep B' ch' ty id R'), (raw_item_rep B chB ty id HB), Hlook; reflexivity|].
  split; [exact Hc|]. intros Hsz.
  destruct (created_pre sz A B chA chB HA HB IA IB HbA HbB LA LB Hsl Hsz) as [E W].
  exists (wire_ints sz (d_del (created A B chA chB)) (diffs chA (view B chB))), (enc (wire_ints sz (d_del (created A B chA chB)) (diffs chA (view B chB)))).
  rewrite E at 1 2 3. split; [apply delta_ints_spec, W|]. split; [apply wire_ints_roundtrip, W|].
  split; [apply ints_to_bytes_enc, wire_ints_i32, W|]. rewrite E at 2. apply wire_bytes_roundtrip, W.
Qed.

Theorem c09_k09 A B : raw_ok A = true -> raw_ok B = true -> k09 A B = true ->
  exists s, create_raw A B = Panic s.
Proof.
  intros OA OB Hk.
  destruct (raw_ok_rep A OA) as (chA & HA & IA & _). destruct (raw_ok_rep B OB) as (chB & HB & IB & _).
  apply (create_raw_k09 A B chA chB); assumption.
Qed.

(* Demo model: chunk headers, tick markers, the message int layer, one chunk written and read. *)
From LibTw2 Require Import Base.Res Base.Bits Model.Varint Model.Packer Model.Huffman Model.Demo
  Proofs.VarintProofs Proofs.PackerProofs Proofs.HuffmanDecode Proofs.DemoBase.
From LibTw2 Require Import Gen.HuffTable.
From Coq Require Import ZArith Lia Bool List ZifyBool ZifyNat.
Open Scope Z_scope.

(* ---------- a sweep over 0..31 ---------- *)
Definition all32 : list Z := map Z.of_nat (seq 0 32).
Lemma sweep32 (P : Z -> bool) : forallb P all32 = true -> forall s, 0 <= s < 32 -> P s = true.
Proof.
  intros H s Hs. rewrite forallb_forall in H. apply H. unfold all32.
  apply in_map_iff. exists (Z.to_nat s). split; [lia|]. apply in_seq. lia.
Qed.

(* ---------- chunk headers ---------- *)
Definition chdr_ok (h : chdr) : bool :=
  match h with
  | HTick (TDelta d) keyframe => (0 <=? d) && (d <=? 31) && negb keyframe
  | HTick (TAbsolute t) _ => is_i32 t
  | HData _ size => (0 <=? size) && (size <=? 65535)
  end.
Definition chdr_warns (h : chdr) : list dwarn :=
  match h with HData KUnknown _ => [UnknownChunkType] | _ => [] end.
(* the length of the encoding: the three size forms, the two tick forms *)
Definition chdr_len (h : chdr) : Z :=
  match h with
  | HTick (TDelta _) _ => 1
  | HTick (TAbsolute _) _ => 5
  | HData _ size => if size <? 30 then 1 else if size <=? 255 then 2 else 3
  end.

Lemma data_flags k s : 0 <= s < 32 ->
  Z.land (Z.lor (kind_flag k) s) 128 = 0
  /\ Z.land (Z.lor (kind_flag k) s) 96 = kind_flag k
  /\ Z.land (Z.lor (kind_flag k) s) 31 = s.
Proof.
  intros Hs.
  assert (H : ((Z.land (Z.lor (kind_flag k) s) 128 =? 0)
               && (Z.land (Z.lor (kind_flag k) s) 96 =? kind_flag k)
               && (Z.land (Z.lor (kind_flag k) s) 31 =? s)) = true).
  { revert s Hs. apply (sweep32 (fun s => (Z.land (Z.lor (kind_flag k) s) 128 =? 0)
               && (Z.land (Z.lor (kind_flag k) s) 96 =? kind_flag k)
               && (Z.land (Z.lor (kind_flag k) s) 31 =? s))).
    destruct k; vm_compute; reflexivity. }
  lia.
Qed.

Lemma delta_flags d : 0 <= d < 32 ->
  Z.land (Z.lor (Z.lor 128 32) d) 128 <> 0
  /\ Z.land (Z.lor (Z.lor 128 32) d) 64 = 0
  /\ Z.land (Z.lor (Z.lor 128 32) d) 32 <> 0
  /\ Z.land (Z.lor (Z.lor 128 32) d) 31 = d.
Proof.
  intros Hd.
  assert (H : (negb (Z.land (Z.lor (Z.lor 128 32) d) 128 =? 0)
               && (Z.land (Z.lor (Z.lor 128 32) d) 64 =? 0)
               && negb (Z.land (Z.lor (Z.lor 128 32) d) 32 =? 0)
               && (Z.land (Z.lor (Z.lor 128 32) d) 31 =? d)) = true).
  { revert d Hd. apply (sweep32 (fun d => negb (Z.land (Z.lor (Z.lor 128 32) d) 128 =? 0)
               && (Z.land (Z.lor (Z.lor 128 32) d) 64 =? 0)
               && negb (Z.land (Z.lor (Z.lor 128 32) d) 32 =? 0)
               && (Z.land (Z.lor (Z.lor 128 32) d) 31 =? d))).
    vm_compute. reflexivity. }
  lia.
Qed.

Lemma kind_of_flag k :
  (if kind_flag k =? 0 then KUnknown else if kind_flag k =? 32 then KSnapshot
   else if kind_flag k =? 64 then KMessage else KSnapshotDelta) = k.
Proof. destruct k; reflexivity. Qed.

Lemma v5_cases v : version_ge v V5 = true -> v = V5 \/ v = V6.
Proof. destruct v; cbn; intros H; try discriminate; auto. Qed.

Theorem chdr_roundtrip h v rest : chdr_ok h = true -> version_ge v V5 = true ->
  exists bs, chdr_write h v = Ok bs
    /\ chdr_read v (bs ++ rest) = (Ok (Some (h, rest)), chdr_warns h)
    /\ zlen bs = chdr_len h.
Proof.
  intros Hok Hv. unfold chdr_write. rewrite Hv. cbn [negb].
  assert (Hmax : max_tick_delta v = 31) by (destruct (v5_cases v Hv) as [-> | ->]; reflexivity).
  destruct h as [[d|t] kf|k size]; cbn [chdr_ok] in Hok.
  - (* inline delta *)
    rewrite Hmax. assert (Hd : 0 <= d < 32) by lia.
    replace (d <=? 31) with true by lia. cbn [negb]. destruct kf; [cbn in Hok; lia|].
    eexists. split; [reflexivity|]. split; [|reflexivity].
    destruct (delta_flags d Hd) as [F1 [F2 [F3 F4]]].
    unfold chdr_read. cbn [app]. rewrite Hv.
    replace (Z.land (Z.lor (Z.lor 128 32) d) 128 =? 0) with false by lia.
    replace (Z.land (Z.lor (Z.lor 128 32) d) 64 =? 0) with true by lia.
    replace (Z.land (Z.lor (Z.lor 128 32) d) 32 =? 0) with false by lia.
    cbn [negb]. rewrite F4. reflexivity.
  - (* absolute tick *)
    eexists. split; [reflexivity|]. split; [|destruct kf; reflexivity].
    unfold chdr_read. rewrite <- app_comm_cons. rewrite Hv.
    destruct kf.
    + change (Z.lor 128 64) with 192. change (Z.land 192 128 =? 0) with false.
      change (Z.land 192 64 =? 0) with false. change (Z.land 192 32 =? 0) with true.
      change (Z.land 192 31 =? 0) with true. cbn [negb].
      rewrite rd_be_i32_be32 by exact Hok. reflexivity.
    + change (Z.lor 128 0) with 128. change (Z.land 128 128 =? 0) with false.
      change (Z.land 128 64 =? 0) with true. change (Z.land 128 32 =? 0) with true.
      change (Z.land 128 31 =? 0) with true. cbn [negb].
      rewrite rd_be_i32_be32 by exact Hok. reflexivity.
  - (* data *)
    unfold chdr_len. destruct (size <? 30) eqn:E30.
    + replace ((size <? 0) || (255 <? size)) with false by lia.
      eexists. split; [reflexivity|]. split; [|reflexivity].
      destruct (data_flags k size ltac:(lia)) as [F1 [F2 F3]].
      unfold chdr_read. cbn [app]. rewrite F1, F2, F3. cbn [Z.eqb negb].
      rewrite kind_of_flag.
      replace (size =? 30) with false by lia. replace (size =? 31) with false by lia.
      destruct k; reflexivity.
    + destruct (size <=? 255) eqn:E255.
      * eexists. split; [reflexivity|]. split; [|reflexivity].
        destruct (data_flags k 30 ltac:(lia)) as [F1 [F2 F3]].
        unfold chdr_read. cbn [app]. rewrite F1, F2, F3. cbn [Z.eqb negb Pos.eqb].
        rewrite kind_of_flag. replace (size <? 30) with false by lia.
        destruct k; reflexivity.
      * eexists. split; [reflexivity|]. split; [|reflexivity].
        destruct (data_flags k 31 ltac:(lia)) as [F1 [F2 F3]].
        unfold chdr_read. cbn [app]. rewrite F1, F2, F3. cbn [Z.eqb negb Pos.eqb].
        rewrite kind_of_flag.
        replace (size mod 256 + size / 256 * 256) with size by lia.
        replace (size <? 255) with false by lia.
        destruct k; reflexivity.
Qed.

(* the writer writes V5 headers also into V6 files: same bytes *)
Lemma chdr_write_v5 h v : version_ge v V5 = true -> chdr_write h v = chdr_write h V5.
Proof. intros Hv. destruct (v5_cases v Hv) as [-> | ->]; reflexivity. Qed.

(* ---------- the int layer of messages ---------- *)
Lemma list_ind4 (P : bytes -> Prop) :
  P [] -> (forall a, P [a]) -> (forall a b, P [a; b]) -> (forall a b c, P [a; b; c]) ->
  (forall a b c d r, P r -> P (a :: b :: c :: d :: r)) -> forall l, P l.
Proof.
  intros H0 H1 H2 H3 H4. fix IH 1. intros l.
  destruct l as [|a [|b [|c [|d r]]]];
    [apply H0|apply H1|apply H2|apply H3|apply H4, IH].
Qed.

Lemma pad4_cons4 a b c d r : pad4 (a :: b :: c :: d :: r) = a :: b :: c :: d :: pad4 r.
Proof.
  unfold pad4. cbn [length]. replace (S (S (S (S (length r))))) with (length r + 1 * 4)%nat by lia.
  rewrite Nat.mod_add by lia. reflexivity.
Qed.

Lemma le_groups_ok msg : bytes_ok msg = true -> forallb is_i32 (le_groups msg) = true.
Proof.
  induction msg as [|a|a b|a b c|a b c d r IH] using list_ind4; intros H.
  - reflexivity.
  - apply bytes_ok_cons in H as [Ha _]. cbn [le_groups forallb]. rewrite i32_from_le_is_i32 by lia. reflexivity.
  - apply bytes_ok_cons in H as [Ha H]. apply bytes_ok_cons in H as [Hb _].
    cbn [le_groups forallb]. rewrite i32_from_le_is_i32 by lia. reflexivity.
  - apply bytes_ok_cons in H as [Ha H]. apply bytes_ok_cons in H as [Hb H]. apply bytes_ok_cons in H as [Hc _].
    cbn [le_groups forallb]. rewrite i32_from_le_is_i32 by lia. reflexivity.
  - apply bytes_ok_cons in H as [Ha H]. apply bytes_ok_cons in H as [Hb H].
    apply bytes_ok_cons in H as [Hc H]. apply bytes_ok_cons in H as [Hd H].
    cbn [le_groups forallb]. rewrite i32_from_le_is_i32 by lia. rewrite IH by exact H. reflexivity.
Qed.

Lemma le_groups_pad4 msg : bytes_ok msg = true -> flat_map i32_to_le (le_groups msg) = pad4 msg.
Proof.
  induction msg as [|a|a b|a b c|a b c d r IH] using list_ind4; intros H.
  - reflexivity.
  - apply bytes_ok_cons in H as [Ha _]. cbn [le_groups flat_map]. rewrite i32_to_from_le by lia. reflexivity.
  - apply bytes_ok_cons in H as [Ha H]. apply bytes_ok_cons in H as [Hb _].
    cbn [le_groups flat_map]. rewrite i32_to_from_le by lia. reflexivity.
  - apply bytes_ok_cons in H as [Ha H]. apply bytes_ok_cons in H as [Hb H]. apply bytes_ok_cons in H as [Hc _].
    cbn [le_groups flat_map]. rewrite i32_to_from_le by lia. reflexivity.
  - apply bytes_ok_cons in H as [Ha H]. apply bytes_ok_cons in H as [Hb H].
    apply bytes_ok_cons in H as [Hc H]. apply bytes_ok_cons in H as [Hd H].
    cbn [le_groups flat_map]. rewrite i32_to_from_le by lia. rewrite IH by exact H.
    rewrite pad4_cons4. reflexivity.
Qed.

Lemma le_groups_count msg : 4 * Z.of_nat (length (le_groups msg)) <= zlen msg + 3.
Proof.
  induction msg as [|a|a b|a b c|a b c d r IH] using list_ind4;
    rewrite ?zlen_length in *; cbn [le_groups length] in *; lia.
Qed.

Lemma write_int_bytes_nonempty v : is_i32 v = true -> exists b t, write_int_bytes v = b :: t.
Proof.
  intros Hv. destruct (varint_roundtrip v [] Hv eq_refl) as [bs [Hw [_ Hl]]].
  unfold write_int_bytes. rewrite Hw. destruct bs as [|b t]; [cbn in Hl; lia|]. eauto.
Qed.

Lemma pack_ints_ok vs : forallb is_i32 vs = true -> pack_ints vs = Ok (flat_map write_int_bytes vs).
Proof.
  induction vs as [|v vs IH]; cbn [forallb pack_ints flat_map]; intros H; [reflexivity|].
  apply andb_true_iff in H as [Hv Hvs]. rewrite write_int_bytes_eq by exact Hv.
  rewrite IH by exact Hvs. reflexivity.
Qed.

Lemma packed_bytes_ok vs : forallb is_i32 vs = true -> bytes_ok (flat_map write_int_bytes vs) = true.
Proof.
  induction vs as [|v vs IH]; cbn [forallb flat_map]; intros H; [reflexivity|].
  apply andb_true_iff in H as [Hv Hvs]. apply bytes_ok_app; [|apply IH, Hvs].
  exact (field_bytes_ok (FInt v) Hv).
Qed.

Lemma packed_length vs : forallb is_i32 vs = true -> (length vs <= length (flat_map write_int_bytes vs))%nat.
Proof.
  induction vs as [|v vs IH]; cbn [forallb flat_map length]; intros H; [lia|].
  apply andb_true_iff in H as [Hv Hvs]. destruct (write_int_bytes_nonempty v Hv) as [b [t ->]].
  rewrite app_length. cbn [length]. specialize (IH Hvs). lia.
Qed.

Lemma msg_loop_packed vs : forall fuel room, forallb is_i32 vs = true ->
  (length vs <= length fuel)%nat -> Z.of_nat (length vs) <= room ->
  msg_loop fuel (flat_map write_int_bytes vs) room = (Ok (flat_map i32_to_le vs), []).
Proof.
  induction vs as [|v vs IH]; intros fuel room H Hf Hr.
  - destruct fuel; reflexivity.
  - cbn [forallb] in H. apply andb_true_iff in H as [Hv Hvs].
    cbn [flat_map length] in *. destruct (write_int_bytes_nonempty v Hv) as [b [t Hb]].
    pose proof (read_write_int v (flat_map write_int_bytes vs) Hv (packed_bytes_ok vs Hvs)) as Hrd.
    rewrite Hb in *. rewrite <- app_comm_cons in *.
    destruct fuel as [|f0 fuel]; [cbn [length] in Hf; lia|]. cbn [length] in Hf.
    cbn [msg_loop]. rewrite Hrd. cbn [map]. replace (room <=? 0) with false by lia.
    rewrite IH by (try assumption; lia). reflexivity.
Qed.

(* ---------- the built-in Huffman table ---------- *)
Lemma demo_table_wf : wf_table demo_table = true.
Proof. vm_compute. reflexivity. Qed.

(* ---------- one data chunk ---------- *)
Lemma data_roundtrip k d bs v rest :
  version_ge v V5 = true -> bytes_ok d = true -> zlen d <= 65536 ->
  write_chunk_impl k d = Ok bs ->
  exists h c, bs = h ++ c /\ 0 <= zlen c <= 65535 /\ zlen h = chdr_len (HData k (zlen c))
    /\ chdr_read v (bs ++ rest) = (Ok (Some (HData k (zlen c), c ++ rest)), chdr_warns (HData k (zlen c)))
    /\ split_at (zlen c) (c ++ rest) = Some (c, rest)
    /\ demo_decompress demo_dec_fuel demo_table c demo_cap = Ok d.
Proof.
  intros Hv Hd Hlen H. unfold write_chunk_impl in H.
  destruct (compress demo_table d false demo_cap) as [c| | |] eqn:Ec; try discriminate.
  destruct (65535 <? zlen c) eqn:En; [discriminate|].
  pose proof (zlen_nonneg c) as Hc0.
  destruct (chdr_roundtrip (HData k (zlen c)) v (c ++ rest)) as [h [Hw [Hr Hl]]];
    [cbn [chdr_ok]; lia|exact Hv|].
  rewrite chdr_write_v5 in Hw by exact Hv. rewrite Hw in H. injection H as <-.
  exists h, c. split; [reflexivity|]. split; [lia|]. split; [exact Hl|].
  split; [rewrite <- app_assoc; exact Hr|]. split; [apply split_at_app; reflexivity|].
  rewrite demo_decompress_eq. rewrite <- (app_nil_r c).
  apply (roundtrip demo_table d false demo_cap c [] demo_cap demo_dec_fuel demo_table_wf Hd Ec).
  - rewrite zlen_length in Hlen. pose proof demo_cap_val. lia.
  - rewrite zlen_length in En. pose proof demo_dec_fuel_val. lia.
Qed.

Lemma write_message_inv msg bs : bytes_ok msg = true -> write_message msg = Ok bs ->
  write_chunk_impl KMessage (flat_map write_int_bytes (le_groups msg)) = Ok bs
  /\ zlen (flat_map write_int_bytes (le_groups msg)) <= 65536.
Proof.
  intros Hm H. unfold write_message in H. rewrite pack_ints_ok in H by (apply le_groups_ok, Hm).
  unfold DEMO_MAX_SIZE in H.
  destruct (65536 <? zlen (flat_map write_int_bytes (le_groups msg))) eqn:E; [discriminate|].
  split; [exact H|lia].
Qed.

(* ---------- one chunk, written and read back ---------- *)
Theorem chunk_roundtrip v prev c bs prev' rest :
  version_ge v V5 = true -> chunk_ok c = true -> k15_chunk c = false ->
  write_chunk prev c = Ok (bs, prev') ->
  read_chunk v {| ds_rest := bs ++ rest; ds_tick := prev |}
    = (Ok (Some (pad4_chunk c, {| ds_rest := rest; ds_tick := prev' |})), [])
  /\ 1 <= zlen bs.
Proof.
  intros Hv Hok Hk H. destruct c as [tick kf|d|d|d|]; cbn [write_chunk chunk_ok k15_chunk pad4_chunk] in *.
  - (* tick *)
    unfold write_tick in H.
    destruct (tick_marker_new tick prev kf V5) as [tm| | |] eqn:Etm; try discriminate.
    destruct (chdr_write (HTick tm kf) V5) as [h| | |] eqn:Eh; try discriminate.
    injection H as <- <-.
    assert (Hch : chdr_ok (HTick tm kf) = true /\
                  match tm with
                  | TAbsolute t => t = tick /\ match prev with Some p => p < tick | None => True end
                  | TDelta dd => exists p, prev = Some p /\ tick = p + dd
                  end).
    { unfold tick_marker_new in Etm. destruct prev as [p|].
      - destruct (p <? tick) eqn:Ep; cbn [negb] in Etm; [|discriminate].
        destruct (is_i32 (tick - p)) eqn:Ei.
        + destruct (negb kf && (tick - p <=? max_tick_delta V5)) eqn:Ed.
          * destruct ((tick - p <? 0) || (255 <? tick - p)); [discriminate|]. injection Etm as <-.
            cbn [max_tick_delta] in Ed. cbn [chdr_ok]. split; [lia|]. exists p. split; [reflexivity|lia].
          * injection Etm as <-. cbn [chdr_ok]. split; [exact Hok|]. split; [reflexivity|lia].
        + injection Etm as <-. cbn [chdr_ok]. split; [exact Hok|]. split; [reflexivity|lia].
      - injection Etm as <-. cbn [chdr_ok]. split; [exact Hok|]. split; [reflexivity|exact I]. }
    destruct Hch as [Hch Htm].
    destruct (chdr_roundtrip (HTick tm kf) v rest Hch Hv) as [h' [Hw [Hr Hl]]].
    rewrite chdr_write_v5 in Hw by exact Hv. rewrite Eh in Hw. injection Hw as <-.
    split; [|rewrite Hl; destruct tm; cbn [chdr_len]; lia].
    unfold read_chunk. cbn [ds_rest ds_tick]. rewrite Hr. cbn [chdr_warns].
    destruct tm as [dd|t].
    + destruct Htm as [p [-> ->]]. unfold is_i32, i32_max in *.
      replace (2147483647 <? p + dd) with false by lia. reflexivity.
    + destruct Htm as [-> Hp]. destruct prev as [p|]; [|reflexivity].
      replace (tick <=? p) with false by lia. reflexivity.
  - (* snapshot *)
    destruct (write_chunk_impl KSnapshot d) as [b| | |] eqn:Ew; try discriminate. injection H as <- <-.
    unfold DEMO_MAX_SIZE in Hk.
    destruct (data_roundtrip KSnapshot d b v rest Hv Hok ltac:(lia) Ew) as [h [c [-> [Hc [Hl [Hr [Hs Hdec]]]]]]].
    split; [|rewrite zlen_app, Hl; cbn [chdr_len]; pose proof (zlen_nonneg c);
             destruct (zlen c <? 30); [lia|destruct (zlen c <=? 255); lia]].
    unfold read_chunk. cbn [ds_rest ds_tick]. rewrite Hr, Hs, Hdec. reflexivity.
  - (* snapshot delta *)
    destruct (write_chunk_impl KSnapshotDelta d) as [b| | |] eqn:Ew; try discriminate. injection H as <- <-.
    unfold DEMO_MAX_SIZE in Hk.
    destruct (data_roundtrip KSnapshotDelta d b v rest Hv Hok ltac:(lia) Ew) as [h [c [-> [Hc [Hl [Hr [Hs Hdec]]]]]]].
    split; [|rewrite zlen_app, Hl; cbn [chdr_len]; pose proof (zlen_nonneg c);
             destruct (zlen c <? 30); [lia|destruct (zlen c <=? 255); lia]].
    unfold read_chunk. cbn [ds_rest ds_tick]. rewrite Hr, Hs, Hdec. reflexivity.
  - (* message *)
    destruct (write_message d) as [b| | |] eqn:Ew; try discriminate. injection H as <- <-.
    unfold DEMO_MAX_SIZE in Hk.
    destruct (write_message_inv d b Hok Ew) as [Ew' Hpl].
    pose proof (le_groups_ok d Hok) as Hg.
    destruct (data_roundtrip KMessage _ b v rest Hv (packed_bytes_ok _ Hg) Hpl Ew')
      as [h [c [-> [Hc [Hl [Hr [Hs Hdec]]]]]]].
    split; [|rewrite zlen_app, Hl; cbn [chdr_len]; pose proof (zlen_nonneg c);
             destruct (zlen c <? 30); [lia|destruct (zlen c <=? 255); lia]].
    unfold read_chunk. cbn [ds_rest ds_tick]. rewrite Hr, Hs, Hdec.
    rewrite msg_loop_packed.
    + rewrite le_groups_pad4 by exact Hok. reflexivity.
    + exact Hg.
    + cbn [length]. pose proof (packed_length _ Hg). lia.
    + unfold DEMO_MAX_INTS. pose proof (le_groups_count d). lia.
  - discriminate.
Qed.

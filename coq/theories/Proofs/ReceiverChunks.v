(* delta_chunks in closed form: one SnapEmpty, one SnapSingle, or ceil(len/900)
   Snap messages whose data concatenate to the original; never a panic below
   2^31 parts. *)
From LibTw2 Require Import Base.Res Model.Receiver Proofs.ReceiverBase.
From Coq Require Import ZArith Lia Bool List ZifyBool ZifyNat.
Open Scope Z_scope.

(* ---------- cutting a list into pieces of p elements ---------- *)

Definition chunk_p (p : nat) (data : bytes) (i : nat) : bytes := firstn p (skipn (p * i) data).

Lemma firstn_add {A} a b (l : list A) : firstn (a + b) l = firstn a l ++ firstn b (skipn a l).
Proof.
  revert l. induction a as [|a IH]; intros l; [reflexivity|].
  destruct l as [|x l]; [rewrite skipn_nil, !firstn_nil; reflexivity|].
  cbn [Nat.add firstn skipn app]. f_equal. apply IH.
Qed.

Lemma concat_chunks_from p data n : forall i,
  concat (map (chunk_p p data) (seq i n)) = firstn (p * n) (skipn (p * i) data).
Proof.
  induction n as [|n IH]; intros i.
  - rewrite Nat.mul_0_r. reflexivity.
  - cbn [seq map concat]. rewrite IH. unfold chunk_p.
    replace (p * S n)%nat with (p + p * n)%nat by lia.
    rewrite firstn_add. f_equal. rewrite skipn_skipn. do 2 f_equal. lia.
Qed.

Lemma concat_chunks p data n : (length data <= p * n)%nat ->
  concat (map (chunk_p p data) (seq 0 n)) = data.
Proof.
  intros H. rewrite concat_chunks_from. rewrite Nat.mul_0_r. cbn [skipn]. apply firstn_all2. exact H.
Qed.

Lemma chunk_p_length p data i : (length (chunk_p p data i) <= p)%nat.
Proof. unfold chunk_p. rewrite firstn_length. lia. Qed.

(* the slice DeltaChunks::next takes is that piece *)
Lemma chunk_sub_list p data i : (p * i <= length data)%nat ->
  sub_list data (Z.of_nat p * Z.of_nat i) (Z.min (Z.of_nat p * (Z.of_nat i + 1)) (lenZ data))
  = chunk_p p data i.
Proof.
  intros H. unfold sub_list, chunk_p. rewrite lenZ_spec.
  replace (Z.to_nat (Z.of_nat p * Z.of_nat i)) with (p * i)%nat by lia.
  set (l := skipn (p * i) data).
  assert (Hl : length l = (length data - p * i)%nat) by (unfold l; apply skipn_length).
  destruct (Z_le_gt_dec (Z.of_nat p * (Z.of_nat i + 1)) (Z.of_nat (length data))) as [Hle|Hgt].
  - rewrite Z.min_l by lia. f_equal. lia.
  - rewrite Z.min_r by lia.
    replace (Z.to_nat (Z.of_nat (length data) - Z.of_nat p * Z.of_nat i)) with (length l) by lia.
    rewrite firstn_all. symmetry. apply firstn_all2. lia.
Qed.

(* ---------- the three message forms ---------- *)

Definition PACK : nat := 900.
Lemma PACK_Z : MAX_SNAPSHOT_PACKSIZE = Z.of_nat PACK.
Proof. reflexivity. Qed.
Lemma PACK_pos : (0 < PACK)%nat.
Proof. unfold PACK. lia. Qed.

Definition nparts (data : bytes) : nat := ((length data + (PACK - 1)) / PACK)%nat.
Definition chunks_of (data : bytes) : list bytes := map (chunk_p PACK data) (seq 0 (nparts data)).

(* message i of a multi-part transfer with the given pieces *)
Definition part_msg (tick dt crc : Z) (chunks : list bytes) (i : nat) : snapmsg :=
  MSnap tick dt (Z.of_nat (length chunks)) (Z.of_nat i) crc (nth i chunks []).
Definition multi_msgs (tick dt crc : Z) (chunks : list bytes) : list snapmsg :=
  map (part_msg tick dt crc chunks) (seq 0 (length chunks)).

Definition xfer_msgs (tick dt crc : Z) (data : bytes) : list snapmsg :=
  match nparts data with
  | O => [MSnapEmpty tick dt]
  | S O => [MSnapSingle tick dt crc data]
  | _ => multi_msgs tick dt crc (chunks_of data)
  end.

Local Opaque PACK.

Lemma nparts_bounds data : (PACK * (nparts data - 1) < length data \/ length data = 0)%nat
  /\ (length data <= PACK * nparts data)%nat.
Proof.
  unfold nparts. pose proof PACK_pos as Hp.
  pose proof (Nat.div_mod (length data + (PACK - 1)) PACK ltac:(lia)) as Hdm.
  pose proof (Nat.mod_upper_bound (length data + (PACK - 1)) PACK ltac:(lia)) as Hmod.
  set (q := ((length data + (PACK - 1)) / PACK)%nat) in *.
  set (r := ((length data + (PACK - 1)) mod PACK)%nat) in *.
  split.
  - destruct (length data) eqn:E; [right; reflexivity|left].
    destruct q as [|q']; [lia|]. replace (S q' - 1)%nat with q' by lia. nia.
  - nia.
Qed.

Lemma nparts_Z data :
  (lenZ data + MAX_SNAPSHOT_PACKSIZE - 1) / MAX_SNAPSHOT_PACKSIZE = Z.of_nat (nparts data).
Proof.
  rewrite lenZ_spec, PACK_Z. unfold nparts. pose proof PACK_pos.
  rewrite Nat2Z.inj_div. f_equal. lia.
Qed.

Lemma chunks_of_length data : length (chunks_of data) = nparts data.
Proof. unfold chunks_of. rewrite map_length, seq_length. reflexivity. Qed.

Lemma chunks_of_nth data i : (i < nparts data)%nat -> nth i (chunks_of data) [] = chunk_p PACK data i.
Proof.
  intros H. unfold chunks_of.
  rewrite nth_indep with (d' := chunk_p PACK data 0%nat) by (rewrite map_length, seq_length; exact H).
  rewrite map_nth. rewrite seq_nth by exact H. reflexivity.
Qed.

Lemma chunks_of_concat data : concat (chunks_of data) = data.
Proof. apply concat_chunks. apply nparts_bounds. Qed.

Lemma chunks_of_small data : Forall (fun c => (length c <= PACK)%nat) (chunks_of data).
Proof.
  unfold chunks_of. apply Forall_forall. intros c Hc. apply in_map_iff in Hc.
  destruct Hc as [i [<- _]]. apply chunk_p_length.
Qed.

Lemma nparts_le data k : (length data <= k * PACK)%nat -> (nparts data <= k)%nat.
Proof.
  intros H. unfold nparts. pose proof PACK_pos.
  apply Nat.lt_succ_r. apply Nat.div_lt_upper_bound; [lia|]. nia.
Qed.

Lemma nparts_zero data : nparts data = 0%nat <-> data = [].
Proof.
  pose proof (nparts_bounds data) as [H1 H2]. pose proof PACK_pos. split.
  - intros E. rewrite E in H2. destruct data; [reflexivity|cbn [length] in H2; lia].
  - intros ->. unfold nparts. cbn [length]. apply Nat.div_small. lia.
Qed.

(* the iterator, run from part `idx` on *)
Lemma chunks_from_spec tick dt crc data n k : forall idx,
  (forall i, idx <= i < idx + k -> PACK * i <= length data)%nat ->
  chunks_from tick dt n crc data (lenZ data) k (Z.of_nat idx)
  = Ok (map (fun i => MSnap tick dt n (Z.of_nat i) crc (chunk_p PACK data i)) (seq idx k)).
Proof.
  induction k as [|k IH]; intros idx H; [reflexivity|].
  cbn [chunks_from seq map]. unfold chunk_msg.
  assert (Hidx : (PACK * idx <= length data)%nat) by (apply H; lia).
  rewrite slice_spec.
  - rewrite PACK_Z. rewrite chunk_sub_list by exact Hidx. cbn [bind].
    replace (Z.of_nat idx + 1) with (Z.of_nat (S idx)) by lia.
    rewrite IH by (intros i Hi; apply H; lia). reflexivity.
  - rewrite PACK_Z. lia.
  - rewrite PACK_Z, lenZ_spec. apply Z.min_glb; lia.
  - apply Z.le_min_r.
Qed.

(* delta_chunks never panics (below 2^31 parts) and yields exactly xfer_msgs with the relative tick *)
Theorem delta_chunks_spec tick base data crc : Z.of_nat (nparts data) <= i32_max ->
  delta_chunks tick base data crc = Ok (xfer_msgs tick (wrap32 (tick - base)) crc data).
Proof.
  intros Hn. unfold delta_chunks. rewrite nparts_Z.
  replace (i32_max <? Z.of_nat (nparts data)) with false by lia.
  unfold xfer_msgs.
  destruct (nparts data) as [|[|n]] eqn:E; [reflexivity|reflexivity|].
  replace (Z.of_nat (S (S n)) =? 0) with false by lia.
  replace (Z.of_nat (S (S n)) =? 1) with false by lia.
  rewrite Nat2Z.id. change 0 with (Z.of_nat 0).
  rewrite chunks_from_spec.
  - f_equal. unfold multi_msgs. rewrite chunks_of_length, E.
    apply map_ext_in. intros i Hi. apply in_seq in Hi. unfold part_msg.
    rewrite chunks_of_length, E. rewrite chunks_of_nth by lia. reflexivity.
  - intros i Hi. pose proof (nparts_bounds data) as [Hb _]. rewrite E in Hb. destruct Hb as [Hb|Hb].
    + replace (S (S n) - 1)%nat with (S n) in Hb by lia. nia.
    + apply length_zero_iff_nil in Hb. apply nparts_zero in Hb. lia.
Qed.

(* C14: the generated `encode` of a well-formed codec writes exactly the canonical
   bytes of a described value (or the fitting prefix and CapacityError) *)
From LibTw2 Require Import Base.Res Model.Varint Model.Packer Model.Codec
  Proofs.VarintArith Proofs.VarintProofs Proofs.PackerProofs Proofs.CodecStr Proofs.CodecDecode.
From Coq Require Import ZArith Lia Bool List ZifyBool.
Open Scope Z_scope.

Lemma elookup_from t x r : elookup t x = Some r -> efrom r = x.
Proof. unfold elookup. intros H. apply find_some in H as [_ H]. lia. Qed.

Lemma elookup_in t x r : elookup t x = Some r -> In r t.
Proof. unfold elookup. intros H. apply find_some in H as [H _]. exact H. Qed.

(* what the generator's write of a member puts into the packer *)
Lemma write_field_canon m w v : mop_ok m = true -> typed m v = true -> wop_of m = Some w ->
  exists f, write_field m w v = Ok f /\ field_wf f = true /\ field_bytes f = enc_value m v.
Proof.
  intros Hm Ht Hw. destruct m; cbn [wop_of] in Hw; cbn [typed mop_ok] in *.
  - (* MI *)
    destruct i; injection Hw as <-; cbn [typed_int] in Ht; destruct v; try discriminate;
      try (apply andb_true_iff in Ht as [Hi Hc]; exists (FInt v); repeat split; assumption).
    + exists (FInt (if b then 1 else 0)). destruct b; repeat split.
    + apply andb_true_iff in Ht as [Hi Hc]. cbn [check_int] in Hc. cbn [write_field].
      destruct (elookup t v) as [r|] eqn:E; [|discriminate].
      exists (FInt (eto r)). split; [reflexivity|].
      unfold etbl_ok in Hm. rewrite forallb_forall in Hm. specialize (Hm r (elookup_in _ _ _ E)).
      pose proof (elookup_from _ _ _ E) as Hf.
      assert (eto r = v) by lia. rewrite H. split; [exact Hi|reflexivity].
  - injection Hw as <-. destruct v; try discriminate. exists (FStr s). unfold str_ok in Ht. repeat split. exact Ht.
  - injection Hw as <-. destruct v; try discriminate. exists (FStr s).
    apply andb_true_iff in Ht as [Hc Hs]. apply negb_true_iff in Hc.
    split; [reflexivity|]. split; [|reflexivity]. cbn [field_wf]. rewrite (has_cc_nul _ Hc), Hs. reflexivity.
  - injection Hw as <-. destruct v; try discriminate. exists (FStr (print_int v)).
    destruct (print_int_str v) as [Hn Hs]. split; [reflexivity|]. split; [|reflexivity].
    cbn [field_wf]. rewrite Hn, Hs. reflexivity.
  - injection Hw as <-. destruct v; try discriminate. exists (FData s). repeat split. exact Ht.
  - injection Hw as <-. destruct v; try discriminate. exists (FRest s). repeat split. exact Ht.
  - injection Hw as <-. destruct v; try discriminate. exists (FRaw s). apply andb_true_iff in Ht as [H _]. repeat split. exact H.
  - injection Hw as <-. destruct v; try discriminate. exists (FRaw s). apply andb_true_iff in Ht as [H _]. repeat split. exact H.
  - injection Hw as <-. destruct v; try discriminate. exists (FRaw [v]). repeat split.
    cbn [field_wf]. unfold bytes_ok. cbn [forallb]. rewrite Ht. reflexivity.
  - injection Hw as <-. destruct v; try discriminate. exists (FRaw (be16 v)). repeat split.
    cbn [field_wf]. apply be16_ok. lia.
  - injection Hw as <-. destruct v; try discriminate. exists (FRest s). apply andb_true_iff in Ht as [H _]. repeat split. exact H.
  - injection Hw as <-. destruct v; try discriminate. exists (FRest s). repeat split. exact Ht.
  - injection Hw as <-. destruct v; try discriminate. exists (FInt v). repeat split. exact Ht.
  - injection Hw as <-. destruct v; try discriminate. exists (FStr s). unfold str_ok in Ht. repeat split. exact Ht.
  - discriminate.
Qed.

(* an admissible assert passes on every described value *)
Lemma check_assert_fits m a v : typed m v = true -> assert_fits m a = true -> check_assert a v = Ok tt.
Proof.
  intros Ht Ha. destruct a, m; cbn [assert_fits] in Ha; try discriminate.
  - destruct i; try discriminate. cbn [typed typed_int] in Ht. destruct v; try discriminate.
    apply andb_true_iff in Ht as [_ Hc]. cbn [check_int] in Hc. cbn [check_assert].
    destruct ((a0 <=? v) && (v <=? b0)) eqn:E; [|discriminate].
    replace ((a <=? v) && (v <=? b)) with true by lia. reflexivity.
  - destruct i; try discriminate; cbn [typed typed_int] in Ht; destruct v; try discriminate;
      apply andb_true_iff in Ht as [_ Hc]; cbn [check_int] in Hc; cbn [check_assert].
    + destruct (0 <=? v) eqn:E; [|discriminate]. replace (a <=? v) with true by lia. reflexivity.
    + destruct (a0 <=? v) eqn:E; [|discriminate]. replace (a <=? v) with true by lia. reflexivity.
  - cbn [typed] in Ht. destruct v; try discriminate. apply andb_true_iff in Ht as [Hc _].
    apply negb_true_iff in Hc. cbn [check_assert]. rewrite Hc. reflexivity.
  - cbn [typed] in Ht. destruct v; try discriminate. reflexivity.
  - cbn [typed] in Ht. destruct v; try discriminate. reflexivity.
Qed.

Lemma well_typed_nth ms : forall vs i m, well_typed ms vs = true -> nth_error ms i = Some m ->
  exists v, nth_error vs i = Some v /\ typed m v = true.
Proof.
  induction ms as [|m0 ms IH]; intros [|v0 vs] i m Ht Hn; cbn [well_typed] in Ht; try discriminate.
  - destruct i; discriminate.
  - apply andb_true_iff in Ht as [H0 Ht]. destruct i as [|i]; cbn [nth_error] in *.
    + injection Hn as <-. exists v0. split; [reflexivity|exact H0].
    + exact (IH vs i m Ht Hn).
Qed.

(* the bytes written by a list of (index, write) *)
Fixpoint wbytes (ms : list mop) (vs : list value) (ws : list (nat * wop)) : bytes :=
  match ws with
  | [] => []
  | (i, _) :: ws' =>
    match nth_error ms i, nth_error vs i with
    | Some m, Some v => enc_value m v ++ wbytes ms vs ws'
    | _, _ => wbytes ms vs ws'
    end
  end.

(* every op refers to a member, with the generator's write form / an admissible assert *)
Definition op_good (ms : list mop) (o : eop) : Prop :=
  match o with
  | EAssert i a => exists m, nth_error ms i = Some m /\ assert_fits m a = true
  | EWrite i w => exists m, nth_error ms i = Some m /\ wop_of m = Some w
  end.

Lemma lift_bw t bs : lift_pack (bw t bs) =
  (fst (bw t bs), match snd (bw t bs) with Ok u => Ok u | Err _ => Err CapacityErr | Panic s => Panic s | OutOfFuel => OutOfFuel end).
Proof. destruct (bw t bs) as [t' [u|e|s|]]; reflexivity. Qed.

Definition lbw (t : target) (bs : bytes) : target * res eerr unit := lift_pack (bw t bs).

Lemma lbw_app t a b : tgt_ok t ->
  lbw t (a ++ b) = match lbw t a with (t1, Ok _) => lbw t1 b | r => r end.
Proof.
  intros Hok. unfold lbw. rewrite bw_app by exact Hok.
  destruct (bw t a) as [t1 [[]|e|s|]]; reflexivity.
Qed.

Lemma lbw_nil t : tgt_ok t -> lbw t [] = (t, Ok tt).
Proof.
  intros Hok. unfold lbw. rewrite bw_spec by exact Hok. rewrite app_nil_r.
  unfold tgt_ok in Hok. rewrite firstn_all2 by lia.
  replace (length (t_data t) <=? t_cap t)%nat with true by (symmetry; apply Nat.leb_le; lia).
  destruct t; reflexivity.
Qed.

Lemma lbw_tgt_ok t bs : tgt_ok t -> tgt_ok (fst (lbw t bs)).
Proof.
  intros H. unfold lbw. pose proof (bw_tgt_ok t bs H). destruct (bw t bs) as [t' [u|e|s|]]; exact H0.
Qed.

Theorem encode_ops_spec ms vs : forallb mop_ok ms = true -> well_typed ms vs = true ->
  forall ops t, Forall (op_good ms) ops -> tgt_ok t ->
  encode_ops ms vs ops t = lbw t (wbytes ms vs (writes_of ops)).
Proof.
  intros Hm Ht. induction ops as [|o ops IH]; intros t Hg Hok.
  - cbn [encode_ops writes_of wbytes]. symmetry. apply lbw_nil, Hok.
  - inversion Hg as [|? ? Ho Hg']; subst. destruct o as [i a|i w]; cbn [op_good] in Ho.
    + destruct Ho as [m [Hn Ha]]. destruct (well_typed_nth _ _ _ _ Ht Hn) as [v [Hv Htv]].
      cbn [encode_ops writes_of]. rewrite Hv. rewrite (check_assert_fits m a v Htv Ha). apply IH; assumption.
    + destruct Ho as [m [Hn Hw]]. destruct (well_typed_nth _ _ _ _ Ht Hn) as [v [Hv Htv]].
      assert (Hmo : mop_ok m = true).
      { rewrite forallb_forall in Hm. apply Hm. eapply nth_error_In; eassumption. }
      destruct (write_field_canon m w v Hmo Htv Hw) as [f [Hf [Hwf Hb]]].
      cbn [encode_ops writes_of wbytes]. rewrite Hn, Hv, Hf.
      rewrite pack_field_bw by assumption. rewrite Hb.
      rewrite lbw_app by exact Hok. fold (lbw t (enc_value m v)).
      pose proof (lbw_tgt_ok t (enc_value m v) Hok) as Hok'.
      destruct (lbw t (enc_value m v)) as [t1 [[]|e|s|]]; try reflexivity.
      apply IH; assumption.
Qed.

(* ---- the generator's writes, taken together, are the canonical bytes ---- *)

Lemma nth_error_app_len {A} (pre : list A) x tl : nth_error (pre ++ x :: tl) (length pre) = Some x.
Proof. induction pre; cbn; [reflexivity|assumption]. Qed.

Lemma wbytes_writes_from MS VS : forall ms vs pre prev,
  MS = pre ++ ms -> VS = prev ++ vs -> length pre = length prev -> well_typed ms vs = true ->
  wbytes MS VS (writes_from ms (length pre)) = enc_values ms vs.
Proof.
  induction ms as [|m ms IH]; intros [|v vs] pre prev HM HV Hl Ht; cbn [well_typed] in Ht; try discriminate; [reflexivity|].
  apply andb_true_iff in Ht as [Ht1 Ht2]. cbn [writes_from enc_values].
  assert (Hrec : wbytes MS VS (writes_from ms (S (length pre))) = enc_values ms vs).
  { replace (S (length pre)) with (length (pre ++ [m])) by (rewrite app_length; cbn; lia).
    apply (IH vs (pre ++ [m]) (prev ++ [v])).
    - rewrite HM, <- app_assoc. reflexivity.
    - rewrite HV, <- app_assoc. reflexivity.
    - rewrite !app_length. cbn. lia.
    - exact Ht2. }
  destruct (wop_of m) as [w|] eqn:Ew.
  - assert (H1 : nth_error MS (length pre) = Some m) by (rewrite HM; apply nth_error_app_len).
    assert (H2 : nth_error VS (length pre) = Some v) by (rewrite HV, Hl; apply nth_error_app_len).
    cbn [wbytes]. rewrite H1, H2, Hrec. reflexivity.
  - rewrite Hrec. destruct m as [i| | | | | | | | | | | | | |]; try destruct i; try discriminate. cbn [typed] in Ht1. destruct v; try discriminate. reflexivity.
Qed.

Lemma writes_from_good MS : forall ms pre, MS = pre ++ ms ->
  Forall (fun iw => exists m, nth_error MS (fst iw) = Some m /\ wop_of m = Some (snd iw)) (writes_from ms (length pre)).
Proof.
  induction ms as [|m ms IH]; intros pre HM; cbn [writes_from]; [constructor|].
  assert (Hrec : Forall (fun iw => exists m, nth_error MS (fst iw) = Some m /\ wop_of m = Some (snd iw))
                        (writes_from ms (S (length pre)))).
  { replace (S (length pre)) with (length (pre ++ [m])) by (rewrite app_length; cbn; lia).
    apply IH. rewrite HM, <- app_assoc. reflexivity. }
  destruct (wop_of m) as [w|] eqn:Ew; [|exact Hrec].
  constructor; [|exact Hrec]. exists m. cbn [fst snd]. split; [|exact Ew]. rewrite HM. apply nth_error_app_len.
Qed.

Lemma wop_eqb_eq a b : wop_eqb a b = true -> a = b.
Proof. destruct a, b; cbn; intros H; try reflexivity; discriminate. Qed.

Lemma nw_eqb_eq a : forall b, nw_eqb a b = true -> a = b.
Proof.
  induction a as [|[i w] a IH]; intros [|[j x] b] H; cbn [nw_eqb] in H; try reflexivity; try discriminate.
  apply andb_true_iff in H as [H Hr]. apply andb_true_iff in H as [Hi Hw].
  apply Nat.eqb_eq in Hi. apply wop_eqb_eq in Hw. subst. f_equal. apply IH, Hr.
Qed.

Lemma ops_good ms ops : asserts_fit ms ops = true ->
  Forall (fun iw => exists m, nth_error ms (fst iw) = Some m /\ wop_of m = Some (snd iw)) (writes_of ops) ->
  Forall (op_good ms) ops.
Proof.
  unfold asserts_fit. induction ops as [|o ops IH]; intros Ha Hw; [constructor|].
  cbn [forallb] in Ha. apply andb_true_iff in Ha as [Ha1 Ha2].
  destruct o as [i a|i w]; cbn [writes_of] in Hw.
  - constructor; [|apply IH; assumption]. cbn [op_good].
    destruct (nth_error ms i) as [m|]; [|discriminate]. exists m. split; [reflexivity|exact Ha1].
  - inversion Hw as [|? ? H1 H2]; subst. constructor; [|apply IH; assumption]. exact H1.
Qed.

Definition wf_enc (c : codec) : bool :=
  forallb mop_ok (c_dec c)
  && nw_eqb (writes_of (c_enc c)) (writes_from (c_dec c) 0)
  && asserts_fit (c_dec c) (c_enc c).

Lemma wf_codec_enc c : wf_codec c = true -> wf_enc c = true.
Proof.
  unfold wf_codec, wf_enc. intros H. repeat (apply andb_true_iff in H as [H ?]).
  repeat (apply andb_true_iff; split); assumption.
Qed.

Theorem encode_ops_canonical c vs t : wf_enc c = true -> well_typed (c_dec c) vs = true -> tgt_ok t ->
  encode_ops (c_dec c) vs (c_enc c) t = lbw t (canonical c vs).
Proof.
  unfold wf_enc. intros H Ht Hok. apply andb_true_iff in H as [H Ha]. apply andb_true_iff in H as [Hm Hw].
  apply nw_eqb_eq in Hw.
  rewrite encode_ops_spec; try assumption.
  - rewrite Hw. unfold canonical. f_equal.
    apply (wbytes_writes_from (c_dec c) vs (c_dec c) vs [] []); try reflexivity. exact Ht.
  - apply ops_good; [exact Ha|]. rewrite Hw. apply (writes_from_good (c_dec c) (c_dec c) []). reflexivity.
Qed.

Lemma empty_ok cap : tgt_ok (empty_target cap).
Proof. unfold tgt_ok, empty_target. cbn. lia. Qed.

Lemma finish_lbw_empty cap bs :
  finish_target (lbw (empty_target cap) bs) =
  if (length bs <=? cap)%nat then Ok bs else Err CapacityErr.
Proof.
  unfold lbw. rewrite bw_spec by apply empty_ok. cbn [empty_target t_data t_cap app].
  destruct (length bs <=? cap)%nat eqn:E; cbn [cap_res lift_pack finish_target t_data]; [|reflexivity].
  apply Nat.leb_le in E. rewrite firstn_all2 by lia. reflexivity.
Qed.

(* S::encode: the canonical bytes, or CapacityError when they do not fit *)
Theorem encode_canonical c vs cap : wf_enc c = true -> well_typed (c_dec c) vs = true ->
  encode c vs cap = if (length (canonical c vs) <=? cap)%nat then Ok (canonical c vs) else Err CapacityErr.
Proof.
  intros Hwf Ht. unfold encode. rewrite encode_ops_canonical by (try assumption; apply empty_ok).
  apply finish_lbw_empty.
Qed.

(* Demo model: the header written by Writer::new is read back by Reader::new, and a whole
   recording (header + any accepted chunk sequence) is read back chunk by chunk. *)
From LibTw2 Require Import Base.Res Base.Bits Model.Varint Model.Huffman Model.Demo
  Proofs.VarintProofs Proofs.DemoBase Proofs.DemoChunk.
From Coq Require Import ZArith Lia Bool List ZifyBool ZifyNat.
Open Scope Z_scope.

(* ---------- capped strings ---------- *)
Lemma capped_spec n raw c : capped n raw = Some c ->
  zlen raw < Z.of_nat n /\ c = raw ++ zeros (n - length raw) /\ zlen c = Z.of_nat n.
Proof.
  unfold capped. destruct (Z.of_nat n <=? zlen raw) eqn:E; [discriminate|]. intros H. injection H as <-.
  split; [lia|]. split; [reflexivity|]. rewrite zlen_app, zlen_zeros. rewrite zlen_length in *. lia.
Qed.

Lemma cstr_raw_padded s k : no_nul s = true -> cstr_raw (s ++ zeros k) = s.
Proof.
  induction s as [|b s IH]; cbn [no_nul forallb app cstr_raw]; intros H.
  - destruct k; reflexivity.
  - apply andb_true_iff in H as [Hb Hs]. destruct (b =? 0); [discriminate|].
    fold (no_nul s) in Hs. rewrite IH by exact Hs. reflexivity.
Qed.

Lemma zeros_all_zero k : existsb (fun c => negb (c =? 0)) (zeros k) = false.
Proof. induction k; [reflexivity|]. cbn. exact IHk. Qed.

Lemma cstr_weird_padded s k : no_nul s = true -> cstr_weird (s ++ zeros k) = false.
Proof.
  induction s as [|b s IH]; cbn [no_nul forallb app cstr_weird]; intros H.
  - destruct k; [reflexivity|]. cbn [zeros repeat cstr_weird Z.eqb]. apply zeros_all_zero.
  - apply andb_true_iff in H as [Hb Hs]. destruct (b =? 0); [discriminate|].
    fold (no_nul s) in Hs. apply IH, Hs.
Qed.

Lemma rd_be_i32s_zeros n r : rd_be_i32s n (zeros (4 * n) ++ r) = Some (repeat 0 n, r).
Proof.
  induction n as [|n IH]; [reflexivity|].
  replace (4 * S n)%nat with (4 + 4 * n)%nat by lia. rewrite zeros_app, <- app_assoc.
  cbn [rd_be_i32s]. change (zeros 4) with (be32 0). rewrite rd_be_i32_be32 by reflexivity.
  rewrite IH. reflexivity.
Qed.

Lemma kind_magic_len k : zlen (kind_magic k) = 8.
Proof. destruct k; reflexivity. Qed.
Lemma kind_of_kind_magic k : kind_of_magic (kind_magic k) = Some k.
Proof. destruct k; reflexivity. Qed.

Lemma bytes_eqb_refl a : bytes_eqb a a = true.
Proof. induction a as [|x a IH]; [reflexivity|]. cbn [bytes_eqb]. rewrite Z.eqb_refl, IH. reflexivity. Qed.

Lemma Ok_inj {E A} (a b : A) : @Ok E A a = Ok b -> a = b.
Proof. intros H. injection H as H. exact H. Qed.

(* ---------- the header ---------- *)
Lemma version_of_num_num v : version_of_num (version_num v) = Some v.
Proof. destruct v; reflexivity. Qed.

Theorem header_roundtrip i hb rest : winput_ok i = true -> writer_new i = Ok hb ->
  exists h, read_header_start (hb ++ rest) = Ok (h, rest)
    /\ header_view h = expected_view i /\ header_warnings h = []
    /\ version_ge (rh_version h) V5 = true
    /\ rh_version h = match wi_sha256 i with Some _ => V6 | None => V5 end.
Proof.
  intros Hok H. unfold winput_ok in Hok. repeat rewrite andb_true_iff in Hok.
  destruct Hok as [[[[[[[[[[[[[[[Hnv1 Hnv2] Hnv3] Hmn1] Hmn2] Hmn3] Hts1] Hts2] Hts3] Hsha] Hcrc1] Hcrc2] Hl1] Hl2] Hmap1] Hmap2].
  unfold writer_new in H.
  destruct (capped 64 (wi_net_version i)) as [nv|] eqn:Env; [|discriminate].
  destruct (capped 64 (wi_map_name i)) as [mn|] eqn:Emn; [|discriminate].
  destruct (i32_max <? zlen (wi_map i)) eqn:Eml; [discriminate|].
  destruct (capped 20 (wi_timestamp i)) as [ts|] eqn:Ets; [|discriminate].
  apply Ok_inj in H. subst hb.
  destruct (capped_spec _ _ _ Env) as [_ [Hnv Lnv]].
  destruct (capped_spec _ _ _ Emn) as [_ [Hmn Lmn]].
  destruct (capped_spec _ _ _ Ets) as [_ [Hts Lts]].
  pose proof (zlen_nonneg (wi_map i)) as Hm0.
  unfold expected_view.
  destruct (wi_sha256 i) as [sha|] eqn:Esha.
  all: unfold read_header_start; rewrite <- !app_assoc;
    rewrite (split_at_app magic _ 7 eq_refl); rewrite bytes_eqb_refl; cbn [negb];
    cbn [app]; rewrite version_of_num_num;
    rewrite (split_at_app nv _ 64) by (symmetry; exact Lnv);
    rewrite (split_at_app mn _ 64) by (symmetry; exact Lmn);
    rewrite rd_be_i32_be32 by (unfold is_i32, i32_min, i32_max in *; lia);
    replace (zlen (wi_map i) <? 0) with false by lia;
    rewrite rd_be_u32_be32; rewrite u32_of_small by lia;
    rewrite (split_at_app (kind_magic (wi_kind i)) _ 8) by (symmetry; apply kind_magic_len);
    rewrite kind_of_kind_magic;
    rewrite rd_be_i32_be32 by (unfold is_i32, i32_min, i32_max in *; lia);
    replace (wi_length i <? 0) with false by lia;
    rewrite (split_at_app ts _ 20) by (symmetry; exact Lts);
    replace (version_ge _ V4) with true by reflexivity;
    change (zeros 260) with (be32 0 ++ zeros (4 * 64)); rewrite <- !app_assoc;
    rewrite rd_be_i32_be32 by reflexivity;
    change (0 <? 0) with false; change (64 <? 0) with false; cbv iota;
    rewrite rd_be_i32s_zeros; cbv beta iota.
  - apply andb_true_iff in Hsha as [_ Hs32].
    rewrite (split_at_app SHA_256_EXTENSION _ 16 eq_refl).
    rewrite bytes_eqb_refl. cbn [negb].
    rewrite (split_at_app sha _ 32) by lia. cbv beta iota.
    rewrite (split_at_app (wi_map i) rest) by reflexivity.
    eexists. split; [reflexivity|].
    split; [|split; [|split]]; [| |reflexivity|reflexivity].
    + unfold header_view, tm_markers. cbn [rh_version rh_net_version rh_map_name rh_map_size rh_map_crc
        rh_kind rh_length rh_timestamp rh_tm_amount rh_tm_markers rh_sha256 rh_map].
      rewrite Hnv, Hmn, Hts. rewrite !cstr_raw_padded by assumption. reflexivity.
    + unfold header_warnings, tm_markers. cbn [rh_net_version rh_map_name rh_timestamp rh_tm_amount rh_tm_markers].
      rewrite Hnv, Hmn, Hts. rewrite !cstr_weird_padded by assumption. reflexivity.
  - cbn [app].
    rewrite (split_at_app (wi_map i) rest) by reflexivity.
    eexists. split; [reflexivity|].
    split; [|split; [|split]]; [| |reflexivity|reflexivity].
    + unfold header_view, tm_markers. cbn [rh_version rh_net_version rh_map_name rh_map_size rh_map_crc
        rh_kind rh_length rh_timestamp rh_tm_amount rh_tm_markers rh_sha256 rh_map].
      rewrite Hnv, Hmn, Hts. rewrite !cstr_raw_padded by assumption. reflexivity.
    + unfold header_warnings, tm_markers. cbn [rh_net_version rh_map_name rh_timestamp rh_tm_amount rh_tm_markers].
      rewrite Hnv, Hmn, Hts. rewrite !cstr_weird_padded by assumption. reflexivity.
Qed.

(* ---------- a sequence of chunks ---------- *)
Lemma chunks_roundtrip v : forall cs prev bs fuel,
  version_ge v V5 = true -> forallb chunk_ok cs = true -> existsb k15_chunk cs = false ->
  write_chunks prev cs = Ok bs -> (length cs < length fuel)%nat ->
  read_chunks fuel v {| ds_rest := bs; ds_tick := prev |}
    = (map (fun c => (pad4_chunk c, [])) cs, (Ok tt, []))
  /\ Z.of_nat (length cs) <= zlen bs.
Proof.
  induction cs as [|c cs IH]; intros prev bs fuel Hv Hok Hk H Hf.
  - cbn [write_chunks] in H. injection H as <-. destruct fuel as [|f fuel]; [cbn in Hf; lia|].
    split; [reflexivity|]. rewrite (@zlen_nil Z). cbn [length]. lia.
  - cbn [forallb existsb] in *. apply andb_true_iff in Hok as [Hc Hcs]. apply orb_false_iff in Hk as [Hkc Hkcs].
    cbn [write_chunks] in H.
    destruct (write_chunk prev c) as [[b prev']| | |] eqn:Ew; try discriminate.
    destruct (write_chunks prev' cs) as [t| | |] eqn:Et; try discriminate.
    injection H as <-.
    destruct fuel as [|f fuel]; [cbn in Hf; lia|]. cbn [length] in Hf.
    destruct (chunk_roundtrip v prev c b prev' t Hv Hc Hkc Ew) as [Hr Hl].
    destruct (IH prev' t fuel Hv Hcs Hkcs Et ltac:(lia)) as [IH1 IH2].
    split.
    + cbn [read_chunks]. rewrite Hr. rewrite IH1. reflexivity.
    + rewrite zlen_app. cbn [length]. lia.
Qed.

(* ---------- the whole file ---------- *)
Theorem raw_roundtrip i cs file :
  winput_ok i = true -> forallb chunk_ok cs = true -> existsb k15_chunk cs = false ->
  write_all i cs = Ok file ->
  exists h, read_all file = Ok (h, [], (map (fun c => (pad4_chunk c, [])) cs, (Ok tt, [])))
    /\ header_view h = expected_view i.
Proof.
  intros Hi Hcs Hk H. unfold write_all in H.
  destruct (writer_new i) as [hb| | |] eqn:Eh; try discriminate.
  destruct (write_chunks None cs) as [t| | |] eqn:Et; try discriminate.
  injection H as <-.
  destruct (header_roundtrip i hb t Hi Eh) as [h [Hr [Hview [Hw [Hv _]]]]].
  exists h. split; [|exact Hview].
  unfold read_all, reader_new. rewrite Hr, Hw.
  destruct (chunks_roundtrip (rh_version h) cs None t (0 :: t) Hv Hcs Hk Et) as [Hc _].
  - cbn [length]. destruct (chunks_roundtrip (rh_version h) cs None t (repeat 0 (S (length cs))) Hv Hcs Hk Et) as [_ Hl].
    + rewrite repeat_length. lia.
    + rewrite zlen_length in Hl. lia.
  - rewrite Hc. reflexivity.
Qed.

(* C18, merging: for the parts of one multi-part info, PartialServerInfo::merge applied along
   an order of part indices ends in a state that depends only on the *set* of parts merged
   (clients up to the documented sort).

   `rep = false` is the code as it is (known finding K18: `received` is not accumulated): the
   statement holds for orders without a repeated part.  `rep = true` is the one-line repair
   `self.received |= other.received`: the statement holds for every order, with any repetition.
   Both are proved by induction over the order list with one invariant. *)
From LibTw2 Require Import Base.Res Model.ServerBrowse Proofs.ServerBrowseSort.
From Coq Require Import ZArith Lia Bool List Arith Sorting.Permutation.
Open Scope Z_scope.

(* ---------- projections and decidable comparisons ---------- *)

Definition hdr (p : psi) : sinfo := set_clients (p_info p) [].
Definition cl (p : psi) : list client := i_clients (p_info p).
Definition ver (p : psi) : siv := i_version (p_info p).
Definition tok (p : psi) : Z := i_token (p_info p).
Definition bit0 (p : psi) : bool := negb (Z.land (p_received p) 1 =? 0).
(* the part that carries the header of an extended info: packet number 0 *)
Definition is_main (p : psi) : bool := siv_eqb (ver p) V6Ex && bit0 p.

Definition opt_eqb {A} (f : A -> A -> bool) (a b : option A) : bool :=
  match a, b with Some x, Some y => f x y | None, None => true | _, _ => false end.

(* equality of everything but the clients *)
Definition hdr_eqb (a b : sinfo) : bool :=
  siv_eqb (i_version a) (i_version b) && (i_token a =? i_token b)
  && bytes_eqb (i_ver a) (i_ver b) && bytes_eqb (i_name a) (i_name b)
  && opt_eqb bytes_eqb (i_hostname a) (i_hostname b) && bytes_eqb (i_map a) (i_map b)
  && opt_eqb Z.eqb (i_map_crc a) (i_map_crc b) && opt_eqb Z.eqb (i_map_size a) (i_map_size b)
  && bytes_eqb (i_game_type a) (i_game_type b) && (i_flags a =? i_flags b)
  && opt_eqb Z.eqb (i_progression a) (i_progression b) && opt_eqb Z.eqb (i_skill_level a) (i_skill_level b)
  && (i_num_players a =? i_num_players b) && (i_max_players a =? i_max_players b)
  && (i_num_clients a =? i_num_clients b) && (i_max_clients a =? i_max_clients b).

Lemma siv_eqb_eq a b : siv_eqb a b = true <-> a = b.
Proof. destruct a, b; cbn; split; intros H; try discriminate; reflexivity. Qed.

Lemma bytes_eqb_eq : forall a b, bytes_eqb a b = true -> a = b.
Proof.
  induction a as [|x a IH]; destruct b as [|y b]; cbn [bytes_eqb]; intros H; try discriminate; [reflexivity|].
  apply andb_true_iff in H as [H1 H2]. apply Z.eqb_eq in H1. subst. f_equal. apply IH, H2.
Qed.

Lemma opt_eqb_eq {A} (f : A -> A -> bool) (a b : option A) :
  (forall x y, f x y = true -> x = y) -> opt_eqb f a b = true -> a = b.
Proof. intros Hf. destruct a, b; cbn; intros H; try discriminate; [f_equal; apply Hf, H|reflexivity]. Qed.

Lemma hdr_eqb_eq a b : hdr_eqb a b = true -> set_clients a [] = set_clients b [].
Proof.
  unfold hdr_eqb. intros H.
  repeat match type of H with _ && _ = true => apply andb_true_iff in H; destruct H as [H ?] end.
  repeat match goal with
  | H : siv_eqb _ _ = true |- _ => apply siv_eqb_eq in H
  | H : bytes_eqb _ _ = true |- _ => apply bytes_eqb_eq in H
  | H : (_ =? _) = true |- _ => apply Z.eqb_eq in H
  | H : opt_eqb bytes_eqb _ _ = true |- _ => apply (opt_eqb_eq _ _ _ bytes_eqb_eq) in H
  | H : opt_eqb Z.eqb _ _ = true |- _ => apply (opt_eqb_eq _ _ _ (fun x y => proj1 (Z.eqb_eq x y))) in H
  end.
  destruct a, b; cbn in *; subst; reflexivity.
Qed.

(* ---------- a family of parts of one info ---------- *)

Definition disjoint (p q : psi) : bool := Z.land (p_received p) (p_received q) =? 0.
(* two parts that are both / both not the main part of an extended info carry the same header
   (for 64-player legacy infos: all parts carry the same header) *)
Definition compat (p q : psi) : bool :=
  negb (Bool.eqb (is_main p) (is_main q)) || hdr_eqb (p_info p) (p_info q).
(* a part without a bit in the mask carries no client *)
Definition part_wf (p : psi) : bool :=
  negb (p_received p =? 0) || match cl p with [] => true | _ => false end.

Fixpoint all_later {A} (f : A -> A -> bool) (l : list A) : bool :=
  match l with [] => true | a :: l' => forallb (f a) l' && all_later f l' end.

Definition same_info (parts : list psi) : bool :=
  match parts with
  | [] => false
  | p0 :: _ =>
    is_multipart (ver p0)
    && forallb (fun p => (tok p =? tok p0) && siv_eqb (ver p) (ver p0) && part_wf p) parts
    && all_later disjoint parts
    && forallb (fun p => forallb (compat p) parts) parts
  end.

(* an order: a non-empty list of valid part indices *)
Definition order_ok (parts : list psi) (o : list nat) : bool :=
  match o with [] => false | _ => forallb (fun i => (i <? length parts)%nat) o end.

Definition same_set (o1 o2 : list nat) : bool :=
  forallb (fun i => mem_nat i o2) o1 && forallb (fun i => mem_nat i o1) o2.

Definition clients_of (parts : list psi) (l : list nat) : list client :=
  flat_map (fun i => match nth_error parts i with Some p => cl p | None => [] end) l.

(* the clients received along an order: those of every part in it, each part once *)
Definition received_clients (parts : list psi) (o : list nat) : list client :=
  clients_of parts (nodup Nat.eq_dec o).

(* the first part is the initial state, the others are merged into it; None if a merge fails *)
Definition merge_step (rep : bool) (parts : list psi) (acc : option psi) (j : nat) : option psi :=
  match acc, nth_error parts j with
  | Some st, Some p => match merge_gen rep st p with (st', Ok _) => Some st' | _ => None end
  | _, _ => None
  end.

Definition merged (rep : bool) (parts : list psi) (o : list nat) : option psi :=
  match o with
  | [] => None
  | i :: o' => fold_left (merge_step rep parts) o' (nth_error parts i)
  end.

(* ---------- bit facts ---------- *)

Lemma land_lor_0 a b m : Z.land a m = 0 -> Z.land b m = 0 -> Z.land (Z.lor a b) m = 0.
Proof. intros Ha Hb. rewrite Z.land_lor_distr_l, Ha, Hb. reflexivity. Qed.

Lemma lor_absorb u m : Z.land u m = m -> Z.lor m u = u.
Proof.
  intros H. apply Z.bits_inj. intros n. rewrite Z.lor_spec.
  apply (f_equal (fun x => Z.testbit x n)) in H. rewrite Z.land_spec in H.
  destruct (Z.testbit u n), (Z.testbit m n); cbn in *; congruence.
Qed.

Lemma land_lor_sub a u m : Z.land u m = m -> Z.land (Z.lor a u) m = m.
Proof.
  intros H. apply Z.bits_inj. intros n. rewrite Z.land_spec, Z.lor_spec.
  apply (f_equal (fun x => Z.testbit x n)) in H. rewrite Z.land_spec in H.
  destruct (Z.testbit a n), (Z.testbit u n), (Z.testbit m n); cbn in *; congruence.
Qed.

Lemma land_lor_self m u : Z.land (Z.lor m u) m = m.
Proof.
  apply Z.bits_inj. intros n. rewrite Z.land_spec, Z.lor_spec.
  destruct (Z.testbit m n), (Z.testbit u n); reflexivity.
Qed.

Lemma land_sub_bit u m : Z.land u m = m -> Z.land u 1 = 0 -> Z.land m 1 = 0.
Proof.
  intros H H1. rewrite <- H, <- Z.land_assoc, (Z.land_comm m 1), Z.land_assoc, H1. reflexivity.
Qed.

Lemma land1_testbit a : Z.land a 1 <> 0 -> Z.testbit a 0 = true.
Proof.
  intros H. destruct (Z.testbit a 0) eqn:E; [reflexivity|]. exfalso. apply H.
  change 1 with (Z.ones 1). rewrite Z.land_ones by lia. change (2 ^ 1) with 2.
  rewrite <- Z.bit0_mod, E. reflexivity.
Qed.

Lemma bit0_overlap a b : Z.land a b = 0 -> Z.land a 1 <> 0 -> Z.land b 1 <> 0 -> False.
Proof.
  intros H Ha Hb. apply land1_testbit in Ha. apply land1_testbit in Hb.
  apply (f_equal (fun x => Z.testbit x 0)) in H. rewrite Z.land_spec, Ha, Hb, Z.bits_0 in H. discriminate.
Qed.

(* ---------- consequences of same_info ---------- *)

Definition head_part (parts : list psi) : psi :=
  match parts with p :: _ => p | [] => {| p_info := default_info; p_received := 0 |} end.

Lemma same_info_inv parts : same_info parts = true ->
  parts <> []
  /\ is_multipart (ver (head_part parts)) = true
  /\ forallb (fun p => (tok p =? tok (head_part parts)) && siv_eqb (ver p) (ver (head_part parts)) && part_wf p) parts = true
  /\ all_later disjoint parts = true
  /\ forallb (fun p => forallb (compat p) parts) parts = true.
Proof.
  unfold same_info. destruct parts as [|q l]; [discriminate|]. cbn [head_part]. intros H.
  repeat (apply andb_true_iff in H; destruct H as [H ?]).
  split; [discriminate|]. auto.
Qed.

Section Family.
Variable parts : list psi.
Hypothesis Hsame : same_info parts = true.

Definition part (i : nat) : option psi := nth_error parts i.
Definition mask (i : nat) : Z := match part i with Some p => p_received p | None => 0 end.
Definition mask_union (S : list nat) : Z := fold_right (fun i acc => Z.lor (mask i) acc) 0 S.

Definition p0 : psi := head_part parts.

Lemma same_multipart : is_multipart (ver p0) = true.
Proof. apply (same_info_inv parts Hsame). Qed.

Lemma same_each i p : part i = Some p ->
  tok p = tok p0 /\ ver p = ver p0 /\ part_wf p = true.
Proof.
  intros Hp. destruct (same_info_inv parts Hsame) as (_ & _ & H1 & _ & _).
  rewrite forallb_forall in H1. unfold part in Hp. apply nth_error_In in Hp.
  specialize (H1 _ Hp). repeat (apply andb_true_iff in H1; destruct H1 as [H1 ?]).
  apply Z.eqb_eq in H1. apply siv_eqb_eq in H0. auto.
Qed.

Lemma all_later_nth {A} (f : A -> A -> bool) (l : list A) :
  (forall a b, f a b = f b a) -> all_later f l = true ->
  forall i j a b, i <> j -> nth_error l i = Some a -> nth_error l j = Some b -> f a b = true.
Proof.
  intros Hsym. induction l as [|x l IH]; intros H i j a b Hij Ha Hb.
  - destruct i; discriminate.
  - cbn [all_later] in H. apply andb_true_iff in H as [Hx Hl]. rewrite forallb_forall in Hx.
    destruct i as [|i], j as [|j]; cbn [nth_error] in Ha, Hb.
    + contradiction Hij; reflexivity.
    + injection Ha as <-. apply Hx. eapply nth_error_In; exact Hb.
    + injection Hb as <-. rewrite Hsym. apply Hx. eapply nth_error_In; exact Ha.
    + apply (IH Hl i j); [lia|assumption|assumption].
Qed.

Lemma same_disjoint i j p q : i <> j -> part i = Some p -> part j = Some q ->
  Z.land (p_received p) (p_received q) = 0.
Proof.
  intros Hij Hp Hq. destruct (same_info_inv parts Hsame) as (_ & _ & _ & H0 & _).
  assert (Hs : forall a b, disjoint a b = disjoint b a) by (intros a b; unfold disjoint; rewrite Z.land_comm; reflexivity).
  pose proof (all_later_nth disjoint parts Hs H0 i j p q Hij Hp Hq) as D.
  apply Z.eqb_eq in D. exact D.
Qed.

Lemma same_compat i j p q : part i = Some p -> part j = Some q ->
  is_main p = is_main q -> hdr p = hdr q.
Proof.
  intros Hp Hq Hm. destruct (same_info_inv parts Hsame) as (_ & _ & _ & _ & H).
  rewrite forallb_forall in H.
  specialize (H p (nth_error_In _ _ Hp)). rewrite forallb_forall in H.
  specialize (H q (nth_error_In _ _ Hq)). unfold compat in H. rewrite Hm, Bool.eqb_reflx in H.
  cbn [negb orb] in H. apply hdr_eqb_eq, H.
Qed.

(* ---------- the masks ---------- *)

Lemma mask_part i p : part i = Some p -> mask i = p_received p.
Proof. unfold mask. intros ->. reflexivity. Qed.

Lemma union_disjoint i p : part i = Some p -> forall S,
  ~ In i S -> (forall j, In j S -> (j < length parts)%nat) ->
  Z.land (mask_union S) (p_received p) = 0.
Proof.
  intros Hp. induction S as [|j S IH]; intros Hni Hv; cbn [mask_union fold_right]; [apply Z.land_0_l|].
  apply land_lor_0.
  - destruct (part j) as [q|] eqn:Hq.
    + rewrite (mask_part _ _ Hq). apply (same_disjoint j i); [intros ->; apply Hni; left; reflexivity|exact Hq|exact Hp].
    + unfold mask. rewrite Hq. apply Z.land_0_l.
  - apply IH; [intros H; apply Hni; right; exact H|intros k Hk; apply Hv; right; exact Hk].
Qed.

Lemma union_absorb i : forall S, In i S -> Z.land (mask_union S) (mask i) = mask i.
Proof.
  induction S as [|j S IH]; intros Hin; [contradiction|]. cbn [mask_union fold_right].
  destruct Hin as [->|Hin].
  - apply land_lor_self.
  - apply land_lor_sub, IH, Hin.
Qed.

Lemma union_bit0 S : Z.land (mask_union S) 1 = 0 -> forall j, In j S -> Z.land (mask j) 1 = 0.
Proof.
  intros H j Hj. apply (land_sub_bit (mask_union S)); [apply union_absorb, Hj|exact H].
Qed.

(* ---------- the invariant ---------- *)

(* the state after merging the parts S: its header is that of a part k of S (the main part if S
   has one), its clients are those of the parts of S, each part once *)
Definition carrier (rep : bool) (S : list nat) (st : psi) (k : nat) (pk : psi) : Prop :=
  In k S /\ part k = Some pk /\ hdr st = hdr pk
  /\ (forall j pj, In j S -> part j = Some pj -> is_main pj = true -> is_main pk = true)
  /\ (if rep then p_received st = mask_union S else p_received st = p_received pk).

Definition Inv (rep : bool) (S : list nat) (st : psi) : Prop :=
  tok st = tok p0 /\ ver st = ver p0
  /\ (forall j, In j S -> (j < length parts)%nat)
  /\ (exists k pk, carrier rep S st k pk)
  /\ Permutation (cl st) (clients_of parts (nodup Nat.eq_dec S)).

Lemma Inv_init rep i p : part i = Some p -> Inv rep [i] p.
Proof.
  intros Hp. destruct (same_each _ _ Hp) as (Ht & Hv & _).
  split; [exact Ht|]. split; [exact Hv|]. split.
  { intros j [<-|[]]. apply nth_error_Some. unfold part in Hp. rewrite Hp. discriminate. }
  split.
  - exists i, p. split; [left; reflexivity|]. split; [exact Hp|]. split; [reflexivity|]. split.
    + intros j pj [<-|[]] Hj. rewrite Hp in Hj. injection Hj as <-. auto.
    + destruct rep; [|reflexivity]. cbn [mask_union fold_right]. rewrite (mask_part _ _ Hp), Z.lor_0_r. reflexivity.
  - cbn [nodup]. destruct (in_dec Nat.eq_dec i []) as [[]|_].
    unfold clients_of. cbn [flat_map]. unfold part in Hp. rewrite Hp, app_nil_r. reflexivity.
Qed.

(* merge for two states of the same token and (multipart) version *)
Lemma merge_gen_same rep a b : tok a = tok b -> ver a = ver b -> is_multipart (ver a) = true ->
  merge_gen rep a b =
  if Z.land (p_received a) (p_received b) =? p_received b then (a, Ok tt)
  else if negb (Z.land (p_received a) (p_received b) =? 0) then (a, Err OverlappingInfos)
  else
    let (s, o) := if siv_eqb (ver a) V6Ex && (Z.land (p_received a) 1 =? 0) then (b, a) else (a, b) in
    ({| p_info := set_clients (p_info s) (cl s ++ cl o);
        p_received := if rep then Z.lor (p_received s) (p_received o) else p_received s |}, Ok tt).
Proof.
  unfold tok, ver. intros Ht Hv Hm. unfold merge_gen.
  rewrite Ht, Z.eqb_refl. cbn [negb]. rewrite <- Hv.
  replace (siv_eqb (i_version (p_info a)) (i_version (p_info a))) with true by (symmetry; apply siv_eqb_eq; reflexivity).
  cbn [negb]. rewrite Hm. cbn [negb]. reflexivity.
Qed.

Lemma cl_mk i cs r : cl {| p_info := set_clients i cs; p_received := r |} = cs.
Proof. reflexivity. Qed.

Lemma hdr_set_clients i cs : set_clients (set_clients i cs) [] = set_clients i [].
Proof. reflexivity. Qed.

Lemma nodup_cons_in i S : In i S -> nodup Nat.eq_dec (i :: S) = nodup Nat.eq_dec S.
Proof. intros H. cbn [nodup]. destruct (in_dec Nat.eq_dec i S); [reflexivity|contradiction]. Qed.
Lemma nodup_cons_notin i S : ~ In i S -> nodup Nat.eq_dec (i :: S) = i :: nodup Nat.eq_dec S.
Proof. intros H. cbn [nodup]. destruct (in_dec Nat.eq_dec i S); [contradiction|reflexivity]. Qed.

Lemma is_main_bit p : is_main p = true -> Z.land (p_received p) 1 <> 0.
Proof.
  unfold is_main, bit0. intros H. apply andb_true_iff in H as [_ H].
  apply negb_true_iff, Z.eqb_neq in H. exact H.
Qed.

(* one merge step keeps the invariant; without the repair the part must be new *)
Lemma Inv_step rep S st i p : Inv rep S st -> part i = Some p -> (rep = false -> ~ In i S) ->
  exists st', merge_gen rep st p = (st', Ok tt) /\ Inv rep (i :: S) st'.
Proof.
  intros (Ht & Hv & Hval & (k & pk & Hk & Hpk & Hh & Hprio & Hrecv) & Hperm) Hp Hnew.
  destruct (same_each _ _ Hp) as (Htp & Hvp & Hwf).
  assert (Hi : (i < length parts)%nat) by (apply nth_error_Some; unfold part in Hp; rewrite Hp; discriminate).
  assert (Hval' : forall j, In j (i :: S) -> (j < length parts)%nat) by (intros j [<-|Hj]; auto).
  rewrite merge_gen_same; [|congruence|congruence|rewrite Hv; apply same_multipart].
  destruct (in_dec Nat.eq_dec i S) as [Hin|Hnin].
  - (* a part merged before: only with the repair; it is recognised *)
    destruct rep eqn:Erep; [|exfalso; exact (Hnew eq_refl Hin)].
    assert (Hsub : Z.land (p_received st) (p_received p) = p_received p).
    { rewrite Hrecv, <- (mask_part _ _ Hp). apply union_absorb, Hin. }
    rewrite Hsub, Z.eqb_refl. eexists; split; [reflexivity|].
    split; [exact Ht|]. split; [exact Hv|]. split; [exact Hval'|]. split.
    + exists k, pk. split; [right; exact Hk|]. split; [exact Hpk|]. split; [exact Hh|]. split.
      * intros j pj [<-|Hj] Hpj; [apply (Hprio i pj Hin Hpj)|apply (Hprio j pj Hj Hpj)].
      * cbn [mask_union fold_right]. fold (mask_union S). rewrite (mask_part _ _ Hp).
        rewrite Hrecv in Hsub. rewrite (lor_absorb _ _ Hsub). exact Hrecv.
    + rewrite nodup_cons_in by exact Hin. exact Hperm.
  - (* a new part: its mask is disjoint from the state's *)
    assert (Hdis : Z.land (p_received st) (p_received p) = 0).
    { destruct rep.
      - rewrite Hrecv. apply (union_disjoint i p Hp); assumption.
      - rewrite Hrecv. apply (same_disjoint k i); [intros ->; contradiction|exact Hpk|exact Hp]. }
    rewrite Hdis.
    assert (Hperm0 : Permutation (cl st) (clients_of parts (nodup Nat.eq_dec (i :: S))) -> cl p = [] ->
                     Permutation (cl st) (clients_of parts (nodup Nat.eq_dec (i :: S)))) by auto.
    assert (Hcl : clients_of parts (nodup Nat.eq_dec (i :: S)) = cl p ++ clients_of parts (nodup Nat.eq_dec S)).
    { rewrite nodup_cons_notin by exact Hnin. unfold clients_of at 1. cbn [flat_map].
      unfold part in Hp. rewrite Hp. reflexivity. }
    destruct (0 =? p_received p) eqn:Ez.
    + (* an empty mask: nothing to add, and the part carries no client *)
      apply Z.eqb_eq in Ez. eexists; split; [reflexivity|].
      split; [exact Ht|]. split; [exact Hv|]. split; [exact Hval'|]. split.
      * exists k, pk. split; [right; exact Hk|]. split; [exact Hpk|]. split; [exact Hh|]. split.
        -- intros j pj [<-|Hj] Hpj Hmain; [|apply (Hprio j pj Hj Hpj Hmain)].
           rewrite Hp in Hpj. injection Hpj as <-. apply is_main_bit in Hmain.
           rewrite <- Ez in Hmain. rewrite Z.land_0_l in Hmain. contradiction Hmain; reflexivity.
        -- destruct rep; [|exact Hrecv]. cbn [mask_union fold_right]. fold (mask_union S).
           rewrite (mask_part _ _ Hp), <- Ez, Z.lor_0_l. exact Hrecv.
      * rewrite Hcl. unfold part_wf in Hwf. rewrite <- Ez in Hwf. cbn [Z.eqb negb orb] in Hwf.
        destruct (cl p); [exact Hperm|discriminate].
    + apply Z.eqb_neq in Ez. cbn [Z.eqb negb].
      destruct (siv_eqb (ver st) V6Ex && (Z.land (p_received st) 1 =? 0)) eqn:Esw.
      * (* swapped: the new part becomes `self`; nothing merged so far was the main part *)
        apply andb_true_iff in Esw as [Eex Eb0]. apply Z.eqb_eq in Eb0.
        assert (Hnomain : forall j pj, In j S -> part j = Some pj -> is_main pj = true -> False).
        { intros j pj Hj Hpj Hmain. destruct rep.
          - apply is_main_bit in Hmain. apply Hmain. rewrite <- (mask_part _ _ Hpj).
            apply (union_bit0 S); [rewrite <- Hrecv; exact Eb0|exact Hj].
          - specialize (Hprio j pj Hj Hpj Hmain). apply is_main_bit in Hprio. apply Hprio.
            rewrite <- Hrecv. exact Eb0. }
        eexists; split; [reflexivity|].
        split; [exact Htp|]. split; [exact Hvp|]. split; [exact Hval'|]. split.
        -- exists i, p. split; [left; reflexivity|]. split; [exact Hp|]. split; [reflexivity|]. split.
           ++ intros j pj [<-|Hj] Hpj Hmain; [rewrite Hp in Hpj; injection Hpj as <-; exact Hmain|].
              exfalso. exact (Hnomain j pj Hj Hpj Hmain).
           ++ destruct rep; [|reflexivity]. cbn [p_received mask_union fold_right]. fold (mask_union S).
              rewrite (mask_part _ _ Hp), Hrecv. reflexivity.
        -- rewrite cl_mk, Hcl. apply Permutation_app_head. exact Hperm.
      * (* not swapped *)
        eexists; split; [reflexivity|].
        split; [exact Ht|]. split; [exact Hv|]. split; [exact Hval'|]. split.
        -- exists k, pk. split; [right; exact Hk|]. split; [exact Hpk|]. split; [exact Hh|]. split.
           ++ intros j pj [<-|Hj] Hpj Hmain; [|apply (Hprio j pj Hj Hpj Hmain)].
              rewrite Hp in Hpj. injection Hpj as <-. exfalso.
              (* a main part: this is an extended info, the state already has bit 0, the masks overlap *)
              pose proof Hmain as Hm2. unfold is_main in Hm2. apply andb_true_iff in Hm2 as [Hex _].
              rewrite Hvp, <- Hv in Hex. rewrite Hex in Esw. cbn [andb] in Esw. apply Z.eqb_neq in Esw.
              exact (bit0_overlap _ _ Hdis Esw (is_main_bit _ Hmain)).
           ++ destruct rep; [|exact Hrecv]. cbn [p_received mask_union fold_right]. fold (mask_union S).
              rewrite (mask_part _ _ Hp), Hrecv. apply Z.lor_comm.
        -- rewrite cl_mk, Hcl. apply (Permutation_trans (Permutation_app_comm _ _)).
           apply Permutation_app_head. exact Hperm.
Qed.


(* ---------- along an order ---------- *)

Lemma mem_nat_In i l : mem_nat i l = true <-> In i l.
Proof.
  unfold mem_nat. rewrite existsb_exists. split.
  - intros [x [Hx E]]. apply Nat.eqb_eq in E. subst. exact Hx.
  - intros H. exists i. split; [exact H|apply Nat.eqb_refl].
Qed.

Lemma has_repeat_NoDup o : has_repeat o = false <-> NoDup o.
Proof.
  induction o as [|i o IH]; cbn [has_repeat].
  - split; [constructor|reflexivity].
  - rewrite orb_false_iff, IH. split.
    + intros [Hm Hn]. constructor; [|exact Hn]. intros Hin. apply mem_nat_In in Hin. congruence.
    + intros H. inversion H as [|? ? Hni Hn]; subst. split; [|exact Hn].
      destruct (mem_nat i o) eqn:E; [|reflexivity]. apply mem_nat_In in E. contradiction.
Qed.

Lemma same_set_In o1 o2 : same_set o1 o2 = true -> forall x, In x o1 <-> In x o2.
Proof.
  unfold same_set. intros H. apply andb_true_iff in H as [H1 H2].
  rewrite forallb_forall in H1, H2. intros x. split; intros Hx.
  - apply mem_nat_In, H1, Hx.
  - apply mem_nat_In, H2, Hx.
Qed.

Lemma fold_Inv rep : forall o' S st, Inv rep S st ->
  (forall j, In j o' -> (j < length parts)%nat) ->
  (rep = false -> NoDup o' /\ forall j, In j o' -> ~ In j S) ->
  exists st', fold_left (merge_step rep parts) o' (Some st) = Some st' /\ Inv rep (rev o' ++ S) st'.
Proof.
  induction o' as [|j o' IH]; intros S st HI Hval Hnew.
  - exists st. split; [reflexivity|exact HI].
  - assert (Hj : (j < length parts)%nat) by (apply Hval; left; reflexivity).
    destruct (nth_error parts j) as [p|] eqn:Hp; [|apply nth_error_None in Hp; lia].
    destruct (Inv_step rep S st j p HI Hp) as [st1 [Hm HI1]].
    { intros Hr. destruct (Hnew Hr) as [_ H]. apply H. left; reflexivity. }
    cbn [fold_left]. unfold merge_step at 2. rewrite Hp, Hm.
    destruct (IH (j :: S) st1 HI1) as [st' [Hf HI']].
    { intros x Hx. apply Hval. right; exact Hx. }
    { intros Hr. destruct (Hnew Hr) as [Hnd Hni]. inversion Hnd as [|? ? Hjo Hnd']; subst.
      split; [exact Hnd'|]. intros x Hx [<-|Hxs]; [contradiction|].
      apply (Hni x); [right; exact Hx|exact Hxs]. }
    exists st'. split; [exact Hf|]. cbn [rev]. rewrite <- app_assoc. exact HI'.
Qed.

Lemma order_ok_inv o : order_ok parts o = true ->
  exists i o', o = i :: o' /\ forall j, In j o -> (j < length parts)%nat.
Proof.
  unfold order_ok. destruct o as [|i o']; [discriminate|]. intros H.
  exists i, o'. split; [reflexivity|]. rewrite forallb_forall in H.
  intros j Hj. apply Nat.ltb_lt, H, Hj.
Qed.

Lemma merged_Inv rep o : order_ok parts o = true -> (rep = false -> has_repeat o = false) ->
  exists st S, merged rep parts o = Some st /\ Inv rep S st /\ (forall x, In x S <-> In x o).
Proof.
  intros Hok Hrep. destruct (order_ok_inv o Hok) as (i & o' & -> & Hval).
  assert (Hi : (i < length parts)%nat) by (apply Hval; left; reflexivity).
  destruct (nth_error parts i) as [p|] eqn:Hp; [|apply nth_error_None in Hp; lia].
  destruct (fold_Inv rep o' [i] p (Inv_init rep i p Hp)) as [st [Hf HI]].
  { intros j Hj. apply Hval. right; exact Hj. }
  { intros Hr. specialize (Hrep Hr). apply has_repeat_NoDup in Hrep.
    inversion Hrep as [|? ? Hni Hnd]; subst. split; [exact Hnd|].
    intros j Hj [<-|[]]. contradiction. }
  exists st, (rev o' ++ [i]). split; [cbn [merged]; rewrite Hp; exact Hf|]. split; [exact HI|].
  intros x. rewrite in_app_iff, <- in_rev. cbn [In]. tauto.
Qed.

(* ---------- the state is a function of the set of parts ---------- *)

Lemma mask_union_bit S n : Z.testbit (mask_union S) n = existsb (fun i => Z.testbit (mask i) n) S.
Proof.
  induction S as [|i S IH]; cbn [mask_union fold_right existsb]; [apply Z.bits_0|].
  fold (mask_union S). rewrite Z.lor_spec, IH. reflexivity.
Qed.

Lemma existsb_same_set {A} (f : A -> bool) l1 l2 : (forall x, In x l1 <-> In x l2) ->
  existsb f l1 = existsb f l2.
Proof.
  intros H. apply eq_true_iff_eq. rewrite !existsb_exists. split; intros [x [Hx Hf]]; exists x; split; auto; apply H; exact Hx.
Qed.

Lemma mask_union_set S1 S2 : (forall x, In x S1 <-> In x S2) -> mask_union S1 = mask_union S2.
Proof.
  intros H. apply Z.bits_inj. intros n. rewrite !mask_union_bit. apply existsb_same_set, H.
Qed.

Lemma clients_of_set S1 S2 : (forall x, In x S1 <-> In x S2) ->
  Permutation (clients_of parts (nodup Nat.eq_dec S1)) (clients_of parts (nodup Nat.eq_dec S2)).
Proof.
  intros H. unfold clients_of. apply Permutation_flat_map.
  apply NoDup_Permutation; try apply NoDup_nodup.
  intros x. rewrite !nodup_In. apply H.
Qed.

Lemma carrier_hdr rep S1 S2 st1 st2 k1 q1 k2 q2 :
  carrier rep S1 st1 k1 q1 -> carrier rep S2 st2 k2 q2 -> (forall x, In x S1 <-> In x S2) ->
  hdr st1 = hdr st2.
Proof.
  intros (Hk1 & Hq1 & Hh1 & Hp1 & _) (Hk2 & Hq2 & Hh2 & Hp2 & _) Hset.
  rewrite Hh1, Hh2. apply (same_compat k1 k2); [exact Hq1|exact Hq2|].
  destruct (is_main q1) eqn:E1, (is_main q2) eqn:E2; try reflexivity.
  - discriminate (Hp2 k1 q1 (proj1 (Hset k1) Hk1) Hq1 E1).
  - discriminate (Hp1 k2 q2 (proj2 (Hset k2) Hk2) Hq2 E2).
Qed.

Definition info_of (r : res unit (sinfo * psi)) : res unit sinfo :=
  match r with Ok (i, _) => Ok i | Err e => Err e | Panic s => Panic s | OutOfFuel => OutOfFuel end.

Lemma sort_info_hdr s : sort_info (p_info s) = set_clients (hdr s) (sort_clients (cl s)).
Proof. reflexivity. Qed.

Lemma num_clients_hdr s : i_num_clients (p_info s) = i_num_clients (hdr s).
Proof. reflexivity. Qed.

Lemma get_info_equiv s1 s2 : hdr s1 = hdr s2 -> Permutation (cl s1) (cl s2) ->
  info_of (get_info s1) = info_of (get_info s2).
Proof.
  intros Hh Hp. unfold get_info. fold (cl s1) (cl s2).
  rewrite (Permutation_length Hp), !num_clients_hdr, !sort_info_hdr, Hh, (sort_clients_canonical _ _ Hp).
  destruct (i32_max <? _); [reflexivity|]. destruct (negb _); reflexivity.
Qed.

(* any two orders over the same set of parts end in the same state, up to the order of the clients *)
Theorem merge_order_free rep o1 o2 :
  order_ok parts o1 = true -> order_ok parts o2 = true -> same_set o1 o2 = true ->
  (rep = false -> has_repeat o1 = false /\ has_repeat o2 = false) ->
  exists s1 s2, merged rep parts o1 = Some s1 /\ merged rep parts o2 = Some s2
    /\ hdr s1 = hdr s2 /\ Permutation (cl s1) (cl s2)
    /\ (rep = true -> p_received s1 = p_received s2)
    /\ info_of (get_info s1) = info_of (get_info s2).
Proof.
  intros H1 H2 Hs Hrep.
  destruct (merged_Inv rep o1 H1) as (s1 & S1 & Hm1 & HI1 & HS1); [intros Hr; apply (Hrep Hr)|].
  destruct (merged_Inv rep o2 H2) as (s2 & S2 & Hm2 & HI2 & HS2); [intros Hr; apply (Hrep Hr)|].
  assert (Hset : forall x, In x S1 <-> In x S2).
  { intros x. rewrite HS1, HS2. apply same_set_In, Hs. }
  destruct HI1 as (_ & _ & _ & (k1 & q1 & Hc1) & Hperm1).
  destruct HI2 as (_ & _ & _ & (k2 & q2 & Hc2) & Hperm2).
  assert (Hh : hdr s1 = hdr s2) by exact (carrier_hdr rep S1 S2 s1 s2 k1 q1 k2 q2 Hc1 Hc2 Hset).
  assert (Hp : Permutation (cl s1) (cl s2)).
  { rewrite Hperm1, Hperm2. apply clients_of_set, Hset. }
  exists s1, s2. split; [exact Hm1|]. split; [exact Hm2|]. split; [exact Hh|]. split; [exact Hp|]. split.
  - intros ->. destruct Hc1 as (_ & _ & _ & _ & Hr1). destruct Hc2 as (_ & _ & _ & _ & Hr2).
    rewrite Hr1, Hr2. apply mask_union_set, Hset.
  - apply get_info_equiv; assumption.
Qed.

(* complete exactly when the parts merged carry as many clients as the (main) part announces;
   the info handed out then lists exactly those clients, each part's clients once, sorted *)
Theorem merge_complete_gen rep o m pm :
  order_ok parts o = true -> (rep = false -> has_repeat o = false) ->
  In m o -> nth_error parts m = Some pm ->
  (forall j pj, In j o -> nth_error parts j = Some pj -> is_main pj = true -> is_main pm = true) ->
  Z.of_nat (length (received_clients parts o)) <= i32_max ->
  exists st, merged rep parts o = Some st /\
    match get_info st with
    | Ok (i, st') =>
      Z.of_nat (length (received_clients parts o)) = i_num_clients (p_info pm)
      /\ i_clients i = sort_clients (received_clients parts o)
      /\ Permutation (i_clients i) (received_clients parts o)
      /\ set_clients i [] = hdr pm
      /\ take_info st = Ok (i, {| p_info := default_info; p_received := u64_ones |})
    | Err _ => Z.of_nat (length (received_clients parts o)) <> i_num_clients (p_info pm)
    | _ => False
    end.
Proof.
  intros Hok Hrep Hm Hpm Hmain Hlen.
  destruct (merged_Inv rep o Hok Hrep) as (st & S & Hmg & HI & HS).
  exists st. split; [exact Hmg|].
  destruct HI as (_ & _ & _ & (k & pk & Hk & Hpk & Hh & Hprio & _) & Hperm).
  assert (Hhm : hdr st = hdr pm).
  { rewrite Hh. apply (same_compat k m); [exact Hpk|exact Hpm|].
    destruct (is_main pk) eqn:E1, (is_main pm) eqn:E2; try reflexivity.
    - discriminate (Hmain k pk (proj1 (HS k) Hk) Hpk E1).
    - discriminate (Hprio m pm (proj2 (HS m) Hm) Hpm E2). }
  assert (Hp : Permutation (cl st) (received_clients parts o)).
  { rewrite Hperm. apply clients_of_set, HS. }
  unfold take_info, get_info. fold (cl st).
  rewrite (Permutation_length Hp), num_clients_hdr, sort_info_hdr, Hhm.
  replace (i32_max <? Z.of_nat (length (received_clients parts o))) with false by lia.
  destruct (Z.of_nat (length (received_clients parts o)) =? i_num_clients (hdr pm)) eqn:E; cbn [negb bind].
  - apply Z.eqb_eq in E. split; [exact E|]. split; [apply sort_clients_canonical, Hp|].
    split; [cbn [i_clients set_clients]; rewrite sort_clients_perm; exact Hp|]. split; reflexivity.
  - apply Z.eqb_neq in E. exact E.
Qed.

(* the usual case: pm is any part of a 64-player legacy info / the main part of an extended info *)
Theorem merge_complete_iff rep o m pm :
  order_ok parts o = true -> (rep = false -> has_repeat o = false) ->
  In m o -> nth_error parts m = Some pm -> (ver pm = V6Ex -> is_main pm = true) ->
  Z.of_nat (length (received_clients parts o)) <= i32_max ->
  exists st, merged rep parts o = Some st /\
    match get_info st with
    | Ok (i, st') =>
      Z.of_nat (length (received_clients parts o)) = i_num_clients (p_info pm)
      /\ i_clients i = sort_clients (received_clients parts o)
      /\ Permutation (i_clients i) (received_clients parts o)
      /\ set_clients i [] = hdr pm
      /\ take_info st = Ok (i, {| p_info := default_info; p_received := u64_ones |})
    | Err _ => Z.of_nat (length (received_clients parts o)) <> i_num_clients (p_info pm)
    | _ => False
    end.
Proof.
  intros Hok Hrep Hm Hpm Hmain. apply (merge_complete_gen rep o m pm Hok Hrep Hm Hpm).
  intros j pj Hj Hpj Hmj. apply Hmain.
  destruct (same_each _ _ Hpj) as (_ & Hv1 & _). destruct (same_each _ _ Hpm) as (_ & Hv2 & _).
  unfold is_main in Hmj. apply andb_true_iff in Hmj as [E _]. apply siv_eqb_eq in E. congruence.
Qed.

End Family.

(* C14: whole messages — the id in front (ordinal << 1 | sys, or 0|sys followed by the
   16-byte UUID, or the 8-byte connless id), the dispatch through the id table, the body *)
From LibTw2 Require Import Base.Res Base.Bits Model.Varint Model.Packer Model.Codec
  Proofs.VarintArith Proofs.VarintProofs Proofs.PackerProofs Proofs.CodecDecode Proofs.CodecEncode.
From Coq Require Import ZArith Lia Bool List ZifyBool.
Open Scope Z_scope.
Ltac Zify.zify_post_hook ::= Z.div_mod_to_equations.

Lemma bytes_eqb_eq a : forall b, bytes_eqb a b = true <-> a = b.
Proof.
  induction a as [|x a IH]; intros [|y b]; cbn [bytes_eqb]; split; intros H; try reflexivity; try discriminate.
  - apply andb_true_iff in H as [Hx Hr]. apply IH in Hr. f_equal; [lia|exact Hr].
  - injection H as -> ->. rewrite Z.eqb_refl. apply IH. reflexivity.
Qed.

Lemma msgid_eqb_eq a b : msgid_eqb a b = true <-> a = b.
Proof.
  destruct a, b; cbn [msgid_eqb]; split; intros H; try discriminate; try (injection H as ->);
    try (f_equal; try lia; apply bytes_eqb_eq; assumption); try apply Z.eqb_refl; apply bytes_eqb_eq; reflexivity.
Qed.

Lemma ckind_eqb_eq a b : ckind_eqb a b = true <-> a = b.
Proof. destruct a, b; cbn; split; intros H; try reflexivity; discriminate. Qed.

Definition flagz (sys : bool) : Z := if sys then 1 else 0.

Lemma land1 x : Z.land x 1 = x mod 2.
Proof. exact (land_pow2_mask x 1 ltac:(lia)). Qed.

Lemma shiftr1 x : Z.shiftr x 1 = x / 2.
Proof. rewrite shiftr_div by lia. reflexivity. Qed.

Definition sg_id_ok (id : msgid) : bool :=
  match id with
  | IdOrd n => (0 <? n) && (n <? 1073741824)
  | IdUuid u => bytes_ok u && (length u =? 16)%nat
  | IdConn _ => false
  end.

Lemma decode_id_canon sys id rest : sg_id_ok id = true -> bytes_ok rest = true ->
  decode_id (id_bytes sys id ++ rest) = (rest, Ok (sys, id), []).
Proof.
  intros Hid Hr. destruct id as [n|u|b]; cbn [sg_id_ok] in Hid; [| |discriminate]; unfold decode_id, id_bytes.
  - fold (flagz sys). assert (Hf : 0 <= flagz sys <= 1) by (destruct sys; cbn; lia).
    rewrite rd_int; [|unfold is_i32, i32_min, i32_max; lia|exact Hr]. cbn [int_of].
    rewrite land1, shiftr1.
    replace ((n * 2 + flagz sys) / 2) with n by lia.
    replace (negb (n =? 0)) with true by lia.
    replace (negb ((n * 2 + flagz sys) mod 2 =? 0)) with sys; [reflexivity|].
    destruct sys; cbn [flagz]; lia.
  - fold (flagz sys). apply andb_true_iff in Hid as [Hu Hl]. apply Nat.eqb_eq in Hl.
    rewrite <- app_assoc. rewrite rd_int; [|destruct sys; reflexivity|apply bytes_ok_app; assumption].
    cbn [int_of]. rewrite land1, shiftr1.
    replace (negb (flagz sys / 2 =? 0)) with false by (destruct sys; reflexivity).
    rewrite <- Hl. rewrite rd_raw by assumption. cbn [payload].
    replace (negb (flagz sys mod 2 =? 0)) with sys by (destruct sys; reflexivity). reflexivity.
Qed.

(* the first arm with the right key is the codec itself when no key occurs twice *)
Lemma find_codec_unique tbl : forall c, ids_unique tbl = true -> In c tbl ->
  find_codec tbl (c_kind c) (c_id_dec c) = Some c.
Proof.
  induction tbl as [|d tl IH]; intros c Hu Hin; [contradiction|].
  cbn [ids_unique] in Hu. apply andb_true_iff in Hu as [Hd Hu]. apply negb_true_iff in Hd.
  unfold find_codec. cbn [find]. destruct Hin as [->|Hin].
  - replace (ckind_eqb (c_kind c) (c_kind c)) with true by (symmetry; apply ckind_eqb_eq; reflexivity).
    replace (msgid_eqb (c_id_dec c) (c_id_dec c)) with true by (symmetry; apply msgid_eqb_eq; reflexivity).
    reflexivity.
  - destruct (ckind_eqb (c_kind d) (c_kind c) && msgid_eqb (c_id_dec d) (c_id_dec c)) eqn:E.
    + exfalso. apply andb_true_iff in E as [E1 E2]. apply ckind_eqb_eq in E1. apply msgid_eqb_eq in E2.
      assert (existsb (fun d0 => ckind_eqb (c_kind d0) (c_kind d) && msgid_eqb (c_id_dec d0) (c_id_dec d)) tl = true).
      { apply existsb_exists. exists c. split; [exact Hin|]. rewrite E1, E2.
        apply andb_true_iff. split; [apply ckind_eqb_eq|apply msgid_eqb_eq]; reflexivity. }
      congruence.
    + apply IH; assumption.
Qed.

Definition is_sys (c : codec) : bool := match c_kind c with KSystem => true | _ => false end.

Lemma wf_parts c : wf_codec c = true ->
  forallb mop_ok (c_dec c) = true /\ rest_only_last (c_dec c) = true /\ wf_enc c = true
  /\ c_id_enc c = c_id_dec c /\ id_ok (c_kind c) (c_id_dec c) = true.
Proof.
  intros H. pose proof (wf_codec_enc c H) as He. unfold wf_codec in H.
  repeat (apply andb_true_iff in H as [H ?]).
  repeat split; try assumption. symmetry. apply msgid_eqb_eq. assumption.
Qed.

(* System::decode / Game::decode on the canonical message *)
Theorem decode_sysgame_canonical tbl c demo vs : ids_unique tbl = true -> In c tbl -> wf_codec c = true ->
  (c_kind c = KSystem \/ c_kind c = KGame) -> well_typed (c_dec c) vs = true ->
  decode_sysgame tbl (is_sys c) demo (canonical_msg c vs) = (Ok (c, vs), []).
Proof.
  intros Hu Hin Hwf Hk Ht. destruct (wf_parts c Hwf) as [Hm [Hl [He [Hid Hok]]]].
  assert (Hsg : sg_id_ok (c_id_dec c) = true).
  { unfold id_ok in Hok. destruct Hk as [Hk|Hk]; rewrite Hk in Hok; destruct (c_id_dec c); try discriminate; exact Hok. }
  unfold decode_sysgame, canonical_msg. rewrite Hid. fold (is_sys c).
  rewrite decode_id_canon; [|exact Hsg|apply enc_values_ok; assumption].
  rewrite Bool.eqb_reflx.
  replace (if is_sys c then KSystem else KGame) with (c_kind c) by (unfold is_sys; destruct Hk as [-> | ->]; reflexivity).
  rewrite find_codec_unique by assumption.
  unfold decode_w, decode_body, canonical. rewrite decode_ops_canon by assumption.
  rewrite finish_nil. reflexivity.
Qed.

Theorem decode_connless_canonical tbl c demo vs : ids_unique tbl = true -> In c tbl -> wf_codec c = true ->
  c_kind c = KConnless -> well_typed (c_dec c) vs = true ->
  decode_connless tbl demo (canonical_msg c vs) = (Ok (c, vs), []).
Proof.
  intros Hu Hin Hwf Hk Ht. destruct (wf_parts c Hwf) as [Hm [Hl [He [Hid Hok]]]].
  unfold decode_connless, canonical_msg. rewrite Hid, Hk.
  unfold id_ok in Hok. rewrite Hk in Hok. destruct (c_id_dec c) as [n|u|b] eqn:Eid; try discriminate.
  apply andb_true_iff in Hok as [Hb Hlen]. apply Nat.eqb_eq in Hlen.
  cbn [id_bytes]. rewrite <- Hlen. rewrite rd_raw; [|exact Hb|apply enc_values_ok; assumption].
  cbn [payload]. rewrite <- Eid, <- Hk. rewrite find_codec_unique by assumption.
  unfold decode_w, decode_body, canonical. rewrite decode_ops_canon by assumption.
  rewrite finish_nil. reflexivity.
Qed.

(* ---- encoding ---- *)

Lemma lift_pack_int t x : is_i32 x = true -> lift_pack (pack_int t x) = lbw t (write_int_bytes x).
Proof. intros H. rewrite pack_int_bw by exact H. reflexivity. Qed.

Lemma encode_id_canon t sys id : tgt_ok t -> sg_id_ok id = true -> encode_id t sys id = lbw t (id_bytes sys id).
Proof.
  intros Hok Hid. destruct id as [n|u|b]; cbn [sg_id_ok] in Hid; [| |discriminate]; unfold encode_id, id_bytes; fold (flagz sys).
  - assert (Hf : 0 <= flagz sys <= 1) by (destruct sys; cbn; lia).
    replace (n =? 0) with false by lia.
    unfold u32_of, two32, two31. rewrite (Z.mod_small n) by lia.
    replace (2147483648 <=? n) with false by lia.
    rewrite (Z.mod_small (n * 2)) by lia. unfold i32_of, two31.
    replace (n * 2 + flagz sys <? 2147483648) with true by lia.
    apply lift_pack_int. unfold is_i32, i32_min, i32_max. lia.
  - apply andb_true_iff in Hid as [Hu _].
    rewrite lift_pack_int by (destruct sys; reflexivity).
    rewrite lbw_app by exact Hok.
    pose proof (lbw_tgt_ok t (write_int_bytes (flagz sys)) Hok) as Hok'.
    destruct (lbw t (write_int_bytes (flagz sys))) as [t1 [[]|e|s|]]; reflexivity.
Qed.

Theorem encode_msg_canonical c vs cap : wf_codec c = true -> c_kind c <> KObjMsg ->
  well_typed (c_dec c) vs = true ->
  encode_msg c vs cap =
  if (length (canonical_msg c vs) <=? cap)%nat then Ok (canonical_msg c vs) else Err CapacityErr.
Proof.
  intros Hwf Hk Ht. destruct (wf_parts c Hwf) as [Hm [Hl [He [Hid Hok]]]].
  unfold encode_msg, canonical_msg. rewrite Hid.
  set (t0 := empty_target cap). assert (H0 : tgt_ok t0) by apply empty_ok.
  set (ib := id_bytes match c_kind c with KSystem => true | _ => false end (c_id_dec c)).
  assert (Hhdr : match c_kind c, c_id_dec c with
                 | KSystem, id => encode_id t0 true id
                 | KGame, id => encode_id t0 false id
                 | KConnless, IdConn b => lift_pack (pack_field t0 (FRaw b))
                 | _, _ => (t0, Err IllTyped)
                 end = lbw t0 ib).
  { unfold id_ok in Hok. subst ib. destruct (c_kind c) eqn:Ek.
    - apply encode_id_canon; [exact H0|]. destruct (c_id_dec c); try discriminate; exact Hok.
    - apply encode_id_canon; [exact H0|]. destruct (c_id_dec c); try discriminate; exact Hok.
    - destruct (c_id_dec c) as [n|u|b]; try discriminate. apply andb_true_iff in Hok as [Hb _].
      rewrite pack_field_bw by assumption. reflexivity.
    - exfalso. apply Hk. reflexivity. }
  rewrite Hhdr. rewrite <- finish_lbw_empty. fold t0. rewrite lbw_app by exact H0.
  pose proof (lbw_tgt_ok t0 ib H0) as H1.
  destruct (lbw t0 ib) as [t1 [[]|e|s|]]; try reflexivity.
  cbn [fst] in H1. rewrite encode_ops_canonical by assumption. reflexivity.
Qed.

(* The message-level reader: tick markers are nested and increasing, every record
   is reported in the tick doc/teehistorian.md assigns to it, positions and inputs
   are running sums. *)
From LibTw2 Require Import Base.Res Model.Varint Model.Packer Model.Teehistorian
  Proofs.TeehistFrag Proofs.TeehistParsers Proofs.TeehistReader Proofs.TeehistMsgs.
From Coq Require Import List Lia Arith ZArith Bool.
Import ListNotations.
Open Scope Z_scope.

(* ---------------- small facts ---------------- *)

Lemma checked_add_some a b c : checked_add a b = Some c -> c = a + b.
Proof. unfold checked_add. destruct (is_i32 (a + b)); [|discriminate]. intros H. injection H as <-. reflexivity. Qed.

Lemma nested_payload it open lo r : is_marker it = false ->
  nested open lo (it :: r) = (open <> None /\ nested open lo r).
Proof. destruct it; try discriminate; reflexivity. Qed.

Lemma item_ticks_payload it open r : is_marker it = false ->
  item_ticks open (it :: r) = open :: item_ticks open r.
Proof. destruct it; try discriminate; reflexivity. Qed.

(* one step of the documentation's loop *)
Definition doc_step (tick : Z) (ic : option Z) (m : dmsg) : Z * option Z :=
  match m with
  | DTickSkip dt => (tick + (dt + 1), None)
  | DPlayer cid => (match ic with Some p => if cid <=? p then tick + 1 else tick | None => tick end, Some cid)
  | DOther => (tick, ic)
  end.

Lemma doc_ticks_cons tick ic m ms :
  doc_ticks_from tick ic (m :: ms) =
  fst (doc_step tick ic m) :: doc_ticks_from (fst (doc_step tick ic m)) (snd (doc_step tick ic m)) ms.
Proof. destruct m; reflexivity. Qed.

Lemma doc_reported_cons tick ic f fs :
  doc_reported_from tick ic (f :: fs) =
  (if reported f then [fst (doc_step tick ic (dmsg_of f))] else [])
  ++ doc_reported_from (fst (doc_step tick ic (dmsg_of f))) (snd (doc_step tick ic (dmsg_of f))) fs.
Proof.
  unfold doc_reported_from. cbn [map]. rewrite doc_ticks_cons. cbn [combine filter fst snd].
  destruct (reported f); reflexivity.
Qed.

(* ---------------- what emit_pre does ---------------- *)

Definition normal (k : ikind) : bool := negb (is_tick_skip k) && negb (is_finish k).

Lemma emit_pre_normal r k : r_next r = None -> normal k = true ->
  emit_pre 4 r k =
  let pre1 := if r_in_tick r then [] else [TickStart (r_tick r)] in
  if prevcond r k then
    match checked_add (r_tick r) 1 with
    | Some t' => (pre1 ++ [TickEnd (r_tick r); TickStart t'],
                  Some (set_in_tick true (set_prev None (set_tick t' r))))
    | None => (pre1, None)
    end
  else (pre1, Some (set_in_tick true r)).
Proof.
  intros Hn Hk. destruct r as [ver tick pl inp mc prev next it]. cbn in Hn. subst next.
  unfold prevcond. destruct k; try discriminate Hk; destruct it;
    try (destruct prev as [p|]; [destruct (cid <=? p) eqn:Ec|]);
    cbn; rewrite ?Ec; cbn; try reflexivity;
    destruct (checked_add tick 1) eqn:Ea; cbn; rewrite ?Ec, ?Ea; cbn; rewrite ?Ec; reflexivity.
Qed.

Lemma emit_pre_skip r : r_next r = None -> emit_pre 4 r IKTickSkip = ([], Some r).
Proof. intros Hn. destruct r; cbn in *; subst. reflexivity. Qed.

Lemma emit_pre_finish r : r_next r = None ->
  emit_pre 4 r IKFinish =
  if r_in_tick r then ([TickEnd (r_tick r)], Some (set_in_tick false r)) else ([], Some r).
Proof. intros Hn. destruct r as [ver tick pl inp mc prev next it]; cbn in *; subst. destruct it; reflexivity. Qed.

(* ---------------- what after_item does to tick, prev_player_cid, in_tick ---------------- *)

Lemma set_next_none_id r : r_next r = None -> set_next None r = r.
Proof. destruct r; cbn; intros ->; reflexivity. Qed.

Lemma after_item_skip r dt x r2 : after_item r (FTickSkip dt) = Ok (x, r2) ->
  r_tick r2 = r_tick r + 1 + dt /\ r_prev r2 = None /\ r_in_tick r2 = negb (r_in_tick r)
  /\ x = Some (if r_in_tick r then TickEnd (r_tick r) else TickStart (r_tick r + 1 + dt))
  /\ r_next r2 = r_next r.
Proof.
  unfold after_item. cbn [fitem_cid]. destruct (i32_max <? dt); [discriminate|].
  destruct (checked_add (r_tick r) 1) as [t1|] eqn:E1; [|discriminate].
  destruct (checked_add t1 dt) as [t2|] eqn:E2; [|discriminate].
  apply checked_add_some in E1, E2. subst t1 t2.
  destruct (r_in_tick r); intros H; injection H as <- <-; cbn; auto.
Qed.

Definition same_flags (r r2 : reader) : Prop :=
  r_tick r2 = r_tick r /\ r_in_tick r2 = r_in_tick r /\ r_next r2 = r_next r.

Lemma after_item_player r f c x r2 : dmsg_of f = DPlayer c -> after_item r f = Ok (x, r2) ->
  same_flags r r2 /\ r_prev r2 = Some c /\ exists it, x = Some it /\ is_marker it = false.
Proof.
  unfold after_item, same_flags. destruct f; cbn [dmsg_of]; try discriminate; intros Hc; injection Hc as <-;
    cbn [fitem_cid]; cbn beta iota zeta;
    repeat match goal with
           | |- context [aget ?c ?m] => destruct (aget c m) as [?|]
           | |- context [let (_, _) := ?p in _] => destruct p
           | |- context [if ?c then _ else _] => destruct c
           end; intros H; try discriminate; injection H as <- <-; cbn; eauto 10.
Qed.

Lemma after_item_other r f x r2 : dmsg_of f = DOther -> f <> FFinish -> after_item r f = Ok (x, r2) ->
  same_flags r r2 /\ r_prev r2 = r_prev r /\ exists it, x = Some it /\ is_marker it = false.
Proof.
  unfold after_item, same_flags. intros Hd Hf.
  assert (Hm : forall c, r_tick (set_max_cid c r) = r_tick r) by reflexivity.
  destruct f; cbn [dmsg_of] in Hd; try discriminate; try (exfalso; apply Hf; reflexivity);
    cbn beta iota zeta;
    destruct (fitem_cid _);
    repeat match goal with
           | |- context [aget ?c ?m] => destruct (aget c m) as [?|]
           | |- context [if ?c then _ else _] => destruct c
           end; intros H; try discriminate; injection H as <- <-; cbn; eauto 10.
Qed.

(* ---------------- nesting and the documentation's numbering ---------------- *)

Definition st_rel (r : reader) (open : option Z) (lo : Z) : Prop :=
  if r_in_tick r then open = Some (r_tick r) /\ lo = r_tick r + 1
  else open = None /\ lo <= r_tick r.

Theorem mrun_ticks v bs ms : decodes v bs ms ->
  forall r items rf open lo, r_next r = None -> mrun r ms = (items, Some rf) -> st_rel r open lo ->
    nested open lo items
    /\ item_ticks open items = map Some (doc_reported_from (r_tick r) (r_prev r) (map snd ms)).
Proof.
  induction 1 as [bs r0 Hk|bs k rr f r' ms Hk Hr Hnf Hd IH]; intros r items rf open lo Hn Hm Hst.
  - (* FINISH *)
    cbn [mrun] in Hm. rewrite (set_next_none_id _ Hn), emit_pre_finish in Hm by exact Hn.
    unfold st_rel in Hst. cbn [map snd]. rewrite doc_reported_cons. cbn [reported app].
    unfold doc_reported_from. cbn [map combine filter].
    destruct (r_in_tick r) eqn:Eit.
    + cbn in Hm. injection Hm as <- _. destruct Hst as [-> ->]. cbn. auto.
    + cbn in Hm. injection Hm as <- _. destruct Hst as [-> _]. cbn. auto.
  - pose proof (decode_rest_kind _ _ _ _ Hr) as Hkm.
    cbn [mrun] in Hm. rewrite (set_next_none_id _ Hn) in Hm.
    cbn [map snd]. rewrite doc_reported_cons.
    destruct (normal k) eqn:Enorm.
    + (* a record that lives inside a tick *)
      rewrite (emit_pre_normal _ _ Hn Enorm) in Hm. cbn zeta in Hm.
      assert (Hrep : reported f = true /\ f <> FFinish /\
                     ((exists c, player_cid k = Some c /\ dmsg_of f = DPlayer c)
                      \/ (player_cid k = None /\ dmsg_of f = DOther))).
      { destruct k; try discriminate Enorm; cbn in Hkm;
          repeat match goal with
                 | H : exists _, _ |- _ => destruct H
                 end; subst; cbn; try (split; [reflexivity|split; [discriminate|eauto]]).
        all: destruct f; try discriminate Hkm; cbn; (split; [reflexivity|split; [discriminate|eauto]]). }
      destruct Hrep as [Hrep [Hfin Hcls]]. rewrite Hrep.
      destruct (prevcond r k) eqn:Epc.
      * (* implicit tick increment *)
        destruct Hcls as [[c [Hpc Hdm]]|[Hpc _]]; [|unfold prevcond in Epc; rewrite Hpc in Epc; discriminate].
        unfold prevcond in Epc. rewrite Hpc in Epc. destruct (r_prev r) as [p|] eqn:Ep; [|discriminate].
        destruct (checked_add (r_tick r) 1) as [t'|] eqn:Ea; [|discriminate].
        apply checked_add_some in Ea. subst t'.
        set (r1 := set_in_tick true (set_prev None (set_tick (r_tick r + 1) r))) in *.
        destruct (after_item r1 f) as [[[it|] r2]|e|z|] eqn:Eaf; try discriminate.
        2:{ apply after_item_none in Eaf. contradiction. }
        destruct (mrun r2 ms) as [its fin] eqn:Emr. injection Hm as <- ->.
        destruct (after_item_player _ _ _ _ _ Hdm Eaf) as [[Ht [Hit Hnx]] [Hpv [it' [Hx Hmk]]]].
        injection Hx as <-. cbn [r1 set_in_tick set_prev set_tick r_tick r_in_tick r_next] in Ht, Hit, Hnx.
        destruct (IH r2 its rf (Some (r_tick r + 1)) (r_tick r + 1 + 1)) as [IHn IHt].
        { rewrite Hnx. exact Hn. } { exact Emr. }
        { unfold st_rel. rewrite Hit, Ht. auto. }
        rewrite Hdm. cbn [doc_step fst snd]. rewrite Epc. rewrite Ht, Hpv in IHt.
        unfold st_rel in Hst. destruct (r_in_tick r) eqn:Eit.
        -- destruct Hst as [-> ->]. cbn [app]. rewrite <- ?app_assoc. cbn [app nested item_ticks].
           destruct it; try discriminate Hmk; rewrite IHt; cbn [map];
             repeat split; try reflexivity; try lia; try discriminate; try exact IHn.
        -- destruct Hst as [-> Hlo]. cbn [app]. rewrite <- ?app_assoc. cbn [app nested item_ticks].
           destruct it; try discriminate Hmk; rewrite IHt; cbn [map];
             repeat split; try reflexivity; try lia; try discriminate; try exact IHn.
      * (* no increment *)
        set (r1 := set_in_tick true r) in *.
        destruct (after_item r1 f) as [[[it|] r2]|e|z|] eqn:Eaf; try discriminate.
        2:{ apply after_item_none in Eaf. contradiction. }
        destruct (mrun r2 ms) as [its fin] eqn:Emr. injection Hm as <- ->.
        assert (Hfl : same_flags r1 r2 /\ is_marker it = false /\
                      doc_step (r_tick r) (r_prev r) (dmsg_of f) = (r_tick r, r_prev r2)).
        { destruct Hcls as [[c [Hpc Hdm]]|[Hpc Hdm]].
          - destruct (after_item_player _ _ _ _ _ Hdm Eaf) as [Hsf [Hpv [it' [Hx Hmk]]]].
            injection Hx as <-. split; [exact Hsf|]. split; [exact Hmk|].
            rewrite Hdm, Hpv. cbn [doc_step]. unfold prevcond in Epc. rewrite Hpc in Epc.
            destruct (r_prev r); [rewrite Epc|]; reflexivity.
          - destruct (after_item_other _ _ _ _ Hdm Hfin Eaf) as [Hsf [Hpv [it' [Hx Hmk]]]].
            injection Hx as <-. split; [exact Hsf|]. split; [exact Hmk|].
            rewrite Hdm, Hpv. reflexivity. }
        destruct Hfl as [[Ht [Hit Hnx]] [Hmk Hdoc]].
        cbn [r1 set_in_tick r_tick r_in_tick r_next] in Ht, Hit, Hnx.
        destruct (IH r2 its rf (Some (r_tick r)) (r_tick r + 1)) as [IHn IHt].
        { rewrite Hnx. exact Hn. } { exact Emr. }
        { unfold st_rel. rewrite Hit, Ht. auto. }
        rewrite Hdoc. cbn [fst snd]. rewrite Ht in IHt.
        unfold st_rel in Hst. destruct (r_in_tick r) eqn:Eit.
        -- destruct Hst as [-> ->]. cbn [app nested item_ticks].
           destruct it; try discriminate Hmk; rewrite IHt; cbn [map];
             repeat split; try reflexivity; try lia; try discriminate; try exact IHn.
        -- destruct Hst as [-> Hlo]. cbn [app nested item_ticks].
           destruct it; try discriminate Hmk; rewrite IHt; cbn [map];
             repeat split; try reflexivity; try lia; try discriminate; try exact IHn.
    + (* TICK_SKIP (FINISH is excluded) *)
      assert (k = IKTickSkip) as -> by (destruct k; try discriminate Enorm; try reflexivity; contradiction).
      destruct Hkm as [dt [-> Hdt]].
      rewrite emit_pre_skip in Hm by exact Hn.
      destruct (after_item r (FTickSkip dt)) as [[[it|] r2]|e|z|] eqn:Eaf; try discriminate.
      2:{ apply after_item_none in Eaf. discriminate. }
      destruct (mrun r2 ms) as [its fin] eqn:Emr. injection Hm as <- ->.
      destruct (after_item_skip _ _ _ _ Eaf) as [Ht [Hpv [Hit [Hx Hnx]]]]. injection Hx as ->.
      cbn [reported dmsg_of doc_step fst snd app].
      replace (r_tick r + (dt + 1)) with (r_tick r + 1 + dt) by lia.
      unfold st_rel in Hst. destruct (r_in_tick r) eqn:Eit; cbn [negb] in Hit.
      * destruct Hst as [-> ->].
        destruct (IH r2 its rf None (r_tick r + 1)) as [IHn IHt].
        { rewrite Hnx. exact Hn. } { exact Emr. }
        { unfold st_rel. rewrite Hit, Ht. split; [reflexivity|lia]. }
        rewrite Ht, Hpv in IHt. cbn [nested item_ticks]. auto.
      * destruct Hst as [-> Hlo].
        destruct (IH r2 its rf (Some (r_tick r + 1 + dt)) (r_tick r + 1 + dt + 1)) as [IHn IHt].
        { rewrite Hnx. exact Hn. } { exact Emr. }
        { unfold st_rel. rewrite Hit, Ht. auto. }
        rewrite Ht, Hpv in IHt. cbn [nested item_ticks]. repeat split; try reflexivity; try lia; assumption.
Qed.

(* ---------------- running sums ---------------- *)

Lemma aget_aremove {V} k k' (m : amap V) : aget k' (aremove k m) = if k' =? k then None else aget k' m.
Proof.
  induction m as [|[k0 v0] m IH]; cbn [aremove aget].
  - destruct (k' =? k); reflexivity.
  - destruct (Z.eqb_spec k k0) as [->|Hne].
    + rewrite IH. destruct (Z.eqb_spec k' k0); reflexivity.
    + cbn [aget]. rewrite IH. destruct (Z.eqb_spec k' k0) as [->|Hne'].
      * destruct (Z.eqb_spec k0 k); [congruence|reflexivity].
      * reflexivity.
Qed.

Lemma aget_aset {V} k k' (v : V) (m : amap V) : aget k' (aset k v m) = if k' =? k then Some v else aget k' m.
Proof.
  unfold aset. cbn [aget]. destruct (Z.eqb_spec k' k) as [->|Hne]; [reflexivity|].
  rewrite aget_aremove. destruct (Z.eqb_spec k' k); [contradiction|reflexivity].
Qed.

Lemma before_item_maps r k it r' : before_item r k = PreEmit it r' ->
  is_marker it = true /\ r_players r' = r_players r /\ r_inputs r' = r_inputs r.
Proof.
  unfold before_item.
  repeat match goal with
         | |- context [if ?c then _ else _] => destruct c
         | |- context [match ?x with _ => _ end] => destruct x
         end; intros Eb; try discriminate; injection Eb as <- <-; auto.
Qed.

Lemma emit_pre_maps : forall n r k pre x, emit_pre n r k = (pre, x) ->
  payload pre = [] /\ (forall r1, x = Some r1 -> r_players r1 = r_players r /\ r_inputs r1 = r_inputs r).
Proof.
  induction n as [|n IH]; intros r k pre x H; cbn [emit_pre] in H.
  - injection H as <- <-. split; [reflexivity|discriminate].
  - destruct (before_item r k) as [it r'|e|r'] eqn:Eb.
    + destruct (emit_pre n (set_next None r') k) as [its x'] eqn:Ee. injection H as <- <-.
      destruct (before_item_maps _ _ _ _ Eb) as [Hmk [Hp Hi]].
      destruct (IH _ _ _ _ Ee) as [Hpay Hmaps]. split.
      * unfold payload. cbn [filter]. rewrite Hmk. exact Hpay.
      * intros r1 Hx. destruct (Hmaps r1 Hx) as [A B]. cbn [set_next r_players r_inputs] in A, B.
        rewrite A, B. auto.
    + injection H as <- <-. split; [reflexivity|discriminate].
    + injection H as <- <-. apply before_item_read in Eb. subst. split; [reflexivity|].
      intros r1 Hx. injection Hx as <-. auto.
Qed.

Lemma after_item_skip_maps r dt x r2 : after_item r (FTickSkip dt) = Ok (x, r2) ->
  r_players r2 = r_players r /\ r_inputs r2 = r_inputs r /\ exists it, x = Some it /\ is_marker it = true.
Proof.
  unfold after_item. cbn [fitem_cid]. destruct (i32_max <? dt); [discriminate|].
  destruct (checked_add (r_tick r) 1) as [t1|]; [|discriminate].
  destruct (checked_add t1 dt) as [t2|]; [|discriminate].
  destruct (r_in_tick r); intros H; injection H as <- <-; cbn; eauto.
Qed.

Lemma after_item_sums r f it r2 pos inp : reported f = true -> after_item r f = Ok (Some it, r2) ->
  (forall c, pos c = aget c (r_players r)) -> (forall c, inp c = aget c (r_inputs r)) ->
  is_marker it = false /\
  exists pos' inp', (forall c, pos' c = aget c (r_players r2)) /\ (forall c, inp' c = aget c (r_inputs r2))
    /\ forall l, sums_ok pos' inp' l -> sums_ok pos inp ((f, it) :: l).
Proof.
  intros Hrep H Hpos Hinp. unfold after_item in H.
  assert (Hm : r_players (match fitem_cid f with
                          | Some c => set_max_cid (Z.max (r_max_cid r) c) r
                          | None => r
                          end) = r_players r
               /\ r_inputs (match fitem_cid f with
                            | Some c => set_max_cid (Z.max (r_max_cid r) c) r
                            | None => r
                            end) = r_inputs r) by (destruct (fitem_cid f); auto).
  revert H Hm.
  generalize (match fitem_cid f with
              | Some c => set_max_cid (Z.max (r_max_cid r) c) r
              | None => r
              end) as r1.
  intros r1 H [Hp1 Hi1].
  destruct f; try discriminate Hrep; cbn beta iota zeta in H.
  - (* PlayerDiff *)
    destruct (cid <? 0); [discriminate|]. cbn [set_prev r_players] in H.
    destruct (aget cid (r_players r1)) as [[ox oy]|] eqn:Eg; [|discriminate].
    injection H as <- <-. split; [reflexivity|].
    exists (upd pos cid (Some (wadd ox dx, wadd oy dy))), inp. split; [|split].
    + intros c. cbn [set_players set_prev r_players]. rewrite aget_aset, Hp1. unfold upd.
      destruct (c =? cid); [reflexivity|apply Hpos].
    + intros c. cbn [set_players set_prev r_inputs]. rewrite Hi1. apply Hinp.
    + intros l Hl. cbn [sums_ok]. exists ox, oy. rewrite Hpos, <- Hp1, Eg. auto.
  - (* PlayerNew *)
    destruct (cid <? 0); [discriminate|]. cbn [set_prev r_players] in H.
    destruct (aget cid (r_players r1)) as [[ox oy]|] eqn:Eg; [discriminate|].
    injection H as <- <-. split; [reflexivity|].
    exists (upd pos cid (Some (x, y))), inp. split; [|split].
    + intros c. cbn [set_players set_prev r_players]. rewrite aget_aset, Hp1. unfold upd.
      destruct (c =? cid); [reflexivity|apply Hpos].
    + intros c. cbn [set_players set_prev r_inputs]. rewrite Hi1. apply Hinp.
    + intros l Hl. cbn [sums_ok]. auto.
  - (* PlayerOld *)
    destruct (cid <? 0); [discriminate|]. cbn [set_prev r_players] in H.
    destruct (aget cid (r_players r1)) as [[ox oy]|] eqn:Eg; [|discriminate].
    injection H as <- <-. split; [reflexivity|].
    exists (upd pos cid None), inp. split; [|split].
    + intros c. cbn [set_players set_prev r_players]. rewrite aget_aremove, Hp1. unfold upd.
      destruct (c =? cid); [reflexivity|apply Hpos].
    + intros c. cbn [set_players set_prev r_inputs]. rewrite Hi1. apply Hinp.
    + intros l Hl. cbn [sums_ok]. exists ox, oy. rewrite Hpos, <- Hp1, Eg. auto.
  - (* InputDiff *)
    destruct (cid <? 0); [discriminate|].
    destruct (aget cid (r_inputs r1)) as [old|] eqn:Eg; [|discriminate].
    injection H as <- <-. split; [reflexivity|].
    exists pos, (upd inp cid (Some (wadd_list old diff))). split; [|split].
    + intros c. cbn [set_inputs r_players]. rewrite Hp1. apply Hpos.
    + intros c. cbn [set_inputs r_inputs]. rewrite aget_aset, Hi1. unfold upd.
      destruct (c =? cid); [reflexivity|apply Hinp].
    + intros l Hl. cbn [sums_ok]. exists old. rewrite Hinp, <- Hi1, Eg. auto.
  - (* InputNew *)
    destruct (cid <? 0); [discriminate|].
    injection H as <- <-. split; [reflexivity|].
    exists pos, (upd inp cid (Some new)). split; [|split].
    + intros c. cbn [set_inputs r_players]. rewrite Hp1. apply Hpos.
    + intros c. cbn [set_inputs r_inputs]. rewrite aget_aset, Hi1. unfold upd.
      destruct (c =? cid); [reflexivity|apply Hinp].
    + intros l Hl. cbn [sums_ok]. auto.
  - injection H as <- <-. split; [reflexivity|]. exists pos, inp. rewrite Hp1, Hi1. cbn [sums_ok]. auto.
  - injection H as <- <-. split; [reflexivity|]. exists pos, inp. rewrite Hp1, Hi1. cbn [sums_ok]. auto.
  - injection H as <- <-. split; [reflexivity|]. exists pos, inp. rewrite Hp1, Hi1. cbn [sums_ok]. auto.
Qed.

Lemma payload_app a b : payload (a ++ b) = payload a ++ payload b.
Proof. unfold payload. apply filter_app. Qed.

Theorem mrun_sums v bs ms : decodes v bs ms ->
  forall r items rf pos inp, mrun r ms = (items, Some rf) ->
    (forall c, pos c = aget c (r_players r)) -> (forall c, inp c = aget c (r_inputs r)) ->
    length (filter reported (map snd ms)) = length (payload items)
    /\ sums_ok pos inp (combine (filter reported (map snd ms)) (payload items)).
Proof.
  induction 1 as [bs r0 Hk|bs k rr f r' ms Hk Hr Hnf Hd IH]; intros r items rf pos inp Hm Hpos Hinp.
  - cbn [mrun] in Hm. destruct (emit_pre 4 (set_next None r) IKFinish) as [pre x] eqn:Ee.
    destruct (emit_pre_maps _ _ _ _ _ Ee) as [Hpay _].
    destruct x as [r1|]; [|discriminate].
    assert (Ha : after_item r1 FFinish = Ok (None, r1)) by reflexivity.
    rewrite Ha in Hm. injection Hm as <- _. rewrite Hpay. cbn. auto.
  - pose proof (decode_rest_kind _ _ _ _ Hr) as Hkm.
    assert (Hfin : f <> FFinish).
    { intros ->. destruct k; cbn in Hkm; try contradiction; try discriminate;
        repeat match goal with
               | H : exists _, _ |- _ => destruct H
               | H : _ /\ _ |- _ => destruct H
               end; discriminate. }
    cbn [mrun] in Hm. destruct (emit_pre 4 (set_next None r) k) as [pre x] eqn:Ee.
    destruct (emit_pre_maps _ _ _ _ _ Ee) as [Hpay Hmaps].
    destruct x as [r1|]; [|discriminate].
    destruct (Hmaps r1 eq_refl) as [Hp1 Hi1]. cbn [set_next r_players r_inputs] in Hp1, Hi1.
    destruct (after_item r1 f) as [[[it|] r2]|e|z|] eqn:Eaf; try discriminate.
    2:{ apply after_item_none in Eaf. contradiction. }
    destruct (mrun r2 ms) as [its fin] eqn:Emr. injection Hm as <- ->.
    rewrite payload_app, Hpay. cbn [app map snd filter].
    destruct (reported f) eqn:Erep.
    + destruct (after_item_sums r1 f it r2 pos inp Erep Eaf) as [Hmk [pos' [inp' [Hp' [Hi' Hs]]]]].
      { intros c. rewrite Hp1. apply Hpos. } { intros c. rewrite Hi1. apply Hinp. }
      destruct (IH r2 its rf pos' inp' Emr Hp' Hi') as [Hlen Hsum].
      unfold payload at 1 2. cbn [filter]. rewrite Hmk. cbn [negb length combine]. fold (payload its).
      split; [rewrite Hlen; reflexivity|]. apply Hs. exact Hsum.
    + assert (exists dt, f = FTickSkip dt) as [dt ->]
        by (destruct f; try discriminate Erep; [contradiction Hfin; reflexivity|eauto]).
      destruct (after_item_skip_maps _ _ _ _ Eaf) as [Hp2 [Hi2 [it' [Hx Hmk]]]]. injection Hx as <-.
      unfold payload at 1 2. cbn [filter]. rewrite Hmk. cbn [negb]. fold (payload its).
      apply (IH r2 its rf pos inp Emr).
      * intros c. rewrite Hp2, Hp1. apply Hpos.
      * intros c. rewrite Hi2, Hi1. apply Hinp.
Qed.

(* wrapping additions accumulate to the wrapped sum *)
Definition wrap32 (z : Z) : Z := i32_of (u32_of z).

Lemma wrap32_add_l a b : wrap32 (wrap32 a + b) = wrap32 (a + b).
Proof.
  unfold wrap32, i32_of, u32_of, two31, two32. f_equal.
  destruct (a mod 4294967296 <? 2147483648).
  - rewrite Zplus_mod_idemp_l. reflexivity.
  - replace (a mod 4294967296 - 4294967296 + b) with (a mod 4294967296 + b + (-1) * 4294967296) by lia.
    rewrite Z_mod_plus_full, Zplus_mod_idemp_l. reflexivity.
Qed.

Lemma wadd_wrap a b : wadd (wrap32 a) b = wrap32 (a + b).
Proof. exact (wrap32_add_l a b). Qed.

Definition zsum (ds : list Z) : Z := fold_right Z.add 0 ds.

Lemma wadd_fold_wrapped ds : forall a, fold_left wadd ds (wrap32 a) = wrap32 (a + zsum ds).
Proof.
  induction ds as [|d ds IH]; intros a; cbn [fold_left zsum fold_right].
  - f_equal. lia.
  - rewrite wadd_wrap, IH. f_equal. fold (zsum ds). lia.
Qed.

(* a position that started at x0 and received the differences d :: ds is the i32 wrap of the exact sum *)
Lemma wadd_fold x0 d ds : fold_left wadd (d :: ds) x0 = wrap32 (x0 + d + zsum ds).
Proof.
  cbn [fold_left]. change (wadd x0 d) with (wrap32 (x0 + d)). apply wadd_fold_wrapped.
Qed.

(* C13, the snapshot layer: what the sender's Storage holds (`built` snapshots), what the receiving
   Storage holds (`like` copies), and the one step that matters - the delta the sender takes between
   two of its snapshots, written to bytes, read back and applied to a copy of the base, gives a copy
   of the target (C09_end_to_end / C10_after_delta re-derived from the invariants `good` / `bgood`
   instead of the boolean raw_ok, and for a base that is only `like` the sender's). *)
From LibTw2 Require Import Base.Res Model.Varint Model.Packer Model.Snap Proofs.SnapBase Proofs.SnapRep Proofs.SnapDelta
  Proofs.SnapApply Proofs.SnapOk Proofs.SnapTotal Proofs.SnapTotal2 Proofs.SnapWire Proofs.SnapWireInst Proofs.SnapC09
  Proofs.SnapSer Proofs.SnapReg Proofs.SnapObs Proofs.SnapBuilder Proofs.SnapBuilder2 Proofs.SnapBuilder3 Proofs.SnapC10
  Proofs.SnapC11.
From LibTw2 Require Import Model.Storage.
From Coq Require Import ZArith List Lia Bool Permutation.
Import ListNotations.
Open Scope Z_scope.

(* ---------- snapshots made by a Builder ---------- *)
Definition built (X : snap) : Prop := exists b, bgood b /\ b_snap b = X.

Lemma built_empty : built snap_empty.
Proof. exists builder_new. split; [apply bgood_new|reflexivity]. Qed.

Lemma built_facts X : built X ->
  good (sn_raw X) /\ sgood X /\ build_from_raw (sn_raw X) = (Ok X, []).
Proof.
  intros (b & G & <-). destruct (builder_consistent b G) as [E GS].
  split; [apply (bg_raw _ G)|]. split; assumption.
Qed.

Lemma built_recycle X : built X -> exists b, snap_recycle X = Ok b /\ bgood b.
Proof.
  intros (b0 & G & <-). destruct (bg_st _ G) as (ch & R & B).
  destruct (recycle_builder_state (b_snap b0) ch (b_next b0) (bg_raw _ G) R B (bg_next _ G)) as (b & E & Gb & _).
  exists b. split; assumption.
Qed.

Lemma item_okb_op_ok t id data : item_okb (t, id, data) = true -> op_ok t id data.
Proof.
  unfold item_okb, op_ok. cbn [fst snd]. intros H.
  apply andb_true_iff in H. destruct H as [H Hd]. apply andb_true_iff in H. destruct H as [Ht Hid].
  split; [|split; [unfold is_u16 in Hid; lia|exact Hd]].
  destruct t as [o|u]; [lia|exact Ht].
Qed.

(* the builder loop of the sender: on API-conforming items it never panics and keeps the invariant *)
Lemma build_world_bgood w : forall b, bgood b -> forallb item_okb w = true ->
  match build_world b w with
  | Ok b' => bgood b'
  | Err _ => True
  | _ => False
  end.
Proof.
  induction w as [|[[t id] data] w IH]; intros b G Hok; [exact G|].
  cbn [forallb] in Hok. apply andb_true_iff in Hok. destruct Hok as [Hit Hok].
  cbn [build_world]. pose proof (builder_add_bgood b t id data G (item_okb_op_ok _ _ _ Hit)) as [G' F].
  destruct (builder_add b t id data) as [b' x]. cbn [fst snd] in G', F.
  destruct x as [u|e|s|]; try contradiction; [|exact I].
  apply IH; assumption.
Qed.

(* ---------- copies ---------- *)
Lemma like_refl X : good (sn_raw X) -> like X X.
Proof.
  intros G. split; [reflexivity|]. split; [exact G|]. destruct (g_rep _ G) as [ch R].
  exists ch, ch. split; [exact R|]. split; [exact R|reflexivity].
Qed.

Lemma like_empty : like snap_empty snap_empty.
Proof. apply like_refl, good_empty. Qed.

Lemma like_good H X : like H X -> good (sn_raw X).
Proof. intros (_ & G & _). exact G. Qed.

(* what an observer can see of a copy: C10's three clauses and the registry *)
Lemma like_same H X : like H X ->
  (forall E, @snap_items E X = @snap_items E H)
  /\ (forall E t id, @snap_item E X t id = @snap_item E H t id)
  /\ Snap.crc (sn_raw X) = Snap.crc (sn_raw H)
  /\ sn_ext X = sn_ext H.
Proof.
  intros L. destruct (like_observables _ _ L) as (O1 & O2 & O3).
  split; [exact O1|]. split; [exact O2|]. split; [exact O3|apply L].
Qed.

(* the delta depends on the base only through its lookups *)
Lemma created_same_base A A' B chA chA' chB :
  rep A chA -> rep A' chA' -> (forall k, aget k chA' = aget k chA) ->
  created A' B chA' chB = created A B chA chB.
Proof.
  intros R R' Hl. destruct (same_lookups _ _ _ _ R' R Hl) as (_ & _ & Hk).
  unfold created. rewrite Hk.
  assert (Hd : diffs chA' (view B chB) = diffs chA (view B chB)).
  { unfold diffs. apply map_ext. intros kd. unfold diff_of. rewrite Hl. reflexivity. }
  rewrite Hd. reflexivity.
Qed.

(* THE STEP: sender diffs H against its base A; the receiver applies the bytes to its copy A' of A *)
Theorem send_recv_core sz A H A' :
  good (sn_raw A) -> good (sn_raw H) -> build_from_raw (sn_raw H) = (Ok H, []) ->
  k09 (sn_raw A) (sn_raw H) = false -> sizes_respected sz (sn_raw H) = true -> like A A' ->
  exists d l,
    create_raw (sn_raw A) (sn_raw H) = Ok d
    /\ delta_ints sz d = Ok l /\ forallb is_i32 l = true /\ (3 <= length l)%nat
    /\ ints_to_bytes l = Ok (enc l)
    /\ delta_read_bytes sz (enc l) = (Ok d, [])
    /\ exists X, snap_read_with_delta A' d = (Ok X, []) /\ like H X.
Proof.
  intros GRA GRB Ec Hk Hsz (Hext & GRA' & ch0 & chA' & R0 & RA' & Hl0).
  destruct (g_rep _ GRA) as [chA HA]. destruct (g_rep _ GRB) as [chB HB].
  assert (Hl : forall k, aget k chA' = aget k chA).
  { intros k. rewrite Hl0. apply (rep_lookups_unique _ _ _ R0 HA). }
  pose proof (k09_false _ _ _ _ HA HB Hk) as Hsl.
  assert (Hsl' : same_len chA' chB).
  { intros k f dd Hf Hd. rewrite Hl in Hf. apply (Hsl k f dd Hf Hd). }
  set (d := created (sn_raw A) (sn_raw H) chA chB).
  assert (Ed : created (sn_raw A') (sn_raw H) chA' chB = d) by (apply created_same_base; assumption).
  destruct (apply_created (sn_raw A') (sn_raw H) chA' chB RA' HB (g_keys _ GRA') (g_keys _ GRB) (g_buf _ GRA') (g_buf _ GRB)
              (good_lim _ _ GRB HB) Hsl') as (B' & ch' & Eap & R' & Hlook).
  rewrite Ed in Eap.
  destruct (created_pre sz (sn_raw A) (sn_raw H) chA chB HA HB (g_keys _ GRA) (g_keys _ GRB) (g_buf _ GRA) (g_buf _ GRB)
              (good_lim _ _ GRA HA) (good_lim _ _ GRB HB) Hsl Hsz) as [E W].
  fold d in E, W.
  set (l := wire_ints sz (d_del d) (diffs chA (view (sn_raw H) chB))).
  pose proof (wire_ints_i32 sz _ _ W) as Hli. fold l in Hli.
  exists d, l.
  split; [apply create_raw_spec; try assumption; [apply (g_keys _ GRA)|apply (g_keys _ GRB)]|].
  split; [rewrite E; apply delta_ints_spec, W|]. split; [exact Hli|].
  split; [unfold l, wire_ints; cbn [length]; lia|].
  split; [apply ints_to_bytes_enc, Hli|].
  split; [pose proof (wire_bytes_roundtrip sz _ _ W) as Hrt; rewrite <- E in Hrt; exact Hrt|].
  pose proof (build_from_raw_congr B' ch' (sn_raw H) chB R' HB Hlook) as Hcg. rewrite Ec in Hcg.
  destruct (build_from_raw B') as [[S1| | |] ws1] eqn:Eb; try contradiction.
  destruct Hcg as (Hext1 & Hws & Hr1 & _). subst ws1. exists S1.
  split; [unfold snap_read_with_delta; rewrite Eap, wbind_ok'; exact Eb|].
  split; [exact Hext1|]. split.
  - rewrite Hr1.
    pose proof (read_with_delta_good (sn_raw A') d GRA' (dgood_created _ _ chA chB HA HB (g_buf _ GRB))) as Wp.
    unfold wpost in Wp. rewrite Eap in Wp. exact Wp.
  - exists chB, ch'. split; [exact HB|]. split; [rewrite Hr1; exact R'|exact Hlook].
Qed.

(* what delta_write_bytes returns is the encoding of delta_ints *)
Lemma delta_write_bytes_inv sz d l cap bs :
  delta_ints sz d = Ok l -> ints_to_bytes l = Ok (enc l) -> delta_write_bytes sz d cap = Ok bs -> bs = enc l.
Proof.
  intros E1 E2. unfold delta_write_bytes. rewrite E1, E2.
  destruct (cap <? length (enc l))%nat; [discriminate|]. intros [= <-]. reflexivity.
Qed.

Lemma delta_write_bytes_fine sz d l cap :
  delta_ints sz d = Ok l -> ints_to_bytes l = Ok (enc l) ->
  match delta_write_bytes sz d cap with Ok _ | Err _ => True | _ => False end.
Proof.
  intros E1 E2. unfold delta_write_bytes. rewrite E1, E2.
  destruct (cap <? length (enc l))%nat; exact I.
Qed.

(* The C++ reference compressor (Model/HuffmanRef.v) writes byte for byte what
   compress_bug writes, and fails for the same capacities. *)
From LibTw2 Require Import Base.Res Base.Bits Model.Huffman Model.HuffmanRef
  Proofs.HuffmanBits Proofs.HuffmanCompress.
From Coq Require Import ZArith List Lia Bool.
Import ListNotations.
Open Scope Z_scope.

(* ---------- a byte string is determined by its bits ---------- *)

Fixpoint value_of_bits (bs : list bool) : Z :=
  match bs with
  | [] => 0
  | b :: r => (if b then 1 else 0) + 2 * value_of_bits r
  end.

Lemma byte_of_its_bits b : 0 <= b < 256 -> value_of_bits (byte_bits 8 b) = b.
Proof.
  intros Hb. apply Z.eqb_eq.
  apply (byte_sweep (fun b => value_of_bits (byte_bits 8 b) =? b)); [vm_compute; reflexivity|exact Hb].
Qed.

Lemma app_eq_len {A} (a1 a2 b1 b2 : list A) : length a1 = length a2 ->
  a1 ++ b1 = a2 ++ b2 -> a1 = a2 /\ b1 = b2.
Proof.
  revert a2. induction a1 as [|x a1 IH]; intros [|y a2] Hl H; try discriminate; [auto|].
  cbn [app] in H. injection H as -> H. cbn [length] in Hl.
  destruct (IH a2 ltac:(lia) H) as [-> ->]. auto.
Qed.

Lemma bits_of_bytes_inj a : forall b, bytes_ok a = true -> bytes_ok b = true ->
  bits_of_bytes a = bits_of_bytes b -> a = b.
Proof.
  induction a as [|x a IH]; intros [|y b] Ha Hb H.
  - reflexivity.
  - apply (f_equal (@length bool)) in H. rewrite !bits_of_bytes_length in H. cbn [length] in H. lia.
  - apply (f_equal (@length bool)) in H. rewrite !bits_of_bytes_length in H. cbn [length] in H. lia.
  - cbn [bytes_ok forallb] in Ha, Hb. apply andb_prop in Ha as [Hx Ha]. apply andb_prop in Hb as [Hy Hb].
    rewrite !bits_of_bytes_cons in H.
    apply app_eq_len in H as [Hh Ht]; [|now rewrite !byte_bits_length].
    unfold byte_ok in Hx, Hy. apply andb_prop in Hx as [Hx1 Hx2]. apply andb_prop in Hy as [Hy1 Hy2].
    f_equal.
    + rewrite <- (byte_of_its_bits x) by lia. rewrite <- (byte_of_its_bits y) by lia. now rewrite Hh.
    + apply IH; assumption.
Qed.

(* ---------- HUFFMAN_MACRO_WRITE ---------- *)

Lemma ref_write_spec bits0 : forall fuel off bc room,
  0 <= off -> 0 <= bc -> bc / 8 < Z.of_nat fuel -> (1 <= room)%nat ->
  let k := Z.to_nat (bc / 8) in
  ((k < room)%nat ->
     ref_write fuel (Z.shiftr bits0 off) bc room
     = Ok (loop_bytes bits0 off k, Z.shiftr bits0 (off + 8 * (bc / 8)), bc mod 8, (room - k)%nat))
  /\ ((room <= k)%nat -> ref_write fuel (Z.shiftr bits0 off) bc room = Err tt).
Proof.
  induction fuel as [|f IH]; intros off bc room Hoff Hbc Hf Hroom k; subst k.
  - assert (bc / 8 < 0) by lia. pose proof (Z.div_pos bc 8 ltac:(lia) ltac:(lia)). lia.
  - cbn [ref_write]. destruct (Z.ltb_spec bc 8) as [Hlt|Hge].
    + rewrite Z.div_small, Z.mod_small by lia. cbn [Z.to_nat loop_bytes]. split.
      * intros _. rewrite Z.add_0_r, Nat.sub_0_r. reflexivity.
      * intros Hc. lia.
    + assert (Hq : bc / 8 = (bc - 8) / 8 + 1).
      { replace bc with ((bc - 8) + 1 * 8) at 1 by lia. rewrite Z.div_add by lia. reflexivity. }
      assert (Hm : bc mod 8 = (bc - 8) mod 8).
      { replace bc with ((bc - 8) + 1 * 8) at 1 by lia. apply Z.mod_add. lia. }
      assert (Hq0 : 0 <= (bc - 8) / 8) by (apply Z.div_pos; lia).
      replace (Z.to_nat (bc / 8)) with (S (Z.to_nat ((bc - 8) / 8))) by lia.
      cbn [loop_bytes]. destruct room as [|r]; [lia|].
      destruct (Nat.eqb_spec r 0) as [->|Hr].
      * split; [intros Hc; lia|reflexivity].
      * rewrite Z.shiftr_shiftr by lia.
        destruct (IH (off + 8) (bc - 8) r ltac:(lia) ltac:(lia) ltac:(lia) ltac:(lia)) as [Hok Herr]. split.
        -- intros Hc. rewrite Hok by lia. rewrite Hm.
           replace (off + 8 * (bc / 8)) with (off + 8 + 8 * ((bc - 8) / 8)) by lia. reflexivity.
        -- intros Hc. rewrite Herr by lia. reflexivity.
Qed.

(* ---------- one LOADSYMBOL + WRITE ---------- *)

Lemma ref_symbol_spec mbits n bits bc :
  0 <= n <= 24 -> 0 <= mbits < 2 ^ n -> 0 <= bc < 8 -> 0 <= bits < 2 ^ bc ->
  let bits1 := Z.lor bits (Z.shiftl mbits bc mod two32) in
  let bc1 := (bc + n) mod two32 in
  exists em bits2,
    length em = Z.to_nat ((bc + n) / 8)
    /\ bytes_ok em = true
    /\ 0 <= bits2 < 2 ^ ((bc + n) mod 8)
    /\ bits_of_bytes em ++ bits_of bits2 0 (Z.to_nat ((bc + n) mod 8))
       = bits_of bits 0 (Z.to_nat bc) ++ bits_of mbits 0 (Z.to_nat n)
    /\ (forall room, (length em < room)%nat ->
          ref_write 8 bits1 bc1 room = Ok (em, bits2, (bc + n) mod 8, (room - length em)%nat))
    /\ (forall room, (1 <= room <= length em)%nat -> ref_write 8 bits1 bc1 room = Err tt).
Proof.
  intros Hn Hm Hbc Hbits bits1 bc1.
  assert (Hbc1 : bc1 = bc + n) by (unfold bc1, two32; apply Z.mod_small; lia).
  assert (Hsh : Z.shiftl mbits bc mod two32 = Z.shiftl mbits bc).
  { apply Z.mod_small. rewrite Z.shiftl_mul_pow2 by lia. split; [apply Z.mul_nonneg_nonneg; lia|].
    assert (2 ^ n * 2 ^ bc <= 2 ^ 24 * 2 ^ 7).
    { apply Z.mul_le_mono_nonneg; try (apply Z.pow_nonneg; lia); apply Z.pow_le_mono_r; lia. }
    assert (mbits * 2 ^ bc < 2 ^ n * 2 ^ bc) by (apply Z.mul_lt_mono_pos_r; [apply Z.pow_pos_nonneg|]; lia).
    unfold two32. change (2 ^ 24 * 2 ^ 7) with 2147483648 in *. lia. }
  assert (Hb1 : forall i, 0 <= i -> Z.testbit bits1 i = if i <? bc then Z.testbit bits i else Z.testbit mbits (i - bc)).
  { intros i Hi. unfold bits1. rewrite Hsh, Z.lor_spec, Z.shiftl_spec by lia.
    destruct (Z.ltb_spec i bc).
    - rewrite (Z.testbit_neg_r mbits) by lia. apply orb_false_r.
    - rewrite (testbit_small bits bc) by lia. reflexivity. }
  assert (Hb1nn : 0 <= bits1).
  { unfold bits1. rewrite Hsh. apply Z.lor_nonneg. split; [lia|]. apply Z.shiftl_nonneg. lia. }
  assert (Hb1s : bits1 < 2 ^ (bc + n)).
  { apply small_of_testbit; [lia|exact Hb1nn|]. intros i Hi. rewrite Hb1 by lia.
    destruct (Z.ltb_spec i bc); [lia|]. apply (testbit_small mbits n); lia. }
  set (kz := (bc + n) / 8). assert (Hk0 : 0 <= kz) by (apply Z.div_pos; lia).
  assert (Hk3 : kz <= 3) by (unfold kz; Z.div_mod_to_equations; lia).
  pose proof (Z.div_mod (bc + n) 8 ltac:(lia)) as Hdm. fold kz in Hdm.
  pose proof (Z.mod_pos_bound (bc + n) 8 ltac:(lia)) as Hmb.
  exists (loop_bytes bits1 0 (Z.to_nat kz)), (Z.shiftr bits1 (8 * kz)).
  rewrite loop_bytes_length. split; [reflexivity|]. split; [apply loop_bytes_ok|]. split.
  { rewrite Z.shiftr_div_pow2 by lia. split; [apply Z.div_pos; [lia|apply Z.pow_pos_nonneg; lia]|].
    apply Z.div_lt_upper_bound; [apply Z.pow_pos_nonneg; lia|].
    rewrite <- Z.pow_add_r by lia. replace (8 * kz + (bc + n) mod 8) with (bc + n) by lia. exact Hb1s. }
  split.
  { rewrite loop_bytes_bits by lia.
    replace (bits_of (Z.shiftr bits1 (8 * kz)) 0 (Z.to_nat ((bc + n) mod 8)))
      with (bits_of bits1 (8 * kz) (Z.to_nat ((bc + n) mod 8))).
    2:{ apply bits_of_ext. intros i Hi. rewrite Z.shiftr_spec by lia. f_equal. lia. }
    replace (8 * kz) with (0 + Z.of_nat (8 * Z.to_nat kz)) at 1 by lia.
    rewrite <- bits_of_app.
    replace (8 * Z.to_nat kz + Z.to_nat ((bc + n) mod 8))%nat with (Z.to_nat bc + Z.to_nat n)%nat by lia.
    rewrite bits_of_app. f_equal.
    - apply bits_of_ext. intros i Hi. rewrite Hb1 by lia. destruct (Z.ltb_spec (0 + i) bc); [reflexivity|lia].
    - apply bits_of_ext. intros i Hi. rewrite Hb1 by lia.
      destruct (Z.ltb_spec (0 + Z.of_nat (Z.to_nat bc) + i) bc); [lia|]. f_equal. lia. }
  split.
  - intros room Hroom. rewrite Hbc1.
    destruct (ref_write_spec bits1 8 0 (bc + n) room ltac:(lia) ltac:(lia) ltac:(fold kz; lia) ltac:(lia)) as [Hok _].
    rewrite Z.shiftr_0_r in Hok. fold kz in Hok. rewrite Hok by lia. reflexivity.
  - intros room Hroom. rewrite Hbc1.
    destruct (ref_write_spec bits1 8 0 (bc + n) room ltac:(lia) ltac:(lia) ltac:(fold kz; lia) ltac:(lia)) as [_ Herr].
    rewrite Z.shiftr_0_r in Herr. fold kz in Herr. apply Herr. lia.
Qed.

(* ---------- the whole input ---------- *)

Lemma ref_syms_spec t : wf_table t = true -> forall syms bits bc,
  Forall sym_range syms -> 0 <= bc < 8 -> 0 <= bits < 2 ^ bc ->
  exists out,
    Z.of_nat (length out) = bytes_needed (bc + Z.of_nat (length (codes t syms))) true
    /\ bytes_ok out = true
    /\ bits_of_bytes out
       = bits_of bits 0 (Z.to_nat bc) ++ codes t syms
         ++ repeat false (Z.to_nat (8 * bytes_needed (bc + Z.of_nat (length (codes t syms))) true
                                    - (bc + Z.of_nat (length (codes t syms)))))
    /\ (forall room, (length out <= room)%nat -> ref_syms t syms bits bc room = Ok out)
    /\ (forall room, (1 <= room < length out)%nat -> ref_syms t syms bits bc room = Err tt).
Proof.
  intros Hwf. induction syms as [|s rest IH]; intros bits bc Hall Hbc Hbits.
  - cbn [codes flat_map length ref_syms app]. rewrite Z.add_0_r, bytes_needed_true.
    rewrite Z.div_small by lia.
    assert (Hl : Z.land bits 255 = bits).
    { change 255 with (Z.ones 8). rewrite Z.land_ones by lia. apply Z.mod_small.
      assert (2 ^ bc <= 2 ^ 8) by (apply Z.pow_le_mono_r; lia). lia. }
    exists [Z.land bits 255]. cbn [length]. split; [reflexivity|]. split.
    { cbn [bytes_ok forallb]. now rewrite byte_ok_land. }
    split.
    { rewrite Hl. unfold bits_of_bytes. cbn [flat_map]. rewrite app_nil_r, byte_bits_bits_of.
      replace 8%nat with (Z.to_nat bc + Z.to_nat (8 - bc))%nat at 1 by lia.
      rewrite bits_of_app. f_equal.
      replace (Z.to_nat (8 * (0 + 1) - bc)) with (Z.to_nat (8 - bc)) by lia.
      apply bits_of_false. intros i Hi. apply (testbit_small bits bc); lia. }
    split.
    + intros room Hr. destruct room; [lia|reflexivity].
    + intros room Hr. lia.
  - inversion Hall as [|? ? Hs Hrest]; subst.
    destruct (wf_get_symbol t s Hwf Hs) as (Hget & Hn & Hb).
    destruct (sym_repr t s) as [mbits n] eqn:Hsr. cbn [fst snd] in *.
    destruct (ref_symbol_spec mbits n bits bc ltac:(lia) Hb Hbc Hbits)
      as (em & bits2 & Hlen & Hemok & Hbits2 & Hbb & Hok & Herr).
    pose proof (Z.mod_pos_bound (bc + n) 8 ltac:(lia)) as Hmb.
    destruct (IH bits2 ((bc + n) mod 8) Hrest Hmb Hbits2) as (out' & Hlen' & Houtok' & Hbits' & Hok' & Herr').
    assert (Hcl : Z.of_nat (length (code t s)) = n).
    { rewrite code_length, Hsr. cbn [snd]. lia. }
    rewrite codes_cons, app_length, Nat2Z.inj_add, Hcl.
    set (L := Z.of_nat (length (codes t rest))) in *.
    assert (Hneed : bytes_needed (bc + (n + L)) true = (bc + n) / 8 + bytes_needed ((bc + n) mod 8 + L) true).
    { rewrite !bytes_needed_true. assert (HL : 0 <= L) by (unfold L; lia).
      clear - HL Hbc Hn. Z.div_mod_to_equations. lia. }
    assert (Hk0 : 0 <= (bc + n) / 8) by (apply Z.div_pos; lia).
    assert (Hout1 : (1 <= length out')%nat).
    { rewrite bytes_needed_true in Hlen'. assert (0 <= ((bc + n) mod 8 + L) / 8) by (apply Z.div_pos; unfold L; lia). lia. }
    exists (em ++ out'). rewrite app_length, Nat2Z.inj_add, Hlen', Hneed. split; [lia|]. split.
    { unfold bytes_ok in *. rewrite forallb_app, Hemok, Houtok'. reflexivity. }
    split.
    { rewrite bits_of_bytes_app, Hbits'. rewrite app_assoc, Hbb.
      unfold code at 1. rewrite Hsr. unfold code_of. cbn [fst snd].
      rewrite <- !app_assoc. do 3 f_equal. f_equal.
      pose proof (Z.div_mod (bc + n) 8 ltac:(lia)). lia. }
    split.
    + intros room Hroom. cbn [ref_syms]. rewrite Hget. cbv zeta. rewrite Hok by lia.
      rewrite Hok' by lia. reflexivity.
    + intros room Hroom. cbn [ref_syms]. rewrite Hget. cbv zeta.
      destruct (Nat.lt_ge_cases (length em) room) as [Hlt|Hge].
      * rewrite Hok by lia. rewrite Herr' by lia. reflexivity.
      * rewrite Herr by lia. reflexivity.
Qed.

(* byte-identical to compress_bug, the same capacities fail (for a buffer of at least one byte;
   with OutputSize = 0 the C++ writes past the end of its buffer) *)
Theorem ref_compress_eq t x cap : wf_table t = true -> bytes_ok x = true -> (1 <= cap)%nat ->
  ref_compress t x cap = compress t x true cap.
Proof.
  intros Hwf Hx Hcap.
  destruct (compress_spec t x true Hwf Hx) as (out & Hlen & Hok & Hbits & Hcomp).
  destruct (ref_syms_spec t Hwf (x ++ [EOF]) 0 0 (input_syms_range x Hx) ltac:(lia) ltac:(cbn; lia))
    as (out' & Hlen' & Hok' & Hbits' & Hfit & Hfail).
  rewrite Z.add_0_l in *. cbn [Z.to_nat bits_of app] in Hbits'.
  assert (out' = out) as ->.
  { apply bits_of_bytes_inj; try assumption. rewrite Hbits, Hbits'. reflexivity. }
  rewrite Hcomp. unfold ref_compress.
  destruct (Nat.leb_spec (length out) cap); [apply Hfit; assumption|apply Hfail; lia].
Qed.

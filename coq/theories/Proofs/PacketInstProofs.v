(* The hypotheses the packet theorems make about the coder hold for the model of the real
   coder over the built-in table: round trip and capacity from the lemmas of C07
   (Proofs/HuffmanDecode.v), byte-ness of the decoder's output directly from its definition. *)
From LibTw2 Require Import Base.Res Model.Huffman Gen.HuffTable Model.PacketBase Model.PacketInst
  Proofs.HuffmanBits Proofs.HuffmanCompress Proofs.HuffmanDecode Proofs.HuffmanTable.
From Coq Require Import ZArith List Lia Bool.
Import ListNotations.
Open Scope Z_scope.

Lemma tw_wf : wf_table tw_table = true.
Proof. vm_compute. reflexivity. Qed.

Theorem tw_rt : forall x c y, bytes_ok x = true -> tw_comp x c = Some y ->
  forall c', (length x <= c')%nat -> tw_decomp y c' = Some x.
Proof.
  intros x c y Hx Hc c' Hl. unfold tw_comp in Hc.
  destruct (compress tw_table x false c) as [cc| | |] eqn:E; try discriminate. injection Hc as <-.
  unfold tw_decomp.
  pose proof (roundtrip tw_table x false c cc [] c' (dec_fuel cc c') tw_wf Hx E Hl) as R.
  rewrite app_nil_r in R. rewrite R; [reflexivity|]. unfold dec_fuel. lia.
Qed.

(* every byte the decoder pushes is a leaf index below 256 found in the table *)
Lemma lookup_nonneg t i nd : lookup t i = Some nd -> 0 <= i.
Proof. unfold lookup. destruct (Z.leb_spec 0 i); cbn [andb]; [lia|discriminate]. Qed.

Lemma dec_bits_bytes t root : forall bs nd out room,
  bytes_ok out = true ->
  match dec_bits t root bs nd out room with
  | DCont _ out' _ => bytes_ok out' = true
  | DDone out' => bytes_ok out' = true
  | _ => True
  end.
Proof.
  induction bs as [|bit bs IH]; intros nd out room Ho; cbn [dec_bits]; [exact Ho|].
  set (idx := if bit then snd nd else fst nd).
  unfold get_node. destruct (lookup t idx) as [n|] eqn:El; [|exact I].
  apply lookup_nonneg in El.
  destruct (NUM_SYMBOLS <=? idx); [apply IH, Ho|].
  destruct (idx =? EOF); [exact Ho|].
  destruct (Z.leb_spec 256 idx); [exact I|].
  destruct room as [|r]; [exact I|].
  apply IH. unfold bytes_ok in *. cbn [forallb]. rewrite Ho. unfold byte_ok.
  replace (0 <=? idx) with true by (symmetry; apply Z.leb_le; lia).
  replace (idx <? 256) with true by (symmetry; apply Z.ltb_lt; lia). reflexivity.
Qed.

Lemma dec_loop_bytes t root : forall fuel input nd out room d,
  bytes_ok out = true -> dec_loop fuel t root input nd out room = Ok d -> bytes_ok d = true.
Proof.
  induction fuel as [|f IH]; intros input nd out room d Ho; cbn [dec_loop]; [discriminate|].
  set (byte := match input with [] => 0 | b :: _ => b end).
  pose proof (dec_bits_bytes t root (byte_bits 8 byte) nd out room Ho) as Hb.
  destruct (dec_bits t root (byte_bits 8 byte) nd out room) as [nd' o' r'|o'| |p]; try discriminate.
  - apply IH, Hb.
  - intros H. injection H as <-. unfold bytes_ok in *. rewrite forallb_forall in *.
    intros x Hin. apply Hb. apply in_rev. exact Hin.
Qed.

Theorem tw_ok : forall y c d, tw_decomp y c = Some d -> (length d <= c)%nat /\ bytes_ok d = true.
Proof.
  intros y c d H. unfold tw_decomp in H.
  destruct (decompress (dec_fuel y c) tw_table y c) as [dd| | |] eqn:E; try discriminate. injection H as <-.
  split.
  - destruct (decoder_total tw_table y c tw_wf) as [Hok _]. rewrite E in Hok. exact Hok.
  - unfold decompress in E. destruct (get_node tw_table ROOT_IDX) as [[root|sr]|e|p|]; try discriminate.
    apply (dec_loop_bytes tw_table root (dec_fuel y c) y root [] c dd (eq_refl : bytes_ok [] = true) E).
Qed.

(* C01 over bytes (0.6): the byte-level link (Model/LinkBytes6.v) and the abstract link
   (Model/Link6.v) run in lockstep. Every datagram in flight in an admissible run is one the
   connection layer emitted (dgram_ok) and is made of bytes and tokened (wire_dgram); the packet
   writer turns it into at most 1400 bytes which the packet reader -- given the token hint of
   WHATEVER state the receiver is in -- turns back into the same value without a warning
   (Proofs/ConnBytes6.v, Proofs/LinkBytes6Hint.v); so feeding the bytes is feeding the value. *)
From LibTw2 Require Import Base.Res Model.PacketTypes Model.PacketBase Model.Packet6 Model.PacketInst
  Model.ConnCore Model.Conn6 Model.LinkGhost Model.Link6 Model.LinkBytes6
  Proofs.ConnCoreInv Proofs.Conn6Inv Proofs.LinkArith Proofs.LinkCore Proofs.Link6Inv
  Proofs.Packet6Write Proofs.Packet6Read Proofs.Packet6Chunks Proofs.PacketInstProofs
  Proofs.ConnBytes6 Proofs.ConnFeedBytes6 Proofs.ConnInert Proofs.LinkBytes6Hint Proofs.LinkBytes6Wire.
From Coq Require Import ZArith Lia Bool List.
Open Scope Z_scope.

(* ---------- one datagram: value -> bytes -> value, for every receiver state ---------- *)

Lemma wire_dgram_bytes_ok d : wire_dgram d -> dgram_bytes_ok d = true.
Proof.
  destruct d as [t r pl|tok ack c|tok ack rr n cs]; cbn [wire_dgram dgram_bytes_ok].
  - intros H. exact H.
  - intros [[t [-> Ht]] Hc]. rewrite Ht. cbn [andb]. destruct c; try reflexivity. exact Hc.
  - intros [[t [-> Ht]] Hc]. rewrite Ht. cbn [andb]. apply forallb_chunk_bytes, Hc.
Qed.

Lemma wire_dgram_encode d : wire_dgram d -> exists p, encode6 d = Some p.
Proof.
  destruct d as [t r pl|tok ack c|tok ack rr n cs]; cbn [wire_dgram encode6]; try (eexists; reflexivity).
  intros [_ Hc]. destruct c; cbn [ctl6_of]; try (eexists; reflexivity). contradiction.
Qed.

Lemma packet_bytes_ok_of d p : dgram_ok pp6 d -> dgram_bytes_ok d = true -> encode6 d = Some p ->
  packet_bytes_ok6 p = true.
Proof.
  intros Hok Hb He.
  destruct d as [t r pl|tok ack c|tok ack rr n cs]; cbn [encode6] in He.
  - injection He as <-. exact Hb.
  - destruct (ctl6_of c) as [c6|] eqn:Ec; [|discriminate]. injection He as <-.
    cbn [dgram_bytes_ok] in Hb. cbn [packet_bytes_ok6].
    destruct c; cbn in Ec; try discriminate; injection Ec as <-; try (rewrite andb_true_r in Hb; rewrite Hb; reflexivity).
    exact Hb.
  - injection He as <-. cbn [dgram_bytes_ok] in Hb. apply andb_true_iff in Hb as [Hb1 Hb2].
    cbn [packet_bytes_ok6]. rewrite Hb1. cbn [andb].
    destruct Hok as [_ [_ [_ [_ [Hcs _]]]]]. apply chunks_enc6_bytes_ok; [|exact Hb2].
    eapply Forall_impl; [|exact Hcs]. intros c Hc. apply chunk_ok_wf6, Hc.
Qed.

Lemma hintless_of d p : dgram_ok pp6 d -> wire_dgram d -> encode6 d = Some p -> hintless_ok6 p.
Proof.
  intros Hok Hw He.
  destruct d as [t r pl|tok ack c|tok ack rr n cs]; cbn [encode6] in He.
  - injection He as <-. exact I.
  - destruct (ctl6_of c) as [c6|]; [|discriminate]. injection He as <-.
    destruct Hw as [[t [-> _]] _]. split; [discriminate|exact I].
  - injection He as <-. destruct Hw as [[t [-> _]] _]. split; [discriminate|].
    destruct Hok as [_ [_ [Hn [_ [Hcs _]]]]]. exists cs. split; [|split; [reflexivity|exact Hn]].
    apply forallb_forall. intros c Hin. rewrite Forall_forall in Hcs. apply chunk_ok_wf6, Hcs, Hin.
Qed.

(* the hint a receiver passes is None or `a token is there` once its state is tokened *)
Lemma hint6_wire c : wire_state (c_state c) -> hint6 c = None \/ hint6 c = Some true.
Proof.
  unfold hint6. destruct (c_state c) as [| |t|o|]; cbn [state_token wire_state]; try (left; reflexivity).
  - intros [x [-> _]]. right. reflexivity.
  - intros [[x [-> _]] _]. right. reflexivity.
Qed.

Theorem wire_read6 d bs c :
  dgram_ok pp6 d -> wire_dgram d -> wire6 d = Ok bs -> wire_state (c_state c) ->
  exists p vs, encode6 d = Some p /\ (length bs <= 1400)%nat /\
    read6_tw bs (hint6 c) 1400 = ([], Ok (p, vs)) /\
    dgram_chunks (abstract6 p) = dgram_chunks d /\
    (forall c' e, feed c' e (abstract6 p) = feed c' e d).
Proof.
  intros Hok Hw Hwire Hst.
  destruct (wire_dgram_encode d Hw) as [p He].
  pose proof (wire_dgram_bytes_ok d Hw) as Hb.
  destruct (emitted_reads_back6 d p Hok Hb He) as [out [Hwr [Hlen [[views Hrd] Hch]]]].
  unfold wire6 in Hwire. rewrite He, Hwr in Hwire. injection Hwire as <-.
  destruct (emitted_expressible6 d p Hok He) as [Hx [Hk5 Hk6]].
  pose proof (packet_bytes_ok_of d p Hok Hb He) as Hpb.
  pose proof (hintless_of d p Hok Hw He) as Hhl.
  assert (Eout : out = encoding6 tw_comp p).
  { unfold write6_tw in Hwr. apply write6_ok_encoding in Hwr. apply Hwr. }
  assert (Hread : read6_tw out (hint6 c) 1400 = ([], Ok (p, views))).
  { destruct (hint6_wire c Hst) as [-> | ->].
    - rewrite <- Hrd. rewrite Eout. unfold read6_tw.
      apply (read_encoding6_nohint tw_comp tw_decomp tw_rt p 1400 Hx Hpb (le_n _) Hhl).
    - destruct p as [pl|ack tok ty].
      + rewrite Eout. unfold read6_tw.
        rewrite (read_connless_enc_any tw_comp tw_decomp tw_rt pl 1400 (Some true) Hx (le_n _)).
        rewrite Eout in Hrd. unfold read6_tw in Hrd.
        rewrite (read_connless_enc_any tw_comp tw_decomp tw_rt pl 1400 _ Hx (le_n _)) in Hrd. exact Hrd.
      + destruct Hhl as [Htk _]. destruct tok as [tk|]; [exact Hrd|contradiction Htk; reflexivity]. }
  exists p, views. split; [exact He|]. split; [exact Hlen|]. split; [exact Hread|].
  destruct d as [t r pl|tok ack ctl|tok ack rr n cs]; cbn [encode6] in He.
  - injection He as <-. split; [reflexivity|]. intros c' e. reflexivity.
  - destruct (ctl6_of ctl) as [c6|] eqn:Ec; [|discriminate]. injection He as <-.
    split; [reflexivity|]. intros c' e.
    destruct ctl; cbn in Ec; try discriminate; injection Ec as <-; reflexivity.
  - injection He as <-. destruct Hch as [cvs [it' [Hit Hmap]]].
    unfold abstract6. rewrite Hit, Hmap. split; [reflexivity|]. intros c' e. reflexivity.
Qed.

(* feeding the bytes = feeding the value *)
Theorem feed_bytes6_wire c e d bs :
  dgram_ok pp6 d -> wire_dgram d -> wire6 d = Ok bs -> wire_state (c_state c) ->
  feed_bytes6 c e bs = step c e (OpFeed d).
Proof.
  intros Hok Hw Hwire Hst.
  destruct (wire_read6 d bs c Hok Hw Hwire Hst) as [p [vs [_ [_ [Hrd [_ Hfeed]]]]]].
  unfold feed_bytes6. rewrite Hrd. cbn [snd step]. apply Hfeed.
Qed.

(* ---------- the relation between the two links ---------- *)
Definition flight_sim (bf : bflight) (f : flight) : Prop :=
  wire6 (f_d f) = Ok (bf_bytes bf) /\ bf_n bf = f_n f /\ bf_c bf = f_c f.

Definition link_sim (wb : link_bytes) (w : link) : Prop :=
  kb_a wb = k_a w /\ kb_b wb = k_b w /\ kb_now wb = k_now w /\
  Forall2 flight_sim (kb_ab wb) (k_ab w) /\ Forall2 flight_sim (kb_ba wb) (k_ba w).

(* what holds of the abstract link besides link_inv: everything is made of bytes and tokened,
   and every datagram in flight is one the connection layer emitted *)
Definition wire_side (x : lside) : Prop := wire_state (c_state (l_conn x)) /\ Forall bytesP (l_rand x).
Definition wire_flight (f : flight) : Prop := dgram_ok pp6 (f_d f) /\ wire_dgram (f_d f).
Definition wire_inv (w : link) : Prop :=
  wire_side (k_a w) /\ wire_side (k_b w) /\ Forall wire_flight (k_ab w) /\ Forall wire_flight (k_ba w).

Lemma link_sim_get wb w s : link_sim wb w -> getb wb s = get w s.
Proof. intros (Ha & Hb & _). destruct s; assumption. Qed.

Lemma link_sim_bag wb w s : link_sim wb w -> Forall2 flight_sim (bagb wb s) (bag w s).
Proof. intros (_ & _ & _ & Hab & Hba). destruct s; assumption. Qed.

Lemma wire_inv_get w s : wire_inv w -> wire_side (get w s).
Proof. intros (Ha & Hb & _). destruct s; assumption. Qed.

Lemma wire_inv_bag w s : wire_inv w -> Forall wire_flight (bag w s).
Proof. intros (_ & _ & Hab & Hba). destruct s; assumption. Qed.

Lemma side_after_app x o out : side_after x (sent_of o) out = after x o out.
Proof. destruct o; reflexivity. Qed.

Lemma side_after_feed x d out : side_after x None out = after x (OpFeed d) out.
Proof. reflexivity. Qed.

Lemma wire_all_ok n dc ds : Forall (dgram_ok pp6) ds -> Forall wire_dgram ds ->
  exists fl, wire_all n dc ds = Ok fl /\
    Forall2 flight_sim fl (map (fun d => {| f_d := d; f_n := n; f_c := dc |}) ds).
Proof.
  induction ds as [|d ds IH]; intros H1 H2; cbn [wire_all map].
  - exists []. split; [reflexivity|constructor].
  - inversion H1 as [|d0 r0 Hd1 Hr1]; inversion H2 as [|d1 r1 Hd2 Hr2]; subst.
    destruct (IH Hr1 Hr2) as [fl [E Hfl]].
    destruct (wire_dgram_encode d Hd2) as [p He].
    destruct (emitted_reads_back6 d p Hd1 (wire_dgram_bytes_ok d Hd2) He) as [out [Hwr _]].
    assert (Hw : wire6 d = Ok out) by (unfold wire6; rewrite He, Hwr; reflexivity).
    rewrite Hw, E. eexists. split; [reflexivity|]. constructor; [|exact Hfl].
    split; [exact Hw|split; reflexivity].
Qed.

Lemma Forall2_nth {A B} (R : A -> B -> Prop) l1 l2 k : Forall2 R l1 l2 ->
  match nth_error l2 k with
  | Some b => exists a, nth_error l1 k = Some a /\ R a b
  | None => nth_error l1 k = None
  end.
Proof.
  intros H. revert k. induction H as [|a b l1 l2 Hab H IH]; intros k.
  - destruct k; reflexivity.
  - destruct k as [|k]; cbn [nth_error]; [exists a; split; [reflexivity|exact Hab]|apply IH].
Qed.

Lemma Forall2_remove_nth {A B} (R : A -> B -> Prop) k l1 l2 : Forall2 R l1 l2 ->
  Forall2 R (remove_nth k l1) (remove_nth k l2).
Proof.
  intros H. revert k. induction H as [|a b l1 l2 Hab H IH]; intros k; destruct k; cbn [remove_nth]; try constructor; auto.
Qed.

(* one call at one side, in both worlds *)
Lemma side_call_sim now x o r :
  conn_ok6 (l_conn x) -> valid_op6 (l_conn x) {| e_now := now; e_rand := l_rand x |} o ->
  wire_side x -> wire_op o ->
  r = step (l_conn x) {| e_now := now; e_rand := l_rand x |} o ->
  forall sent, (forall out, side_after x sent out = after x o out) ->
  exists x' fl flb, side_step now x o = Ok (x', fl) /\ bside_finish x sent r = Ok (x', flb) /\
    wire_side x' /\ Forall wire_flight fl /\ Forall2 flight_sim flb fl.
Proof.
  intros Hc Hv [Hst Hrnd] Ho -> sent Hsent.
  destruct (step_ok6 _ _ _ Hc Hv) as [out [Hstep [Hc' Hds]]].
  destruct (step_wire _ _ _ _ Hstep Hst Hrnd Ho) as (Hw1 & Hw2 & Hw3).
  destruct (wire_all_ok (zlen (l_sub x)) (zlen (l_del x)) (out_sent out) Hds Hw3) as [flb [Ewa Hsim]].
  exists (after x o out), (flights_of x out), flb.
  split; [apply side_step_unfold, Hstep|]. split.
  - unfold bside_finish. rewrite Hstep, Ewa, Hsent. reflexivity.
  - split; [split; [exact Hw1|exact Hw2]|]. split; [|exact Hsim].
    unfold flights_of. apply Forall_map. rewrite Forall_forall in *. intros d Hin.
    split; [apply Hds, Hin|apply Hw3, Hin].
Qed.

Lemma set_side_sim wb w s x flb fl : link_sim wb w -> Forall2 flight_sim flb fl ->
  link_sim (set_sideb wb s x flb) (set_side w s x fl).
Proof.
  intros (Ha & Hb & Hn & Hab & Hba) Hfl. unfold link_sim, set_sideb, set_side.
  destruct s; cbn; repeat split; try assumption; try reflexivity; apply Forall2_app; assumption.
Qed.

Lemma set_side_wire w s x fl : wire_inv w -> wire_side x -> Forall wire_flight fl ->
  wire_inv (set_side w s x fl).
Proof.
  intros (Ha & Hb & Hab & Hba) Hx Hfl. unfold wire_inv, set_side.
  destruct s; cbn; repeat split; try apply Hx; try apply Ha; try apply Hb; try assumption;
    apply Forall_app; split; assumption.
Qed.

Lemma link_inv_conn w s : link_inv w -> conn_ok6 (l_conn (get w s)).
Proof. intros [Ha [Hb _]]. destruct s; [exact (sv_conn _ _ _ _ _ Ha)|exact (sv_conn _ _ _ _ _ Hb)]. Qed.

Lemma link_inv_flight w s f : link_inv w -> In f (bag w s) -> dgram_in_ok (f_d f).
Proof.
  intros [_ [_ [Hab Hba]]] Hin. destruct s; cbn [bag] in Hin.
  - unfold bag_inv in Hab. rewrite Forall_forall in Hab. apply (Hab f Hin).
  - unfold bag_inv in Hba. rewrite Forall_forall in Hba. apply (Hba f Hin).
Qed.

(* ---------- one label ---------- *)
Theorem link_bytes_step_sim w wb l :
  link_inv w -> wire_inv w -> link_sim wb w -> admissible w l -> bytes_label l ->
  exists w' wb', link_step w l = Ok w' /\ link_bytes_step wb l = Ok wb' /\
    link_inv w' /\ wire_inv w' /\ link_sim wb' w'.
Proof.
  intros Hinv Hwire Hsim Hadm Hbl.
  destruct (link_step_inv w l Hinv Hadm) as [w1 [Hstep1 Hinv1]].
  destruct l as [s o|dt|from k|from k]; cbn [link_step link_bytes_step admissible bytes_label] in *.
  - (* an application call *)
    destruct Hadm as [Happ [Hv Hwin]].
    assert (Hop : wire_op o) by (destruct o; try exact I; try exact Hbl; contradiction).
    rewrite (link_sim_get wb w s Hsim).
    assert (Hnow : kb_now wb = k_now w) by apply Hsim. rewrite Hnow.
    destruct (side_call_sim (k_now w) (get w s) o _ (link_inv_conn w s Hinv) Hv (wire_inv_get w s Hwire) Hop eq_refl
                (sent_of o) (side_after_app _ o)) as (x' & fl & flb & E1 & E2 & Hx' & Hfl & Hflsim).
    rewrite E1 in Hstep1. injection Hstep1 as <-. rewrite E1, E2.
    eexists _, _. split; [reflexivity|]. split; [reflexivity|]. split; [exact Hinv1|].
    split; [apply set_side_wire; assumption|apply set_side_sim; assumption].
  - (* time *)
    injection Hstep1 as <-. eexists _, _. split; [reflexivity|]. split; [reflexivity|]. split; [exact Hinv1|].
    destruct Hsim as (Ha & Hb & Hn & Hab & Hba). split; [exact Hwire|].
    unfold link_sim. cbn. rewrite Hn. repeat split; assumption.
  - (* a datagram arrives *)
    pose proof (Forall2_nth _ _ _ k (link_sim_bag wb w from Hsim)) as Hnth.
    destruct (nth_error (bag w from) k) as [f|] eqn:Ek.
    2:{ rewrite Hnth. injection Hstep1 as <-. eexists _, _. split; [reflexivity|]. split; [reflexivity|].
        split; [exact Hinv|]. split; [exact Hwire|exact Hsim]. }
    destruct Hnth as [bf [Ekb [Hw6 [Hn Hc]]]]. rewrite Ekb.
    destruct Hadm as [Hfresh Hrand].
    assert (Hin : In f (bag w from)) by (eapply nth_error_In, Ek).
    assert (Hwf : wire_flight f).
    { pose proof (wire_inv_bag w from Hwire) as Hb. rewrite Forall_forall in Hb. apply Hb, Hin. }
    destruct Hwf as [Hdok Hdw].
    rewrite (link_sim_get wb w (other from) Hsim).
    assert (Hnow : kb_now wb = k_now w) by apply Hsim. rewrite Hnow.
    pose proof (wire_inv_get w (other from) Hwire) as Hrcv.
    assert (Hv : valid_op6 (l_conn (get w (other from)))
                   {| e_now := k_now w; e_rand := l_rand (get w (other from)) |} (OpFeed (f_d f))).
    { split; [exact (link_inv_flight w from f Hinv Hin)|exact Hrand]. }
    destruct (side_call_sim (k_now w) (get w (other from)) (OpFeed (f_d f))
                (feed_bytes6 (l_conn (get w (other from))) {| e_now := k_now w; e_rand := l_rand (get w (other from)) |} (bf_bytes bf))
                (link_inv_conn w (other from) Hinv) Hv Hrcv Hdw
                (feed_bytes6_wire _ _ _ _ Hdok Hdw Hw6 (proj1 Hrcv)) None (fun out => eq_refl))
      as (x' & fl & flb & E1 & E2 & Hx' & Hfl & Hflsim).
    rewrite E1 in Hstep1. injection Hstep1 as <-. rewrite E1, E2.
    eexists _, _. split; [reflexivity|]. split; [reflexivity|]. split; [exact Hinv1|].
    split; [apply set_side_wire; assumption|apply set_side_sim; assumption].
  - (* a datagram is lost *)
    injection Hstep1 as <-. eexists _, _. split; [reflexivity|]. split; [reflexivity|]. split; [exact Hinv1|].
    destruct Hsim as (Ha & Hb & Hn & Hab & Hba). destruct Hwire as (Wa & Wb & Wab & Wba).
    destruct from; (split; [unfold wire_inv; cbn; repeat split; try apply Wa; try apply Wb; try assumption;
                             apply remove_nth_forall; assumption|]);
      unfold link_sim; cbn; repeat split; try assumption; apply Forall2_remove_nth; assumption.
Qed.

(* ---------- whole runs ---------- *)
Theorem link_bytes_run_sim ls : forall w wb,
  link_inv w -> wire_inv w -> link_sim wb w -> admissible_run w ls -> Forall bytes_label ls ->
  exists w' wb', link_run w ls = Ok w' /\ link_bytes_run wb ls = Ok wb' /\
    link_inv w' /\ wire_inv w' /\ link_sim wb' w'.
Proof.
  induction ls as [|l ls IH]; intros w wb Hinv Hwire Hsim Hadm Hbl; cbn [link_run link_bytes_run admissible_run] in *.
  - exists w, wb. split; [reflexivity|]. split; [reflexivity|]. split; [exact Hinv|]. split; [exact Hwire|exact Hsim].
  - destruct Hadm as [Ha1 Ha2]. inversion Hbl as [|l0 r0 Hb1 Hb2]; subst.
    destruct (link_bytes_step_sim w wb l Hinv Hwire Hsim Ha1 Hb1) as (w1 & wb1 & E1 & E2 & Hinv1 & Hwire1 & Hsim1).
    rewrite E1 in *. rewrite E2. apply IH; assumption.
Qed.

Lemma link_new_wire ra rb : tokens_bytes ra -> tokens_bytes rb -> wire_inv (link_new ra rb).
Proof.
  intros Ha Hb. unfold wire_inv, link_new, wire_side. cbn.
  split; [split; [exact I|exact Ha]|]. split; [split; [exact I|exact Hb]|]. split; constructor.
Qed.

Lemma link_new_sim ra rb : link_sim (link_bytes_new ra rb) (link_new ra rb).
Proof. unfold link_sim, link_bytes_new, link_new. cbn. repeat split; constructor. Qed.

(* the byte bag IS the abstract bag, datagram by datagram, through the writer *)
Definition wire_bytes (d : dgram) : bytes := match wire6 d with Ok bs => bs | _ => [] end.
Definition wire_flight_of (f : flight) : bflight :=
  {| bf_bytes := wire_bytes (f_d f); bf_n := f_n f; bf_c := f_c f |}.

Lemma flight_sim_map fb fa : Forall2 flight_sim fb fa ->
  fb = map wire_flight_of fa /\ Forall (fun f => exists bs, wire6 (f_d f) = Ok bs /\ (length bs <= 1400)%nat) fa.
Proof.
  induction 1 as [|bf f fb fa [H1 [H2 H3]] H IH]; [split; [reflexivity|constructor]|].
  destruct IH as [IH1 IH2]. split.
  - cbn [map]. f_equal; [|exact IH1]. unfold wire_flight_of, wire_bytes. rewrite H1, <- H2, <- H3.
    destruct bf; reflexivity.
  - constructor; [|exact IH2]. exists (bf_bytes bf). split; [exact H1|].
    unfold wire6 in H1. destruct (encode6 (f_d f)) as [p|]; [|discriminate].
    destruct (write6_tw p 1400) as [out|e|s|] eqn:E; try discriminate. injection H1 as <-.
    unfold write6_tw in E. apply write6_ok_encoding in E. apply E.
Qed.

(* ---------- the assumptions of C01, stated on the byte-level link ---------- *)
Definition admissible_bytes (w : link_bytes) (l : llabel) : Prop :=
  match l with
  | LApp s o =>
    app_op o /\ valid_op6 (l_conn (getb w s)) {| e_now := kb_now w; e_rand := l_rand (getb w s) |} o /\
    window_ok (getb w s) o /\ bytes_op o
  | LTime _ => True
  | LDeliver from k =>
    match nth_error (bagb w from) k with
    | Some bf => fresh_bytes bf (getb w (other from)) /\
                 rand_ok {| e_now := kb_now w; e_rand := l_rand (getb w (other from)) |}
    | None => True
    end
  | LDrop _ _ => True
  end.

Fixpoint admissible_bytes_run (w : link_bytes) (ls : list llabel) : Prop :=
  match ls with
  | [] => True
  | l :: r => admissible_bytes w l /\
              match link_bytes_step w l with Ok w' => admissible_bytes_run w' r | _ => True end
  end.

Lemma admissible_bytes_iff w wb l : wire_inv w -> link_sim wb w ->
  (admissible_bytes wb l <-> admissible w l /\ bytes_label l).
Proof.
  intros Hwire Hsim. assert (Hnow : kb_now wb = k_now w) by apply Hsim.
  destruct l as [s o|dt|from k|from k]; cbn [admissible_bytes admissible bytes_label]; try tauto.
  - rewrite (link_sim_get wb w s Hsim), Hnow. tauto.
  - pose proof (Forall2_nth _ _ _ k (link_sim_bag wb w from Hsim)) as Hnth.
    destruct (nth_error (bag w from) k) as [f|] eqn:Ek; [|rewrite Hnth; tauto].
    destruct Hnth as [bf [Ekb [Hw6 [Hn Hc]]]]. rewrite Ekb.
    rewrite (link_sim_get wb w (other from) Hsim), Hnow.
    assert (Hwf : wire_flight f).
    { pose proof (wire_inv_bag w from Hwire) as Hb. rewrite Forall_forall in Hb. eapply Hb, nth_error_In, Ek. }
    destruct Hwf as [Hdok Hdw].
    destruct (wire_read6 (f_d f) (bf_bytes bf) (l_conn (get w (other from))) Hdok Hdw Hw6
                (proj1 (wire_inv_get w (other from) Hwire))) as [p [vs [_ [_ [Hrd [Hch _]]]]]].
    assert (Hfr : fresh_bytes bf (get w (other from)) <-> fresh f (get w (other from))).
    { unfold fresh_bytes, fresh, bflight_chunks. rewrite Hrd. cbn [snd]. rewrite Hch, Hn, Hc. tauto. }
    tauto.
Qed.

Theorem admissible_bytes_run_iff ls : forall w wb, link_inv w -> wire_inv w -> link_sim wb w ->
  (admissible_bytes_run wb ls <-> admissible_run w ls /\ Forall bytes_label ls).
Proof.
  induction ls as [|l ls IH]; intros w wb Hinv Hwire Hsim; cbn [admissible_bytes_run admissible_run].
  - split; [intros _; split; [exact I|constructor]|intros _; exact I].
  - pose proof (admissible_bytes_iff w wb l Hwire Hsim) as Hl. split.
    + intros [H1 H2]. apply Hl in H1 as [Ha Hb].
      destruct (link_bytes_step_sim w wb l Hinv Hwire Hsim Ha Hb) as (w1 & wb1 & E1 & E2 & Hinv1 & Hwire1 & Hsim1).
      rewrite E1. rewrite E2 in H2. destruct (proj1 (IH w1 wb1 Hinv1 Hwire1 Hsim1) H2) as [H3 H4].
      split; [split; assumption|constructor; assumption].
    + intros [[Ha H2] Hb]. inversion Hb as [|l0 r0 Hb1 Hb2]; subst.
      split; [apply Hl; split; assumption|].
      destruct (link_bytes_step_sim w wb l Hinv Hwire Hsim Ha Hb1) as (w1 & wb1 & E1 & E2 & Hinv1 & Hwire1 & Hsim1).
      rewrite E2. rewrite E1 in H2. apply (IH w1 wb1 Hinv1 Hwire1 Hsim1). split; assumption.
Qed.

(* executable check of the byte-ness of application data (for concrete traces) *)
Definition bytes_labelb (l : llabel) : bool :=
  match l with
  | LApp _ (OpSend d _) | LApp _ (OpSendConnless d) | LApp _ (OpDisconnect d) => bytes_ok d
  | _ => true
  end.

Lemma bytes_labelb_ok ls : forallb bytes_labelb ls = true -> Forall bytes_label ls.
Proof.
  intros H. apply Forall_forall. intros l Hin. rewrite forallb_forall in H. specialize (H l Hin).
  destruct l as [s o| | |]; try exact I. destruct o; try exact I; exact H.
Qed.

Lemma tokens_bytesb_ok rnd : forallb bytes_ok rnd = true -> tokens_bytes rnd.
Proof. intros H. apply Forall_forall. rewrite forallb_forall in H. exact H. Qed.

(* ---------- a corrupted datagram (partial): without the agreed token it changes nothing ---------- *)
Lemma bside_finish_inert x e bs t : e_rand e = l_rand x ->
  token_fixed6 (l_conn x) t -> bytes_ok bs = true ->
  reads_connless6 (l_conn x) bs = false -> carried_token6 (l_conn x) bs <> Some t ->
  bside_finish x None (feed_bytes6 (l_conn x) e bs) = Ok (x, []).
Proof.
  intros He Hfix Hb Hnc Htok. destruct (inert6_bytes (l_conn x) e bs t Hfix Hb Hnc Htok) as [ws E].
  rewrite E. unfold bside_finish. cbn [out_sent mk wire_all]. f_equal. f_equal.
  unfold side_after. cbn. rewrite He, !app_nil_r, orb_false_r. change (ready_events []) with 0.
  rewrite Z.add_0_r. destruct x; reflexivity.
Qed.

(* The decompressor of Model/Huffman.v: it inverts the code words of a well-formed table
   (round trip), it is total with an explicit fuel bound, it never exceeds the capacity
   and the capacity error is its only failure. *)
From LibTw2 Require Import Base.Res Base.Bits Model.Huffman Proofs.HuffmanBits Proofs.HuffmanCompress.
From Coq Require Import ZArith List Lia Bool.
Import ListNotations.
Open Scope Z_scope.

(* ---------- dec_bits is a left fold over the bits ---------- *)

Lemma dec_bits_app t root a b nd out room :
  dec_bits t root (a ++ b) nd out room =
  match dec_bits t root a nd out room with
  | DCont nd' out' room' => dec_bits t root b nd' out' room'
  | r => r
  end.
Proof.
  revert nd out room. induction a as [|bit a IH]; intros nd out room; [reflexivity|].
  cbn [app dec_bits]. destruct (get_node t (if bit then snd nd else fst nd)) as [[n|sr]|e|p|]; try reflexivity.
  - apply IH.
  - destruct ((if bit then snd nd else fst nd) =? EOF); [reflexivity|].
    destruct (256 <=? (if bit then snd nd else fst nd)); [reflexivity|].
    destruct room; [reflexivity|]. apply IH.
Qed.

(* ---------- facts about a well-formed table ---------- *)

Lemma subtree_ok_S t d idx :
  subtree_ok t (S d) idx =
  if idx <? NUM_SYMBOLS then 0 <=? idx else
  match lookup t idx with
  | Some nd => subtree_ok t d (fst nd) && subtree_ok t d (snd nd)
  | None => false
  end.
Proof. reflexivity. Qed.

Lemma wf_root t : wf_table t = true ->
  exists rootnd, lookup t ROOT_IDX = Some rootnd /\ get_node t ROOT_IDX = Ok (inl rootnd)
                 /\ subtree_ok t 24 ROOT_IDX = true.
Proof.
  intros Hwf. unfold wf_table in Hwf. apply andb_prop in Hwf as [Hwf _].
  apply andb_prop in Hwf as [_ Hsub]. pose proof Hsub as Hs.
  change 24%nat with (S 23) in Hs. rewrite subtree_ok_S in Hs.
  change (ROOT_IDX <? NUM_SYMBOLS) with false in Hs. cbv iota in Hs.
  destruct (lookup t ROOT_IDX) as [nd|] eqn:Hl; [|discriminate].
  exists nd. unfold get_node. rewrite Hl. change (NUM_SYMBOLS <=? ROOT_IDX) with true. auto.
Qed.

Lemma wf_leaf_node t s : wf_table t = true -> 0 <= s < 257 ->
  exists nd, get_node t s = Ok (inr (to_symbol_repr nd)).
Proof.
  intros Hwf Hs. destruct (wf_sym t s Hwf ltac:(unfold sym_range; lia)) as (nd & Hl & _).
  exists nd. unfold get_node. rewrite Hl. unfold NUM_SYMBOLS. destruct (Z.leb_spec 257 s); [lia|reflexivity].
Qed.

(* ---------- following a code word ---------- *)

Lemma dec_walk t root : wf_table t = true -> forall bs b idx nd s rest out room,
  lookup t idx = Some nd -> walk t (b :: bs) idx = Some s -> 0 <= s < 257 ->
  dec_bits t root ((b :: bs) ++ rest) nd out room =
  if s =? EOF then DDone out
  else match room with
       | O => DErr
       | S r => dec_bits t root rest root (s :: out) r
       end.
Proof.
  intros Hwf. induction bs as [|b' bs IH]; intros b idx nd s rest out room Hl Hw Hs.
  - cbn [walk] in Hw. destruct (idx <? NUM_SYMBOLS); [discriminate|]. rewrite Hl in Hw.
    injection Hw as Hw. cbn [app dec_bits]. rewrite Hw.
    destruct (wf_leaf_node t s Hwf Hs) as (nd' & ->).
    destruct (Z.eqb_spec s EOF); [reflexivity|].
    unfold EOF in *. destruct (Z.leb_spec 256 s); [lia|]. reflexivity.
  - cbn [walk] in Hw. destruct (idx <? NUM_SYMBOLS) eqn:Hi; [discriminate|]. rewrite Hl in Hw.
    set (c := if b then snd nd else fst nd) in *.
    cbn [app dec_bits]. fold c.
    cbn [walk] in Hw. destruct (c <? NUM_SYMBOLS) eqn:Hc; [discriminate|].
    destruct (lookup t c) as [nd'|] eqn:Hlc; [|discriminate].
    unfold get_node. rewrite Hlc. apply Z.ltb_ge in Hc. destruct (Z.leb_spec NUM_SYMBOLS c); [|lia].
    apply (IH b' c nd' s rest out room Hlc).
    + cbn [walk]. destruct (Z.ltb_spec c NUM_SYMBOLS); [lia|]. rewrite Hlc. exact Hw.
    + exact Hs.
Qed.

Lemma code_nonempty t s : wf_table t = true -> sym_range s ->
  exists b bs, code t s = b :: bs /\ walk t (b :: bs) ROOT_IDX = Some s.
Proof.
  intros Hwf Hs. destruct (wf_sym t s Hwf Hs) as (nd & Hl & Hn & _ & Hw).
  unfold code, sym_repr. rewrite Hl.
  destruct (code_of (to_symbol_repr nd)) as [|b bs] eqn:Hc.
  - apply (f_equal (@length bool)) in Hc. unfold code_of in Hc. rewrite bits_of_length in Hc.
    cbn [length] in Hc. lia.
  - exists b, bs. split; [reflexivity|exact Hw].
Qed.

(* decoding the code words of x followed by the code word of EOF, whatever comes after *)
Lemma dec_codes t rootnd : wf_table t = true -> lookup t ROOT_IDX = Some rootnd ->
  forall x rest out room, bytes_ok x = true -> (length x <= room)%nat ->
  dec_bits t rootnd (codes t x ++ code t EOF ++ rest) rootnd out room = DDone (rev x ++ out).
Proof.
  intros Hwf Hroot. induction x as [|a x IH]; intros rest out room Hx Hroom.
  - cbn [codes flat_map app rev].
    destruct (code_nonempty t EOF Hwf ltac:(unfold sym_range, EOF; lia)) as (b & bs & -> & Hw).
    rewrite (dec_walk t rootnd Hwf bs b ROOT_IDX rootnd EOF rest out room Hroot Hw ltac:(unfold EOF; lia)).
    reflexivity.
  - cbn [bytes_ok forallb] in Hx. apply andb_prop in Hx as [Ha Hx].
    unfold byte_ok in Ha. apply andb_prop in Ha as [Ha1 Ha2].
    assert (Har : 0 <= a < 256) by lia.
    rewrite codes_cons, <- app_assoc.
    destruct (code_nonempty t a Hwf ltac:(unfold sym_range; lia)) as (b & bs & -> & Hw).
    rewrite (dec_walk t rootnd Hwf bs b ROOT_IDX rootnd a _ out room Hroot Hw ltac:(lia)).
    destruct (Z.eqb_spec a EOF); [unfold EOF in *; lia|].
    cbn [length] in Hroom. destruct room as [|r]; [lia|].
    rewrite (IH rest (a :: out) r Hx ltac:(lia)). cbn [rev]. now rewrite <- app_assoc.
Qed.

(* ---------- the byte loop ---------- *)

Lemma dec_loop_done t root : forall input tail fuel nd out room out',
  dec_bits t root (bits_of_bytes input) nd out room = DDone out' ->
  (length input <= fuel)%nat ->
  dec_loop fuel t root (input ++ tail) nd out room = Ok (rev out').
Proof.
  induction input as [|b input IH]; intros tail fuel nd out room out' Hd Hf.
  - cbn in Hd. discriminate.
  - cbn [length] in Hf. destruct fuel as [|f]; [lia|].
    rewrite bits_of_bytes_cons, dec_bits_app in Hd. cbn [app dec_loop].
    destruct (dec_bits t root (byte_bits 8 b) nd out room) as [nd' o' r'|o'| |p]; try discriminate.
    + apply IH; [exact Hd|lia].
    + now injection Hd as ->.
Qed.

(* lossless: whatever buffer the compressor was given, whatever follows its output,
   and for every fuel that covers the compressed bytes *)
Theorem roundtrip t x bug ccap c tail cap fuel :
  wf_table t = true -> bytes_ok x = true ->
  compress t x bug ccap = Ok c ->
  (length x <= cap)%nat -> (length c <= fuel)%nat ->
  decompress fuel t (c ++ tail) cap = Ok x.
Proof.
  intros Hwf Hx Hc Hcap Hfuel.
  destruct (compress_spec t x bug Hwf Hx) as (out & _ & _ & Hbits & Hcomp).
  rewrite Hcomp in Hc. destruct (length out <=? ccap)%nat; [|discriminate]. injection Hc as <-.
  destruct (wf_root t Hwf) as (rootnd & Hl & Hg & _).
  unfold decompress. rewrite Hg.
  rewrite <- (rev_involutive x) at 1.
  apply dec_loop_done; [|exact Hfuel].
  rewrite Hbits. unfold encode_bits, codes. rewrite flat_map_app. cbn [flat_map]. rewrite app_nil_r.
  rewrite <- app_assoc. fold (codes t x).
  rewrite (dec_codes t rootnd Hwf Hl x _ [] cap Hx Hcap). now rewrite app_nil_r.
Qed.

(* ---------- totality ---------- *)

(* nd is the node stored at an inner index from which every walk ends within d steps *)
Definition vnode (t : table) (d : nat) (nd : node) : Prop :=
  exists idx, lookup t idx = Some nd /\ NUM_SYMBOLS <= idx /\ subtree_ok t d idx = true.

Lemma vnode_child t d nd (bit : bool) : wf_table t = true -> vnode t d nd ->
  let c := if bit then snd nd else fst nd in
  exists d', d = S d' /\
    ((0 <= c < 257 /\ exists sr, get_node t c = Ok (inr sr))
     \/ (exists nd', get_node t c = Ok (inl nd') /\ vnode t d' nd')).
Proof.
  intros Hwf (idx & Hl & Hi & Hs) c. destruct d as [|d']; cbn [subtree_ok] in Hs.
  - destruct (Z.ltb_spec idx NUM_SYMBOLS); [lia|discriminate].
  - exists d'. split; [reflexivity|].
    destruct (Z.ltb_spec idx NUM_SYMBOLS); [lia|]. rewrite Hl in Hs.
    apply andb_prop in Hs as [H0 H1].
    assert (Hc : subtree_ok t d' c = true) by (unfold c; destruct bit; assumption).
    destruct d' as [|d'']; cbn [subtree_ok] in Hc.
    + destruct (Z.ltb_spec c NUM_SYMBOLS) as [Hlt|]; [|discriminate]. left.
      apply Z.leb_le in Hc. unfold NUM_SYMBOLS in Hlt. split; [lia|].
      destruct (wf_leaf_node t c Hwf ltac:(lia)) as (nd' & ->). eauto.
    + destruct (Z.ltb_spec c NUM_SYMBOLS) as [Hlt|Hge].
      * left. apply Z.leb_le in Hc. unfold NUM_SYMBOLS in Hlt. split; [lia|].
        destruct (wf_leaf_node t c Hwf ltac:(lia)) as (nd' & ->). eauto.
      * right. destruct (lookup t c) as [nd'|] eqn:Hlc; [|discriminate].
        exists nd'. split.
        -- unfold get_node. rewrite Hlc. destruct (Z.leb_spec NUM_SYMBOLS c); [reflexivity|lia].
        -- exists c. repeat split; try assumption. cbn [subtree_ok].
           destruct (Z.ltb_spec c NUM_SYMBOLS); [lia|]. now rewrite Hlc.
Qed.

(* every bit strictly decreases 25 * room + depth; no panic; the output stays within the capacity *)
Lemma dec_bits_total t rootnd : wf_table t = true -> vnode t 24 rootnd ->
  forall bs nd d out room, vnode t d nd ->
  match dec_bits t rootnd bs nd out room with
  | DCont nd' out' room' =>
    exists d', vnode t d' nd'
      /\ (25 * room' + d' + length bs <= 25 * room + d)%nat
      /\ (length out' + room' = length out + room)%nat
  | DDone out' => (length out' <= length out + room)%nat
  | DErr => True
  | DPanic _ => False
  end.
Proof.
  intros Hwf Hroot. induction bs as [|bit bs IH]; intros nd d out room Hv.
  - cbn [dec_bits length]. exists d. split; [exact Hv|split; lia].
  - cbn [dec_bits]. destruct (vnode_child t d nd bit Hwf Hv) as (d' & -> & [[Hc [sr Hg]]|[nd' [Hg Hv']]]).
    + rewrite Hg. set (c := if bit then snd nd else fst nd) in *.
      destruct (Z.eqb_spec c EOF); [lia|].
      unfold EOF in *. destruct (Z.leb_spec 256 c); [lia|].
      destruct room as [|r]; [exact I|].
      specialize (IH rootnd 24%nat (c :: out) r Hroot).
      destruct (dec_bits t rootnd bs rootnd (c :: out) r) as [nd'' o'' r''|o''| |p]; try exact IH.
      * destruct IH as (d'' & Hv'' & Hm & Hlen). exists d''. cbn [length] in *. split; [exact Hv''|split; lia].
      * cbn [length] in IH. lia.
    + rewrite Hg. specialize (IH nd' d' out room Hv').
      destruct (dec_bits t rootnd bs nd' out room) as [nd'' o'' r''|o''| |p]; try exact IH.
      destruct IH as (d'' & Hv'' & Hm & Hlen). exists d''. cbn [length]. split; [exact Hv''|split; lia].
Qed.

Definition dec_result_ok (cap : nat) (r : res dec_err bytes) : Prop :=
  match r with
  | Ok out => (length out <= cap)%nat
  | Err e => e = Capacity
  | Panic _ | OutOfFuel => False
  end.

Lemma dec_loop_total t rootnd : wf_table t = true -> vnode t 24 rootnd ->
  forall fuel input nd d out room, vnode t d nd ->
  (8 * length input + 25 * room + d < 8 * fuel)%nat ->
  dec_result_ok (length out + room) (dec_loop fuel t rootnd input nd out room)
  /\ forall fuel', (fuel <= fuel')%nat ->
       dec_loop fuel' t rootnd input nd out room = dec_loop fuel t rootnd input nd out room.
Proof.
  intros Hwf Hroot. induction fuel as [|f IH]; intros input nd d out room Hv Hf; [lia|].
  cbn [dec_loop].
  set (byte := match input with [] => 0 | b :: _ => b end).
  set (rest := match input with [] => [] | _ :: r => r end).
  pose proof (dec_bits_total t rootnd Hwf Hroot (byte_bits 8 byte) nd d out room Hv) as Hb.
  rewrite byte_bits_length in Hb.
  destruct (dec_bits t rootnd (byte_bits 8 byte) nd out room) as [nd' o' r'|o'| |p] eqn:Hd.
  - destruct Hb as (d' & Hv' & Hm & Hlen).
    assert (Hrest : (length rest <= length input)%nat /\ (input <> [] -> S (length rest) = length input)).
    { unfold rest. destruct input; cbn [length]; split; try lia; congruence. }
    assert (Hf' : (8 * length rest + 25 * r' + d' < 8 * f)%nat).
    { destruct input as [|b input]; cbn [length] in *; unfold rest; cbn [length]; lia. }
    destruct (IH rest nd' d' o' r' Hv' Hf') as [Hok Hmono]. split.
    + rewrite <- Hlen. exact Hok.
    + intros fuel' Hle. destruct fuel' as [|f']; [lia|]. cbn [dec_loop]. fold byte rest. rewrite Hd.
      apply Hmono. lia.
  - split.
    + cbn [dec_result_ok]. rewrite rev_length. exact Hb.
    + intros fuel' Hle. destruct fuel' as [|f']; [lia|]. cbn [dec_loop]. fold byte rest. now rewrite Hd.
  - split; [reflexivity|].
    intros fuel' Hle. destruct fuel' as [|f']; [lia|]. cbn [dec_loop]. fold byte rest. now rewrite Hd.
  - destruct Hb.
Qed.

(* the decoder terminates within dec_fuel iterations on every input, never panics,
   writes at most cap bytes and fails only with the capacity error *)
Theorem decoder_total t y cap : wf_table t = true ->
  dec_result_ok cap (decompress (dec_fuel y cap) t y cap)
  /\ forall fuel, (dec_fuel y cap <= fuel)%nat ->
       decompress fuel t y cap = decompress (dec_fuel y cap) t y cap.
Proof.
  intros Hwf. destruct (wf_root t Hwf) as (rootnd & Hl & Hg & Hs).
  assert (Hroot : vnode t 24 rootnd).
  { exists ROOT_IDX. repeat split; try assumption. unfold ROOT_IDX, NUM_SYMBOLS. lia. }
  unfold decompress. rewrite Hg.
  destruct (dec_loop_total t rootnd Hwf Hroot (dec_fuel y cap) y rootnd 24%nat [] cap Hroot) as [Hok Hmono].
  { unfold dec_fuel. lia. }
  split; [exact Hok|exact Hmono].
Qed.

(* compress_into_vec then decompress_into_vec: the fixed capacities always suffice *)
Theorem vec_roundtrip t x : wf_table t = true -> bytes_ok x = true ->
  exists c, compress_into_vec t x = Ok c /\ decompress_into_vec t c = Ok x.
Proof.
  intros Hwf Hx. destruct (compress_into_vec_spec t x Hwf Hx) as (c & Hv & Hc).
  exists c. split; [exact Hv|]. unfold decompress_into_vec.
  destruct (compress_spec t x false Hwf Hx) as (out & Hlen & _ & _ & Hcomp).
  specialize (Hc (length c) (le_n _)). pose proof Hc as Hc'. rewrite Hcomp in Hc'.
  destruct (length out <=? length c)%nat; [|discriminate]. injection Hc' as ->.
  pose proof (bit_len_bounds t x Hwf Hx) as Hb. rewrite bytes_needed_false in Hlen.
  assert (Hcap : (length x <= length c * 8)%nat) by (Z.div_mod_to_equations; lia).
  pose proof (roundtrip t x false (length c) c [] (length c * 8) (dec_fuel c (length c * 8))
                        Hwf Hx Hc Hcap ltac:(unfold dec_fuel; lia)) as H.
  rewrite app_nil_r in H. rewrite H. reflexivity.
Qed.

(* C14: decoding the canonical bytes of a described value gives the value back,
   without warnings (induction over the member list) *)
From LibTw2 Require Import Base.Res Model.Varint Model.Packer Model.Codec
  Proofs.VarintArith Proofs.VarintProofs Proofs.PackerProofs Proofs.CodecStr.
From Coq Require Import ZArith Lia Bool List ZifyBool.
Open Scope Z_scope.

(* ---- reading one packer field back ---- *)

Lemma rd_int x rest : is_i32 x = true -> bytes_ok rest = true ->
  unpack_step (write_int_bytes x ++ rest) KInt = (rest, Ok (FInt x), []).
Proof. intros Hx Hr. apply (unpack_step_field (FInt x) rest Hx Hr). intros r; discriminate. Qed.

Lemma rd_str s rest : has_nul s = false -> bytes_ok s = true -> bytes_ok rest = true ->
  unpack_step ((s ++ [0]) ++ rest) KStr = (rest, Ok (FStr s), []).
Proof.
  intros Hn Hs Hr. apply (unpack_step_field (FStr s) rest); [|exact Hr|intros r; discriminate].
  cbn [field_wf]. rewrite Hn, Hs. reflexivity.
Qed.

Lemma rd_data d rest : Z.of_nat (length d) <= i32_max -> bytes_ok d = true -> bytes_ok rest = true ->
  unpack_step ((write_int_bytes (Z.of_nat (length d)) ++ d) ++ rest) KData = (rest, Ok (FData d), []).
Proof.
  intros Hl Hd Hr. apply (unpack_step_field (FData d) rest); [|exact Hr|intros r; discriminate].
  cbn [field_wf]. rewrite Hd. replace (Z.of_nat (length d) <=? i32_max) with true by lia. reflexivity.
Qed.

Lemma rd_raw s rest : bytes_ok s = true -> bytes_ok rest = true ->
  unpack_step (s ++ rest) (KRaw (length s)) = (rest, Ok (FRaw s), []).
Proof. intros Hs Hr. apply (unpack_step_field (FRaw s) rest Hs Hr). intros r; discriminate. Qed.

Lemma has_cc_nul s : has_cc s = false -> has_nul s = false.
Proof.
  unfold has_cc, has_nul. induction s as [|b s IH]; cbn [existsb]; [reflexivity|].
  intros H. apply orb_false_iff in H as [Hb Hs]. rewrite IH by exact Hs. lia.
Qed.

(* ---- an accepted i32 is returned unchanged ---- *)

Lemma check_int_val i x v : check_int i x = Ok v -> i <> IBool -> v = VInt x.
Proof.
  destruct i; cbn [check_int]; intros H Hb; try (injection H as <-; reflexivity).
  - destruct (_ && _); [injection H as <-; reflexivity|discriminate].
  - destruct (0 <=? x); [injection H as <-; reflexivity|discriminate].
  - destruct (a <=? x); [injection H as <-; reflexivity|discriminate].
  - exfalso; apply Hb; reflexivity.
  - destruct (elookup t x); [injection H as <-; reflexivity|discriminate].
Qed.

Lemma typed_int_check i v : typed_int i v = true ->
  exists x, is_i32 x = true /\ check_int i x = Ok v /\ enc_value (MI i) v = write_int_bytes x.
Proof.
  destruct i, v; cbn [typed_int]; intros H; try discriminate;
    try (apply andb_true_iff in H as [Hi Hc]; exists v; split; [exact Hi|];
         split; [|reflexivity];
         match type of Hc with
         | match ?c with _ => _ end = true =>
           destruct c as [w| | |] eqn:E; try discriminate;
           rewrite (check_int_val _ _ _ E) by discriminate; reflexivity
         end).
  exists (if b then 1 else 0). destruct b; cbn; repeat split.
Qed.

(* ---- one member ---- *)

Lemma bytes_ok_firstn n s : bytes_ok s = true -> bytes_ok (firstn n s) = true.
Proof.
  unfold bytes_ok. revert n. induction s as [|b s IH]; intros [|n] H; cbn [firstn forallb] in *; try reflexivity.
  apply andb_true_iff in H as [Hb Hs]. rewrite Hb, IH by exact Hs. reflexivity.
Qed.

Lemma be16_ok x : 0 <= x < 65536 -> bytes_ok (be16 x) = true /\ (x / 256) * 256 + x mod 256 = x.
Proof.
  intros H. unfold be16, bytes_ok, byte_ok. cbn [forallb].
  pose proof (Z.div_mod x 256). pose proof (Z.mod_pos_bound x 256).
  assert (0 <= x / 256 < 256) by (split; [apply Z.div_pos; lia|apply Z.div_lt_upper_bound; lia]).
  split; lia.
Qed.

Lemma enc_value_ok m v : mop_ok m = true -> typed m v = true -> bytes_ok (enc_value m v) = true.
Proof.
  intros Hm Ht. destruct m; cbn [typed] in Ht.
  - destruct (typed_int_check _ _ Ht) as [x [Hx [_ ->]]].
    unfold write_int_bytes. rewrite write_int_arith by exact Hx. apply write_int_a_bytes_ok, Hx.
  - destruct v; try discriminate. unfold str_ok in Ht. apply andb_true_iff in Ht as [_ H].
    cbn [enc_value]. apply bytes_ok_app; [exact H|reflexivity].
  - destruct v; try discriminate. apply andb_true_iff in Ht as [_ H].
    cbn [enc_value]. apply bytes_ok_app; [exact H|reflexivity].
  - destruct v; try discriminate. cbn [enc_value].
    apply bytes_ok_app; [apply print_int_str|reflexivity].
  - destruct v; try discriminate. apply andb_true_iff in Ht as [Hl H]. cbn [enc_value].
    apply bytes_ok_app; [|exact H]. unfold write_int_bytes.
    rewrite write_int_arith by (unfold is_i32, i32_min in *; lia).
    apply write_int_a_bytes_ok. unfold is_i32, i32_min in *; lia.
  - destruct v; try discriminate. exact Ht.
  - destruct v; try discriminate. apply andb_true_iff in Ht as [H _]. exact H.
  - destruct v; try discriminate. apply andb_true_iff in Ht as [H _]. exact H.
  - destruct v; try discriminate. cbn [enc_value]. unfold bytes_ok. cbn [forallb]. rewrite Ht. reflexivity.
  - destruct v; try discriminate. cbn [enc_value]. apply be16_ok. lia.
  - destruct v; try discriminate. apply andb_true_iff in Ht as [H _]. exact H.
  - destruct v; try discriminate. exact Ht.
  - destruct v; try discriminate. cbn [enc_value]. unfold write_int_bytes.
    rewrite write_int_arith by exact Ht. apply write_int_a_bytes_ok, Ht.
  - destruct v; try discriminate. unfold str_ok in Ht. apply andb_true_iff in Ht as [_ H].
    cbn [enc_value]. apply bytes_ok_app; [exact H|reflexivity].
  - destruct v; try discriminate. reflexivity.
Qed.

(* a member that does not swallow the rest: its canonical bytes, followed by anything, read back *)
Lemma decode_op_canon demo m v rest : mop_ok m = true -> typed m v = true -> takes_rest m = false ->
  bytes_ok rest = true ->
  decode_op demo m (enc_value m v ++ rest) = (rest, Ok v, []).
Proof.
  intros Hm Ht Hr Hrest. destruct m; cbn [takes_rest] in Hr; try discriminate; cbn [typed mop_ok] in *.
  - (* MI *)
    destruct (typed_int_check _ _ Ht) as [x [Hx [Hc ->]]].
    cbn [decode_op]. unfold step_int. rewrite rd_int by assumption. cbn [int_of]. rewrite Hc. reflexivity.
  - (* MStr *)
    destruct v; try discriminate. unfold str_ok in Ht. apply andb_true_iff in Ht as [Hn Hs].
    apply negb_true_iff in Hn. cbn [decode_op enc_value]. unfold step_bytes.
    rewrite rd_str by assumption. reflexivity.
  - (* MStrStrict *)
    destruct v; try discriminate. apply andb_true_iff in Ht as [Hc Hs]. apply negb_true_iff in Hc.
    cbn [decode_op enc_value]. unfold step_bytes.
    rewrite rd_str by (try apply has_cc_nul; assumption). cbn [payload]. rewrite Hc. reflexivity.
  - (* MIntStr *)
    destruct v; try discriminate. cbn [decode_op enc_value]. unfold step_bytes.
    destruct (print_int_str v) as [Hn Hs].
    rewrite rd_str by assumption. cbn [payload]. rewrite parse_print_int by exact Ht. reflexivity.
  - (* MData *)
    destruct v; try discriminate. apply andb_true_iff in Ht as [Hl Hs].
    cbn [decode_op enc_value]. unfold step_bytes. rewrite rd_data by (try lia; assumption). reflexivity.
  - (* MUuid *)
    destruct v; try discriminate. apply andb_true_iff in Ht as [Hs Hl]. apply Nat.eqb_eq in Hl. subst n.
    cbn [decode_op enc_value]. unfold step_bytes. rewrite rd_raw by assumption. cbn [payload]. rewrite Hm. reflexivity.
  - (* MSha256 *)
    destruct v; try discriminate. apply andb_true_iff in Ht as [Hs Hl]. apply Nat.eqb_eq in Hl. subst n.
    cbn [decode_op enc_value]. unfold step_bytes. rewrite rd_raw by assumption. cbn [payload]. rewrite Hm. reflexivity.
  - (* MU8 *)
    destruct v; try discriminate. cbn [decode_op enc_value]. unfold step_bytes.
    change 1%nat with (length [v]). rewrite rd_raw; [reflexivity| |exact Hrest].
    unfold bytes_ok. cbn [forallb]. rewrite Ht. reflexivity.
  - (* MBe16 *)
    destruct v; try discriminate. cbn [decode_op enc_value]. unfold step_bytes.
    destruct (be16_ok v ltac:(lia)) as [Hb He].
    change 2%nat with (length (be16 v)). rewrite rd_raw by assumption. cbn [payload be16]. rewrite He. reflexivity.
  - (* MOptInt *)
    destruct v; try discriminate. cbn [decode_op enc_value]. rewrite rd_int by assumption. reflexivity.
  - (* MOptStr *)
    destruct v; try discriminate. unfold str_ok in Ht. apply andb_true_iff in Ht as [Hn Hs].
    apply negb_true_iff in Hn. cbn [decode_op enc_value]. rewrite rd_str by assumption. reflexivity.
Qed.

(* a member that swallows the rest, in last position *)
Lemma decode_op_canon_last demo m v : mop_ok m = true -> typed m v = true -> takes_rest m = true ->
  decode_op demo m (enc_value m v) = ([], Ok v, []).
Proof.
  intros Hm Ht Hr. destruct m; cbn [takes_rest] in Hr; try discriminate; cbn [typed] in Ht;
    destruct v; try discriminate; cbn [decode_op enc_value].
  - reflexivity.
  - (* MAddrs *)
    apply andb_true_iff in Ht as [_ Hl]. apply Nat.eqb_eq in Hl.
    unfold step_bytes. cbn [unpack_step payload]. rewrite Hl. cbn [Nat.eqb].
    rewrite Nat.sub_0_r, firstn_all. reflexivity.
  - reflexivity.
  - destruct demo; reflexivity.
Qed.

(* ---- the member list ---- *)

Lemma enc_values_ok ms : forall vs, forallb mop_ok ms = true -> well_typed ms vs = true ->
  bytes_ok (enc_values ms vs) = true.
Proof.
  induction ms as [|m ms IH]; intros [|v vs] Hm Ht; cbn [well_typed enc_values forallb] in *; try reflexivity; try discriminate.
  apply andb_true_iff in Hm as [Hm1 Hm2]. apply andb_true_iff in Ht as [Ht1 Ht2].
  apply bytes_ok_app; [apply enc_value_ok; assumption|apply IH; assumption].
Qed.

Theorem decode_ops_canon demo ms : forall vs, forallb mop_ok ms = true -> rest_only_last ms = true ->
  well_typed ms vs = true ->
  decode_ops demo ms (enc_values ms vs) = ([], Ok vs, []).
Proof.
  induction ms as [|m ms IH]; intros [|v vs] Hm Hl Ht; cbn [well_typed] in Ht; try discriminate; [reflexivity|].
  cbn [forallb] in Hm. apply andb_true_iff in Hm as [Hm1 Hm2]. apply andb_true_iff in Ht as [Ht1 Ht2].
  cbn [enc_values decode_ops].
  destruct ms as [|m' ms'].
  - (* last member *)
    destruct vs; [|discriminate Ht2]. cbn [enc_values]. rewrite app_nil_r.
    destruct (takes_rest m) eqn:Er.
    + rewrite decode_op_canon_last by assumption. reflexivity.
    + rewrite <- (app_nil_r (enc_value m v)). rewrite decode_op_canon by (try assumption; reflexivity). reflexivity.
  - cbn [rest_only_last] in Hl. apply andb_true_iff in Hl as [Hnr Hl]. apply negb_true_iff in Hnr.
    rewrite decode_op_canon; [|assumption|assumption|assumption|apply enc_values_ok; assumption].
    rewrite IH by assumption. reflexivity.
Qed.

Lemma finish_nil demo : finish_warns demo [] = false.
Proof. destruct demo; reflexivity. Qed.

Theorem decode_canonical c demo vs : forallb mop_ok (c_dec c) = true -> rest_only_last (c_dec c) = true ->
  well_typed (c_dec c) vs = true ->
  decode c demo (canonical c vs) = Ok (vs, []).
Proof.
  intros Hm Hl Ht. unfold decode, decode_w, decode_body, canonical.
  rewrite decode_ops_canon by assumption. rewrite finish_nil. reflexivity.
Qed.

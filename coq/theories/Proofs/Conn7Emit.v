(* 0.7: what Proofs/ConnCoreInv.dgram_ok does not record about the datagrams connection7.rs emits:
   every datagram carries a 4-byte token (a connectionless one carries two), and the response
   token of a Connect / Token control message is a 4-byte token other than TOKEN_NONE (the model
   of send_control panics otherwise, as ControlPacket::write asserts). Proved for one step from
   any state satisfying the invariant conn_ok7, and hence along every valid history. Consequence:
   every emitted datagram satisfies Proofs/ConnBytes7.tokens_wf7 and is encodable (encode7). *)
From LibTw2 Require Import Base.Res Model.PacketTypes Model.PacketBase Model.ConnCore Model.Conn7
  Proofs.ConnCoreInv Proofs.Conn7Inv Proofs.ConnBytes7.
From Coq Require Import ZArith Lia Bool List.
Open Scope Z_scope.

Definition some_tlen (t : option token) : Prop := exists a, t = Some a /\ tlen a.

Definition emit_wf7 (d : dgram) : Prop :=
  match d with
  | DConnless tok resp _ => some_tlen tok /\ some_tlen resp
  | DControl tok _ c =>
    some_tlen tok /\
    match c with
    | Connect (Some r) | TokenMsg r => tlen r /\ r <> TOKEN_NONE
    | Connect None | ConnectAccept => False          (* not 0.7 messages *)
    | _ => True
    end
  | DChunks tok _ _ _ _ => some_tlen tok
  end.

Lemma emit_wf7_tokens d : emit_wf7 d -> tokens_wf7 d = true.
Proof.
  destruct d as [t r pl|tok ack c|tok ack rr n cs]; cbn [emit_wf7 tokens_wf7]; try reflexivity.
  - intros [[a [-> Ha]] [b [-> Hb]]]. unfold tlen in *. cbn [otoken_ok]. unfold token_ok. rewrite Ha, Hb. reflexivity.
  - intros [_ H]. destruct c as [|[r|]| | |r|r]; try reflexivity; apply resp_ok7_iff; exact H.
Qed.

Lemma emit_wf7_encodable d : emit_wf7 d -> exists p, encode7 d = Some p.
Proof.
  destruct d as [t r pl|tok ack c|tok ack rr n cs]; cbn [emit_wf7 encode7].
  - intros [[a [-> _]] [b [-> _]]]. eexists; reflexivity.
  - intros [[a [-> _]] H]. destruct c as [|[r|]| | |r|r]; try contradiction; cbn [ctl7_of]; eexists; reflexivity.
  - intros [a [-> _]]. eexists; reflexivity.
Qed.

Lemma bind_ok {E A B} (r : res E A) (f : A -> res E B) b : bind r f = Ok b -> exists a, r = Ok a /\ f a = Ok b.
Proof. destruct r; cbn [bind]; try discriminate. intros H. eexists; split; [reflexivity|exact H]. Qed.

(* ---------- the shared online core: only chunk datagrams, all with the peer's token ---------- *)
Definition chunks_tok (t : option token) (d : dgram) : Prop :=
  match d with DChunks tok _ _ _ _ => tok = t | _ => False end.

Lemma chunks_tok_emit t ds : some_tlen t -> Forall (chunks_tok t) ds -> Forall emit_wf7 ds.
Proof.
  intros Ht H. eapply Forall_impl; [|exact H]. intros d Hd.
  destruct d; cbn [chunks_tok] in Hd; try contradiction. subst. exact Ht.
Qed.

Lemma online_flush_emit pp o o' ds : online_flush pp o = Ok (o', ds) ->
  Forall (chunks_tok (o_their o)) ds /\ o_their o' = o_their o.
Proof.
  unfold online_flush. destruct (negb (can_send o)).
  - intros H; injection H as <- <-. split; [constructor|reflexivity].
  - destruct (MAX_PACKETSIZE <? _); [discriminate|]. intros H; injection H as <- <-.
    split; [constructor; [reflexivity|constructor]|reflexivity].
Qed.

Lemma online_send_emit pp now o data vital o' ds r :
  online_send pp now o data vital = Ok (o', ds, r) -> Forall (chunks_tok (o_their o)) ds.
Proof.
  unfold online_send. destruct (_ || _).
  - intros H; injection H as <- <- <-. constructor.
  - intros H. apply bind_ok in H as [[o1 out] [H1 H2]]. apply bind_ok in H2 as [o2 [_ H2]].
    injection H2 as <- <- <-.
    destruct (negb (can_fit_chunk pp (o_packet o) (Z.of_nat (length data)) vital)).
    + apply online_flush_emit in H1. apply H1.
    + injection H1 as <- <-. constructor.
Qed.

Lemma resend_loop_emit pp : forall fuel o todo out ts o' out' ts',
  resend_loop pp fuel o todo out ts = Ok (o', out', ts') ->
  Forall (chunks_tok (o_their o)) out -> Forall (chunks_tok (o_their o)) out'.
Proof.
  induction fuel as [|fuel IH]; intros o todo out ts o' out' ts' H Hout; destruct todo as [|c rest]; cbn [resend_loop] in H;
    try discriminate; try (injection H as <- <- <-; exact Hout).
  destruct (can_fit_chunk pp (o_packet o) (Z.of_nat (length (rc_data c))) true).
  - destruct (pc_write_chunk pp (o_packet o) (rc_data c) (Some (rc_seq c, true))) as [p| | |]; try discriminate.
    specialize (IH _ _ _ _ _ _ _ H). cbn [o_set_packets o_their] in IH. apply IH, Hout.
  - destruct (online_flush pp o) as [[o1 d]| | |] eqn:Ef; try discriminate.
    apply online_flush_emit in Ef as [Hd Ht]. specialize (IH _ _ _ _ _ _ _ H). rewrite Ht in IH.
    apply IH. apply Forall_app. split; assumption.
Qed.

Lemma online_resend_emit pp now o o' ds ts :
  online_resend pp now o = Ok (o', ds, ts) -> Forall (chunks_tok (o_their o)) ds.
Proof.
  unfold online_resend. destruct (o_queue o) as [|c q].
  - intros H; injection H as <- <- <-. constructor.
  - intros H. apply resend_loop_emit in H; [exact H|constructor].
Qed.

(* ---------- connection7.rs ---------- *)

Lemma send_control_with7_emit st c tok ds :
  send_control_with7 st c tok = Ok ds -> tlen tok ->
  match c with
  | Connect (Some r) | TokenMsg r => tlen r
  | Connect None | ConnectAccept => False
  | _ => True
  end ->
  Forall emit_wf7 ds.
Proof.
  unfold send_control_with7. intros H Htok Hc.
  destruct (match c with Connect (Some r) | TokenMsg r => tokb r TOKEN_NONE | _ => false end) eqn:Eb; [discriminate|].
  destruct (MAX_PACKETSIZE <? _); [discriminate|]. injection H as <-.
  constructor; [|constructor]. cbn [emit_wf7]. split; [exists tok; split; [reflexivity|exact Htok]|].
  destruct c as [|[r|]| | |r|r]; try exact I; try contradiction; (split; [exact Hc|apply tokb_false', Eb]).
Qed.

Lemma state_their_tlen st : state_ok7 st -> tlen (match their_token st with Some t => t | None => TOKEN_NONE end).
Proof.
  unfold state_ok7. destruct st as [|own|own|own their|own their|o|]; cbn [their_token]; try reflexivity; try tauto.
  intros [_ [_ [b [-> Hb]]]]. exact Hb.
Qed.

Lemma tick_action7_emit c e out :
  state_ok7 (c7_state c) -> tick_action7 c e = Ok out -> Forall emit_wf7 (out7_sent out).
Proof.
  intros Hst H. pose proof (state_their_tlen _ Hst) as Hth. unfold tick_action7, send_control7 in H.
  destruct (c7_state c) as [|own|own|own their|own their|o|] eqn:Es; cbn [state_ok7] in Hst;
    try (injection H as <-; apply Forall_nil).
  - apply bind_ok in H as [d [H1 H2]]. injection H2 as <-. cbn [out7_sent mk7].
    eapply send_control_with7_emit; [exact H1|exact Hth|apply Hst].
  - apply bind_ok in H as [d [H1 H2]]. injection H2 as <-. cbn [out7_sent mk7].
    eapply send_control_with7_emit; [exact H1|exact Hth|apply Hst].
  - apply bind_ok in H as [d [H1 H2]]. injection H2 as <-. cbn [out7_sent mk7].
    eapply send_control_with7_emit; [exact H1|exact Hth|exact I].
  - destruct Hst as [_ [_ Hb]]. destruct (can_send o).
    + apply bind_ok in H as [[o' d] [H1 H2]]. injection H2 as <-. cbn [out7_sent mk7].
      apply online_flush_emit in H1 as [H1 _]. eapply chunks_tok_emit; [exact Hb|exact H1].
    + apply bind_ok in H as [d [H1 H2]]. injection H2 as <-. cbn [out7_sent mk7].
      eapply send_control_with7_emit; [exact H1|exact Hth|exact I].
Qed.

Lemma do_resend7_emit c e o c' ds :
  do_resend7 c e o = Ok (c', ds) -> some_tlen (o_their o) -> Forall emit_wf7 ds.
Proof.
  unfold do_resend7. intros H Hb. apply bind_ok in H as [[[o' d] timer] [H1 H2]]. injection H2 as <- <-.
  apply online_resend_emit in H1. eapply chunks_tok_emit; eassumption.
Qed.

(* the part of feed7 after the state became Online: sends only what do_resend7 sends *)
Lemma feed_chunks_tail_emit (c2 : conn7) e o rr cs out :
  some_tlen (o_their o) ->
  (let* (c3, sent) := (if rr : bool then do_resend7 c2 e o else Ok (c2, [])) in
   match c7_state c3 with
   | Online7 o3 =>
     let* (ack', rr', evs) := recv_chunks (o_ack o3) (o_rr o3) cs in
     Ok (mk7 {| c7_state := Online7 (o_set_ack o3 ack' rr'); c7_send := c7_send c3 |} e sent evs [] R7Ok)
   | _ => Ok (mk7 c3 e sent [] [] R7Ok)
   end) = Ok out ->
  Forall emit_wf7 (out7_sent out).
Proof.
  intros Hb H. apply bind_ok in H as [[c3 sent] [H1 H2]].
  assert (Hs : Forall emit_wf7 sent).
  { destruct rr; [eapply do_resend7_emit; eassumption|injection H1 as <- <-; constructor]. }
  destruct (c7_state c3); try (injection H2 as <-; exact Hs).
  apply bind_ok in H2 as [[[a r] evs] [_ H2]]. injection H2 as <-. exact Hs.
Qed.

Theorem feed7_emit c e d out :
  conn_ok7 c -> dgram_in_ok7 d -> rand_ok7 e -> feed7 c e d = Ok out -> Forall emit_wf7 (out7_sent out).
Proof.
  intros Hc Hd [Hrl _] Hf. pose proof (conn_ok7_state c Hc) as Hst.
  destruct d as [tk rs pl|tk ack ctl|tk ack rr n cs].
  - unfold feed7 in Hf. destruct (negb (otokb tk (own_token (c7_state c)))); [injection Hf as <-; apply Forall_nil|].
    destruct (negb (otokb rs (their_token (c7_state c)))); injection Hf as <-; apply Forall_nil.
  - destruct Hd as [Htk [Hack Hresp]]. unfold feed7 in Hf.
    match type of Hf with context [if negb (tokb ?a ?b) then _ else _] => destruct (negb (tokb a b)) end;
      [injection Hf as <-; apply Forall_nil|].
    destruct ((ack <? 0) || (SEQ_MOD <=? ack)); [discriminate|].
    set (st1 := match c7_state c with Online7 o => Online7 (ack_chunks o ack) | _ => c7_state c end) in Hf.
    assert (Hst1 : state_ok7 st1).
    { unfold st1. destruct (c7_state c) as [|own|own|own their|own their|o|]; try exact Hst.
      destruct Hst as [Hon [[a [Ha Hla]] [b [Hb Hlb]]]]. destruct (ack_chunks_toks o ack) as [E1 E2].
      split; [apply ack_chunks_ok, Hon|]. split; [exists a; rewrite E1; split; assumption|exists b; rewrite E2; split; assumption]. }
    clearbody st1.
    destruct ctl as [|resp| | |reason|resp]; try (injection Hf as <-; apply Forall_nil).
    + destruct st1 as [|own|own|own their|own their|o|]; try (injection Hf as <-; apply Forall_nil).
      destruct resp as [t|]; [|injection Hf as <-; apply Forall_nil].
      eapply tick_action7_emit; [|exact Hf]. cbn [c7_state state_ok7]. split; [apply Hst1|exact Hresp].
    + destruct st1 as [|own|own|own their|own their|o|]; injection Hf as <-; apply Forall_nil.
    + destruct st1 as [|own|own|own their|own their|o|]; try (injection Hf as <-; apply Forall_nil).
      * apply bind_ok in Hf as [[nt rnd'] [H1 H2]]. apply bind_ok in H2 as [s [H2 H3]]. injection H3 as <-.
        cbn [out7_sent mk7]. destruct (token_random7_spec _ _ _ Hrl H1) as [Hlt _].
        eapply send_control_with7_emit; [exact H2|exact Hresp|exact Hlt].
      * eapply tick_action7_emit; [|exact Hf]. cbn [c7_state state_ok7].
        destruct Hst1 as [Hl Hn]. split; [exact Hl|]. split; [exact Hresp|exact Hn].
      * apply bind_ok in Hf as [s [H2 H3]]. injection H3 as <-. cbn [out7_sent mk7].
        eapply send_control_with7_emit; [exact H2|exact Hresp|apply Hst1].
  - destruct Hd as [Htk [Hack Hcs]]. unfold feed7 in Hf.
    match type of Hf with context [if negb (tokb ?a ?b) then _ else _] => destruct (negb (tokb a b)) end;
      [injection Hf as <-; apply Forall_nil|].
    destruct ((ack <? 0) || (SEQ_MOD <=? ack)); [discriminate|].
    destruct (c7_state c) as [|own|own|own their|own their|o|] eqn:Es; try (injection Hf as <-; apply Forall_nil).
    + eapply feed_chunks_tail_emit; [|exact Hf]. exists their. split; [reflexivity|apply Hst].
    + eapply feed_chunks_tail_emit; [|exact Hf]. destruct Hst as [_ [_ [b [Hb Hlb]]]].
      destruct (ack_chunks_toks o ack) as [_ E2]. exists b. rewrite E2. split; assumption.
Qed.

Theorem step7_emit c e o out :
  conn_ok7 c -> valid_op7 c e o -> step7 c e o = Ok out -> Forall emit_wf7 (out7_sent out).
Proof.
  intros Hc Hv Hs. pose proof (conn_ok7_state c Hc) as Hst.
  destruct o as [|data vital| | |reason|data|d| |]; cbn [valid_op7] in Hv; unfold step7 in Hs.
  - destruct Hv as [Hu [Hrl _]]. rewrite Hu in Hs. apply bind_ok in Hs as [[t rnd'] [H1 H2]].
    destruct (token_random7_spec _ _ _ Hrl H1) as [Hlt [Hnt _]].
    eapply tick_action7_emit; [|exact H2]. cbn [c7_state state_ok7]. split; assumption.
  - destruct Hv as [on Hon]. rewrite Hon in *. apply bind_ok in Hs as [[[o' d] r] [H1 H2]]. injection H2 as <-.
    cbn [out7_sent mk7]. apply online_send_emit in H1. eapply chunks_tok_emit; [|exact H1]. apply Hst.
  - destruct Hv as [on Hon]. rewrite Hon in *. apply bind_ok in Hs as [[o' d] [H1 H2]]. injection H2 as <-.
    cbn [out7_sent mk7]. apply online_flush_emit in H1 as [H1 _]. eapply chunks_tok_emit; [|exact H1]. apply Hst.
  - destruct (match c7_state c with
              | Online7 o => match queue_back (o_queue o) with Some rc => triggered (rc_next rc) (e_now e) | None => false end
              | _ => false end).
    + destruct (c7_state c) as [|own|own|own their|own their|on|] eqn:Es; try (injection Hs as <-; apply Forall_nil).
      apply bind_ok in Hs as [[c' d] [H1 H2]]. injection H2 as <-. cbn [out7_sent mk7].
      eapply do_resend7_emit; [exact H1|apply Hst].
    + destruct (triggered (c7_send c) (e_now e)); [|injection Hs as <-; apply Forall_nil].
      eapply tick_action7_emit; [|exact Hs]. exact Hst.
  - destruct Hv as [_ [Hn _]]. rewrite Hn in Hs. pose proof (state_their_tlen _ Hst) as Hth.
    unfold send_control7 in Hs.
    destruct (c7_state c) as [|own|own|own their|own their|on|]; try discriminate;
      apply bind_ok in Hs as [d [H1 H2]]; injection H2 as <-; cbn [out7_sent mk7];
      (eapply send_control_with7_emit; [exact H1|exact Hth|exact I]).
  - destruct Hv as [on Hon]. rewrite Hon in *. destruct Hst as [_ [Ha Hb]].
    destruct (MAX_PAYLOAD <? Z.of_nat (length data)); injection Hs as <-; cbn [out7_sent mk7]; [constructor|].
    constructor; [|constructor]. cbn [emit_wf7]. split; assumption.
  - destruct Hv as [Hd Hr]. eapply feed7_emit; eassumption.
  - injection Hs as <-. constructor.
  - rewrite Hv in Hs. injection Hs as <-. constructor.
Qed.

Theorem run_emit7 ls : forall c e c' e' ds, conn_ok7 c -> valid_run7 c e ls ->
  run7 c e ls = Ok (c', e', ds) -> Forall emit_wf7 ds.
Proof.
  induction ls as [|l ls IH]; intros c e c' e' ds Hc Hv Hr.
  - injection Hr as <- <- <-. constructor.
  - destruct l as [o|dt]; cbn [run7 valid_run7] in *.
    + destruct Hv as [Hvo Hvr].
      destruct (step7_ok c e o Hc Hvo) as [out [Hs [Hc' _]]]. rewrite Hs in *.
      pose proof (step7_emit c e o out Hc Hvo Hs) as He.
      destruct (run7 (out7_conn out) (out7_env out) ls) as [[[c2 e2] ds2]| | |] eqn:Er; try discriminate.
      injection Hr as <- <- <-. apply Forall_app. split; [exact He|].
      eapply IH; [exact Hc'|exact Hvr|exact Er].
    + eapply IH; eassumption.
Qed.

(* C18: the integer and string readers of parse_server_info against their specifications.
   - parse_i32 (the checked_mul / checked_add loop of <i32 as FromStr>::from_str) computes the
     decimal value of sign? digit+ and fails exactly when the text is not of that form or the
     value is outside the i32 range;
   - the str::from_utf8 check in front of it is redundant for integers;
   - truncated_arraystring returns a prefix of at most `cap` bytes that ends on a character boundary. *)
From LibTw2 Require Import Base.Res Model.Varint Model.Packer Model.ServerBrowse Proofs.ServerBrowseTotal.
From Coq Require Import ZArith Lia Bool List Arith.
Open Scope Z_scope.

Fixpoint digits_value (acc : Z) (ds : bytes) : Z :=
  match ds with [] => acc | d :: r => digits_value (acc * 10 + (d - 48)) r end.

Lemma is_digit_range d : is_digit d = true -> 0 <= d - 48 <= 9.
Proof. unfold is_digit. lia. Qed.

Lemma digits_value_mono : forall ds acc, forallb is_digit ds = true -> 0 <= acc -> acc <= digits_value acc ds.
Proof.
  induction ds as [|d ds IH]; cbn [digits_value forallb]; intros acc H Hacc; [lia|].
  apply andb_true_iff in H as [Hd Hds]. apply is_digit_range in Hd.
  specialize (IH (acc * 10 + (d - 48)) Hds). lia.
Qed.

Lemma parse_digits_pos : forall ds acc, 0 <= acc <= i32_max ->
  parse_digits true acc ds =
  if forallb is_digit ds then
    (if digits_value acc ds <=? i32_max then Some (digits_value acc ds) else None)
  else None.
Proof.
  induction ds as [|d ds IH]; intros acc Hacc; cbn [parse_digits forallb digits_value].
  - replace (acc <=? i32_max) with true by lia. reflexivity.
  - destruct (is_digit d) eqn:Hd; cbn [andb]; [|reflexivity].
    pose proof (is_digit_range d Hd) as Hr.
    unfold is_i32, i32_min, i32_max in *.
    destruct ((-2147483648 <=? acc * 10) && (acc * 10 <=? 2147483647)) eqn:E1; cbn [negb].
    + destruct ((-2147483648 <=? acc * 10 + (d - 48)) && (acc * 10 + (d - 48) <=? 2147483647)) eqn:E2; cbn [negb].
      * apply IH. lia.
      * destruct (forallb is_digit ds) eqn:Hds; [|reflexivity].
        pose proof (digits_value_mono ds (acc * 10 + (d - 48)) Hds ltac:(lia)).
        replace (digits_value (acc * 10 + (d - 48)) ds <=? 2147483647) with false by lia. reflexivity.
    + destruct (forallb is_digit ds) eqn:Hds; [|reflexivity].
      pose proof (digits_value_mono ds (acc * 10 + (d - 48)) Hds ltac:(lia)).
      replace (digits_value (acc * 10 + (d - 48)) ds <=? 2147483647) with false by lia. reflexivity.
Qed.

(* the negative branch accumulates -value with checked_sub *)
Lemma parse_digits_neg : forall ds acc, 0 <= acc <= 2147483648 ->
  parse_digits false (- acc) ds =
  if forallb is_digit ds then
    (if i32_min <=? - digits_value acc ds then Some (- digits_value acc ds) else None)
  else None.
Proof.
  induction ds as [|d ds IH]; intros acc Hacc; cbn [parse_digits forallb digits_value].
  - unfold i32_min. replace (-2147483648 <=? - acc) with true by lia. reflexivity.
  - destruct (is_digit d) eqn:Hd; cbn [andb]; [|reflexivity].
    pose proof (is_digit_range d Hd) as Hr.
    unfold is_i32, i32_min, i32_max in *.
    destruct ((-2147483648 <=? - acc * 10) && (- acc * 10 <=? 2147483647)) eqn:E1; cbn [negb].
    + destruct ((-2147483648 <=? - acc * 10 - (d - 48)) && (- acc * 10 - (d - 48) <=? 2147483647)) eqn:E2; cbn [negb].
      * replace (- acc * 10 - (d - 48)) with (- (acc * 10 + (d - 48))) by lia. apply IH. lia.
      * destruct (forallb is_digit ds) eqn:Hds; [|reflexivity].
        pose proof (digits_value_mono ds (acc * 10 + (d - 48)) Hds ltac:(lia)).
        replace (-2147483648 <=? - digits_value (acc * 10 + (d - 48)) ds) with false by lia. reflexivity.
    + destruct (forallb is_digit ds) eqn:Hds; [|reflexivity].
      pose proof (digits_value_mono ds (acc * 10 + (d - 48)) Hds ltac:(lia)).
      replace (-2147483648 <=? - digits_value (acc * 10 + (d - 48)) ds) with false by lia. reflexivity.
Qed.

(* str::parse::<i32>: [+-]? digit+, decimal value, inside the i32 range *)
Theorem parse_i32_decimal s :
  parse_i32 s =
  match s with
  | [] => None
  | c :: r =>
    let '(neg, ds) := if c =? 45 then (true, r) else if c =? 43 then (false, r) else (false, s) in
    match ds with
    | [] => None
    | _ => if forallb is_digit ds then
             let v := if neg then - digits_value 0 ds else digits_value 0 ds in
             if is_i32 v then Some v else None
           else None
    end
  end.
Proof.
  unfold parse_i32. destruct s as [|c r]; [reflexivity|].
  destruct (c =? 45) eqn:E45.
  - apply Z.eqb_eq in E45. subst c. cbn [Z.eqb orb Pos.eqb]. destruct r as [|d r]; [reflexivity|].
    change 0 with (- 0) at 1. rewrite parse_digits_neg by lia.
    destruct (forallb is_digit (d :: r)) eqn:Hd; [|reflexivity]. cbv zeta.
    pose proof (digits_value_mono (d :: r) 0 Hd ltac:(lia)).
    unfold is_i32, i32_min, i32_max.
    replace (- digits_value 0 (d :: r) <=? 2147483647) with true by lia.
    rewrite andb_true_r. reflexivity.
  - destruct (c =? 43) eqn:E43.
    + cbn [orb]. destruct r as [|d r]; [reflexivity|].
      rewrite parse_digits_pos by (unfold i32_max; lia).
      destruct (forallb is_digit (d :: r)) eqn:Hd; [|reflexivity]. cbv zeta.
      pose proof (digits_value_mono (d :: r) 0 Hd ltac:(lia)).
      unfold is_i32, i32_min, i32_max.
      replace (-2147483648 <=? digits_value 0 (d :: r)) with true by lia. reflexivity.
    + cbn [orb]. rewrite parse_digits_pos by (unfold i32_max; lia).
      destruct (forallb is_digit (c :: r)) eqn:Hd; [|reflexivity]. cbv zeta.
      pose proof (digits_value_mono (c :: r) 0 Hd ltac:(lia)).
      unfold is_i32, i32_min, i32_max.
      replace (-2147483648 <=? digits_value 0 (c :: r)) with true by lia. reflexivity.
Qed.

(* whatever parses as an integer is ASCII, so the from_utf8 check cannot be what rejects it *)
Lemma digits_utf8 ds : forallb is_digit ds = true -> utf8_valid ds = true.
Proof.
  induction ds as [|d ds IH]; cbn [forallb utf8_valid]; intros H; [reflexivity|].
  apply andb_true_iff in H as [Hd Hds]. unfold is_digit in Hd.
  replace (d <? 128) with true by lia. apply IH, Hds.
Qed.

Lemma utf8_valid_ascii c r : (c <? 128) = true -> utf8_valid (c :: r) = utf8_valid r.
Proof. intros H. destruct r; cbn [utf8_valid]; rewrite H; reflexivity. Qed.

Theorem parse_i32_ascii s v : parse_i32 s = Some v -> utf8_valid s = true.
Proof.
  rewrite parse_i32_decimal. destruct s as [|c r]; [discriminate|].
  destruct (c =? 45) eqn:E45; [|destruct (c =? 43) eqn:E43].
  - destruct r as [|d r]; [discriminate|]. destruct (forallb is_digit (d :: r)) eqn:Hd; [|discriminate].
    intros _. apply Z.eqb_eq in E45. subst c. rewrite utf8_valid_ascii by reflexivity.
    apply digits_utf8, Hd.
  - destruct r as [|d r]; [discriminate|]. destruct (forallb is_digit (d :: r)) eqn:Hd; [|discriminate].
    intros _. apply Z.eqb_eq in E43. subst c. rewrite utf8_valid_ascii by reflexivity.
    apply digits_utf8, Hd.
  - destruct (forallb is_digit (c :: r)) eqn:Hd; [|discriminate]. intros _. apply digits_utf8, Hd.
Qed.

(* ---------- truncated_arraystring ---------- *)

Lemma trunc_search_prefix n s : exists k, trunc_search n s = firstn k s /\ (k <= n)%nat
  /\ is_char_boundary s k = true.
Proof.
  induction n as [|n IH]; cbn [trunc_search].
  - exists 0%nat. cbn [is_char_boundary]. auto.
  - destruct (is_char_boundary s (S n)) eqn:E.
    + exists (S n). auto.
    + destruct IH as [k [H1 [H2 H3]]]. exists k. split; [exact H1|]. split; [lia|exact H3].
Qed.

(* the result is a prefix of the string, at most cap bytes, cut at a character boundary;
   a string that fits is returned unchanged *)
Theorem truncated_arraystring_spec cap s :
  exists k, truncated_arraystring cap s = Ok (firstn k s) /\ (k <= cap)%nat
    /\ is_char_boundary s k = true /\ ((length s <= cap)%nat -> firstn k s = s).
Proof.
  unfold truncated_arraystring. destruct (cap <? length s)%nat eqn:E.
  - destruct (trunc_search_prefix cap s) as [k [H1 [H2 H3]]]. rewrite H1.
    replace (cap <? length (firstn k s))%nat with false
      by (symmetry; apply Nat.ltb_ge; rewrite firstn_length; lia).
    exists k. split; [reflexivity|]. split; [exact H2|]. split; [exact H3|].
    apply Nat.ltb_lt in E. lia.
  - rewrite E. apply Nat.ltb_ge in E. exists (length s). rewrite firstn_all.
    split; [reflexivity|]. split; [exact E|]. split; [|reflexivity].
    unfold is_char_boundary. destruct (length s) eqn:L; [reflexivity|]. rewrite <- L.
    replace (nth_error s (length s)) with (@None Z) by (symmetry; apply nth_error_None; lia).
    apply Nat.eqb_refl.
Qed.

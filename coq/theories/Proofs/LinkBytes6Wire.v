(* What a 0.6 endpoint holds and emits is made of bytes and carries a DDNet token, as long as what
   it is given is: an invariant of Conn6.step used by the byte-level link (C01 over bytes).
   `wire_dgram d`: payloads, close reason and token of d are byte strings, a connection-oriented
   datagram carries a token (the library's connector always offers the token extension, its
   acceptor always takes it), and it is not a 0.7 message. *)
From LibTw2 Require Import Base.Res Model.PacketTypes Model.ConnCore Model.Conn6
  Proofs.ConnCoreInv Proofs.Conn6Inv.
From Coq Require Import ZArith Lia Bool List.
Open Scope Z_scope.

Definition bytesP (b : bytes) : Prop := bytes_ok b = true.
Definition tok_bytes (t : option token) : Prop := exists x, t = Some x /\ bytesP x.
Definition chunk_bytes (c : chunk) : Prop := bytesP (ch_data c).

Definition wire_control (c : control) : Prop :=
  match c with Close r => bytesP r | TokenMsg _ => False | _ => True end.

Definition wire_dgram (d : dgram) : Prop :=
  match d with
  | DConnless _ _ p => bytesP p
  | DControl tok _ c => tok_bytes tok /\ wire_control c
  | DChunks tok _ _ _ cs => tok_bytes tok /\ Forall chunk_bytes cs
  end.

Definition wire_online (o : online) : Prop :=
  tok_bytes (o_own o) /\ tok_bytes (o_their o) /\
  Forall chunk_bytes (pc_chunks (o_packet o)) /\ Forall chunk_bytes (pc_chunks (o_packet_nv o)) /\
  Forall (fun c => bytesP (rc_data c)) (o_queue o).

Definition wire_state (st : state6) : Prop :=
  match st with Pending t => tok_bytes t | Online o => wire_online o | _ => True end.

(* what may be handed to an endpoint *)
Definition wire_op (o : op) : Prop :=
  match o with
  | OpSend d _ | OpSendConnless d | OpDisconnect d => bytesP d
  | OpFeed d => wire_dgram d
  | _ => True
  end.

Lemma tok_bytes_none : tok_bytes (Some TOKEN_NONE).
Proof. exists TOKEN_NONE. split; reflexivity. Qed.

(* ---------- the online core ---------- *)
Lemma pc_write_wire pp p data v p' :
  pc_write_chunk pp p data v = Ok p' -> Forall chunk_bytes (pc_chunks p) -> bytesP data ->
  Forall chunk_bytes (pc_chunks p').
Proof.
  unfold pc_write_chunk. destruct (2 ^ p_size_bits pp <=? _); [discriminate|].
  destruct (2048 <? _); [discriminate|]. destruct (255 <=? pc_num p); [discriminate|].
  intros H Hp Hd. injection H as <-. cbn [pc_chunks]. apply Forall_app. split; [exact Hp|].
  constructor; [exact Hd|constructor].
Qed.

Lemma flush_wire pp o o' ds : online_flush pp o = Ok (o', ds) -> wire_online o ->
  wire_online o' /\ Forall wire_dgram ds.
Proof.
  unfold online_flush. intros H Hw. destruct (negb (can_send o)).
  - injection H as <- <-. split; [exact Hw|constructor].
  - destruct (MAX_PACKETSIZE <? _); [discriminate|]. injection H as <- <-.
    destruct Hw as (H1 & H2 & H3 & H4 & H5). split.
    + unfold wire_online, o_clear. cbn. repeat split; try assumption; constructor.
    + constructor; [|constructor]. split; assumption.
Qed.

Lemma queue_wire pp now o data vital o' : online_queue pp now o data vital = Ok o' ->
  wire_online o -> bytesP data -> wire_online o'.
Proof.
  unfold online_queue. intros H (H1 & H2 & H3 & H4 & H5) Hd. destruct vital.
  - destruct (2048 <? _); [discriminate|].
    destruct (pc_write_chunk pp (o_packet o) data _) as [p| | |] eqn:E; try discriminate.
    injection H as <-. unfold wire_online. cbn. repeat split; try assumption.
    + eapply pc_write_wire; eassumption.
    + constructor; assumption.
  - destruct (pc_write_chunk pp (o_packet_nv o) data None) as [nv| | |] eqn:E1; try discriminate.
    destruct (pc_write_chunk pp (o_packet o) data None) as [p| | |] eqn:E2; try discriminate.
    injection H as <-. unfold wire_online, o_set_packets. cbn. repeat split; try assumption;
      eapply pc_write_wire; eassumption.
Qed.

Lemma send_wire pp now o data vital o' ds r : online_send pp now o data vital = Ok (o', ds, r) ->
  wire_online o -> bytesP data -> wire_online o' /\ Forall wire_dgram ds.
Proof.
  unfold online_send. intros H Hw Hd. destruct (_ || _).
  - injection H as <- <- <-. split; [exact Hw|constructor].
  - destruct (negb (can_fit_chunk _ _ _ _)).
    + destruct (online_flush pp o) as [[o1 d1]| | |] eqn:Ef; cbn [bind] in H; try discriminate.
      destruct (flush_wire _ _ _ _ Ef Hw) as [Hw1 Hd1].
      destruct (online_queue pp now o1 data vital) as [o2| | |] eqn:Eq; cbn [bind] in H; try discriminate.
      injection H as <- <- <-. split; [eapply queue_wire; eassumption|exact Hd1].
    + cbn [bind] in H.
      destruct (online_queue pp now o data vital) as [o2| | |] eqn:Eq; cbn [bind] in H; try discriminate.
      injection H as <- <- <-. split; [eapply queue_wire; eassumption|constructor].
Qed.

Lemma set_packets_wire o p : wire_online o -> Forall chunk_bytes (pc_chunks p) ->
  wire_online (o_set_packets o p (o_packet_nv o)).
Proof. intros (H1 & H2 & H3 & H4 & H5) Hp. unfold wire_online, o_set_packets. cbn. repeat split; assumption. Qed.

Lemma resend_loop_wire pp : forall todo fuel o out ts o' out' ts',
  resend_loop pp fuel o todo out ts = Ok (o', out', ts') ->
  wire_online o -> Forall (fun c => bytesP (rc_data c)) todo -> Forall wire_dgram out ->
  wire_online o' /\ Forall wire_dgram out'.
Proof.
  induction todo as [|c rest IH].
  - intros fuel o out ts o' out' ts' H Hw _ Ho. destruct fuel; cbn in H; injection H as <- <- <-; split; assumption.
  - induction fuel as [|fuel IHf]; intros o out ts o' out' ts' H Hw Ht Ho; cbn [resend_loop] in H; [discriminate|].
    destruct (can_fit_chunk _ _ _ _).
    + destruct (pc_write_chunk pp (o_packet o) (rc_data c) _) as [p| | |] eqn:E; try discriminate.
      inversion Ht as [|c0 r0 Hc Hr]; subst.
      eapply IH; [exact H| |exact Hr|exact Ho].
      apply set_packets_wire; [exact Hw|]. destruct Hw as (_ & _ & H3 & _). eapply pc_write_wire; eassumption.
    + destruct (online_flush pp o) as [[o1 d1]| | |] eqn:Ef; try discriminate.
      destruct (flush_wire _ _ _ _ Ef Hw) as [Hw1 Hd1].
      eapply IHf; [exact H|exact Hw1|exact Ht|]. apply Forall_app. split; assumption.
Qed.

Lemma resend_wire pp now o o' ds ts : online_resend pp now o = Ok (o', ds, ts) -> wire_online o ->
  wire_online o' /\ Forall wire_dgram ds.
Proof.
  unfold online_resend. intros H Hw. destruct (o_queue o) as [|c q] eqn:Eq.
  - injection H as <- <- <-. split; [exact Hw|constructor].
  - rewrite <- Eq in H. destruct Hw as (H1 & H2 & H3 & H4 & H5).
    assert (Hq : Forall (fun c => bytesP (rc_data c)) (restart_timers now (o_queue o))).
    { unfold restart_timers. apply Forall_map. exact H5. }
    eapply resend_loop_wire; [exact H| | |constructor].
    + unfold wire_online. cbn. repeat split; assumption.
    + apply Forall_rev, Hq.
Qed.

Lemma ack_wire o ack : wire_online o -> wire_online (ack_chunks o ack).
Proof.
  intros (H1 & H2 & H3 & H4 & H5). unfold ack_chunks.
  destruct (take_until_seq (o_queue o) ack) as [q|] eqn:E; [|repeat split; assumption].
  unfold wire_online. cbn. repeat split; try assumption. eapply take_until_seq_forall; eassumption.
Qed.

Lemma set_ack_wire o a r : wire_online o -> wire_online (o_set_ack o a r).
Proof. intros H. exact H. Qed.

Lemma online_new_wire t : tok_bytes t -> wire_online (online_new t t).
Proof. intros H. unfold wire_online, online_new. cbn. repeat split; try assumption; constructor. Qed.

(* ---------- the state machine ---------- *)
Definition wire_out (out : outcome) : Prop :=
  wire_state (c_state (out_conn out)) /\ Forall bytesP (e_rand (out_env out)) /\ Forall wire_dgram (out_sent out).

Lemma mk_wire c e ds evs ws r : wire_state (c_state c) -> Forall bytesP (e_rand e) -> Forall wire_dgram ds ->
  wire_out (mk c e ds evs ws r).
Proof. intros H1 H2 H3. split; [exact H1|split; [exact H2|exact H3]]. Qed.
Lemma send_control_wire st c ds : send_control st c = Ok ds -> wire_state st -> wire_control c ->
  Forall wire_dgram ds.
Proof.
  unfold send_control. intros H Hw Hc.
  destruct st as [| |t|o|]; try discriminate;
    (destruct (MAX_PACKETSIZE <? _); [discriminate|]); injection H as <-; (constructor; [|constructor]);
    (split; [|exact Hc]).
  - apply tok_bytes_none.
  - exact Hw.
  - destruct Hw as (_ & H2 & _). exact H2.
Qed.

Lemma tick_action_wire c e out : tick_action c e = Ok out -> wire_state (c_state c) -> Forall bytesP (e_rand e) ->
  wire_out out.
Proof.
  unfold tick_action. intros H Hw Hr. destruct (c_state c) as [| |t|o|] eqn:Est.
  - injection H as <-. apply mk_wire; [rewrite Est; exact I|exact Hr|constructor].
  - destruct (send_control Connecting (Connect None)) as [d| | |] eqn:E; cbn [bind] in H; try discriminate.
    injection H as <-. apply mk_wire; [exact I|exact Hr|]. eapply send_control_wire; [exact E|exact I|exact I].
  - destruct (send_control (Pending t) ConnectAccept) as [d| | |] eqn:E; cbn [bind] in H; try discriminate.
    injection H as <-. apply mk_wire; [exact Hw|exact Hr|]. eapply send_control_wire; [exact E|exact Hw|exact I].
  - destruct (can_send o).
    + destruct (online_flush params6 o) as [[o' d]| | |] eqn:E; cbn [bind] in H; try discriminate.
      injection H as <-. destruct (flush_wire _ _ _ _ E Hw) as [H1 H2]. apply mk_wire; assumption.
    + destruct (send_control (Online o) KeepAlive) as [d| | |] eqn:E; cbn [bind] in H; try discriminate.
      injection H as <-. apply mk_wire; [exact Hw|exact Hr|]. eapply send_control_wire; [exact E|exact Hw|exact I].
  - injection H as <-. apply mk_wire; [rewrite Est; exact I|exact Hr|constructor].
Qed.

Lemma do_resend_wire c e o c' ds : do_resend c e o = Ok (c', ds) -> wire_online o ->
  (exists o', c_state c' = Online o' /\ wire_online o') /\ Forall wire_dgram ds.
Proof.
  unfold do_resend. intros H Hw.
  destruct (online_resend params6 (e_now e) o) as [[[o' d] ts]| | |] eqn:E; cbn [bind] in H; try discriminate.
  injection H as <- <-. destruct (resend_wire _ _ _ _ _ _ E Hw) as [H1 H2].
  split; [exists o'; split; [reflexivity|exact H1]|exact H2].
Qed.

Lemma token_random_wire rnd : forall t r, token_random rnd = Ok (t, r) -> Forall bytesP rnd ->
  bytesP t /\ Forall bytesP r.
Proof.
  induction rnd as [|x rnd IH]; intros t r H Hr; cbn [token_random] in H; [discriminate|].
  inversion Hr as [|x0 r0 Hx Hrest]; subst.
  destruct (list_eq_dec Z.eq_dec x TOKEN_NONE); [apply IH; assumption|].
  destruct (list_eq_dec Z.eq_dec x TOKEN_RESERVED); [apply IH; assumption|].
  injection H as <- <-. split; assumption.
Qed.

Theorem feed_wire c e d out : feed c e d = Ok out ->
  wire_state (c_state c) -> Forall bytesP (e_rand e) -> wire_dgram d -> wire_out out.
Proof.
  intros H Hw Hr Hd. unfold feed in H.
  destruct d as [tk rs pl|tk ack ctl|tk ack rr n cs].
  - injection H as <-. apply mk_wire; [exact Hw|exact Hr|constructor].
  - cbn [dgram_tok dgram_ack] in H.
    destruct (match state_token (c_state c) with Some expected => negb (tok_eqb tk expected) | None => false end).
    { injection H as <-. apply mk_wire; [exact Hw|exact Hr|constructor]. }
    destruct ((ack <? 0) || (SEQ_MOD <=? ack)); [discriminate|].
    destruct Hd as [Htk Hctl].
    set (st1 := match c_state c with Online o => Online (ack_chunks o ack) | s => s end) in *.
    assert (Hw1 : wire_state st1).
    { unfold st1. destruct (c_state c); try exact Hw. cbn. apply ack_wire, Hw. }
    assert (Hsame1 : forall ws evs, wire_out (mk {| c_state := st1; c_send := c_send c |} e [] evs ws ROk)).
    { intros. apply mk_wire; [exact Hw1|exact Hr|constructor]. }
    destruct ctl as [|resp| | |reason|resp]; try (injection H as <-; apply Hsame1).
    + (* Connect *)
      destruct st1 as [| |t|o|] eqn:Est1; try (injection H as <-; apply Hsame1).
      destruct Htk as [t0 [-> Ht0]].
      destruct (list_eq_dec Z.eq_dec t0 TOKEN_NONE); [|injection H as <-; apply Hsame1].
      destruct (token_random (e_rand e)) as [[nt rnd']| | |] eqn:Etr; cbn [bind] in H; try discriminate.
      destruct (token_random_wire _ _ _ Etr Hr) as [Hnt Hrnd].
      apply tick_action_wire in H; [exact H| |exact Hrnd].
      cbn. exists nt. split; [reflexivity|exact Hnt].
    + (* ConnectAccept *)
      destruct st1 as [| |t|o|] eqn:Est1; try (injection H as <-; apply Hsame1).
      destruct (send_control (Online (online_new tk tk)) Accept) as [s| | |] eqn:Esc; cbn [bind] in H; try discriminate.
      injection H as <-. assert (Hon : wire_online (online_new tk tk)) by (apply online_new_wire, Htk).
      apply mk_wire; [exact Hon|exact Hr|]. eapply send_control_wire; [exact Esc|exact Hon|exact I].
    + (* Close *)
      injection H as <-. apply mk_wire; [exact I|exact Hr|constructor].
  - cbn [dgram_tok dgram_ack] in H.
    destruct (match state_token (c_state c) with Some expected => negb (tok_eqb tk expected) | None => false end).
    { injection H as <-. apply mk_wire; [exact Hw|exact Hr|constructor]. }
    destruct ((ack <? 0) || (SEQ_MOD <=? ack)); [discriminate|].
    set (st1 := match c_state c with Online o => Online (ack_chunks o ack) | s => s end) in *.
    assert (Hw1 : wire_state st1).
    { unfold st1. destruct (c_state c); try exact Hw. cbn. apply ack_wire, Hw. }
    set (st2 := match st1 with Pending t => Online (online_new t t) | s => s end) in *.
    assert (Hw2 : wire_state st2).
    { unfold st2. destruct st1; try exact Hw1. cbn. apply online_new_wire, Hw1. }
    destruct st2 as [| |t|o|] eqn:Est2; try (injection H as <-; apply mk_wire; [exact Hw2|exact Hr|constructor]).
    destruct rr.
    + destruct (do_resend {| c_state := Online o; c_send := c_send c |} e o) as [[c3 sent]| | |] eqn:Edr;
        cbn [bind] in H; try discriminate.
      destruct (do_resend_wire _ _ _ _ _ Edr Hw2) as [[o3 [Eo3 Hw3]] Hsent].
      rewrite Eo3 in H.
      destruct (recv_chunks (o_ack o3) (o_rr o3) cs) as [[[ack' rr'] evs]| | |]; cbn [bind] in H; try discriminate.
      injection H as <-. apply mk_wire; [exact Hw3|exact Hr|exact Hsent].
    + cbn [bind c_state] in H.
      destruct (recv_chunks (o_ack o) (o_rr o) cs) as [[[ack' rr'] evs]| | |]; cbn [bind] in H; try discriminate.
      injection H as <-. apply mk_wire; [exact Hw2|exact Hr|constructor].
Qed.

Theorem step_wire c e o out : step c e o = Ok out ->
  wire_state (c_state c) -> Forall bytesP (e_rand e) -> wire_op o -> wire_out out.
Proof.
  intros H Hw Hr Ho. destruct o as [|data vital| | |reason|data|d| |]; unfold step in H.
  - destruct (c_state c); try discriminate.
    apply tick_action_wire in H; [exact H|exact I|exact Hr].
  - destruct (c_state c) as [| |t|on|]; try discriminate.
    destruct (online_send params6 (e_now e) on data vital) as [[[o' d] r]| | |] eqn:E; cbn [bind] in H; try discriminate.
    injection H as <-. destruct (send_wire _ _ _ _ _ _ _ _ E Hw Ho) as [H1 H2]. apply mk_wire; assumption.
  - destruct (c_state c) as [| |t|on|]; try discriminate.
    destruct (online_flush params6 on) as [[o' d]| | |] eqn:E; cbn [bind] in H; try discriminate.
    injection H as <-. destruct (flush_wire _ _ _ _ E Hw) as [H1 H2]. apply mk_wire; assumption.
  - destruct (match c_state c with
              | Online o => match queue_back (o_queue o) with Some rc => triggered (rc_next rc) (e_now e) | None => false end
              | _ => false end).
    + destruct (c_state c) as [| |t|on|] eqn:Est;
        try (injection H as <-; apply mk_wire; [rewrite Est; exact Hw|exact Hr|constructor]).
      destruct (do_resend c e on) as [[c' d]| | |] eqn:Edr; cbn [bind] in H; try discriminate.
      destruct (do_resend_wire _ _ _ _ _ Edr Hw) as [[o3 [Eo3 Hw3]] Hsent].
      injection H as <-. apply mk_wire; [rewrite Eo3; exact Hw3|exact Hr|exact Hsent].
    + destruct (triggered (c_send c) (e_now e)).
      * apply tick_action_wire in H; [exact H|exact Hw|exact Hr].
      * injection H as <-. apply mk_wire; [exact Hw|exact Hr|constructor].
  - destruct (c_state c) as [| |t|on|] eqn:Est; try discriminate.
    all: destruct (existsb (fun b => b =? 0) reason); try discriminate.
    all: match type of H with context [send_control ?st ?cc] =>
           destruct (send_control st cc) as [d| | |] eqn:E; cbn [bind] in H; try discriminate end.
    all: injection H as <-; apply mk_wire; [exact I|exact Hr|].
    all: eapply send_control_wire; [exact E| |exact Ho]; try exact I; exact Hw.
  - destruct (c_state c) as [| |t|on|] eqn:Est; try discriminate.
    destruct (MAX_PAYLOAD <? _); injection H as <-; (apply mk_wire; [exact Hw|exact Hr|]).
    + constructor.
    + constructor; [exact Ho|constructor].
  - eapply feed_wire; eassumption.
  - injection H as <-. apply mk_wire; [exact Hw|exact Hr|constructor].
  - destruct (c_state c); try discriminate. injection H as <-. apply mk_wire; [exact I|exact Hr|constructor].
Qed.

(* the decidable shadow of wire_dgram used by Proofs/ConnBytes6.v *)
Lemma forallb_chunk_bytes cs : Forall chunk_bytes cs -> forallb (fun c => bytes_ok (ch_data c)) cs = true.
Proof. intros H. apply forallb_forall. rewrite Forall_forall in H. exact H. Qed.

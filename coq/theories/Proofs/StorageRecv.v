(* C13, the transfer layer: a DeltaReceiver that is only ever fed messages of genuine transfers
   (the messages delta_chunks made for ticks the sender really sent, one transfer per tick), in any
   order, with any loss and duplication, of older and newer ticks interleaved, hands out for a tick
   nothing but that tick's transfer - data, base tick and checksum.  Built from the per-transfer
   lemmas behind C12_exactly_once (multi_first / multi_inprog / step_wf). *)
From LibTw2 Require Import Base.Res Model.Receiver Proofs.ReceiverBase Proofs.ReceiverChunks
  Proofs.ReceiverSteps Proofs.ReceiverXfer Proofs.ReceiverProofs.
From Coq Require Import ZArith Lia Bool List ZifyBool ZifyNat.
Import ListNotations.
Open Scope Z_scope.

Record xfer := { x_tick : Z; x_base : Z; x_crc : Z; x_data : bytes }.
Definition x_dt (x : xfer) : Z := wrap32 (x_tick x - x_base x).
Definition x_msgs (x : xfer) : list snapmsg := xfer_msgs (x_tick x) (x_dt x) (x_crc x) (x_data x).
Definition x_rd (x : xfer) : received := delivered (x_tick x) (x_base x) (x_data x) (x_crc x).

Local Opaque PACK.

Section Recv.
  Variable G : xfer -> Prop.

  (* no call can panic, and a transfer in progress is a genuine one of which exactly the parts of `pre` are held *)
  Definition rinv (s : receiver) : Prop :=
    wf s = true /\
    forall c, r_cur s = Some c ->
      exists x pre, G x /\ x_tick x = c_tick c /\ (2 <= nparts (x_data x) <= 32)%nat
        /\ inprog (x_tick x) (x_dt x) (x_crc x) (chunks_of (x_data x)) pre s
        /\ covers (nparts (x_data x)) pre = false.

  Hypothesis Guniq : forall x y, G x -> G y -> x_tick x = x_tick y -> x = y.

  Lemma rinv_new : rinv new_receiver.
  Proof. split; [reflexivity|]. intros c H. discriminate. Qed.

  Lemma rinv_idle s : wf s = true -> r_cur s = None -> rinv s.
  Proof. intros Hwf Hc. split; [exact Hwf|]. intros c H. congruence. Qed.

  Lemma phase_rinv x pre s : G x -> (2 <= nparts (x_data x) <= 32)%nat -> wf s = true -> any_part pre = true ->
    phase (x_tick x) (length (chunks_of (x_data x))) (inprog (x_tick x) (x_dt x) (x_crc x) (chunks_of (x_data x))) pre s ->
    rinv s.
  Proof.
    intros HG Hn Hwf Hany Hph. unfold phase in Hph. rewrite chunks_of_length in Hph.
    destruct (covers (nparts (x_data x)) pre) eqn:Hcov.
    - destruct Hph as [Hc _]. apply rinv_idle; assumption.
    - rewrite Hany in Hph. split; [exact Hwf|]. intros c Hc. exists x, pre.
      split; [exact HG|]. split.
      + destruct Hph as [Hcur _]. rewrite Hcur in Hc. injection Hc as <-. reflexivity.
      + split; [exact Hn|]. split; [exact Hph|exact Hcov].
  Qed.

  Lemma multi_rd x : is_i32 (x_base x) = true -> (2 <= nparts (x_data x))%nat ->
    {| rd_delta_tick := wrap32 (x_tick x - x_dt x); rd_tick := x_tick x;
       rd_data_and_crc := Some (concat (chunks_of (x_data x)), x_crc x) |} = x_rd x.
  Proof.
    intros Hb Hn. unfold x_rd, delivered, x_dt. rewrite wrap32_sub_sub by exact Hb. rewrite chunks_of_concat.
    destruct (x_data x) as [|b l] eqn:E; [|reflexivity].
    exfalso. assert (nparts [] = 0%nat) by (apply nparts_zero; reflexivity). lia.
  Qed.

  Lemma expect_err n rd pre i e : fst (expect n rd pre i) = Err e -> e = OldDelta \/ e = DuplicatePart.
  Proof.
    unfold expect. destruct (covers n pre); [intros [= <-]; left; reflexivity|].
    destruct (seen pre i); [intros [= <-]; right; reflexivity|].
    destruct (covers n (pre ++ [Part i])); cbn [fst]; discriminate.
  Qed.

  Lemma expect_rd n rd pre i rd' : fst (expect n rd pre i) = Ok (Some rd') -> rd' = rd.
  Proof.
    unfold expect. destruct (covers n pre); [discriminate|]. destruct (seen pre i); [discriminate|].
    destruct (covers n (pre ++ [Part i])); cbn [fst]; [|discriminate]. intros [= <-]. reflexivity.
  Qed.

  Lemma cannot_receive s m : can_receive s (msg_tick m) = false -> recv_step s m = (s, (Err OldDelta, [])).
  Proof.
    intros Hc. destruct m as [tick dt np part crc d|tick dt crc d|tick dt]; cbn [recv_step msg_tick] in *.
    - rewrite snap_refused, Hc. reflexivity.
    - unfold snap_single. rewrite Hc. reflexivity.
    - unfold snap_empty. rewrite Hc. reflexivity.
  Qed.

  Lemma can_receive_before s T : can_receive s T = true -> cur_has_tick s T = false -> before s T = true.
  Proof.
    unfold can_receive, cur_has_tick, before. destruct (r_cur s) as [c|]; [lia|].
    destruct (r_prev s); [lia|reflexivity].
  Qed.

  Lemma chunks_small data : Forall (fun c : bytes => lenZ c <= max_data) (chunks_of data).
  Proof.
    pose proof (chunks_of_small data) as Hs. rewrite Forall_forall in *. intros c Hc.
    specialize (Hs c Hc). rewrite lenZ_spec. unfold max_data.
    assert (Z.of_nat PACK = 900) by reflexivity. lia.
  Qed.

  Theorem recv_genuine s x m :
    rinv s -> G x -> is_i32 (x_base x) = true -> Z.of_nat (length (x_data x)) <= 65536 -> In m (x_msgs x) ->
    rinv (fst (recv_step s m))
    /\ is_panic (fst (snd (recv_step s m))) = false
    /\ (forall rd, fst (snd (recv_step s m)) = Ok (Some rd) -> rd = x_rd x)
    /\ (forall e, fst (snd (recv_step s m)) = Err e ->
          e = OldDelta \/ e = DuplicatePart \/ (e = InvalidNumParts /\ (32 < nparts (x_data x))%nat)).
  Proof.
    intros Hinv HG Hb Hlen Hin. pose proof Hinv as [Hwf Hcur].
    assert (Htick : msg_tick m = x_tick x).
    { unfold x_msgs, xfer_msgs in Hin. destruct (nparts (x_data x)) as [|[|k]].
      - destruct Hin as [<-|[]]. reflexivity.
      - destruct Hin as [<-|[]]. reflexivity.
      - unfold multi_msgs in Hin. apply in_map_iff in Hin. destruct Hin as [i [<- _]]. reflexivity. }
    destruct (can_receive s (msg_tick m)) eqn:Hc.
    2:{ rewrite (cannot_receive s m Hc). cbn [fst snd]. split; [exact Hinv|]. split; [reflexivity|].
        split; [intros rd H; discriminate|]. intros e [= <-]. left. reflexivity. }
    rewrite Htick in Hc.
    assert (Hsmall : msg_small m = true).
    { unfold msg_small. apply Z.leb_le. unfold x_msgs, xfer_msgs in Hin.
      destruct (nparts (x_data x)) as [|[|k]] eqn:E.
      - destruct Hin as [<-|[]]. cbn [msg_data]. rewrite lenZ_nil. unfold max_data. lia.
      - destruct Hin as [<-|[]]. cbn [msg_data]. rewrite lenZ_spec. unfold max_data. lia.
      - unfold multi_msgs in Hin. apply in_map_iff in Hin. destruct Hin as [i [<- Hi]].
        unfold part_msg. cbn [msg_data]. rewrite lenZ_spec.
        apply in_seq in Hi. rewrite chunks_of_length in Hi.
        rewrite chunks_of_nth by lia. pose proof (chunk_p_length PACK (x_data x) i).
        assert (Z.of_nat PACK = 900) by reflexivity. unfold max_data. lia. }
    destruct (step_wf s m Hwf Hsmall) as [Hwf' [Hnp _]].
    unfold x_msgs, xfer_msgs in Hin.
    destruct (nparts (x_data x)) as [|[|k]] eqn:E.
    - (* SnapEmpty *)
      destruct Hin as [<-|[]]. apply nparts_zero in E.
      cbn [recv_step] in *. unfold snap_empty in *. rewrite Hc in *. cbn [negb fst snd] in *.
      split; [apply rinv_idle; [exact Hwf'|reflexivity]|]. split; [reflexivity|].
      split; [|intros e H; discriminate].
      intros rd [= <-]. unfold x_rd, delivered, x_dt. rewrite E. rewrite wrap32_sub_sub by exact Hb. reflexivity.
    - (* SnapSingle *)
      destruct Hin as [<-|[]].
      assert (Hne : x_data x <> []) by (intros H0; apply nparts_zero in H0; lia).
      cbn [recv_step] in *. unfold snap_single in *. rewrite Hc in *. cbn [negb fst snd] in *.
      split; [apply rinv_idle; [exact Hwf'|reflexivity]|]. split; [reflexivity|].
      split; [|intros e H; discriminate].
      intros rd [= <-]. unfold x_rd, delivered, x_dt. rewrite wrap32_sub_sub by exact Hb.
      cbn [set_result finish_delta init_delta r_result app].
      destruct (x_data x); [contradiction|reflexivity].
    - (* a part of a multi-part transfer *)
      unfold multi_msgs in Hin. apply in_map_iff in Hin. destruct Hin as [i [<- Hi]].
      apply in_seq in Hi. rewrite chunks_of_length in Hi.
      set (n := S (S k)) in *.
      destruct (Nat.le_gt_cases n 32) as [Hn32|Hbig].
      2:{ (* more than 32 parts: every message is refused, the state stays *)
        unfold part_msg in *. cbn [recv_step] in *. rewrite chunks_of_length, E in *.
        rewrite snap_refused in *. rewrite Hc in *. cbn [negb] in *.
        replace ((0 <=? Z.of_nat n) && (Z.of_nat n <=? 32)) with false in * by lia. cbn [negb fst snd] in *.
        split; [exact Hinv|]. split; [reflexivity|]. split; [intros rd H; discriminate|].
        intros e [= <-]. right. right. split; [reflexivity|lia]. }
      assert (Hn : (2 <= nparts (x_data x) <= 32)%nat) by (rewrite E; unfold n; lia).
      assert (Hl1 : (1 <= length (chunks_of (x_data x)))%nat) by (rewrite chunks_of_length; lia).
      assert (Hl32 : (length (chunks_of (x_data x)) <= 32)%nat) by (rewrite chunks_of_length; lia).
      assert (Hil : (i < length (chunks_of (x_data x)))%nat) by (rewrite chunks_of_length, E; lia).
      assert (Hstep : exists pre,
                 snd (recv_step s (part_msg (x_tick x) (x_dt x) (x_crc x) (chunks_of (x_data x)) i))
                 = expect (length (chunks_of (x_data x)))
                     {| rd_delta_tick := wrap32 (x_tick x - x_dt x); rd_tick := x_tick x;
                        rd_data_and_crc := Some (concat (chunks_of (x_data x)), x_crc x) |} pre i
                 /\ phase (x_tick x) (length (chunks_of (x_data x)))
                      (inprog (x_tick x) (x_dt x) (x_crc x) (chunks_of (x_data x))) (pre ++ [Part i])
                      (fst (recv_step s (part_msg (x_tick x) (x_dt x) (x_crc x) (chunks_of (x_data x)) i)))).
      { destruct (cur_has_tick s (x_tick x)) eqn:Hct.
        - (* the transfer is in progress *)
          unfold cur_has_tick in Hct. destruct (r_cur s) as [c|] eqn:Ec; [|discriminate].
          destruct (Hcur c eq_refl) as (x' & pre & HG' & Ht' & Hn' & Hip & Hcov).
          assert (x' = x) by (apply Guniq; [exact HG'|exact HG|lia]). subst x'.
          exists pre. apply multi_inprog; try assumption; [apply chunks_small|rewrite chunks_of_length; exact Hcov].
        - exists []. apply multi_first; try assumption; [apply chunks_small|reflexivity|].
          apply can_receive_before; assumption. }
      destruct Hstep as (pre & Ho & Hph).
      split.
      + apply (phase_rinv x (pre ++ [Part i])); try assumption.
        rewrite any_part_app. cbn [any_part existsb]. apply orb_true_r.
      + split; [exact Hnp|]. split.
        * intros rd Hrd. rewrite Ho in Hrd. apply expect_rd in Hrd. subst rd.
          apply multi_rd; [exact Hb|lia].
        * intros e He. rewrite Ho in He. apply expect_err in He. tauto.
  Qed.
End Recv.

Lemma rinv_mono (G G' : xfer -> Prop) s : (forall x, G x -> G' x) -> rinv G s -> rinv G' s.
Proof.
  intros HGG [Hwf Hcur]. split; [exact Hwf|]. intros c Hc.
  destruct (Hcur c Hc) as (x & pre & HG & H). exists x, pre. split; [apply HGG, HG|exact H].
Qed.

(* the receiver has no loops: no call runs out of fuel *)
Lemma recv_no_fuel s m : fst (snd (recv_step s m)) <> OutOfFuel.
Proof.
  destruct m as [tick dt np part crc d|tick dt crc d|tick dt]; cbn [recv_step].
  - rewrite snap_refused.
    destruct (negb (can_receive s tick)); [cbn; discriminate|].
    destruct (negb _); [cbn; discriminate|]. destruct (negb _); [cbn; discriminate|].
    unfold snap_store.
    repeat match goal with
    | |- context [if ?c then _ else _] => destruct c; cbn [fst snd]; try discriminate
    | |- context [match pm_insert ?a ?b ?c with _ => _ end] => destruct (pm_insert a b c) as [? [?|]]; cbn [fst snd]; try discriminate
    | |- context [match gather ?a ?b ?c with _ => _ end] => destruct (gather a b c); cbn [fst snd]; try discriminate
    end.
  - unfold snap_single. destruct (negb _); cbn; discriminate.
  - unfold snap_empty. destruct (negb _); cbn; discriminate.
Qed.

(* the newest tick the receiver has seen only moves to the tick of the message *)
Lemma newest_seen_step s m :
  newest_seen (fst (recv_step s m)) = newest_seen s \/ newest_seen (fst (recv_step s m)) = Some (msg_tick m).
Proof.
  destruct (can_receive s (msg_tick m)) eqn:Hc.
  2:{ left. destruct m as [tick dt np part crc d|tick dt crc d|tick dt]; cbn [recv_step msg_tick] in *.
      - rewrite snap_refused, Hc. reflexivity.
      - unfold snap_single. rewrite Hc. reflexivity.
      - unfold snap_empty. rewrite Hc. reflexivity. }
  destruct (msg_wellformed m) eqn:Hw; [right; apply accepted_newest; assumption|left].
  destruct m as [tick dt np part crc d|tick dt crc d|tick dt]; cbn [msg_wellformed] in Hw; try discriminate.
  cbn [recv_step msg_tick] in *. rewrite snap_refused, Hc. cbn [negb].
  destruct ((0 <=? np) && (np <=? 32)) eqn:E1; cbn [negb]; [|reflexivity].
  destruct ((0 <=? part) && (part <? np)) eqn:E2; cbn [negb]; [|reflexivity].
  exfalso. lia.
Qed.

(* Delta::create_raw and RawSnap::read_with_delta in terms of the stored items;
   applying the created delta reproduces the target (C09). *)
From LibTw2 Require Import Base.Res Model.Varint Model.Snap Proofs.SnapBase Proofs.SnapRep.
From Coq Require Import ZArith List Lia Bool Permutation.
Import ListNotations.
Open Scope Z_scope.

(* ---------- more on sorted lists ---------- *)
Lemma sortedb_app_inv a : forall b, sortedb (a ++ b) = true ->
  sortedb a = true /\ sortedb b = true /\ (forall x y, In x a -> In y b -> x < y).
Proof.
  induction a as [|x a IH]; intros b H; [split; [reflexivity|split; [exact H|intros ? ? []]]|].
  cbn [app] in H. apply sortedb_cons in H. destruct H as [Hx Hs]. destruct (IH _ Hs) as (Ha & Hb & Hab).
  split; [|split; [exact Hb|]].
  - apply sortedb_cons. split; [|exact Ha]. intros y Hy. apply Hx, in_or_app. left. exact Hy.
  - intros u v [<-|Hu] Hv; [apply Hx, in_or_app; right; exact Hv|apply Hab; assumption].
Qed.

Lemma sortedb_app_shift a k b : sortedb (a ++ k :: b) = true -> sortedb ((a ++ [k]) ++ b) = true.
Proof. rewrite <- app_assoc. exact (fun H => H). Qed.

(* ---------- limits ---------- *)
Definition lim_ok (ch : items) : Prop :=
  Z.of_nat (length ch) <= MAX_SNAPSHOT_ITEMS
  /\ ser_size (Z.of_nat (length ch)) (Z.of_nat (length (flat ch))) <= MAX_SNAPSHOT_SIZE.

Lemma rep_lengths S ch : rep S ch ->
  length (rs_offs S) = length ch /\ length (rs_buf S) = length (flat ch).
Proof.
  intros H. split; [|rewrite (rep_buf _ _ H); reflexivity].
  rewrite (Permutation_length (rep_offs _ _ H)). apply ranges_of_length.
Qed.

Lemma lim_ok_prefix a b : lim_ok (a ++ b) -> lim_ok a.
Proof.
  unfold lim_ok, ser_size. rewrite flat_app, !app_length. intros [H1 H2]. split; lia.
Qed.

Lemma fits_of_lim S ch k data : rep S ch -> lim_ok (ch ++ [(k, data)]) -> fits S (length data) = true.
Proof.
  intros H [H1 H2]. destruct (rep_lengths _ _ H) as [L1 L2].
  unfold fits. rewrite L1, L2. rewrite flat_app, !app_length in *. cbn [length flat flat_map snd] in *.
  rewrite app_nil_r in H2. unfold ser_size in *.
  apply andb_true_iff. split; apply negb_true_iff, Z.ltb_ge; lia.
Qed.

(* ---------- removing a key (for the weight argument) ---------- *)
Fixpoint arem (k : Z) (ch : items) : items :=
  match ch with
  | [] => []
  | (k', d) :: t => if k =? k' then t else (k', d) :: arem k t
  end.

Lemma arem_other k k0 ch : k <> k0 -> aget k (arem k0 ch) = aget k ch.
Proof.
  intros Hne. induction ch as [|[k' d] t IH]; [reflexivity|]. cbn [arem aget].
  destruct (Z.eqb_spec k0 k').
  - subst. destruct (Z.eqb_spec k k'); [contradiction|reflexivity].
  - cbn [aget]. destruct (Z.eqb_spec k k'); [reflexivity|exact IH].
Qed.

Lemma arem_sizes k d ch : aget k ch = Some d ->
  length ch = Datatypes.S (length (arem k ch))
  /\ length (flat ch) = (length d + length (flat (arem k ch)))%nat.
Proof.
  induction ch as [|[k' d'] t IH]; [discriminate|]. cbn [aget arem].
  destruct (Z.eqb_spec k k').
  - intros [= ->]. cbn [length flat flat_map snd]. rewrite app_length. fold (flat t). split; reflexivity.
  - intros H. destruct (IH H) as [I1 I2]. cbn [length flat flat_map snd].
    rewrite !app_length. fold (flat t) (flat (arem k t)). split; lia.
Qed.

(* a duplicate-free collection of items that all occur in chB with the same length weighs no more *)
Lemma weight_le ch : forall chB, NoDup (map fst ch) ->
  (forall k d, In (k, d) ch -> exists dB, aget k chB = Some dB /\ length d = length dB) ->
  (length ch <= length chB)%nat /\ (length (flat ch) <= length (flat chB))%nat.
Proof.
  induction ch as [|[k d] t IH]; intros chB Hnd Hall; [cbn; split; lia|].
  inversion Hnd as [|? ? Hni Hnd']; subst.
  destruct (Hall k d (or_introl eq_refl)) as (dB & HB & Hl).
  destruct (arem_sizes _ _ _ HB) as [S1 S2].
  destruct (IH (arem k chB) Hnd') as [I1 I2].
  { intros k' d' Hin. destruct (Hall k' d' (or_intror Hin)) as (dB' & HB' & Hl').
    exists dB'. split; [|exact Hl']. rewrite arem_other; [exact HB'|].
    intros ->. apply Hni. apply (in_map fst) in Hin. exact Hin. }
  cbn [length flat flat_map snd]. rewrite app_length. fold (flat t). split; lia.
Qed.

(* ---------- item data are i32 ---------- *)
Lemma flat_i32 ch k d : forallb is_i32 (flat ch) = true -> aget k ch = Some d -> forallb is_i32 d = true.
Proof.
  intros H Hg. apply aget_in in Hg. apply forallb_forall. intros x Hx.
  rewrite forallb_forall in H. apply H. unfold flat. apply in_flat_map. exists (k, d). split; assumption.
Qed.

(* ---------- K09 ---------- *)
Definition same_len (chA chB : items) : Prop :=
  forall k f d, aget k chA = Some f -> aget k chB = Some d -> length f = length d.

Lemma existsb_false {T} (f : T -> bool) l x : existsb f l = false -> In x l -> f x = false.
Proof.
  intros H Hin. destruct (f x) eqn:E; [|reflexivity].
  assert (existsb f l = true) by (apply existsb_exists; eauto). congruence.
Qed.

Lemma k09_false A B chA chB : rep A chA -> rep B chB -> k09 A B = false -> same_len chA chB.
Proof.
  intros HA HB Hk k f d Hf Hd.
  destruct (rep_get_some _ _ _ _ HA Hf) as (r & Hr & Hlr & _).
  destruct (rep_get_some _ _ _ _ HB Hd) as (r' & Hr' & Hlr' & _).
  unfold k09 in Hk. assert (Hin : In (k, r) (rs_offs A)) by (apply aget_in, Hr).
  pose proof (existsb_false _ _ _ Hk Hin) as Hf'.
  cbn [fst snd] in Hf'. rewrite Hr' in Hf'. apply negb_false_iff, Nat.eqb_eq in Hf'. lia.
Qed.

Lemma k09_true A B chA chB : rep A chA -> rep B chB -> k09 A B = true ->
  exists k f d, aget k chA = Some f /\ aget k chB = Some d /\ length f <> length d.
Proof.
  intros HA HB Hk. unfold k09 in Hk. apply existsb_exists in Hk. destruct Hk as ([k r] & Hin & Hc).
  cbn [fst snd] in Hc. destruct (aget k (rs_offs B)) as [r'|] eqn:Hr'; [|discriminate].
  apply negb_true_iff, Nat.eqb_neq in Hc.
  assert (Hr : aget k (rs_offs A) = Some r) by (apply in_aget; [apply rep_nodup_offs with chA, HA|exact Hin]).
  destruct (rep_get _ _ _ _ HA Hr) as (pre & f & post & _ & Hf & -> & _).
  destruct (rep_get _ _ _ _ HB Hr') as (pre' & d & post' & _ & Hd & -> & _).
  exists k, f, d. split; [exact Hf|split; [exact Hd|]]. unfold range_len in Hc. cbn in Hc. lia.
Qed.

(* ---------- Delta::create_raw ---------- *)
Definition absent (ch : items) (k : Z) : bool := match aget k ch with None => true | Some _ => false end.
Definition diff_of (chA : items) (kd : Z * list Z) : list Z :=
  match aget (fst kd) chA with Some f => zip_with wsub (snd kd) f | None => snd kd end.
Definition diffs (chA : items) (vB : items) : items := map (fun kd => (fst kd, diff_of chA kd)) vB.

Lemma create_deleted_spec B chB : rep B chB -> forall fi del,
  (forall kd, In kd fi -> is_i32 (fst kd) = true) ->
  sortedb (del ++ map fst fi) = true ->
  create_deleted B fi del = Ok (del ++ filter (absent chB) (map fst fi)).
Proof.
  intros HB. induction fi as [|[k dd] fi IH]; intros del Hi Hs; [cbn; rewrite app_nil_r; reflexivity|].
  cbn [create_deleted map fst filter]. rewrite (raw_item_rep B chB) by exact HB. cbn [bind].
  rewrite key_split by (apply (Hi (k, dd)); left; reflexivity).
  unfold absent at 1. destruct (aget k chB) eqn:Hg.
  - apply IH; [intros kd Hin; apply Hi; right; exact Hin|].
    cbn [map fst] in Hs. destruct (sortedb_app_inv _ _ Hs) as (Hd & Hk & Hdk).
    apply sortedb_tail in Hk. clear - Hd Hk Hdk Hs.
    rewrite <- (app_nil_l (map fst fi)) in Hk.
    assert (G : forall a b, sortedb a = true -> sortedb b = true -> (forall x y, In x a -> In y b -> x < y) -> sortedb (a ++ b) = true).
    { induction a as [|x a IHa]; intros b Ha Hb Hab; [exact Hb|]. cbn [app]. apply sortedb_cons.
      apply sortedb_cons in Ha. destruct Ha as [Hx Ha]. split.
      - intros y Hy. apply in_app_or in Hy. destruct Hy as [Hy|Hy]; [apply Hx, Hy|apply Hab; [left; reflexivity|exact Hy]].
      - apply IHa; [exact Ha|exact Hb|]. intros u v Hu Hv. apply Hab; [right; exact Hu|exact Hv]. }
    apply G; [exact Hd|exact Hk|]. intros x y Hx Hy. apply Hdk; [exact Hx|right; exact Hy].
  - cbn [map fst] in Hs. destruct (sortedb_app_inv _ _ Hs) as (Hd & Hk & Hdk).
    assert (Hlt : forall x, In x del -> x < k) by (intros x Hx; apply Hdk; [exact Hx|left; reflexivity]).
    assert (Hm : smem k del = false).
    { destruct (smem k del) eqn:E; [|reflexivity]. apply smem_in in E. specialize (Hlt _ E). lia. }
    rewrite Hm, sins_last by exact Hlt. rewrite IH.
    + rewrite <- app_assoc. reflexivity.
    + intros kd Hin. apply Hi. right. exact Hin.
    + apply sortedb_app_shift, Hs.
Qed.

Lemma diff_len chA k d : (forall f, aget k chA = Some f -> length f = length d) ->
  length (diff_of chA (k, d)) = length d.
Proof.
  intros H. unfold diff_of. cbn [fst snd]. destruct (aget k chA) as [f|] eqn:E; [|reflexivity].
  rewrite zip_with_length; [reflexivity|]. symmetry. apply H. reflexivity.
Qed.

Lemma create_updated_spec A chA : rep A chA -> forall ti dch0 del,
  (forall kd, In kd ti -> is_i32 (fst kd) = true) ->
  sortedb (map fst dch0 ++ map fst ti) = true ->
  (forall k d f, In (k, d) ti -> aget k chA = Some f -> length f = length d) ->
  create_updated A ti {| d_del := del; d_upd := ranges_of 0 dch0; d_buf := flat dch0 |}
  = Ok {| d_del := del; d_upd := ranges_of 0 (dch0 ++ diffs chA ti); d_buf := flat (dch0 ++ diffs chA ti) |}.
Proof.
  intros HA. induction ti as [|[k d] ti IH]; intros dch0 del Hi Hs Hl.
  - cbn [create_updated diffs map]. rewrite app_nil_r. reflexivity.
  - cbn [create_updated d_buf d_upd d_del]. rewrite (raw_item_rep A chA) by exact HA. cbn [bind].
    rewrite key_split by (apply (Hi (k, d)); left; reflexivity).
    cbn [map fst] in Hs. destruct (sortedb_app_inv _ _ Hs) as (_ & _ & Hlt).
    assert (Hn : aget k (ranges_of 0 dch0) = None).
    { apply aget_none. rewrite ranges_of_keys. intros Hin. specialize (Hlt k k Hin (or_introl eq_refl)). lia. }
    rewrite Hn. unfold create_item_delta.
    assert (Hlen : forall f, aget k chA = Some f -> length f = length d)
      by (intros f Hf; apply (Hl k d f); [left; reflexivity|exact Hf]).
    assert (Hstep : forall out, out = diff_of chA (k, d) ->
      create_updated A ti {| d_del := del;
          d_upd := ains k (length (flat dch0), (length (flat dch0) + length d)%nat) (ranges_of 0 dch0);
          d_buf := flat dch0 ++ out |}
      = Ok {| d_del := del; d_upd := ranges_of 0 (dch0 ++ diffs chA ((k, d) :: ti));
              d_buf := flat (dch0 ++ diffs chA ((k, d) :: ti)) |}).
    { intros out ->.
      match goal with |- create_updated A ti ?X = _ =>
        replace X with {| d_del := del; d_upd := ranges_of 0 (dch0 ++ [(k, diff_of chA (k, d))]);
                          d_buf := flat (dch0 ++ [(k, diff_of chA (k, d))]) |} end.
      2:{ f_equal.
          - rewrite ains_last.
            2:{ intros x Hx. rewrite ranges_of_keys in Hx. apply Hlt; [exact Hx|left; reflexivity]. }
            rewrite ranges_of_app. cbn [ranges_of Nat.add]. rewrite diff_len by exact Hlen. reflexivity.
          - rewrite flat_app. cbn. rewrite app_nil_r. reflexivity. }
      rewrite IH.
      - cbn [diffs map fst]. rewrite <- !app_assoc. reflexivity.
      - intros kd Hin. apply Hi. right. exact Hin.
      - rewrite map_app. cbn [map fst]. apply sortedb_app_shift, Hs.
      - intros k' d' f Hin. apply Hl. right. exact Hin. }
    destruct (aget k chA) as [f|] eqn:Hf.
    + rewrite (Hlen f eq_refl), Nat.eqb_refl. cbn [negb]. apply Hstep.
      unfold diff_of. cbn [fst snd]. rewrite Hf. reflexivity.
    + apply Hstep. unfold diff_of. cbn [fst snd]. rewrite Hf. reflexivity.
Qed.

Definition keys_i32 (S : rawsnap) : Prop := forallb is_i32 (map fst (rs_offs S)) = true.

Lemma view_i32 S ch : keys_i32 S -> forall kd, In kd (view S ch) -> is_i32 (fst kd) = true.
Proof.
  intros H kd Hin. unfold keys_i32 in H. rewrite forallb_forall in H. apply H.
  rewrite <- (view_keys S ch). apply in_map, Hin.
Qed.

Definition created (A B : rawsnap) (chA chB : items) : delta :=
  {| d_del := filter (absent chB) (map fst (rs_offs A));
     d_upd := ranges_of 0 (diffs chA (view B chB));
     d_buf := flat (diffs chA (view B chB)) |}.

Lemma in_view S ch k d : rep S ch -> In (k, d) (view S ch) -> aget k ch = Some d.
Proof.
  intros H Hin. rewrite <- (aget_view S ch k H). apply in_aget; [|exact Hin].
  rewrite view_keys. apply rep_nodup_offs with ch, H.
Qed.

Theorem create_raw_spec A B chA chB : rep A chA -> rep B chB -> keys_i32 A -> keys_i32 B ->
  same_len chA chB -> create_raw A B = Ok (created A B chA chB).
Proof.
  intros HA HB IA IB Hsl. unfold create_raw.
  rewrite (raw_items_rep A chA HA). cbn [bind].
  rewrite (create_deleted_spec B chB HB); cbn [app].
  2:{ apply view_i32, IA. }
  2:{ rewrite view_keys. apply (rep_sorted _ _ HA). }
  cbn [bind]. rewrite (raw_items_rep B chB HB). cbn [bind].
  rewrite view_keys.
  apply (create_updated_spec A chA HA (view B chB) [] _).
  - apply view_i32, IB.
  - cbn [map app]. rewrite view_keys. apply (rep_sorted _ _ HB).
  - intros k d f Hin Hf. apply (Hsl k f d Hf). apply (in_view B chB k d HB Hin).
Qed.

(* K09: the panic *)
Lemma create_updated_panics A chA : rep A chA -> forall ti d0,
  (forall kd, In kd ti -> is_i32 (fst kd) = true) ->
  (exists k d f, In (k, d) ti /\ aget k chA = Some f /\ length f <> length d) ->
  exists s, create_updated A ti d0 = Panic s.
Proof.
  intros HA. induction ti as [|[k d] ti IH]; intros d0 Hi (k0 & dd & f & Hin & Hf & Hne); [destruct Hin|].
  cbn [create_updated]. rewrite (raw_item_rep A chA) by exact HA. cbn [bind].
  rewrite key_split by (apply (Hi (k, d)); left; reflexivity).
  destruct (aget k (d_upd d0)); [eexists; reflexivity|].
  destruct Hin as [E|Hin].
  - injection E as -> ->. rewrite Hf. unfold create_item_delta.
    replace (length f =? length dd)%nat with false by (symmetry; apply Nat.eqb_neq; exact Hne).
    cbn [negb]. eexists; reflexivity.
  - destruct (create_item_delta (aget k chA) d); try (eexists; reflexivity).
    apply IH; [intros kd H; apply Hi; right; exact H|]. exists k0, dd, f. repeat split; assumption.
Qed.

Theorem create_raw_k09 A B chA chB : rep A chA -> rep B chB -> keys_i32 A -> keys_i32 B ->
  k09 A B = true -> exists s, create_raw A B = Panic s.
Proof.
  intros HA HB IA IB Hk. unfold create_raw.
  rewrite (raw_items_rep A chA HA). cbn [bind].
  rewrite (create_deleted_spec B chB HB); cbn [app].
  2:{ apply view_i32, IA. }
  2:{ rewrite view_keys. apply (rep_sorted _ _ HA). }
  cbn [bind]. rewrite (raw_items_rep B chB HB). cbn [bind].
  apply (create_updated_panics A chA HA); [apply view_i32, IB|].
  destruct (k09_true _ _ _ _ HA HB Hk) as (k & f & d & Hf & Hd & Hne).
  exists k, d, f. split; [|split; assumption].
  destruct (rep_get_some _ _ _ _ HB Hd) as (r & Hr & _ & _). apply aget_in in Hr.
  unfold view. apply in_map_iff. exists (k, r). split; [|exact Hr]. cbn [fst]. unfold data_of. rewrite Hd. reflexivity.
Qed.

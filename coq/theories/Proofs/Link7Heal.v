(* C02 for 0.7 at the level of the link (mirror of Link6Heal.v over Model/Link7.v): from every state
   of the two-endpoint 0.7 link in which both ends are online and each end puts the other end's
   token on its datagrams there is a finite "healing schedule" -- the applications only flush and
   tick, the network loses what was in flight and from then on delivers every datagram exactly once
   and in order -- that ends in the quiescent state: everything submitted is delivered, every resend
   queue and every packet under construction is empty, nothing is in flight; three ticks.
   Part 1 of Link6Heal.v (the shared online core: ack_after, tight, dg_ok, flush_shape,
   resend_emits, ack_all, ...) is stated over `pp` and is used as is. *)
From LibTw2 Require Import Base.Res Model.PacketTypes Model.ConnCore Model.Conn6 Model.Conn7 Model.LinkGhost Model.Link7
  Proofs.ConnCoreInv Proofs.Conn7Inv Proofs.LinkArith Proofs.LinkCore Proofs.Link7Inv Proofs.ConnProgress
  Proofs.Link6Heal.
From Coq Require Import ZArith Lia Bool List.
Open Scope Z_scope.

(* ================= part 2: one endpoint ================= *)
(* the time by which both the send timer and the oldest resend timer have run out *)
Definition due7 (c : conn7) : Z :=
  match c7_state c with
  | Online7 o => Z.max (tval (c7_send c))
                      (match queue_back (o_queue o) with Some rc => tval (rc_next rc) | None => 0 end)
  | _ => 0
  end.

Definition mkf7 (x : lside7) (d : dgram) : flight := {| f_d := d; f_n := zlen (l7_sub x); f_c := zlen (l7_del x) |}.

Lemma side_step_inv7 now x op x' fl : side_step7 now x op = Ok (x', fl) ->
  exists out, step7 (l7_conn x) {| e_now := now; e_rand := l7_rand x |} op = Ok out /\
              x' = after7 x op out /\ fl = map (mkf7 x) (out7_sent out).
Proof.
  unfold side_step7. destruct (step7 _ _ _) as [out| | |]; try discriminate.
  intros H. injection H as <- <-. exists out. repeat split.
Qed.


Lemma step_flush_eq7 c e o : c7_state c = Online7 o ->
  step7 c e Op7Flush = (let* (o', d) := online_flush params7 o in
                      Ok (mk7 {| c7_state := Online7 o'; c7_send := Some (e_now e + ms 500) |} e d [] [] R7Ok)).
Proof. intros H. unfold step7. rewrite H. reflexivity. Qed.

Lemma step_tick_resend7 c e o : c7_state c = Online7 o -> conn_ok7 c -> o_queue o <> [] -> due7 c <= e_now e ->
  step7 c e Op7Tick = (let* (c', d) := do_resend7 c e o in Ok (mk7 c' e d [] [] R7Ok)).
Proof.
  intros H Hc Hq Hd. unfold step7. rewrite H.
  destruct (queue_back_some _ Hq) as [rc [Hb Hin]]. rewrite Hb.
  unfold conn_ok7 in Hc. rewrite H in Hc. destruct Hc as [[_ [_ [_ [_ [Hqk _]]]]] _].
  rewrite Forall_forall in Hqk. destruct (Hqk rc Hin) as [_ [_ Hn]].
  unfold due7 in Hd. rewrite H, Hb in Hd.
  assert (Ht : triggered (rc_next rc) (e_now e) = true).
  { destruct (rc_next rc) as [t|]; [|contradiction]. cbn in *. lia. }
  rewrite Ht. reflexivity.
Qed.

Lemma step_tick_idle7 c e o : c7_state c = Online7 o -> conn_ok7 c -> o_queue o = [] -> due7 c <= e_now e ->
  step7 c e Op7Tick =
  if can_send o then
    let* (o', d) := online_flush params7 o in
    Ok (mk7 {| c7_state := Online7 o'; c7_send := Some (e_now e + ms 500) |} e d [] [] R7Ok)
  else Ok (mk7 {| c7_state := Online7 o; c7_send := Some (e_now e + ms 500) |} e
              [DControl (o_their o) (o_ack o) KeepAlive] [] [] R7Ok).
Proof.
  intros H Hc Hq Hd. unfold step7. rewrite H, Hq. cbn [queue_back map last].
  unfold conn_ok7 in Hc. rewrite H in Hc. destruct Hc as [_ [_ [[b [Hb _]] Hs]]].
  unfold due7 in Hd. rewrite H, Hq in Hd. cbn [queue_back map last] in Hd.
  assert (Ht : triggered (c7_send c) (e_now e) = true).
  { destruct (c7_send c) as [t|]; [|contradiction]. cbn in *. lia. }
  rewrite Ht. unfold tick_action7. cbn [c7_state c7_send]. destruct (can_send o); [reflexivity|].
  unfold send_control7, send_control_with7, set_send7. cbn [their_token c7_state c7_send]. rewrite Hb.
  assert (Hsz : (MAX_PACKETSIZE <? control_size params7 (Some b) KeepAlive) = false) by reflexivity.
  rewrite Hsz. reflexivity.
Qed.

Lemma tokb_refl t : tokb t t = true.
Proof. unfold tokb. destruct (list_eq_dec Z.eq_dec t t); [reflexivity|contradiction]. Qed.

(* a datagram arrives at an online endpoint and provokes no answer: either it does not ask for a
   resend, or its acknowledgement empties the queue first. 0.7: the token in the datagram's header
   is the receiver's own token *)
Lemma feed_side7 now y oy d y' fl :
  c7_state (l7_conn y) = Online7 oy -> benign d -> dgram_tok d = o_own oy ->
  (dgram_rr d = false \/ o_queue (ack_chunks oy (dgram_ack d)) = []) ->
  side_step7 now y (Op7Feed d) = Ok (y', fl) ->
  fl = [] /\ exists oy', c7_state (l7_conn y') = Online7 oy' /\ c7_send (l7_conn y') = c7_send (l7_conn y) /\
    l7_sub y' = l7_sub y /\ l7_rand y' = l7_rand y /\
    o_own oy' = o_own oy /\ o_their oy' = o_their oy /\ o_packet oy' = o_packet oy /\
    o_queue oy' = o_queue (ack_chunks oy (dgram_ack d)) /\
    o_ack oy' = ack_after (o_ack oy) (dgram_chunks d) /\
    (dgram_chunks d = [] -> o_rr oy' = o_rr oy).
Proof.
  intros Hon Hb Htok Hnr H. apply side_step_inv7 in H as [out [Hs [-> ->]]].
  unfold step7, feed7 in Hs.
  destruct d as [t1 t2 pl|tok ack ctl|tok ack rr n cs]; cbn [benign] in Hb; try contradiction.
  - destruct ctl; try contradiction. cbn [dgram_tok dgram_ack dgram_chunks dgram_rr] in *.
    rewrite Hon in Hs. cbn [own_token andb] in Hs. rewrite Htok, tokb_refl in Hs. cbn [negb] in Hs.
    destruct ((ack <? 0) || (SEQ_MOD <=? ack)); [discriminate|]. injection Hs as <-.
    split; [reflexivity|]. exists (ack_chunks oy ack).
    destruct (ack_chunks_toks oy ack) as [T1 T2]. destruct (ack_chunks_same oy ack) as [S1 [S2 [S3 [S4 S5]]]].
    cbn. repeat split; try reflexivity; try assumption. intros _. exact S5.
  - cbn [dgram_tok dgram_ack dgram_chunks dgram_rr] in *.
    rewrite Hon in Hs. cbn [own_token andb] in Hs. rewrite Htok, tokb_refl in Hs. cbn [negb] in Hs.
    destruct ((ack <? 0) || (SEQ_MOD <=? ack)); [discriminate|]. cbn [c7_state] in Hs.
    destruct (ack_chunks_toks oy ack) as [T1 T2]. destruct (ack_chunks_same oy ack) as [S1 [S2 [S3 [S4 S5]]]].
    assert (Hrs : (if rr then do_resend7 {| c7_state := Online7 (ack_chunks oy ack); c7_send := c7_send (l7_conn y) |}
                                 {| e_now := now; e_rand := l7_rand y |} (ack_chunks oy ack)
                   else Ok ({| c7_state := Online7 (ack_chunks oy ack); c7_send := c7_send (l7_conn y) |}, []))
                  = Ok ({| c7_state := Online7 (ack_chunks oy ack); c7_send := c7_send (l7_conn y) |}, [])).
    { destruct rr; [|reflexivity]. destruct Hnr as [Hx|Hq]; [discriminate|].
      unfold do_resend7. rewrite (resend_empty _ _ _ Hq). reflexivity. }
    rewrite Hrs in Hs. cbn [bind c7_state c7_send] in Hs.
    destruct (recv_chunks (o_ack (ack_chunks oy ack)) (o_rr (ack_chunks oy ack)) cs) as [[[ack' rr'] evs]| | |] eqn:Erc;
      cbn [bind] in Hs; try discriminate.
    injection Hs as <-. split; [reflexivity|]. exists (o_set_ack (ack_chunks oy ack) ack' rr').
    cbn. repeat split; try reflexivity; try assumption.
    + rewrite <- S2. eapply recv_ack_after, Erc.
    + intros ->. cbn in Erc. injection Erc as _ <- _. exact S5.
Qed.

Lemma flush_side7 now x o x' fl :
  c7_state (l7_conn x) = Online7 o -> side_step7 now x Op7Flush = Ok (x', fl) ->
  exists o' ds, online_flush params7 o = Ok (o', ds) /\
    l7_conn x' = {| c7_state := Online7 o'; c7_send := Some (now + ms 500) |} /\ fl = map (mkf7 x) ds /\
    l7_sub x' = l7_sub x /\ l7_del x' = l7_del x /\ l7_nvs x' = l7_nvs x /\ l7_rand x' = l7_rand x.
Proof.
  intros Hon H. apply side_step_inv7 in H as [out [Hs [-> ->]]].
  rewrite (step_flush_eq7 _ _ o Hon) in Hs.
  destruct (online_flush params7 o) as [[o' ds]| | |]; cbn [bind] in Hs; try discriminate.
  injection Hs as <-. exists o', ds. cbn. rewrite app_nil_r. repeat split.
Qed.

Lemma tick_side7 now x o x' fl :
  c7_state (l7_conn x) = Online7 o -> conn_ok7 (l7_conn x) -> due7 (l7_conn x) <= now ->
  side_step7 now x Op7Tick = Ok (x', fl) ->
  l7_sub x' = l7_sub x /\ l7_del x' = l7_del x /\ l7_nvs x' = l7_nvs x /\ l7_rand x' = l7_rand x /\
  exists o' ds, c7_state (l7_conn x') = Online7 o' /\ fl = map (mkf7 x) ds /\
   ((o_queue o <> [] /\ exists ts, online_resend params7 now o = Ok (o', ds, ts)) \/
    (o_queue o = [] /\ can_send o = true /\ online_flush params7 o = Ok (o', ds)) \/
    (o_queue o = [] /\ can_send o = false /\ o' = o /\ ds = [DControl (o_their o) (o_ack o) KeepAlive])).
Proof.
  intros Hon Hc Hd H. apply side_step_inv7 in H as [out [Hs [-> ->]]].
  destruct (o_queue o) as [|c0 q0] eqn:Eq.
  - rewrite (step_tick_idle7 _ {| e_now := now; e_rand := l7_rand x |} o Hon Hc Eq Hd) in Hs. cbn [e_now] in Hs. destruct (can_send o) eqn:Ecs.
    + destruct (online_flush params7 o) as [[o' ds]| | |] eqn:Ef; cbn [bind] in Hs; try discriminate.
      injection Hs as <-. cbn. rewrite app_nil_r. do 4 (split; [reflexivity|]).
      exists o', ds. split; [reflexivity|]. split; [reflexivity|]. right. left. repeat split.
    + injection Hs as <-. cbn. rewrite app_nil_r. do 4 (split; [reflexivity|]).
      exists o, [DControl (o_their o) (o_ack o) KeepAlive]. split; [reflexivity|]. split; [reflexivity|].
      right. right. repeat split.
  - assert (Hq : o_queue o <> []) by (rewrite Eq; discriminate).
    rewrite (step_tick_resend7 _ {| e_now := now; e_rand := l7_rand x |} o Hon Hc Hq Hd) in Hs. unfold do_resend7 in Hs. cbn [e_now] in Hs.
    destruct (online_resend params7 now o) as [[[o' ds] ts]| | |] eqn:Er; cbn [bind] in Hs; try discriminate.
    injection Hs as <-. cbn. rewrite app_nil_r. do 4 (split; [reflexivity|]).
    exists o', ds. split; [reflexivity|]. split; [reflexivity|]. left. split; [discriminate|]. exists ts. reflexivity.
Qed.

(* a tick after both deadlines, then a flush: what the endpoint emits and the state it is left in *)
Lemma speak_side7 now x o a x1 fl1 x2 fl2 :
  c7_state (l7_conn x) = Online7 o -> conn_ok7 (l7_conn x) -> snd_inv o (l7_sub x) (l7_nvs x) a ->
  o_ack o = seqof (zlen (l7_del x)) -> due7 (l7_conn x) <= now ->
  side_step7 now x Op7Tick = Ok (x1, fl1) -> side_step7 now x1 Op7Flush = Ok (x2, fl2) ->
  exists o2 ds,
    l7_conn x2 = {| c7_state := Online7 o2; c7_send := Some (now + ms 500) |} /\ fl1 ++ fl2 = map (mkf7 x) ds /\
    l7_sub x2 = l7_sub x /\ l7_del x2 = l7_del x /\ l7_rand x2 = l7_rand x /\
    o_own o2 = o_own o /\ o_their o2 = o_their o /\
    pc_chunks (o_packet o2) = [] /\ o_rr o2 = false /\ (o_queue o = [] -> o_queue o2 = []) /\
    ds <> [] /\ Forall (dg_ok (o_their o) (o_rr o)) ds /\
    Forall (fun d => tight (zlen (l7_sub x)) (dgram_chunks d)) ds /\
    (o_queue o <> [] -> forall d, a <= d <= zlen (l7_sub x) ->
       ack_after (seqof d) (flat ds) = seqof (zlen (l7_sub x))) /\
    (o_queue o = [] -> pc_chunks (o_packet o) = [] -> Forall (fun d => dgram_chunks d = []) ds).
Proof.
  intros Hon Hc Hsnd Hack Hdue H1 H2.
  assert (Hok : online_ok pp7 o /\ tok_ok (o_their o)).
  { pose proof Hc as Hc'. unfold conn_ok7 in Hc'. rewrite Hon in Hc'. destruct Hc' as [A [_ [[b [B1 B2]] _]]].
    split; [exact A|rewrite B1; exact B2]. }
  destruct Hok as [Hok Htok].
  assert (Hcp : pk_count_ok (o_packet o)) by (eapply pc_ok_count, Hok).
  assert (Hcnv : pk_count_ok (o_packet_nv o)) by (eapply pc_ok_count, Hok).
  destruct (tick_side7 now x o x1 fl1 Hon Hc Hdue H1) as [Es1 [Ed1 [En1 [Er1 [o1 [ds1 [Hon1 [-> Hcase]]]]]]]].
  destruct (flush_side7 now x1 o1 x2 fl2 Hon1 H2) as [o2 [ds2 [Ef [Hconn2 [-> [Es2 [Ed2 [En2 Er2]]]]]]]].
  assert (Hmk : map (mkf7 x) ds1 ++ map (mkf7 x1) ds2 = map (mkf7 x) (ds1 ++ ds2)).
  { rewrite map_app. f_equal. apply map_ext. intros d. unfold mkf7. rewrite Es1, Ed1. reflexivity. }
  exists o2, (ds1 ++ ds2). split; [exact Hconn2|]. split; [exact Hmk|].
  split; [congruence|]. split; [congruence|]. split; [congruence|].
  destruct Hcase as [[Hq [ts Er]]|[[Hq [Ecs Ef1]]|[Hq [Ecs [-> ->]]]]].
  - (* the resend queue is not empty: resend, then flush *)
    destruct (resend_link params7 now o o1 ds1 ts _ _ a (zlen (l7_del x)) Er Hcp Hcnv Hsnd Hack (zlen_nonneg _))
      as [Hs1 [Ha1 [Hc1 _]]].
    destruct (online_resend_ok pp7 now o pp7_ok Hok Htok) as [o1' [ds' [ts' [Er' [_ [_ [Eo [Et _]]]]]]]].
    rewrite Er in Er'. injection Er' as <- <- <-.
    destruct (resend_emits params7 now o o1 ds1 ts Er) as [Hem1 Hrr1].
    destruct (flush_shape params7 o1 o2 ds2 Ef Hc1) as [F1 [F2 [F3 [F4 [F5 [F6 [F7 _]]]]]]].
    assert (Hcatch : forall d, a <= d <= zlen (l7_sub x) ->
               ack_after (seqof d) (flat (ds1 ++ ds2)) = seqof (zlen (l7_sub x))).
    { intros d Hd. destruct (catch_up params7 now o _ _ a d false o1 ds1 ts o2 ds2 Hsnd Hcnv Hq Hd Er Ef) as [rr' [evs [E _]]].
      symmetry. eapply recv_ack_after, E. }
    split; [congruence|]. split; [congruence|]. split; [exact F1|]. split; [exact F2|].
    split; [intros E; contradiction|].
    split.
    { (* something is emitted: otherwise a = |sub| and the queue would be empty *)
      intros E. pose proof (queue_is_len _ _ _ _ (si_queue _ _ _ _ Hsnd)) as Hl.
      pose proof (si_win _ _ _ _ Hsnd) as Hw. pose proof (zlen_nonneg (o_queue o)) as Hn.
      assert (Ha : a <= a <= zlen (l7_sub x)) by lia.
      specialize (Hcatch a Ha). rewrite E in Hcatch. cbn in Hcatch.
      apply seqof_inj in Hcatch; [|lia]. apply Hq. destruct (o_queue o); [reflexivity|].
      rewrite zlen_cons in Hl. pose proof (zlen_nonneg l). lia. }
    split.
    { apply Forall_app. split; [exact Hem1|]. eapply Forall_impl; [|exact F7].
      intros d [D1 [D2 D3]]. split; [exact D1|]. split; [congruence|]. intros E. apply D3, Hrr1, E. }
    split.
    { apply Forall_app. split.
      - apply tight_flat. eapply resend_tight; eassumption.
      - eapply flush_tight; [exact Ef|exact Hs1|exact Hc1]. }
    split; [intros _; exact Hcatch|]. intros E. contradiction.
  - (* nothing to resend, something to flush *)
    destruct (flush_shape params7 o o1 ds1 Ef1 Hcp) as [G1 [G2 [G3 [G4 [G5 [G6 [G7 [G8 G9]]]]]]]].
    destruct (flush_link params7 o o1 ds1 _ _ a (zlen (l7_del x)) Ef1 Hcp Hsnd Hack (zlen_nonneg _)) as [Hs1 [_ [Hc1 _]]].
    destruct (flush_shape params7 o1 o2 ds2 Ef Hc1) as [F1 [F2 [F3 [F4 [F5 [F6 [F7 _]]]]]]].
    split; [congruence|]. split; [congruence|]. split; [exact F1|]. split; [exact F2|].
    split; [intros _; congruence|].
    split; [intros E; apply app_eq_nil in E as [E _]; exact (G9 Ecs E)|].
    split.
    { apply Forall_app. split; [exact G7|]. eapply Forall_impl; [|exact F7].
      intros d [D1 [D2 D3]]. split; [exact D1|]. split; [congruence|]. intros E. apply D3. congruence. }
    split.
    { apply Forall_app. split; [eapply flush_tight; eassumption|eapply flush_tight; eassumption]. }
    split; [intros E; contradiction|].
    intros _ Hpe. apply Forall_app. split.
    + destruct G8 as [->| ->]; constructor; [|constructor]. cbn. exact Hpe.
    + destruct (flush_shape params7 o1 o2 ds2 Ef Hc1) as [_ [_ [_ [_ [_ [_ [_ [[->| ->] _]]]]]]]]; constructor; [|constructor].
      cbn. exact G1.
  - (* nothing to resend, nothing to flush: a keep-alive *)
    destruct (flush_shape params7 o o2 ds2 Ef Hcp) as [F1 [F2 [F3 [F4 [F5 [F6 [F7 [F8 _]]]]]]]].
    assert (Hds2 : ds2 = []).
    { unfold online_flush in Ef. rewrite Ecs in Ef. cbn in Ef. injection Ef as _ <-. reflexivity. }
    subst ds2.
    split; [exact F5|]. split; [exact F6|]. split; [exact F1|]. split; [exact F2|].
    split; [intros _; congruence|].
    split; [discriminate|].
    split; [constructor; [|constructor]; split; [exact I|]; split; [reflexivity|intros _; reflexivity]|].
    split; [constructor; [|constructor]; apply tight_nil|].
    split; [intros E; contradiction|].
    intros _ _. constructor; [reflexivity|constructor].
Qed.


(* ================= part 3: the link ================= *)
Definition sched7 (w : link7) (ls : list llabel7) (w' : link7) : Prop :=
  admissible_run7 w ls /\ link_run7 w ls = Ok w'.

Lemma sched_nil7 w : sched7 w [] w.
Proof. split; [exact I|reflexivity]. Qed.

Lemma sched_cons7 w l w1 ls w' : admissible7 w l -> link_step7 w l = Ok w1 -> sched7 w1 ls w' -> sched7 w (l :: ls) w'.
Proof. intros Ha Hs [H1 H2]. split; cbn [admissible_run7 link_run7]; rewrite Hs; [split; assumption|exact H2]. Qed.

Lemma sched_app7 l1 : forall w w1 l2 w2, sched7 w l1 w1 -> sched7 w1 l2 w2 -> sched7 w (l1 ++ l2) w2.
Proof.
  induction l1 as [|l l1 IH]; intros w w1 l2 w2 [A1 R1] H2; cbn [app].
  - cbn in R1. injection R1 as <-. exact H2.
  - cbn [admissible_run7 link_run7] in A1, R1. destruct A1 as [Al A1].
    destruct (link_step7 w l) as [wm| | |] eqn:E; try discriminate.
    eapply sched_cons7; [exact Al|exact E|]. eapply IH; [split; eassumption|exact H2].
Qed.

Lemma other_other7 s : other7 (other7 s) = s.
Proof. destruct s; reflexivity. Qed.

Lemma linv_side7 w s : link_inv7 w ->
  side_inv7 (get7 w s) (l7_sub (get7 w (other7 s))) (l7_del (get7 w (other7 s))) (l7_nvs (get7 w (other7 s)))
           (l7_answered (get7 w (other7 s))).
Proof. intros [A [B _]]. destruct s; assumption. Qed.

Lemma linv_bag7 w s : link_inv7 w -> bag_inv7 (bag7 w s) (get7 w s).
Proof. intros [_ [_ [A B]]]. destruct s; assumption. Qed.

(* 0.7: each end has its own token (expected on what it receives) and puts the peer's token on
   what it sends: toks s is the token of end s *)
Definition side_good7 (x : lside7) (own their : option token) (sub : list bytes) (rnd : list token) : Prop :=
  exists o, c7_state (l7_conn x) = Online7 o /\ o_own o = own /\ o_their o = their /\ l7_sub x = sub /\ l7_rand x = rnd.

Definition good7 (w : link7) (toks : side7 -> option token) (subs : side7 -> list bytes) (rnds : side7 -> list token) : Prop :=
  link_inv7 w /\ forall s, side_good7 (get7 w s) (toks s) (toks (other7 s)) (subs s) (rnds s).

Lemma good_update7 w w' toks subs rnds s :
  good7 w toks subs rnds -> link_inv7 w' -> side_good7 (get7 w' s) (toks s) (toks (other7 s)) (subs s) (rnds s) ->
  get7 w' (other7 s) = get7 w (other7 s) -> good7 w' toks subs rnds.
Proof.
  intros [_ G] Hi Hs Ho. split; [exact Hi|]. intros t.
  destruct s, t; cbn [other7] in *; try exact Hs; rewrite Ho.
  - exact (G SB7).
  - exact (G SA7).
Qed.

Lemma lapp_step7 w s op : link_inv7 w -> admissible7 w (L7App s op) ->
  exists x' fl, side_step7 (k7_now w) (get7 w s) op = Ok (x', fl) /\
    link_step7 w (L7App s op) = Ok (set_side7 w s x' fl) /\ link_inv7 (set_side7 w s x' fl).
Proof.
  intros Hi Ha. destruct (link_step_inv7 w _ Hi Ha) as [w' [Hs Hi']]. cbn [link_step7] in Hs.
  destruct (side_step7 (k7_now w) (get7 w s) op) as [[x' fl]| | |] eqn:E; try discriminate.
  injection Hs as <-. exists x', fl. split; [reflexivity|]. split; [|exact Hi'].
  cbn [link_step7]. rewrite E. reflexivity.
Qed.

Lemma ldeliver_step7 w s f rest : link_inv7 w -> bag7 w s = f :: rest ->
  fresh7 f (get7 w (other7 s)) -> rand_ok7 {| e_now := k7_now w; e_rand := l7_rand (get7 w (other7 s)) |} ->
  admissible7 w (L7Deliver s 0) /\
  exists y' fl, side_step7 (k7_now w) (get7 w (other7 s)) (Op7Feed (f_d f)) = Ok (y', fl) /\
    link_step7 w (L7Deliver s 0) = Ok (set_side7 w (other7 s) y' fl) /\ link_inv7 (set_side7 w (other7 s) y' fl).
Proof.
  intros Hi Hb Hf Hr.
  assert (Ha : admissible7 w (L7Deliver s 0)).
  { cbn [admissible7]. rewrite Hb. cbn [nth_error]. split; assumption. }
  split; [exact Ha|].
  destruct (link_step_inv7 w _ Hi Ha) as [w' [Hs Hi']]. cbn [link_step7] in Hs. rewrite Hb in Hs. cbn [nth_error] in Hs.
  destruct (side_step7 (k7_now w) (get7 w (other7 s)) (Op7Feed (f_d f))) as [[y' fl]| | |] eqn:E; try discriminate.
  injection Hs as <-. exists y', fl. split; [reflexivity|]. split; [|exact Hi'].
  cbn [link_step7]. rewrite Hb. cbn [nth_error]. rewrite E. reflexivity.
Qed.

Lemma ldrop_step7 w s : exists w1, link_step7 w (L7Drop s 0) = Ok w1 /\ (forall t, get7 w1 t = get7 w t) /\
  bag7 w1 s = tl (bag7 w s) /\ bag7 w1 (other7 s) = bag7 w (other7 s) /\ k7_now w1 = k7_now w /\
  (link_inv7 w -> link_inv7 w1).
Proof.
  destruct s; (eexists; split; [reflexivity|]); cbn [get7 bag7 other7 k7_now k7_a k7_b k7_ab k7_ba].
  - split; [intros []; reflexivity|]. split; [destruct (k7_ab w); reflexivity|]. split; [reflexivity|]. split; [reflexivity|].
    intros [A [B [C D]]]. unfold link_inv7. cbn [k7_a k7_b k7_ab k7_ba].
    split; [exact A|]. split; [exact B|]. split; [apply remove_nth7_forall, C|exact D].
  - split; [intros []; reflexivity|]. split; [destruct (k7_ba w); reflexivity|]. split; [reflexivity|]. split; [reflexivity|].
    intros [A [B [C D]]]. unfold link_inv7. cbn [k7_a k7_b k7_ab k7_ba].
    split; [exact A|]. split; [exact B|]. split; [exact C|apply remove_nth7_forall, D].
Qed.

Lemma ltime_step7 w dt : exists w1, link_step7 w (L7Time dt) = Ok w1 /\ (forall t, get7 w1 t = get7 w t) /\
  (forall t, bag7 w1 t = bag7 w t) /\ k7_now w1 = k7_now w + dt /\ (link_inv7 w -> link_inv7 w1).
Proof.
  eexists. split; [reflexivity|]. cbn. split; [intros []; reflexivity|]. split; [intros []; reflexivity|].
  split; [reflexivity|]. intros H. exact H.
Qed.

Lemma get_set_same7 w s x fl : get7 (set_side7 w s x fl) s = x.
Proof. destruct s; reflexivity. Qed.
Lemma get_set_other7 w s x fl : get7 (set_side7 w s x fl) (other7 s) = get7 w (other7 s).
Proof. destruct s; reflexivity. Qed.
Lemma bag_set_same7 w s x fl : bag7 (set_side7 w s x fl) s = bag7 w s ++ fl.
Proof. destruct s; reflexivity. Qed.
Lemma bag_set_other7 w s x fl : bag7 (set_side7 w s x fl) (other7 s) = bag7 w (other7 s).
Proof. destruct s; reflexivity. Qed.
Lemma now_set7 w s x fl : k7_now (set_side7 w s x fl) = k7_now w.
Proof. destruct s; reflexivity. Qed.

(* the three schedules the healing is made of *)
Definition speak7 (s : side7) (dt : Z) : list llabel7 := [L7Time dt; L7App s Op7Tick; L7App s Op7Flush].
Fixpoint drain7 (s : side7) (n : nat) : list llabel7 :=
  match n with O => [] | S k => L7Deliver s 0 :: L7Drop s 0 :: drain7 s k end.
Definition drops7 (s : side7) (n : nat) : list llabel7 := repeat (L7Drop s 0) n.

(* the network loses everything that is in flight from s *)
Lemma drop_all7 s : forall n w, length (bag7 w s) = n -> link_inv7 w ->
  exists w', sched7 w (drops7 s n) w' /\ link_inv7 w' /\ (forall t, get7 w' t = get7 w t) /\
    bag7 w' s = [] /\ bag7 w' (other7 s) = bag7 w (other7 s) /\ k7_now w' = k7_now w.
Proof.
  induction n as [|n IH]; intros w Hl Hi.
  - exists w. split; [apply sched_nil7|]. split; [exact Hi|]. split; [reflexivity|].
    split; [apply length_zero_iff_nil, Hl|]. split; reflexivity.
  - destruct (ldrop_step7 w s) as [w1 [S1 [G1 [B1 [O1 [N1 I1]]]]]].
    destruct (IH w1) as [w' [Hs [Hi' [G' [B' [O' N']]]]]].
    { rewrite B1. destruct (bag7 w s); [discriminate|]. cbn in *. lia. }
    { apply I1, Hi. }
    exists w'. split; [eapply sched_cons7; [exact I|exact S1|exact Hs]|]. split; [exact Hi'|].
    split; [intros t; rewrite G', G1; reflexivity|]. split; [exact B'|]. split; congruence.
Qed.

Lemma get_set_other7' w s x fl : get7 (set_side7 w (other7 s) x fl) s = get7 w s.
Proof. destruct s; reflexivity. Qed.
Lemma bag_set_other7' w s x fl : bag7 (set_side7 w (other7 s) x fl) s = bag7 w s.
Proof. destruct s; reflexivity. Qed.

(* side s lets both its deadlines pass, ticks and flushes *)
Lemma speak_link7 w s toks subs rnds o :
  good7 w toks subs rnds -> c7_state (l7_conn (get7 w s)) = Online7 o ->
  exists w' ds o2,
    sched7 w (speak7 s (Z.max 0 (due7 (l7_conn (get7 w s)) - k7_now w))) w' /\ good7 w' toks subs rnds /\
    bag7 w' s = bag7 w s ++ map (mkf7 (get7 w s)) ds /\ bag7 w' (other7 s) = bag7 w (other7 s) /\
    get7 w' (other7 s) = get7 w (other7 s) /\ l7_del (get7 w' s) = l7_del (get7 w s) /\
    c7_state (l7_conn (get7 w' s)) = Online7 o2 /\
    pc_chunks (o_packet o2) = [] /\ o_rr o2 = false /\ (o_queue o = [] -> o_queue o2 = []) /\
    ds <> [] /\ Forall (dg_ok (toks (other7 s)) (o_rr o)) ds /\
    Forall (fun d => tight (zlen (subs s)) (dgram_chunks d)) ds /\
    (o_queue o <> [] -> ack_after (seqof (zlen (l7_del (get7 w (other7 s))))) (flat ds) = seqof (zlen (subs s))) /\
    (o_queue o = [] -> pc_chunks (o_packet o) = [] -> Forall (fun d => dgram_chunks d = []) ds).
Proof.
  intros [Hi G] Hon. remember (get7 w s) as x eqn:Ex.
  set (dt := Z.max 0 (due7 (l7_conn x) - k7_now w)).
  destruct (G s) as [o' [Hon' [Town [Ttheir [Hsub Hrnd]]]]]. rewrite <- Ex in Hon', Hsub, Hrnd.
  rewrite Hon in Hon'. injection Hon' as <-.
  pose proof (linv_side7 w s Hi) as Hsx. rewrite <- Ex in Hsx.
  pose proof (sv7_conn _ _ _ _ _ Hsx) as Hc.
  destruct (sv7_online _ _ _ _ _ Hsx o Hon) as [a [Hsnd [Ha Hack]]].
  pose proof (sv7_dle _ _ _ _ _ (linv_side7 w (other7 s) Hi)) as Hdle. rewrite other_other7, <- Ex in Hdle.
  destruct (ltime_step7 w dt) as [w1 [S1 [G1 [B1 [N1 I1]]]]]. specialize (I1 Hi).
  assert (A2 : admissible7 w1 (L7App s Op7Tick)) by (cbn; repeat split).
  destruct (lapp_step7 w1 s Op7Tick I1 A2) as [x1 [fl1 [T1 [L1 I2]]]]. rewrite G1, <- Ex in T1.
  assert (Hdue : due7 (l7_conn x) <= k7_now w1) by (rewrite N1; unfold dt; lia).
  destruct (tick_side7 _ x o x1 fl1 Hon Hc Hdue T1) as [_ [_ [_ [_ [o1 [ds1 [Hon1 _]]]]]]].
  assert (A3 : admissible7 (set_side7 w1 s x1 fl1) (L7App s Op7Flush)).
  { cbn [admissible7]. rewrite get_set_same7. split; [exact I|]. split; [exists o1; exact Hon1|exact I]. }
  destruct (lapp_step7 _ s Op7Flush I2 A3) as [x2 [fl2 [T2 [L2 I3]]]].
  rewrite get_set_same7, now_set7 in T2.
  destruct (speak_side7 _ x o a x1 fl1 x2 fl2 Hon Hc Hsnd Hack Hdue T1 T2)
    as [o2 [ds [Hconn2 [Hfl [Es [Ed [Er [To [Tt [P1 [P2 [P3 [P4 [P5 [P6 [P7 P8]]]]]]]]]]]]]]]].
  exists (set_side7 (set_side7 w1 s x1 fl1) s x2 fl2), ds, o2.
  split.
  { eapply sched_cons7; [exact I|exact S1|]. eapply sched_cons7; [exact A2|exact L1|].
    eapply sched_cons7; [exact A3|exact L2|apply sched_nil7]. }
  split.
  { eapply (good_update7 w _ toks subs rnds s); [split; assumption|exact I3| |].
    - rewrite get_set_same7. exists o2. rewrite Hconn2. cbn [c7_state].
      split; [reflexivity|]. split; [congruence|]. split; [congruence|]. split; congruence.
    - rewrite !get_set_other7. apply G1. }
  split. { rewrite !bag_set_same7, B1, <- app_assoc, Hfl. reflexivity. }
  split. { rewrite !bag_set_other7. apply B1. }
  split. { rewrite !get_set_other7. apply G1. }
  rewrite get_set_same7. split; [exact Ed|]. split; [rewrite Hconn2; reflexivity|].
  split; [exact P1|]. split; [exact P2|]. split; [exact P3|]. split; [exact P4|].
  split; [rewrite <- Ttheir; exact P5|]. split; [rewrite <- Hsub; exact P6|].
  split; [|exact P8].
  intros Hq. rewrite <- Hsub. apply P7; [exact Hq|]. split; [exact Ha|exact Hdle].
Qed.

(* a datagram in flight during the healing *)
Definition fl_ok7 (tok : option token) (nX nY : Z) (f : flight) : Prop :=
  f_n f = nX /\ nY - f_c f <= 511 /\ tight nX (dgram_chunks (f_d f)) /\ benign (f_d f) /\
  dgram_tok (f_d f) = tok /\ (dgram_rr (f_d f) = false \/ f_c f = nY).

(* the oldest datagram from s arrives and is gone *)
Lemma deliver_one7 w s toks subs rnds f rest oy :
  good7 w toks subs rnds -> (forall now, rand_ok7 {| e_now := now; e_rand := rnds (other7 s) |}) ->
  bag7 w s = f :: rest -> fl_ok7 (toks (other7 s)) (zlen (subs s)) (zlen (subs (other7 s))) f ->
  c7_state (l7_conn (get7 w (other7 s))) = Online7 oy ->
  exists w' oy', sched7 w (drain7 s 1) w' /\ good7 w' toks subs rnds /\
    bag7 w' s = rest /\ bag7 w' (other7 s) = bag7 w (other7 s) /\ get7 w' s = get7 w s /\ k7_now w' = k7_now w /\
    c7_state (l7_conn (get7 w' (other7 s))) = Online7 oy' /\
    c7_send (l7_conn (get7 w' (other7 s))) = c7_send (l7_conn (get7 w (other7 s))) /\
    o_packet oy' = o_packet oy /\ o_ack oy' = ack_after (o_ack oy) (dgram_chunks (f_d f)) /\
    (f_c f = zlen (subs (other7 s)) -> o_queue oy' = []) /\ (o_queue oy = [] -> o_queue oy' = []) /\
    (dgram_chunks (f_d f) = [] -> o_rr oy' = o_rr oy).
Proof.
  intros [Hi G] Hrnd Hb [F1 [F2 [F3 [F4 [F5 F6]]]]] Hony.
  remember (get7 w (other7 s)) as y eqn:Ey.
  destruct (G (other7 s)) as [oy0 [Hon0 [Town [Ttheir [Hsuby Hrndy]]]]]. rewrite <- Ey in Hon0, Hsuby, Hrndy.
  rewrite Hony in Hon0. injection Hon0 as <-.
  destruct (G s) as [ox [Honx [_ [_ [Hsubx _]]]]].
  pose proof (linv_side7 w (other7 s) Hi) as Hsy. rewrite other_other7, <- Ey in Hsy.
  destruct (sv7_online _ _ _ _ _ Hsy oy Hony) as [a [Hsnd [Ha Hack]]].
  pose proof (sv7_dle _ _ _ _ _ Hsy) as Hdle. rewrite Hsubx in Hdle.
  pose proof (linv_bag7 w s Hi) as Hbag. rewrite Hb in Hbag. inversion Hbag as [|f' r' Hfi _]; subst f' r'.
  destruct Hfi as [[_ [_ [Hfack _]]] _].
  assert (Hfresh : fresh7 f y).
  { split; [rewrite Hsuby; lia|]. intros c sq r Hin Hv. destruct (F3 c sq r Hin Hv) as [i [Hi1 ->]].
    rewrite F1. rewrite (idx_of_spec (zlen (subs s)) (seqof i) i); [|lia|reflexivity]. lia. }
  destruct (ldeliver_step7 w s f rest Hi Hb) as [A1 [y' [fl [T1 [L1 I1]]]]].
  { rewrite <- Ey. exact Hfresh. }
  { rewrite <- Ey, Hrndy. apply Hrnd. }
  rewrite <- Ey in T1.
  assert (Hnr : dgram_rr (f_d f) = false \/ o_queue (ack_chunks oy (dgram_ack (f_d f))) = []).
  { destruct F6 as [E|E]; [left; exact E|]. right.
    assert (Hak : dgram_ack (f_d f) = seqof (zlen (l7_sub y))).
    { rewrite Hsuby, <- E. revert Hfack F4. destruct (f_d f) as [t1 t2 p|tk ak ctl|tk ak rr n cs]; intros Hfack F4;
        cbn in F4; try contradiction; cbn [dgram_ack]; apply Hfack; reflexivity. }
    rewrite Hak. eapply ack_all, Hsnd. }
  destruct (feed_side7 _ y oy (f_d f) y' fl Hony F4 (eq_trans F5 (eq_sym Town)) Hnr T1)
    as [-> [oy' [Hon' [Hcs [Hs' [Hr' [To' [Tt' [Hp' [Hq' [Hak' Hrr']]]]]]]]]]].
  destruct (ldrop_step7 (set_side7 w (other7 s) y' []) s) as [w2 [S2 [G2 [B2 [O2 [N2 I2]]]]]].
  specialize (I2 I1).
  exists w2, oy'.
  split. { eapply sched_cons7; [exact A1|exact L1|]. eapply sched_cons7; [exact I|exact S2|apply sched_nil7]. }
  split.
  { eapply (good_update7 w _ toks subs rnds (other7 s)); [split; assumption|exact I2| |].
    - rewrite G2, get_set_same7. exists oy'. split; [exact Hon'|]. split; [congruence|]. split; [congruence|].
      split; congruence.
    - rewrite other_other7, G2, get_set_other7'. reflexivity. }
  split. { rewrite B2, bag_set_other7', Hb. reflexivity. }
  split. { rewrite O2, bag_set_same7, app_nil_r. reflexivity. }
  split. { rewrite G2, get_set_other7'. reflexivity. }
  split. { rewrite N2, now_set7. reflexivity. }
  rewrite G2, get_set_same7.
  split; [exact Hon'|]. split; [exact Hcs|]. split; [exact Hp'|]. split; [exact Hak'|].
  split.
  { intros E. rewrite Hq'.
    assert (Hak : dgram_ack (f_d f) = seqof (zlen (l7_sub y))).
    { rewrite Hsuby, <- E. revert Hfack F4. destruct (f_d f) as [t1 t2 p|tk ak ctl|tk ak rr n cs]; intros Hfack F4;
        cbn in F4; try contradiction; cbn [dgram_ack]; apply Hfack; reflexivity. }
    rewrite Hak. eapply ack_all, Hsnd. }
  split; [|exact Hrr'].
  intros E. rewrite Hq', (ack_empty _ _ E). exact E.
Qed.

(* every datagram in flight from s arrives, oldest first, each exactly once *)
Lemma drain_all7 s toks subs rnds :
  (forall now, rand_ok7 {| e_now := now; e_rand := rnds (other7 s) |}) ->
  forall F w oy, good7 w toks subs rnds -> bag7 w s = F ->
  Forall (fl_ok7 (toks (other7 s)) (zlen (subs s)) (zlen (subs (other7 s)))) F ->
  c7_state (l7_conn (get7 w (other7 s))) = Online7 oy ->
  exists w' oy', sched7 w (drain7 s (length F)) w' /\ good7 w' toks subs rnds /\
    bag7 w' s = [] /\ bag7 w' (other7 s) = bag7 w (other7 s) /\ get7 w' s = get7 w s /\ k7_now w' = k7_now w /\
    c7_state (l7_conn (get7 w' (other7 s))) = Online7 oy' /\
    c7_send (l7_conn (get7 w' (other7 s))) = c7_send (l7_conn (get7 w (other7 s))) /\
    o_packet oy' = o_packet oy /\ o_ack oy' = ack_after (o_ack oy) (flat (map f_d F)) /\
    (F <> [] -> Forall (fun f => f_c f = zlen (subs (other7 s))) F -> o_queue oy' = []) /\
    (o_queue oy = [] -> o_queue oy' = []) /\
    (Forall (fun f => dgram_chunks (f_d f) = []) F -> o_rr oy' = o_rr oy).
Proof.
  intros Hrnd. induction F as [|f rest IH]; intros w oy Hg Hb Hall Hony.
  - exists w, oy. split; [apply sched_nil7|]. split; [exact Hg|]. split; [exact Hb|].
    do 3 (split; [reflexivity|]). split; [exact Hony|]. do 3 (split; [reflexivity|]). split; [intros H; contradiction|].
    split; [intros H; exact H|reflexivity].
  - inversion Hall as [|f' r' Hf Hrest]; subst f' r'.
    destruct (deliver_one7 w s toks subs rnds f rest oy Hg Hrnd Hb Hf Hony)
      as [w1 [oy1 [S1 [G1 [B1 [O1 [X1 [N1 [On1 [Cs1 [P1 [A1 [Q1 [Q1' R1]]]]]]]]]]]]]].
    destruct (IH w1 oy1 G1 B1 Hrest On1)
      as [w2 [oy2 [S2 [G2 [B2 [O2 [X2 [N2 [On2 [Cs2 [P2 [A2 [Q2 [Q2' R2]]]]]]]]]]]]]].
    exists w2, oy2.
    split; [exact (sched_app7 (drain7 s 1) w w1 (drain7 s (length rest)) w2 S1 S2)|].
    split; [exact G2|]. split; [exact B2|]. split; [congruence|]. split; [congruence|]. split; [congruence|].
    split; [exact On2|]. split; [congruence|]. split; [congruence|].
    split.
    { rewrite A2, A1. unfold flat. cbn [map flat_map]. rewrite ack_after_app. reflexivity. }
    split.
    { intros _ Hc. inversion Hc as [|f' r' Hcf Hcr]; subst f' r'. apply Q2', Q1, Hcf. }
    split; [intros E; apply Q2', Q1', E|].
    intros He. inversion He as [|f' r' Hef Her]; subst f' r'. rewrite (R2 Her). apply R1, Hef.
Qed.

(* what the invariant says once a queue is empty / an acknowledgement is complete *)
Lemma firstn_zlen {A} (l : list A) : firstn (Z.to_nat (zlen l)) l = l.
Proof. unfold zlen. rewrite Nat2Z.id. apply firstn_all. Qed.

Lemma queue_empty_del7 w s o : link_inv7 w -> c7_state (l7_conn (get7 w s)) = Online7 o -> o_queue o = [] ->
  l7_del (get7 w (other7 s)) = l7_sub (get7 w s).
Proof.
  intros Hi Hon Hq. pose proof (linv_side7 w s Hi) as Hx. pose proof (linv_side7 w (other7 s) Hi) as Hy.
  rewrite other_other7 in Hy.
  destruct (sv7_online _ _ _ _ _ Hx o Hon) as [a [Hs [Ha _]]].
  pose proof (si_queue _ _ _ _ Hs) as Hqi. rewrite Hq in Hqi. cbn in Hqi.
  pose proof (sv7_dle _ _ _ _ _ Hy) as Hdle. pose proof (sv7_prefix _ _ _ _ _ Hy) as Hp.
  assert (E : zlen (l7_del (get7 w (other7 s))) = zlen (l7_sub (get7 w s))) by lia.
  rewrite E in Hp. rewrite Hp. apply firstn_zlen.
Qed.

Lemma ack_del7 w s oy : link_inv7 w -> c7_state (l7_conn (get7 w (other7 s))) = Online7 oy ->
  o_ack oy = seqof (zlen (l7_sub (get7 w s))) -> l7_del (get7 w (other7 s)) = l7_sub (get7 w s).
Proof.
  intros Hi Hon Hak. pose proof (linv_side7 w s Hi) as Hx. pose proof (linv_side7 w (other7 s) Hi) as Hy.
  rewrite other_other7 in Hy.
  destruct (sv7_online _ _ _ _ _ Hy oy Hon) as [a [_ [_ Hack]]].
  pose proof (sv7_dle _ _ _ _ _ Hy) as Hdle. pose proof (sv7_prefix _ _ _ _ _ Hy) as Hp.
  pose proof (sv7_gap _ _ _ _ _ Hx) as Hgap.
  assert (E : zlen (l7_del (get7 w (other7 s))) = zlen (l7_sub (get7 w s))).
  { apply seqof_inj; [congruence|lia]. }
  rewrite E in Hp. rewrite Hp. apply firstn_zlen.
Qed.

Lemma good_same7 w w' toks subs rnds : good7 w toks subs rnds -> link_inv7 w' -> (forall t, get7 w' t = get7 w t) ->
  good7 w' toks subs rnds.
Proof. intros [_ G] Hi He. split; [exact Hi|]. intros t. rewrite He. apply G. Qed.

Lemma fl_ok_map7 tok x nX nY rr0 ds :
  zlen (l7_sub x) = nX -> nY - zlen (l7_del x) <= 511 ->
  Forall (dg_ok tok rr0) ds -> Forall (fun d => tight nX (dgram_chunks d)) ds ->
  (rr0 = false \/ zlen (l7_del x) = nY) ->
  Forall (fl_ok7 tok nX nY) (map (mkf7 x) ds).
Proof.
  intros Hn Hg Hd Ht Hr. apply Forall_map. rewrite Forall_forall in *. intros d Hin.
  destruct (Hd d Hin) as [D1 [D2 D3]]. unfold fl_ok7, mkf7. cbn [f_d f_n f_c].
  split; [exact Hn|]. split; [exact Hg|]. split; [apply Ht, Hin|]. split; [exact D1|]. split; [exact D2|].
  destruct Hr as [E|E]; [left; apply D3, E|right; exact E].
Qed.

Lemma map_fd_mkf7 x ds : map f_d (map (mkf7 x) ds) = ds.
Proof. rewrite map_map. cbn. apply map_id. Qed.

(* the healing schedule: A flushes; everything in flight is lost; A speaks, its datagrams arrive;
   B speaks, its datagrams arrive; A speaks once more, its datagrams arrive *)
Definition heal_schedule7 (na nb : nat) (dt1 : Z) (n1 : nat) (dt2 : Z) (n2 : nat) (dt3 : Z) (n3 : nat) : list llabel7 :=
  [L7App SA7 Op7Flush] ++ drops7 SA7 na ++ drops7 SB7 nb ++
  speak7 SA7 dt1 ++ drain7 SA7 n1 ++ speak7 SB7 dt2 ++ drain7 SB7 n2 ++ speak7 SA7 dt3 ++ drain7 SA7 n3.

Theorem heal_link7 w oa ob :
  link_inv7 w -> c7_state (l7_conn (k7_a w)) = Online7 oa -> c7_state (l7_conn (k7_b w)) = Online7 ob ->
  o_their oa = o_own ob -> o_their ob = o_own oa ->
  rand_ok7 {| e_now := k7_now w; e_rand := l7_rand (k7_a w) |} ->
  rand_ok7 {| e_now := k7_now w; e_rand := l7_rand (k7_b w) |} ->
  exists na nb dt1 n1 dt2 n2 dt3 n3 w' oa' ob',
    0 <= dt1 /\ 0 <= dt2 /\ 0 <= dt3 /\
    admissible_run7 w (heal_schedule7 na nb dt1 n1 dt2 n2 dt3 n3) /\
    link_run7 w (heal_schedule7 na nb dt1 n1 dt2 n2 dt3 n3) = Ok w' /\ link_inv7 w' /\
    l7_sub (k7_a w') = l7_sub (k7_a w) /\ l7_sub (k7_b w') = l7_sub (k7_b w) /\
    l7_del (k7_b w') = l7_sub (k7_a w') /\ l7_del (k7_a w') = l7_sub (k7_b w') /\
    c7_state (l7_conn (k7_a w')) = Online7 oa' /\ c7_state (l7_conn (k7_b w')) = Online7 ob' /\
    o_queue oa' = [] /\ o_queue ob' = [] /\
    pc_chunks (o_packet oa') = [] /\ pc_chunks (o_packet ob') = [] /\
    o_rr oa' = false /\ o_rr ob' = false /\ k7_ab w' = [] /\ k7_ba w' = [].
Proof.
  intros Hi Hoa Hob HtAB HtBA HrA HrB.
  set (toks := fun s => match s with SA7 => o_own oa | SB7 => o_own ob end).
  set (subs := fun s => l7_sub (get7 w s)). set (rnds := fun s => l7_rand (get7 w s)).
  assert (HrndA : forall now, rand_ok7 {| e_now := now; e_rand := rnds SA7 |}) by (intros now; exact HrA).
  assert (HrndB : forall now, rand_ok7 {| e_now := now; e_rand := rnds SB7 |}) by (intros now; exact HrB).
  pose proof (sv7_conn _ _ _ _ _ (linv_side7 w SA7 Hi)) as HcA. pose proof (sv7_conn _ _ _ _ _ (linv_side7 w SB7 Hi)) as HcB.
  cbn [get7] in HcA, HcB.
  assert (HokA : online_ok pp7 oa).
  { unfold conn_ok7 in HcA. rewrite Hoa in HcA. destruct HcA as [A _]. exact A. }
  assert (G0 : good7 w toks subs rnds).
  { split; [exact Hi|]. intros [|]; cbn [get7].
    - exists oa. split; [exact Hoa|]. split; [reflexivity|]. split; [exact HtAB|]. split; reflexivity.
    - exists ob. split; [exact Hob|]. split; [reflexivity|]. split; [exact HtBA|]. split; reflexivity. }
  (* A flushes *)
  assert (A0 : admissible7 w (L7App SA7 Op7Flush)).
  { cbn [admissible7 get7]. split; [exact I|]. split; [exists oa; exact Hoa|exact I]. }
  destruct (lapp_step7 w SA7 Op7Flush Hi A0) as [xa1 [fl0 [T0 [L0 I1]]]]. cbn [get7] in T0.
  destruct (flush_side7 _ _ oa xa1 fl0 Hoa T0) as [oa1 [ds0 [Ef0 [Hconn1 [_ [Es1 [Ed1 [En1 Er1]]]]]]]].
  destruct (flush_shape params7 oa oa1 ds0 Ef0 (pc_ok_count _ _ (proj1 HokA))) as [P1 [R1 [Q1 [_ [To1 [Tt1 _]]]]]].
  set (w1 := set_side7 w SA7 xa1 fl0) in *.
  assert (Hoa1 : c7_state (l7_conn (get7 w1 SA7)) = Online7 oa1) by (unfold w1; cbn [get7 set_side7 k7_a]; rewrite Hconn1; reflexivity).
  assert (G1 : good7 w1 toks subs rnds).
  { eapply (good_update7 w w1 toks subs rnds SA7); [exact G0|exact I1| |reflexivity].
    exists oa1. split; [exact Hoa1|]. unfold w1. cbn [get7 set_side7 k7_a]. unfold toks, subs, rnds. cbn [get7 other7].
    split; [congruence|]. split; [congruence|]. split; congruence. }
  (* everything in flight is lost *)
  destruct (drop_all7 SA7 _ w1 eq_refl I1) as [w2 [S2 [I2 [E2 [B2 [O2 N2]]]]]].
  destruct (drop_all7 SB7 _ w2 eq_refl I2) as [w3 [S3 [I3 [E3 [B3 [O3 N3]]]]]]. cbn [other7] in O2, O3.
  assert (E31 : forall t, get7 w3 t = get7 w1 t) by (intros t; rewrite E3, E2; reflexivity).
  assert (G3 : good7 w3 toks subs rnds) by (eapply good_same7; [exact G1|exact I3|exact E31]).
  assert (B3A : bag7 w3 SA7 = []) by (rewrite O3; exact B2).
  (* A speaks *)
  assert (Hoa3 : c7_state (l7_conn (get7 w3 SA7)) = Online7 oa1) by (rewrite E31; exact Hoa1).
  destruct (speak_link7 w3 SA7 toks subs rnds oa1 G3 Hoa3)
    as [w4 [dsA [oa2 [S4 [G4 [B4 [O4 [X4 [D4 [Hoa4 [P4 [R4 [Q4 [Ne4 [Dg4 [Ti4 [Ca4 _]]]]]]]]]]]]]]]]].
  cbn [other7] in O4, X4, Ca4. rewrite B3A in B4. cbn [app] in B4. rewrite B3 in O4.
  (* ... and is heard *)
  pose proof (proj1 G3) as I3'. pose proof (proj1 G4) as I4.
  assert (Hob4 : c7_state (l7_conn (get7 w4 SB7)) = Online7 ob).
  { rewrite X4, E31. unfold w1. cbn [get7 set_side7 k7_b]. exact Hob. }
  destruct (proj2 G3 SA7) as [oa3' [Hoa3' [_ [_ [HsubA3 _]]]]].
  destruct (proj2 G3 SB7) as [ob3' [Hob3' [_ [_ [HsubB3 _]]]]].
  assert (F4 : Forall (fl_ok7 (toks SB7) (zlen (subs SA7)) (zlen (subs SB7))) (map (mkf7 (get7 w3 SA7)) dsA)).
  { eapply fl_ok_map7; [rewrite HsubA3; reflexivity| |exact Dg4|exact Ti4|left; exact R1].
    pose proof (sv7_gap _ _ _ _ _ (linv_side7 w3 SB7 I3')) as Hg. cbn [other7] in Hg. rewrite HsubB3 in Hg. exact Hg. }
  destruct (drain_all7 SA7 toks subs rnds HrndB _ w4 ob G4 B4 F4 Hob4)
    as [w5 [ob5 [S5 [G5 [B5 [O5 [X5 [N5 [Hob5 [_ [Pk5 [Ak5 [_ [Qe5 _]]]]]]]]]]]]]].
  cbn [other7] in O5, Hob5. rewrite O4 in O5. rewrite map_fd_mkf7 in Ak5.
  pose proof (proj1 G5) as I5.
  destruct (proj2 G5 SA7) as [oa5' [Hoa5' [_ [_ [HsubA5 _]]]]].
  destruct (proj2 G5 SB7) as [ob5' [Hob5' [_ [_ [HsubB5 _]]]]].
  assert (Hoa5 : c7_state (l7_conn (get7 w5 SA7)) = Online7 oa2) by (rewrite X5; exact Hoa4).
  assert (DelB5 : l7_del (get7 w5 SB7) = l7_sub (get7 w5 SA7)).
  { destruct (o_queue oa1) as [|c0 q0] eqn:Eq.
    - apply (queue_empty_del7 w5 SA7 oa2 I5 Hoa5). apply Q4. reflexivity.
    - apply (ack_del7 w5 SA7 ob5 I5 Hob5). rewrite Ak5, HsubA5.
      destruct (sv7_online _ _ _ _ _ (linv_side7 w3 SB7 I3') ob) as [a [_ [_ Hk]]].
      { rewrite E31. unfold w1. cbn [get7 set_side7 k7_b]. exact Hob. }
      rewrite Hk. apply Ca4. discriminate. }
  (* B speaks *)
  destruct (speak_link7 w5 SB7 toks subs rnds ob5 G5 Hob5)
    as [w6 [dsB [ob6 [S6 [G6 [B6 [O6 [X6 [D6 [Hob6 [P6 [R6 [Q6 [Ne6 [Dg6 [Ti6 [Ca6 _]]]]]]]]]]]]]]]]].
  cbn [other7] in O6, X6, Ca6. rewrite O5 in B6. cbn [app] in B6. rewrite B5 in O6.
  pose proof (proj1 G6) as I6.
  assert (Hoa6 : c7_state (l7_conn (get7 w6 SA7)) = Online7 oa2) by (rewrite X6; exact Hoa5).
  assert (F6 : Forall (fl_ok7 (toks SA7) (zlen (subs SB7)) (zlen (subs SA7))) (map (mkf7 (get7 w5 SB7)) dsB)).
  { assert (Hz : zlen (l7_del (get7 w5 SB7)) = zlen (subs SA7)) by (rewrite DelB5, HsubA5; reflexivity).
    eapply fl_ok_map7; [rewrite HsubB5; reflexivity|rewrite Hz; lia|exact Dg6|exact Ti6|right; exact Hz]. }
  destruct (drain_all7 SB7 toks subs rnds HrndA _ w6 oa2 G6 B6 F6 Hoa6)
    as [w7 [oa7 [S7 [G7 [B7 [O7 [X7 [N7 [Hoa7 [_ [Pk7 [Ak7 [Qf7 [_ _]]]]]]]]]]]]]].
  cbn [other7] in O7, Hoa7. rewrite O6 in O7. rewrite map_fd_mkf7 in Ak7.
  pose proof (proj1 G7) as I7.
  destruct (proj2 G7 SA7) as [oa7' [Hoa7' [_ [_ [HsubA7 _]]]]].
  destruct (proj2 G7 SB7) as [ob7' [Hob7' [_ [_ [HsubB7 _]]]]].
  assert (Hob7 : c7_state (l7_conn (get7 w7 SB7)) = Online7 ob6) by (rewrite X7; exact Hob6).
  assert (Qa7 : o_queue oa7 = []).
  { apply Qf7.
    - intros E. apply map_eq_nil in E. exact (Ne6 E).
    - apply Forall_map, Forall_forall. intros d _. cbn [mkf7 f_c]. rewrite DelB5, HsubA5. reflexivity. }
  assert (DelA7 : l7_del (get7 w7 SA7) = l7_sub (get7 w7 SB7)).
  { destruct (o_queue ob5) as [|c0 q0] eqn:Eq.
    - apply (queue_empty_del7 w7 SB7 ob6 I7 Hob7). apply Q6. reflexivity.
    - apply (ack_del7 w7 SB7 oa7 I7 Hoa7). rewrite Ak7, HsubB7.
      destruct (sv7_online _ _ _ _ _ (linv_side7 w5 SA7 I5) oa2 Hoa5) as [a [_ [_ Hk]]].
      rewrite Hk. apply Ca6. discriminate. }
  (* A speaks once more: its acknowledgement reaches B *)
  destruct (speak_link7 w7 SA7 toks subs rnds oa7 G7 Hoa7)
    as [w8 [dsA2 [oa8 [S8 [G8 [B8 [O8 [X8 [D8 [Hoa8 [P8 [R8 [Q8 [Ne8 [Dg8 [Ti8 [_ Em8]]]]]]]]]]]]]]]]].
  cbn [other7] in O8, X8. rewrite O7 in B8. cbn [app] in B8. rewrite B7 in O8.
  pose proof (proj1 G8) as I8.
  assert (Hob8 : c7_state (l7_conn (get7 w8 SB7)) = Online7 ob6) by (rewrite X8; exact Hob7).
  assert (F8 : Forall (fl_ok7 (toks SB7) (zlen (subs SA7)) (zlen (subs SB7))) (map (mkf7 (get7 w7 SA7)) dsA2)).
  { assert (Hz : zlen (l7_del (get7 w7 SA7)) = zlen (subs SB7)) by (rewrite DelA7, HsubB7; reflexivity).
    eapply fl_ok_map7; [rewrite HsubA7; reflexivity|rewrite Hz; lia|exact Dg8|exact Ti8|right; exact Hz]. }
  destruct (drain_all7 SA7 toks subs rnds HrndB _ w8 ob6 G8 B8 F8 Hob8)
    as [w9 [ob9 [S9 [G9 [B9 [O9 [X9 [N9 [Hob9 [_ [Pk9 [_ [Qf9 [_ Rr9]]]]]]]]]]]]]].
  cbn [other7] in O9, Hob9. rewrite O8 in O9.
  pose proof (proj1 G9) as I9.
  destruct (proj2 G9 SA7) as [oa9' [Hoa9' [_ [_ [HsubA9 _]]]]].
  destruct (proj2 G9 SB7) as [ob9' [Hob9' [_ [_ [HsubB9 _]]]]].
  assert (Hoa9 : c7_state (l7_conn (get7 w9 SA7)) = Online7 oa8) by (rewrite X9; exact Hoa8).
  assert (Hem : Forall (fun d => dgram_chunks d = []) dsA2) by (apply Em8; [exact Qa7|rewrite Pk7; exact P4]).
  assert (Qb9 : o_queue ob9 = []).
  { apply Qf9.
    - intros E. apply map_eq_nil in E. exact (Ne8 E).
    - apply Forall_map, Forall_forall. intros d _. cbn [mkf7 f_c]. rewrite DelA7, HsubB7. reflexivity. }
  assert (Rb9 : o_rr ob9 = false).
  { rewrite Rr9; [exact R6|]. apply Forall_map. eapply Forall_impl; [|exact Hem]. intros d E. exact E. }
  exists (length (bag7 w1 SA7)), (length (bag7 w2 SB7)),
    (Z.max 0 (due7 (l7_conn (get7 w3 SA7)) - k7_now w3)), (length (map (mkf7 (get7 w3 SA7)) dsA)),
    (Z.max 0 (due7 (l7_conn (get7 w5 SB7)) - k7_now w5)), (length (map (mkf7 (get7 w5 SB7)) dsB)),
    (Z.max 0 (due7 (l7_conn (get7 w7 SA7)) - k7_now w7)), (length (map (mkf7 (get7 w7 SA7)) dsA2)),
    w9, oa8, ob9.
  split; [lia|]. split; [lia|]. split; [lia|].
  assert (Sall : sched7 w (heal_schedule7 (length (bag7 w1 SA7)) (length (bag7 w2 SB7))
    (Z.max 0 (due7 (l7_conn (get7 w3 SA7)) - k7_now w3)) (length (map (mkf7 (get7 w3 SA7)) dsA))
    (Z.max 0 (due7 (l7_conn (get7 w5 SB7)) - k7_now w5)) (length (map (mkf7 (get7 w5 SB7)) dsB))
    (Z.max 0 (due7 (l7_conn (get7 w7 SA7)) - k7_now w7)) (length (map (mkf7 (get7 w7 SA7)) dsA2))) w9).
  { unfold heal_schedule7.
    eapply sched_app7; [eapply sched_cons7; [exact A0|exact L0|apply sched_nil7]|].
    eapply sched_app7; [exact S2|]. eapply sched_app7; [exact S3|]. eapply sched_app7; [exact S4|].
    eapply sched_app7; [exact S5|]. eapply sched_app7; [exact S6|]. eapply sched_app7; [exact S7|].
    eapply sched_app7; [exact S8|exact S9]. }
  destruct Sall as [Sa Sr]. split; [exact Sa|]. split; [exact Sr|]. split; [exact I9|].
  change (k7_a w9) with (get7 w9 SA7). change (k7_b w9) with (get7 w9 SB7).
  change (k7_ab w9) with (bag7 w9 SA7). change (k7_ba w9) with (bag7 w9 SB7).
  split; [exact HsubA9|]. split; [exact HsubB9|].
  split; [exact (queue_empty_del7 w9 SA7 oa8 I9 Hoa9 (Q8 Qa7))|].
  split; [exact (queue_empty_del7 w9 SB7 ob9 I9 Hob9 Qb9)|].
  split; [exact Hoa9|]. split; [exact Hob9|]. split; [exact (Q8 Qa7)|]. split; [exact Qb9|].
  split; [exact P8|]. split; [rewrite Pk9; exact P6|]. split; [exact R8|]. split; [exact Rb9|].
  split; [exact B9|exact O9].
Qed.

(* ---------- the shape of the schedule ---------- *)
Definition is_tick7 (l : llabel7) : bool := match l with L7App _ Op7Tick => true | _ => false end.
Definition ticks7 (ls : list llabel7) : nat := length (filter is_tick7 ls).

Lemma ticks_app7 a b : ticks7 (a ++ b) = (ticks7 a + ticks7 b)%nat.
Proof. unfold ticks7. rewrite filter_app, app_length. reflexivity. Qed.
Lemma ticks_drops7 s n : ticks7 (drops7 s n) = 0%nat.
Proof. induction n as [|n IH]; [reflexivity|exact IH]. Qed.
Lemma ticks_drain7 s n : ticks7 (drain7 s n) = 0%nat.
Proof. induction n as [|n IH]; [reflexivity|exact IH]. Qed.

Lemma ticks_heal7 na nb dt1 n1 dt2 n2 dt3 n3 : ticks7 (heal_schedule7 na nb dt1 n1 dt2 n2 dt3 n3) = 3%nat.
Proof.
  unfold heal_schedule7. rewrite !ticks_app7, !ticks_drops7, !ticks_drain7. reflexivity.
Qed.

(* the applications only tick and flush, time does not run backwards *)
Definition heal_label7 (l : llabel7) : Prop :=
  match l with
  | L7App _ Op7Tick | L7App _ Op7Flush => True
  | L7App _ _ => False
  | L7Time dt => 0 <= dt
  | L7Deliver _ _ | L7Drop _ _ => True
  end.

Lemma heal_labels7 na nb dt1 n1 dt2 n2 dt3 n3 : 0 <= dt1 -> 0 <= dt2 -> 0 <= dt3 ->
  Forall heal_label7 (heal_schedule7 na nb dt1 n1 dt2 n2 dt3 n3).
Proof.
  intros H1 H2 H3.
  assert (Hd : forall s n, Forall heal_label7 (drops7 s n)).
  { intros s n. induction n as [|n IH]; [constructor|]. constructor; [exact I|exact IH]. }
  assert (Hr : forall s n, Forall heal_label7 (drain7 s n)).
  { intros s n. induction n as [|n IH]; [constructor|]. constructor; [exact I|]. constructor; [exact I|exact IH]. }
  assert (Hs : forall s dt, 0 <= dt -> Forall heal_label7 (speak7 s dt)).
  { intros s dt H. repeat constructor. exact H. }
  unfold heal_schedule7. repeat (apply Forall_app; split); auto. repeat constructor.
Qed.

(* network losses happen only in the prefix; afterwards a datagram leaves the network only by being
   delivered: every L7Drop of the second part directly follows the L7Deliver of the same datagram *)
Fixpoint orderly7 (ls : list llabel7) : Prop :=
  match ls with
  | [] => True
  | L7Deliver s O :: L7Drop s' O :: r => s = s' /\ orderly7 r
  | L7Deliver _ _ :: _ => False
  | L7Drop _ _ :: _ => False
  | _ :: r => orderly7 r
  end.

Lemma orderly_app_aux7 n : forall a b, (length a <= n)%nat -> orderly7 a -> orderly7 b -> orderly7 (a ++ b).
Proof.
  induction n as [|n IH]; intros a b Hl Ha Hb; (destruct a as [|l a]; [exact Hb|]); cbn [length] in Hl; [lia|].
  destruct l as [s o|dt|s k|s k]; cbn [app orderly7] in *.
  - apply IH; [lia|exact Ha|exact Hb].
  - apply IH; [lia|exact Ha|exact Hb].
  - destruct k; [|contradiction]. destruct a as [|l2 a]; [contradiction|].
    destruct l2 as [s2 o2|dt2|s2 k2|s2 k2]; try contradiction. destruct k2; [|contradiction].
    destruct Ha as [E Ha]. cbn [app length] in *. split; [exact E|]. apply IH; [lia|exact Ha|exact Hb].
  - contradiction.
Qed.

Lemma orderly_app7 a b : orderly7 a -> orderly7 b -> orderly7 (a ++ b).
Proof. apply (orderly_app_aux7 (length a)). lia. Qed.

Lemma orderly_drain7 s n : orderly7 (drain7 s n).
Proof. induction n as [|n IH]; [exact I|]. cbn. split; [reflexivity|exact IH]. Qed.

Lemma heal_schedule_shape7 na nb dt1 n1 dt2 n2 dt3 n3 :
  exists post, heal_schedule7 na nb dt1 n1 dt2 n2 dt3 n3 = [L7App SA7 Op7Flush] ++ drops7 SA7 na ++ drops7 SB7 nb ++ post /\
               orderly7 post.
Proof.
  eexists. split; [reflexivity|].
  repeat (apply orderly_app7; [first [apply orderly_drain7 | exact I]|]). apply orderly_drain7.
Qed.

(* C14: string_from_int / int_from_string — printing an i32 in decimal and parsing it back *)
From LibTw2 Require Import Base.Res Model.Varint Model.Packer Model.Codec.
From Coq Require Import ZArith Lia Bool List ZifyBool.
Open Scope Z_scope.

Lemma parse_digits_app neg : forall s1 acc s2,
  parse_digits neg acc (s1 ++ s2) =
  match parse_digits neg acc s1 with Some a => parse_digits neg a s2 | None => None end.
Proof.
  induction s1 as [|d s1 IH]; intros acc s2; cbn [app parse_digits]; [reflexivity|].
  destruct (is_digit d); [|reflexivity].
  destruct (is_i32 _); [apply IH|reflexivity].
Qed.

Definition dig_ok (s : bytes) : bool := forallb is_digit s.

Lemma digits_of_ok fuel : forall n, 0 <= n -> dig_ok (digits_of fuel n) = true.
Proof.
  induction fuel as [|f IH]; intros n Hn; cbn [digits_of]; [reflexivity|].
  destruct (n <? 10) eqn:E.
  - unfold dig_ok. cbn [forallb]. unfold is_digit. lia.
  - unfold dig_ok. rewrite forallb_app. fold (dig_ok (digits_of f (n / 10))).
    rewrite IH by (apply Z.div_pos; lia). cbn [forallb andb]. unfold is_digit.
    pose proof (Z.mod_pos_bound n 10). lia.
Qed.

Lemma digits_of_nonempty fuel n : digits_of (S fuel) n <> [].
Proof.
  cbn [digits_of]. destruct (n <? 10); [discriminate|].
  intros H. apply app_eq_nil in H as [_ H]. discriminate.
Qed.

(* parsing the digits of n on top of an accumulator 0: positive direction *)
Lemma parse_digits_pos fuel : forall n, 0 <= n < 10 ^ Z.of_nat fuel -> n <= i32_max ->
  parse_digits false 0 (digits_of fuel n) = Some n.
Proof.
  induction fuel as [|f IH]; intros n Hn Hm.
  - cbn in Hn. assert (n = 0) by lia. subst. reflexivity.
  - cbn [digits_of]. destruct (n <? 10) eqn:E.
    + cbn [parse_digits]. unfold is_digit.
      replace ((48 <=? 48 + n) && (48 + n <=? 57)) with true by lia.
      replace (0 * 10 + (48 + n - 48)) with n by lia.
      unfold is_i32, i32_min, i32_max in *. replace ((-2147483648 <=? n) && (n <=? 2147483647)) with true by lia.
      reflexivity.
    + rewrite parse_digits_app.
      rewrite Nat2Z.inj_succ, Z.pow_succ_r in Hn by lia.
      rewrite IH.
      * cbn [parse_digits]. unfold is_digit.
        pose proof (Z.mod_pos_bound n 10).
        replace ((48 <=? 48 + n mod 10) && (48 + n mod 10 <=? 57)) with true by lia.
        replace (n / 10 * 10 + (48 + n mod 10 - 48)) with n by (pose proof (Z.div_mod n 10); lia).
        unfold is_i32, i32_min, i32_max in *. replace ((-2147483648 <=? n) && (n <=? 2147483647)) with true by lia.
        reflexivity.
      * split; [apply Z.div_pos; lia|]. apply Z.div_lt_upper_bound; lia.
      * unfold i32_max in *. assert (n / 10 <= n) by (apply Z.div_le_upper_bound; lia). lia.
Qed.

(* negative direction: the accumulator runs through -(prefix) *)
Lemma parse_digits_neg fuel : forall n, 0 <= n < 10 ^ Z.of_nat fuel -> n <= - i32_min ->
  parse_digits true 0 (digits_of fuel n) = Some (- n).
Proof.
  induction fuel as [|f IH]; intros n Hn Hm.
  - cbn in Hn. assert (n = 0) by lia. subst. reflexivity.
  - cbn [digits_of]. destruct (n <? 10) eqn:E.
    + cbn [parse_digits]. unfold is_digit.
      replace ((48 <=? 48 + n) && (48 + n <=? 57)) with true by lia.
      replace (0 * 10 - (48 + n - 48)) with (- n) by lia.
      unfold is_i32, i32_min, i32_max in *. replace ((-2147483648 <=? - n) && (- n <=? 2147483647)) with true by lia.
      reflexivity.
    + rewrite parse_digits_app.
      rewrite Nat2Z.inj_succ, Z.pow_succ_r in Hn by lia.
      rewrite IH.
      * cbn [parse_digits]. unfold is_digit.
        pose proof (Z.mod_pos_bound n 10).
        replace ((48 <=? 48 + n mod 10) && (48 + n mod 10 <=? 57)) with true by lia.
        replace (- (n / 10) * 10 - (48 + n mod 10 - 48)) with (- n) by (pose proof (Z.div_mod n 10); lia).
        unfold is_i32, i32_min, i32_max in *. replace ((-2147483648 <=? - n) && (- n <=? 2147483647)) with true by lia.
        reflexivity.
      * split; [apply Z.div_pos; lia|]. apply Z.div_lt_upper_bound; lia.
      * unfold i32_min in *. assert (n / 10 <= n) by (apply Z.div_le_upper_bound; lia). lia.
Qed.

Lemma dig_ok_first s d s' : dig_ok s = true -> s = d :: s' -> (d =? 43) = false /\ (d =? 45) = false.
Proof. intros H ->. cbn in H. apply andb_true_iff in H as [H _]. unfold is_digit in H. lia. Qed.

Theorem parse_print_int v : is_i32 v = true -> parse_int (print_int v) = Some v.
Proof.
  unfold is_i32, i32_min, i32_max. intros Hv. unfold print_int.
  destruct (v <? 0) eqn:E.
  - unfold parse_int. replace (45 =? 43) with false by reflexivity. replace (45 =? 45) with true by reflexivity.
    pose proof (digits_of_nonempty 9 (- v)) as Hne.
    destruct (digits_of 10 (- v)) eqn:Ed; [exfalso; apply Hne; reflexivity|].
    rewrite <- Ed. rewrite parse_digits_neg; [f_equal; lia| |unfold i32_min; lia].
    change (Z.of_nat 10) with 10. lia.
  - pose proof (digits_of_nonempty 9 v) as Hne.
    pose proof (digits_of_ok 10 v ltac:(lia)) as Hok.
    unfold parse_int. destruct (digits_of 10 v) as [|d s'] eqn:Ed; [exfalso; apply Hne; reflexivity|].
    destruct (dig_ok_first _ _ _ Hok eq_refl) as [H1 H2]. rewrite H1, H2.
    rewrite <- Ed. apply parse_digits_pos; [|unfold i32_max; lia].
    change (Z.of_nat 10) with 10. lia.
Qed.

Lemma dig_ok_str s : dig_ok s = true -> has_nul s = false /\ bytes_ok s = true /\ has_cc s = false.
Proof.
  induction s as [|d s IH]; cbn; intros H; [repeat split|].
  apply andb_true_iff in H as [Hd Hs]. destruct (IH Hs) as [H1 [H2 H3]].
  unfold has_nul in H1. unfold bytes_ok in H2. unfold has_cc in H3. rewrite H1, H2, H3.
  unfold is_digit in Hd. unfold byte_ok. repeat split; lia.
Qed.

Lemma print_int_str v : has_nul (print_int v) = false /\ bytes_ok (print_int v) = true.
Proof.
  unfold print_int. destruct (v <? 0) eqn:E.
  - destruct (dig_ok_str _ (digits_of_ok 10 (- v) ltac:(lia))) as [H1 [H2 _]].
    unfold has_nul, bytes_ok in *. cbn [existsb forallb]. rewrite H1, H2. split; reflexivity.
  - destruct (dig_ok_str _ (digits_of_ok 10 v ltac:(lia))) as [H1 [H2 _]]. split; assumption.
Qed.

(* 0.6: every valid API call and every datagram the reader can produce keeps the
   connection inside its invariant; no call panics or fails to return; every emitted
   datagram is well-formed; while the endpoint is mid-handshake or online a deadline
   is reported. *)
From LibTw2 Require Import Base.Res Model.PacketTypes Model.ConnCore Model.Conn6 Proofs.ConnCoreInv.
From Coq Require Import ZArith Lia Bool List.
Open Scope Z_scope.

Notation pp6 := params6.
Lemma pp6_ok : pp_ok pp6. Proof. left; reflexivity. Qed.

Definition conn_ok6 (c : conn6) : Prop :=
  match c_state c with
  | Online o => online_ok pp6 o /\ o_own o = o_their o /\ tok_ok (o_their o) /\ c_send c <> None
  | Pending t => tok_ok t /\ c_send c <> None
  | Connecting => c_send c <> None
  | Unconnected | Disconnected => True
  end.

(* what Packet::read can hand to feed *)
Definition dgram_in_ok (d : dgram) : Prop :=
  match d with
  | DConnless _ _ _ => True
  | DControl tok ack _ => tok_ok tok /\ 0 <= ack < SEQ_MOD
  | DChunks tok ack _ _ cs => tok_ok tok /\ 0 <= ack < SEQ_MOD /\ Forall chunk_in_ok cs
  end.

Definition rand_ok (e : env) : Prop :=
  Forall (fun t => length t = 4%nat) (e_rand e) /\ exists t r, token_random (e_rand e) = Ok (t, r).

(* the API contract read off the code's own asserts *)
Definition valid_op6 (c : conn6) (e : env) (o : op) : Prop :=
  match o with
  | OpConnect => c_state c = Unconnected
  | OpSend _ _ | OpFlush | OpSendConnless _ => exists on, c_state c = Online on
  | OpDisconnect r =>
    c_state c <> Unconnected /\ c_state c <> Disconnected /\
    existsb (fun b => b =? 0) r = false /\ (length r <= 127)%nat
  | OpTick | OpFeedGarbage => True
  | OpFeed d => dgram_in_ok d /\ rand_ok e
  | OpReset => c_state c = Disconnected
  end.

Lemma token_random_len rnd t r : Forall (fun t => length t = 4%nat) rnd ->
  token_random rnd = Ok (t, r) -> length t = 4%nat.
Proof.
  induction rnd as [|x rnd IH]; cbn [token_random]; intros Hall H; [discriminate|].
  inversion Hall; subst.
  destruct (list_eq_dec Z.eq_dec x TOKEN_NONE); [apply IH; assumption|].
  destruct (list_eq_dec Z.eq_dec x TOKEN_RESERVED); [apply IH; assumption|].
  injection H as <- <-. assumption.
Qed.

Lemma control_small tok c : tok_ok tok ->
  match c with Close r => (length r <= 127)%nat | _ => True end ->
  control_size pp6 tok c <= MAX_PACKETSIZE.
Proof.
  intros _ Hc. unfold control_size, pp6, params6, MAX_PACKETSIZE, tok_size6. cbn [p_v7].
  destruct c; destruct tok; lia.
Qed.

Lemma send_control_ok st c :
  st <> Unconnected -> st <> Disconnected ->
  match st with Online o => online_ok pp6 o /\ tok_ok (o_their o) | Pending t => tok_ok t | _ => True end ->
  match c with Close r => (length r <= 127)%nat /\ existsb (fun b => b =? 0) r = false | _ => True end ->
  exists ds, send_control st c = Ok ds /\ Forall (dgram_ok pp6) ds.
Proof.
  intros H1 H2 Hst Hc. unfold send_control.
  assert (Hsmall : forall tok, tok_ok tok -> (MAX_PACKETSIZE <? control_size pp6 tok c) = false).
  { intros tok Ht. pose proof (control_small tok c Ht) as Hs.
    assert (match c with Close r => (length r <= 127)%nat | _ => True end) by (destruct c; try exact I; apply Hc).
    specialize (Hs H). lia. }
  assert (Hclose : match c with Close r => forallb (fun b => negb (b =? 0)) r = true /\ (length r <= 127)%nat | _ => True end).
  { destruct c; try exact I. destruct Hc as [Hl Hn]. split; [|exact Hl]. clear -Hn.
    induction reason as [|b r IH]; [reflexivity|]. cbn [existsb forallb] in *.
    apply orb_false_iff in Hn as [Hb Hr]. rewrite Hb, (IH Hr). reflexivity. }
  destruct st as [| |t|o|]; try contradiction.
  - rewrite Hsmall by reflexivity. eexists. split; [reflexivity|]. constructor; [|constructor].
    unfold dgram_ok. split; [reflexivity|]. split; [unfold SEQ_MOD; lia|]. split; [|exact Hclose].
    pose proof (Hsmall (Some TOKEN_NONE) eq_refl). lia.
  - rewrite Hsmall by exact Hst. eexists. split; [reflexivity|]. constructor; [|constructor].
    unfold dgram_ok. split; [exact Hst|]. split; [unfold SEQ_MOD; lia|]. split; [|exact Hclose].
    pose proof (Hsmall t Hst). lia.
  - destruct Hst as [Hon Ht]. rewrite Hsmall by exact Ht. eexists. split; [reflexivity|].
    constructor; [|constructor]. unfold dgram_ok. destruct Hon as [_ [_ [_ [_ [_ [Ha _]]]]]].
    split; [exact Ht|]. split; [exact Ha|]. split; [|exact Hclose]. pose proof (Hsmall _ Ht). lia.
Qed.

Lemma tick_action_ok c e :
  conn_ok6 c \/ (match c_state c with
                 | Online o => online_ok pp6 o /\ o_own o = o_their o /\ tok_ok (o_their o)
                 | Pending t => tok_ok t | _ => True end) ->
  exists out, tick_action c e = Ok out /\ conn_ok6 (out_conn out) /\ Forall (dgram_ok pp6) (out_sent out)
              /\ out_env out = e.
Proof.
  intros Hc.
  assert (Hst : match c_state c with
                | Online o => online_ok pp6 o /\ o_own o = o_their o /\ tok_ok (o_their o)
                | Pending t => tok_ok t | _ => True end).
  { destruct Hc as [Hc|Hc]; [|exact Hc]. unfold conn_ok6 in Hc. destruct (c_state c); tauto. }
  clear Hc. unfold tick_action. destruct (c_state c) as [| |t|o|] eqn:Es.
  - eexists. split; [reflexivity|]. cbn. unfold conn_ok6. cbn. rewrite Es. repeat split; constructor.
  - destruct (send_control_ok Connecting (Connect None)) as [ds [Hs Hds]]; try discriminate; try exact I.
    rewrite Hs. cbn [bind]. eexists. split; [reflexivity|]. cbn. unfold conn_ok6. cbn.
    repeat split; try assumption; discriminate.
  - destruct (send_control_ok (Pending t) ConnectAccept) as [ds [Hs Hds]]; try discriminate; try exact I; try exact Hst.
    rewrite Hs. cbn [bind]. eexists. split; [reflexivity|]. cbn. unfold conn_ok6. cbn.
    repeat split; try assumption; discriminate.
  - destruct Hst as [Hon [Heq Ht]]. destruct (can_send o) eqn:Ecs.
    + destruct (online_flush_ok pp6 o pp6_ok Hon Ht) as [o' [ds [Hf [Hok' [Hds [_ [_ [_ [Ho [Hth _]]]]]]]]]].
      rewrite Hf. cbn [bind]. eexists. split; [reflexivity|]. cbn. unfold conn_ok6. cbn.
      split; [|split; [exact Hds|reflexivity]]. split; [exact Hok'|]. split; [congruence|]. split; [congruence|discriminate].
    + destruct (send_control_ok (Online o) KeepAlive) as [ds [Hs Hds]]; try discriminate; try exact I; [split; assumption|].
      rewrite Hs. cbn [bind]. eexists. split; [reflexivity|]. cbn. unfold conn_ok6. cbn.
      split; [|split; [exact Hds|reflexivity]]. split; [exact Hon|]. split; [exact Heq|]. split; [exact Ht|discriminate].
  - eexists. split; [reflexivity|]. cbn. unfold conn_ok6. cbn. rewrite Es. repeat split; constructor.
Qed.

Lemma do_resend_ok c e o :
  online_ok pp6 o -> o_own o = o_their o -> tok_ok (o_their o) -> c_send c <> None ->
  exists c' ds, do_resend c e o = Ok (c', ds) /\ conn_ok6 c' /\ Forall (dgram_ok pp6) ds /\
    exists o', c_state c' = Online o'.
Proof.
  intros Hon Heq Ht Hs. unfold do_resend.
  destruct (online_resend_ok pp6 (e_now e) o pp6_ok Hon Ht) as [o' [ds [ts [Hr [Hok' [Hds [Ho [Hth _]]]]]]]].
  rewrite Hr. cbn [bind]. eexists _, _. split; [reflexivity|]. split.
  - unfold conn_ok6. cbn. split; [exact Hok'|]. split; [congruence|]. split; [congruence|].
    destruct ts; [discriminate|exact Hs].
  - split; [exact Hds|]. eexists; reflexivity.
Qed.

Theorem feed_ok6 c e d :
  conn_ok6 c -> dgram_in_ok d -> rand_ok e ->
  exists out, feed c e d = Ok out /\ conn_ok6 (out_conn out) /\ Forall (dgram_ok pp6) (out_sent out).
Proof.
  intros Hc Hd [Hrl [rt [rr' Hrnd]]].
  destruct d as [tk rs pl|tk ack ctl|tk ack rr n cs].
  { eexists. split; [reflexivity|]. cbn. split; [exact Hc|constructor]. }
  - (* control *)
    destruct Hd as [Htk Hack]. unfold feed. cbn [dgram_tok dgram_ack].
    destruct (match state_token (c_state c) with Some expected => negb (tok_eqb tk expected) | None => false end).
    { eexists. split; [reflexivity|]. cbn. split; [exact Hc|constructor]. }
    replace ((ack <? 0) || (SEQ_MOD <=? ack)) with false by lia.
    (* the state after ack_chunks *)
    set (st1 := match c_state c with Online o => Online (ack_chunks o ack) | s => s end).
    assert (Hc1 : conn_ok6 {| c_state := st1; c_send := c_send c |}).
    { unfold conn_ok6, st1 in *. cbn. destruct (c_state c) as [| |t|o|]; try exact Hc.
      destruct Hc as [Hon [Heq [Ht Hs]]]. destruct (ack_chunks_toks o ack) as [E1 E2].
      split; [apply ack_chunks_ok, Hon|]. split; [congruence|]. split; [congruence|exact Hs]. }
    destruct ctl as [|resp| | |reason|resp].
    + eexists. split; [reflexivity|]. cbn. split; [exact Hc1|constructor].
    + (* Connect *)
      destruct st1 as [| |t|o|] eqn:Est; try (eexists; split; [reflexivity|]; cbn; split; [exact Hc1|constructor]).
      destruct tk as [tk|].
      * destruct (list_eq_dec Z.eq_dec tk TOKEN_NONE).
        -- rewrite Hrnd. cbn [bind].
           destruct (tick_action_ok {| c_state := Pending (Some rt); c_send := c_send c |}
                       {| e_now := e_now e; e_rand := rr' |}) as [out [Ho [Hok [Hds _]]]].
           { right. cbn. eapply token_random_len; eassumption. }
           exists out. split; [exact Ho|]. split; assumption.
        -- eexists. split; [reflexivity|]. cbn. split; [exact Hc1|constructor].
      * destruct (tick_action_ok {| c_state := Pending None; c_send := c_send c |} e) as [out [Ho [Hok [Hds _]]]].
        { right. cbn. exact I. }
        exists out. split; [exact Ho|]. split; assumption.
    + (* ConnectAccept *)
      destruct st1 as [| |t|o|] eqn:Est; try (eexists; split; [reflexivity|]; cbn; split; [exact Hc1|constructor]).
      assert (Hon : online_ok pp6 (online_new tk tk)) by (apply online_new_ok, pp6_ok).
      destruct (send_control_ok (Online (online_new tk tk)) Accept) as [ds [Hs Hds]]; try discriminate; try exact I.
      { split; [exact Hon|exact Htk]. }
      rewrite Hs. cbn [bind]. eexists. split; [reflexivity|]. cbn. split; [|exact Hds].
      unfold conn_ok6. cbn. split; [exact Hon|]. split; [reflexivity|]. split; [exact Htk|].
      unfold conn_ok6 in Hc1. cbn in Hc1. exact Hc1.
    + eexists. split; [reflexivity|]. cbn. split; [exact Hc1|constructor].
    + eexists. split; [reflexivity|]. cbn. split; [exact I|constructor].
    + eexists. split; [reflexivity|]. cbn. split; [exact Hc1|constructor].
  - (* chunks *)
    destruct Hd as [Htk [Hack Hcs]]. unfold feed. cbn [dgram_tok dgram_ack].
    destruct (match state_token (c_state c) with Some expected => negb (tok_eqb tk expected) | None => false end).
    { eexists. split; [reflexivity|]. cbn. split; [exact Hc|constructor]. }
    replace ((ack <? 0) || (SEQ_MOD <=? ack)) with false by lia.
    destruct (c_state c) as [| |t|o|] eqn:Es.
    + eexists. split; [reflexivity|]. cbn. split; [unfold conn_ok6; cbn; exact I|constructor].
    + eexists. split; [reflexivity|]. cbn. split; [unfold conn_ok6 in *; rewrite Es in Hc; cbn; exact Hc|constructor].
    + (* Pending -> Online *)
      unfold conn_ok6 in Hc. rewrite Es in Hc. destruct Hc as [Ht Hs].
      cbn [c_state].
      assert (Hon : online_ok pp6 (online_new t t)) by (apply online_new_ok, pp6_ok).
      assert (Hrs : exists c3 sent, (if rr then do_resend {| c_state := Online (online_new t t); c_send := c_send c |} e (online_new t t)
                                     else Ok ({| c_state := Online (online_new t t); c_send := c_send c |}, [])) = Ok (c3, sent)
                     /\ conn_ok6 c3 /\ Forall (dgram_ok pp6) sent /\ exists o3, c_state c3 = Online o3).
      { destruct rr.
        - destruct (do_resend_ok {| c_state := Online (online_new t t); c_send := c_send c |} e (online_new t t) Hon eq_refl Ht Hs)
            as [c3 [ds [H1 [H2 [H3 H4]]]]]. exists c3, ds. repeat split; assumption.
        - eexists _, _. split; [reflexivity|]. split; [|split; [constructor|eexists; reflexivity]].
          unfold conn_ok6. cbn. split; [exact Hon|]. split; [reflexivity|]. split; [exact Ht|exact Hs]. }
      destruct Hrs as [c3 [sent [Hr [Hc3 [Hsent [o3 Ho3]]]]]]. rewrite Hr. cbn [bind]. rewrite Ho3.
      unfold conn_ok6 in Hc3. rewrite Ho3 in Hc3. destruct Hc3 as [Hon3 [Heq3 [Ht3 Hs3]]].
      destruct (recv_chunks_ok cs (o_ack o3) (o_rr o3)) as [a' [r' [evs [Hrc Ha']]]];
        [destruct Hon3 as [_ [_ [_ [_ [_ [Ha _]]]]]]; exact Ha|exact Hcs|].
      rewrite Hrc. cbn [bind]. eexists. split; [reflexivity|]. cbn. split; [|exact Hsent].
      unfold conn_ok6. cbn. split; [apply o_set_ack_ok; assumption|]. split; [exact Heq3|]. split; [exact Ht3|exact Hs3].
    + (* Online *)
      unfold conn_ok6 in Hc. rewrite Es in Hc. destruct Hc as [Hon [Heq [Ht Hs]]].
      cbn [c_state].
      destruct (ack_chunks_toks o ack) as [E1 E2].
      assert (Hon1 : online_ok pp6 (ack_chunks o ack)) by (apply ack_chunks_ok, Hon).
      assert (Hrs : exists c3 sent, (if rr then do_resend {| c_state := Online (ack_chunks o ack); c_send := c_send c |} e (ack_chunks o ack)
                                     else Ok ({| c_state := Online (ack_chunks o ack); c_send := c_send c |}, [])) = Ok (c3, sent)
                     /\ conn_ok6 c3 /\ Forall (dgram_ok pp6) sent /\ exists o3, c_state c3 = Online o3).
      { destruct rr.
        - assert (Heq1 : o_own (ack_chunks o ack) = o_their (ack_chunks o ack)) by congruence.
          assert (Ht1 : tok_ok (o_their (ack_chunks o ack))) by (rewrite E2; exact Ht).
          destruct (do_resend_ok {| c_state := Online (ack_chunks o ack); c_send := c_send c |} e (ack_chunks o ack)
                      Hon1 Heq1 Ht1 Hs) as [c3 [ds [H1 [H2 [H3 H4]]]]].
          exists c3, ds. repeat split; assumption.
        - eexists _, _. split; [reflexivity|]. split; [|split; [constructor|eexists; reflexivity]].
          unfold conn_ok6. cbn. split; [exact Hon1|]. split; [congruence|]. split; [congruence|exact Hs]. }
      destruct Hrs as [c3 [sent [Hr [Hc3 [Hsent [o3 Ho3]]]]]]. rewrite Hr. cbn [bind]. rewrite Ho3.
      unfold conn_ok6 in Hc3. rewrite Ho3 in Hc3. destruct Hc3 as [Hon3 [Heq3 [Ht3 Hs3]]].
      destruct (recv_chunks_ok cs (o_ack o3) (o_rr o3)) as [a' [r' [evs [Hrc Ha']]]];
        [destruct Hon3 as [_ [_ [_ [_ [_ [Ha _]]]]]]; exact Ha|exact Hcs|].
      rewrite Hrc. cbn [bind]. eexists. split; [reflexivity|]. cbn. split; [|exact Hsent].
      unfold conn_ok6. cbn. split; [apply o_set_ack_ok; assumption|]. split; [exact Heq3|]. split; [exact Ht3|exact Hs3].
    + eexists. split; [reflexivity|]. cbn. split; [unfold conn_ok6; cbn; exact I|constructor].
Qed.

Theorem step_ok6 c e o :
  conn_ok6 c -> valid_op6 c e o ->
  exists out, step c e o = Ok out /\ conn_ok6 (out_conn out) /\ Forall (dgram_ok pp6) (out_sent out).
Proof.
  intros Hc Hv. destruct o as [|data vital| | |reason|data|d| |]; cbn [valid_op6] in Hv; unfold step.
  - (* connect *)
    rewrite Hv.
    destruct (tick_action_ok {| c_state := Connecting; c_send := c_send c |} e) as [out [Ho [Hok [Hds _]]]].
    { right. cbn. exact I. }
    exists out. split; [exact Ho|]. split; assumption.
  - (* send *)
    destruct Hv as [on Hon]. rewrite Hon. unfold conn_ok6 in Hc. rewrite Hon in Hc.
    destruct Hc as [Hok [Heq [Ht Hs]]].
    destruct (online_send_ok pp6 (e_now e) on data vital pp6_ok Hok Ht) as [o' [ds [r [Hsd [Hok' [Hds [Ho [Hth _]]]]]]]].
    rewrite Hsd. cbn [bind]. eexists. split; [reflexivity|]. cbn. split; [|exact Hds].
    unfold conn_ok6. cbn. split; [exact Hok'|]. split; [congruence|]. split; [congruence|exact Hs].
  - (* flush *)
    destruct Hv as [on Hon]. rewrite Hon. unfold conn_ok6 in Hc. rewrite Hon in Hc.
    destruct Hc as [Hok [Heq [Ht Hs]]].
    destruct (online_flush_ok pp6 on pp6_ok Hok Ht) as [o' [ds [Hf [Hok' [Hds [_ [_ [_ [Ho [Hth _]]]]]]]]]].
    rewrite Hf. cbn [bind]. eexists. split; [reflexivity|]. cbn. split; [|exact Hds].
    unfold conn_ok6. cbn. split; [exact Hok'|]. split; [congruence|]. split; [congruence|discriminate].
  - (* tick *)
    destruct (match c_state c with
              | Online o => match queue_back (o_queue o) with Some rc => triggered (rc_next rc) (e_now e) | None => false end
              | _ => false end) eqn:Ers.
    + destruct (c_state c) as [| |t|on|] eqn:Es; try discriminate Ers.
      unfold conn_ok6 in Hc. rewrite Es in Hc. destruct Hc as [Hok [Heq [Ht Hs]]].
      destruct (do_resend_ok c e on Hok Heq Ht Hs) as [c' [ds [Hr [Hc' [Hds _]]]]].
      rewrite Hr. cbn [bind]. eexists. split; [reflexivity|]. cbn. split; assumption.
    + destruct (triggered (c_send c) (e_now e)).
      * destruct (tick_action_ok {| c_state := c_state c; c_send := None |} e) as [out [Ho [Hok [Hds _]]]].
        { right. cbn. unfold conn_ok6 in Hc. destruct (c_state c); tauto. }
        exists out. split; [exact Ho|]. split; assumption.
      * eexists. split; [reflexivity|]. cbn. split; [exact Hc|constructor].
  - (* disconnect *)
    destruct Hv as [H1 [H2 [Hn Hl]]].
    destruct (c_state c) as [| |t|on|] eqn:Es; try contradiction.
    + rewrite Hn.
      destruct (send_control_ok Connecting (Close reason)) as [ds [Hsc Hds]]; try discriminate; try exact I; [split; assumption|].
      rewrite Hsc. cbn [bind]. eexists. split; [reflexivity|]. cbn. split; [exact I|exact Hds].
    + rewrite Hn. unfold conn_ok6 in Hc. rewrite Es in Hc.
      destruct (send_control_ok (Pending t) (Close reason)) as [ds [Hsc Hds]]; try discriminate; [apply Hc|split; assumption|].
      rewrite Hsc. cbn [bind]. eexists. split; [reflexivity|]. cbn. split; [exact I|exact Hds].
    + rewrite Hn. unfold conn_ok6 in Hc. rewrite Es in Hc. destruct Hc as [Hok [Heq [Ht Hs]]].
      destruct (send_control_ok (Online on) (Close reason)) as [ds [Hsc Hds]]; try discriminate; [split; assumption|split; assumption|].
      rewrite Hsc. cbn [bind]. eexists. split; [reflexivity|]. cbn. split; [exact I|exact Hds].
  - (* connless *)
    destruct Hv as [on Hon]. rewrite Hon. unfold conn_ok6 in Hc. rewrite Hon in Hc.
    destruct (MAX_PAYLOAD <? Z.of_nat (length data)) eqn:El.
    + eexists. split; [reflexivity|]. cbn. unfold conn_ok6. cbn.
      split; [|constructor]. destruct Hc as [Hok [Heq [Ht Hs]]]. split; [exact Hok|]. split; [exact Heq|]. split; [exact Ht|discriminate].
    + eexists. split; [reflexivity|]. cbn. unfold conn_ok6. cbn.
      split; [|constructor; [unfold dgram_ok; lia|constructor]].
      destruct Hc as [Hok [Heq [Ht Hs]]]. split; [exact Hok|]. split; [exact Heq|]. split; [exact Ht|discriminate].
  - (* feed *)
    destruct Hv as [Hd Hr]. apply feed_ok6; assumption.
  - eexists. split; [reflexivity|]. cbn. split; [exact Hc|constructor].
  - rewrite Hv. eexists. split; [reflexivity|]. cbn. split; [exact I|constructor].
Qed.

(* ---------- C04: a refused send leaves the connection untouched ---------- *)
Theorem refusal6 c e on data vital :
  c_state c = Online on ->
  MAX_PAYLOAD < Z.of_nat (length data) \/ 1024 <= Z.of_nat (length data) ->
  step c e (OpSend data vital) = Ok (mk c e [] [] [] RTooLongData).
Proof.
  intros Hon Hl. unfold step. rewrite Hon. unfold online_send.
  replace ((MAX_PAYLOAD <? Z.of_nat (length data))
           || negb (p_v7 params6) && (2 ^ p_size_bits params6 <=? Z.of_nat (length data))) with true.
  - cbn [bind]. destruct c as [st sd]. cbn in Hon. subst st. reflexivity.
  - symmetry. unfold params6. cbn [p_v7 p_size_bits negb andb]. change (2 ^ 10) with 1024. lia.
Qed.

(* ---------- C02: a deadline is reported while the endpoint is active ---------- *)
Definition active6 (c : conn6) : Prop :=
  match c_state c with Connecting | Pending _ | Online _ => True | _ => False end.

Theorem deadline6 c : conn_ok6 c -> active6 c -> needs_tick c <> None.
Proof.
  unfold conn_ok6, active6, needs_tick. destruct (c_state c) as [| |t|on|]; intros Hc Ha; try contradiction.
  - destruct (c_send c); [discriminate|contradiction].
  - destruct Hc as [_ Hs]. destruct (c_send c); [discriminate|contradiction].
  - destruct Hc as [_ [_ [_ Hs]]]. destruct (c_send c) as [x|]; [|contradiction].
    destruct (match queue_back (o_queue on) with Some rc => rc_next rc | None => None end); discriminate.
Qed.

(* ---------- every reachable state: induction over the history ---------- *)
Inductive label6 := LOp (o : op) | LClock (dt : Z).

Fixpoint run6 (c : conn6) (e : env) (ls : list label6) : res unit (conn6 * env * list dgram) :=
  match ls with
  | [] => Ok (c, e, [])
  | LClock dt :: r => run6 c {| e_now := e_now e + dt; e_rand := e_rand e |} r
  | LOp o :: r =>
    match step c e o with
    | Ok out =>
      match run6 (out_conn out) (out_env out) r with
      | Ok (c', e', ds) => Ok (c', e', out_sent out ++ ds)
      | x => x
      end
    | Err x => Err x | Panic s => Panic s | OutOfFuel => OutOfFuel
    end
  end.

(* validity of a history is checked along the run (it depends on the states passed through) *)
Fixpoint valid_run6 (c : conn6) (e : env) (ls : list label6) : Prop :=
  match ls with
  | [] => True
  | LClock dt :: r => valid_run6 c {| e_now := e_now e + dt; e_rand := e_rand e |} r
  | LOp o :: r =>
    valid_op6 c e o /\
    match step c e o with
    | Ok out => valid_run6 (out_conn out) (out_env out) r
    | _ => True
    end
  end.

Theorem run_ok6 ls : forall c e, conn_ok6 c -> valid_run6 c e ls ->
  exists c' e' ds, run6 c e ls = Ok (c', e', ds) /\ conn_ok6 c' /\ Forall (dgram_ok pp6) ds.
Proof.
  induction ls as [|l ls IH]; intros c e Hc Hv.
  - eexists _, _, _. split; [reflexivity|]. split; [exact Hc|constructor].
  - destruct l as [o|dt]; cbn [run6 valid_run6] in *.
    + destruct Hv as [Hvo Hvr].
      destruct (step_ok6 c e o Hc Hvo) as [out [Hs [Hc' Hds]]]. rewrite Hs in *.
      destruct (IH _ _ Hc' Hvr) as [c2 [e2 [ds2 [Hr [Hc2 Hds2]]]]]. rewrite Hr.
      eexists _, _, _. split; [reflexivity|]. split; [exact Hc2|]. apply Forall_app. split; assumption.
    + apply IH; assumption.
Qed.

Lemma conn6_new_ok : conn_ok6 conn6_new.
Proof. exact I. Qed.

(* Observational equality of snapshots with the same contents; the wire round trip at the
   level of Snap (C10, C11). *)
From LibTw2 Require Import Base.Res Model.Varint Model.Packer Model.Snap Proofs.SnapBase Proofs.SnapRep Proofs.SnapDelta
  Proofs.SnapApply Proofs.SnapOk Proofs.SnapTotal Proofs.SnapTotal2 Proofs.SnapC09 Proofs.SnapSer Proofs.SnapReg
  Proofs.SnapWireInst.
From Coq Require Import ZArith List Lia Bool Permutation.
Import ListNotations.
Open Scope Z_scope.

(* the registry of S is the one build_from_raw computes from its items *)
Definition consistent (S : snap) : Prop := exists ws, build_from_raw (sn_raw S) = (Ok S, ws).

Lemma wbind_inv {A B} (m : wres A) (f : A -> wres B) b ws : wbind m f = (Ok b, ws) ->
  exists a w1 w2, m = (Ok a, w1) /\ f a = (Ok b, w2) /\ ws = w1 ++ w2.
Proof.
  destruct m as [[a|e|s|] w1]; cbn [wbind]; try discriminate.
  destruct (f a) as [r w2] eqn:E. intros [= -> <-]. exists a, w1, w2. repeat split; assumption.
Qed.

Lemma build_from_raw_raw R S ws : build_from_raw R = (Ok S, ws) -> sn_raw S = R.
Proof.
  unfold build_from_raw. intros H. apply wbind_inv in H. destruct H as (ext & w1 & w2 & _ & H & _).
  injection H as <- _. reflexivity.
Qed.

Lemma accepted_consistent (m : wres rawsnap) S ws : (let+ R := m in build_from_raw R) = (Ok S, ws) ->
  consistent S /\ exists w1, m = (Ok (sn_raw S), w1).
Proof.
  intros H. apply wbind_inv in H. destruct H as (R & w1 & w2 & Hm & Hb & _).
  pose proof (build_from_raw_raw _ _ _ Hb) as <-. split; [exists w2; exact Hb|exists w1; exact Hm].
Qed.

(* two snapshots holding the same items and the same registry cannot be told apart *)
Section Same.
  Variables (S S' : snap) (ch ch' : items).
  Hypothesis R : rep (sn_raw S) ch.
  Hypothesis R' : rep (sn_raw S') ch'.
  Hypothesis Hlook : forall k, aget k ch = aget k ch'.
  Hypothesis Hext : sn_ext S = sn_ext S'.

  Lemma same_type_id {E} ty : @snap_type_id E S ty = @snap_type_id E S' ty.
  Proof.
    unfold snap_type_id. destruct (ty =? TYPE_ID_EX); [reflexivity|]. destruct (ty <? OFFSET_EXTENDED_TYPE_ID); [reflexivity|].
    rewrite (raw_item_rep _ ch _ _ R), (raw_item_rep _ ch' _ _ R'), Hlook. reflexivity.
  Qed.

  Lemma same_items_loop {E} : forall l rem, @items_loop E S l rem = @items_loop E S' l rem.
  Proof.
    induction l as [|[k d] l IH]; intros rem; [reflexivity|]. cbn [items_loop]. rewrite same_type_id.
    destruct (snap_type_id S' (key_to_raw_type_id k)) as [[ty|]| | |]; cbn [bind]; try reflexivity.
    - destruct (rem <=? 0); [reflexivity|]. rewrite IH. reflexivity.
    - apply IH.
  Qed.

  Theorem same_observables :
    (forall E, @snap_items E S = @snap_items E S')
    /\ (forall E t id, @snap_item E S t id = @snap_item E S' t id)
    /\ crc (sn_raw S) = crc (sn_raw S')
    /\ (forall E, @raw_items E (sn_raw S) = @raw_items E (sn_raw S')).
  Proof.
    destruct (same_lookups _ _ _ _ R R' Hlook) as (Hv & Hc & Hk).
    assert (Hn : length (rs_offs (sn_raw S)) = length (rs_offs (sn_raw S'))).
    { rewrite <- (map_length fst), Hk, map_length. reflexivity. }
    split; [|split; [|split; [exact Hc|]]].
    - intros E. unfold snap_items. rewrite Hn, Hext, (raw_items_rep _ ch R), (raw_items_rep _ ch' R'), Hv.
      destruct (_ <? _); [reflexivity|]. cbn [bind]. rewrite same_items_loop. reflexivity.
    - intros E t id. unfold snap_item, snap_raw_type_id. rewrite Hext.
      destruct t as [o|u].
      + destruct ((0 <? o) && (o <? OFFSET_EXTENDED_TYPE_ID)); [|reflexivity]. cbn [bind].
        rewrite (raw_item_rep _ ch _ _ R), (raw_item_rep _ ch' _ _ R'), Hlook. reflexivity.
      + cbn [bind]. destruct (aget u (sn_ext S')); [|reflexivity].
        rewrite (raw_item_rep _ ch _ _ R), (raw_item_rep _ ch' _ _ R'), Hlook. reflexivity.
    - intros E. rewrite (raw_items_rep _ ch R), (raw_items_rep _ ch' R'), Hv. reflexivity.
  Qed.
End Same.

(* a snapshot whose registry is consistent, written and read back *)
Theorem snap_roundtrip S : good (sn_raw S) -> consistent S ->
  exists l bs S' ws,
    snap_ints (sn_raw S) = Ok l /\ ints_to_bytes l = Ok bs
    /\ 4 * Z.of_nat (length l) <= MAX_SNAPSHOT_SIZE
    /\ snap_read_from_ints l = (Ok S', ws) /\ snap_read_bytes bs = (Ok S', ws)
    /\ build_from_raw (sn_raw S) = (Ok S, ws)
    /\ sn_ext S' = sn_ext S
    /\ (forall E, @snap_items E S' = @snap_items E S)
    /\ (forall E t id, @snap_item E S' t id = @snap_item E S t id)
    /\ crc (sn_raw S') = crc (sn_raw S)
    /\ good (sn_raw S').
Proof.
  intros G [ws Hc]. destruct (g_rep _ G) as [ch R].
  destruct (snap_wire_roundtrip (sn_raw S) ch G R) as (l & R1 & ch1 & El & Hli & Hlen & Erd & Rr & Hlook).
  pose proof (build_from_raw_congr R1 ch1 (sn_raw S) ch Rr R Hlook) as Hcg. rewrite Hc in Hcg.
  destruct (build_from_raw R1) as [[S1| | |] ws1] eqn:Eb; try contradiction.
  destruct Hcg as (Hext & Hws & Hr1 & _). subst ws1.
  exists l, (enc l), S1, ws. split; [exact El|]. split; [apply ints_to_bytes_enc, Hli|]. split; [exact Hlen|].
  assert (Ers : snap_read_from_ints l = (Ok S1, ws)).
  { unfold snap_read_from_ints. rewrite Erd. rewrite wbind_ok'. exact Eb. }
  split; [exact Ers|]. split.
  { unfold snap_read_bytes. rewrite (read_bytes_enc l Hli). exact Ers. }
  split; [exact Hc|]. split; [exact Hext|].
  assert (R1' : rep (sn_raw S1) ch1) by (rewrite Hr1; exact Rr).
  destruct (same_observables S1 S ch1 ch R1' R Hlook Hext) as (O1 & O2 & O3 & _).
  split; [exact O1|]. split; [exact O2|]. split; [exact O3|].
  rewrite Hr1. pose proof (read_from_ints_good l Hli) as Hg. rewrite Erd in Hg. exact Hg.
Qed.

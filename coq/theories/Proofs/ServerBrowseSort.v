(* C18: ServerInfo::sort_clients. derive(Ord) on ClientInfo is a total order in which
   equal means identical, so the sorted list is a function of the multiset of clients:
   two client lists that are permutations of each other sort to the same list. *)
From LibTw2 Require Import Base.Res Model.ServerBrowse.
From Coq Require Import ZArith Lia Bool List Sorting.Permutation Sorting.Sorted.
Open Scope Z_scope.

Record ord_ok {A} (cmp : A -> A -> comparison) : Prop := {
  o_eq : forall a b, cmp a b = Eq -> a = b;
  o_refl : forall a, cmp a a = Eq;
  o_anti : forall a b, cmp b a = CompOpp (cmp a b);
  o_trans : forall a b c, cmp a b = Lt -> cmp b c = Lt -> cmp a c = Lt }.

Lemma z_ord_ok : ord_ok Z.compare.
Proof.
  split.
  - apply Z.compare_eq.
  - apply Z.compare_refl.
  - intros a b. apply Z.compare_antisym.
  - intros a b c H1 H2. rewrite Z.compare_lt_iff in *. lia.
Qed.

Lemma lex_eq c1 c2 : lex c1 c2 = Eq <-> c1 = Eq /\ c2 = Eq.
Proof. destruct c1; cbn; split; intros H; try (destruct H; discriminate); try discriminate; auto; apply H. Qed.
Lemma lex_lt c1 c2 : lex c1 c2 = Lt <-> c1 = Lt \/ (c1 = Eq /\ c2 = Lt).
Proof.
  destruct c1; cbn; split; intros H; auto.
  - destruct H as [H|[_ H]]; [discriminate|exact H].
  - destruct H as [H|[H _]]; discriminate.
Qed.
Lemma lex_opp c1 c2 : lex (CompOpp c1) (CompOpp c2) = CompOpp (lex c1 c2).
Proof. destruct c1; reflexivity. Qed.

Definition pair_cmp {A B} (cA : A -> A -> comparison) (cB : B -> B -> comparison) (x y : A * B) : comparison :=
  lex (cA (fst x) (fst y)) (cB (snd x) (snd y)).

Lemma pair_ord_ok {A B} (cA : A -> A -> comparison) (cB : B -> B -> comparison) :
  ord_ok cA -> ord_ok cB -> ord_ok (pair_cmp cA cB).
Proof.
  intros HA HB. unfold pair_cmp. split.
  - intros [a1 b1] [a2 b2]. cbn [fst snd]. intros H. apply lex_eq in H as [H1 H2].
    f_equal; [apply (o_eq _ HA), H1|apply (o_eq _ HB), H2].
  - intros [a b]. cbn [fst snd]. rewrite (o_refl _ HA), (o_refl _ HB). reflexivity.
  - intros x y. rewrite (o_anti _ HA), (o_anti _ HB). apply lex_opp.
  - intros [a1 b1] [a2 b2] [a3 b3]. cbn [fst snd]. rewrite !lex_lt.
    intros [H1|[H1 H1']] [H2|[H2 H2']].
    + left. exact (o_trans _ HA _ _ _ H1 H2).
    + left. apply (o_eq _ HA) in H2. subst. exact H1.
    + left. apply (o_eq _ HA) in H1. subst. exact H2.
    + right. apply (o_eq _ HA) in H1. apply (o_eq _ HA) in H2. subst.
      split; [apply (o_refl _ HA)|exact (o_trans _ HB _ _ _ H1' H2')].
Qed.

Lemma bytes_ord_ok : ord_ok bytes_cmp.
Proof.
  split.
  - induction a as [|x a IH]; destruct b as [|y b]; cbn [bytes_cmp]; intros H; try discriminate; [reflexivity|].
    apply lex_eq in H as [H1 H2]. apply Z.compare_eq in H1. subst. f_equal. apply IH, H2.
  - induction a as [|x a IH]; cbn [bytes_cmp]; [reflexivity|]. rewrite Z.compare_refl, IH. reflexivity.
  - induction a as [|x a IH]; destruct b as [|y b]; cbn [bytes_cmp]; try reflexivity.
    rewrite (Z.compare_antisym x y), IH. apply lex_opp.
  - induction a as [|x a IH]; destruct b as [|y b]; destruct c as [|z c]; cbn [bytes_cmp];
      try discriminate; try reflexivity.
    rewrite !lex_lt. intros [H1|[H1 H1']] [H2|[H2 H2']].
    + left. rewrite Z.compare_lt_iff in *. lia.
    + left. apply Z.compare_eq in H2. subst. exact H1.
    + left. apply Z.compare_eq in H1. subst. exact H2.
    + right. apply Z.compare_eq in H1. apply Z.compare_eq in H2. subst.
      split; [apply Z.compare_refl|exact (IH _ _ H1' H2')].
Qed.

Definition client_key (c : client) : bytes * (bytes * (Z * (Z * Z))) :=
  (c_name c, (c_clan c, (c_country c, (c_score c, c_flags c)))).

Lemma client_cmp_key a b :
  client_cmp a b =
  pair_cmp bytes_cmp (pair_cmp bytes_cmp (pair_cmp Z.compare (pair_cmp Z.compare Z.compare)))
    (client_key a) (client_key b).
Proof. reflexivity. Qed.

Lemma client_key_inj a b : client_key a = client_key b -> a = b.
Proof. destruct a, b. unfold client_key. cbn. intros H. injection H as -> -> -> -> ->. reflexivity. Qed.

Lemma client_ord_ok : ord_ok client_cmp.
Proof.
  pose proof (pair_ord_ok _ _ bytes_ord_ok (pair_ord_ok _ _ bytes_ord_ok
    (pair_ord_ok _ _ z_ord_ok (pair_ord_ok _ _ z_ord_ok z_ord_ok)))) as K.
  split; intros; rewrite ?client_cmp_key in *.
  - apply client_key_inj. exact (o_eq _ K _ _ H).
  - apply (o_refl _ K).
  - apply (o_anti _ K).
  - exact (o_trans _ K _ _ _ H H0).
Qed.

(* ---------- the order as a relation ---------- *)

Definition cle (a b : client) : Prop := client_leb a b = true.

Lemma cle_total a b : cle a b \/ cle b a.
Proof.
  unfold cle, client_leb. rewrite (o_anti _ client_ord_ok a b).
  destruct (client_cmp a b); cbn; auto.
Qed.

Lemma cle_refl a : cle a a.
Proof. unfold cle, client_leb. rewrite (o_refl _ client_ord_ok). reflexivity. Qed.

Lemma cle_antisym a b : cle a b -> cle b a -> a = b.
Proof.
  unfold cle, client_leb. rewrite (o_anti _ client_ord_ok a b).
  destruct (client_cmp a b) eqn:E; cbn; intros H1 H2; try discriminate.
  apply (o_eq _ client_ord_ok), E.
Qed.

Lemma cle_trans a b c : cle a b -> cle b c -> cle a c.
Proof.
  unfold cle, client_leb.
  destruct (client_cmp a b) eqn:E1; try discriminate; intros _;
  destruct (client_cmp b c) eqn:E2; try discriminate; intros _.
  - apply (o_eq _ client_ord_ok) in E1. subst. rewrite E2. reflexivity.
  - apply (o_eq _ client_ord_ok) in E1. subst. rewrite E2. reflexivity.
  - apply (o_eq _ client_ord_ok) in E2. subst. rewrite E1. reflexivity.
  - rewrite (o_trans _ client_ord_ok _ _ _ E1 E2). reflexivity.
Qed.

(* ---------- insertion sort ---------- *)

Lemma insert_client_perm c l : Permutation (insert_client c l) (c :: l).
Proof.
  induction l as [|x l IH]; cbn [insert_client]; [reflexivity|].
  destruct (client_leb c x); [reflexivity|].
  rewrite IH. apply perm_swap.
Qed.

Lemma sort_clients_perm l : Permutation (sort_clients l) l.
Proof.
  induction l as [|c l IH]; cbn [sort_clients]; [reflexivity|].
  rewrite insert_client_perm. constructor. exact IH.
Qed.

Lemma insert_client_sorted c l : StronglySorted cle l -> StronglySorted cle (insert_client c l).
Proof.
  induction 1 as [|x l Hs IH Hx]; cbn [insert_client].
  - constructor; constructor.
  - destruct (client_leb c x) eqn:E.
    + constructor; [constructor; assumption|].
      constructor; [exact E|].
      eapply Forall_impl; [|exact Hx]. intros y Hy. exact (cle_trans _ _ _ E Hy).
    + constructor; [exact IH|].
      apply (Permutation_Forall (Permutation_sym (insert_client_perm c l))).
      constructor; [|exact Hx].
      destruct (cle_total c x) as [H|H]; [unfold cle in H; congruence|exact H].
Qed.

Lemma sort_clients_sorted l : StronglySorted cle (sort_clients l).
Proof.
  induction l as [|c l IH]; cbn [sort_clients]; [constructor|].
  apply insert_client_sorted, IH.
Qed.

Lemma sorted_perm_eq : forall l1 l2, StronglySorted cle l1 -> StronglySorted cle l2 ->
  Permutation l1 l2 -> l1 = l2.
Proof.
  induction l1 as [|a l1 IH]; intros l2 H1 H2 P.
  - apply Permutation_nil in P. subst. reflexivity.
  - destruct l2 as [|b l2]; [apply Permutation_sym, Permutation_nil in P; discriminate|].
    inversion H1 as [|? ? Hs1 Ha]; subst. inversion H2 as [|? ? Hs2 Hb]; subst.
    assert (Hab : a = b).
    { assert (Hin_a : In a (b :: l2)) by (eapply Permutation_in; [exact P|left; reflexivity]).
      assert (Hin_b : In b (a :: l1)) by (eapply Permutation_in; [exact (Permutation_sym P)|left; reflexivity]).
      destruct Hin_a as [->|Hin_a]; [reflexivity|].
      destruct Hin_b as [->|Hin_b]; [reflexivity|].
      rewrite Forall_forall in Ha, Hb.
      apply cle_antisym; [apply Ha, Hin_b|apply Hb, Hin_a]. }
    subst b. f_equal. apply IH; [assumption|assumption|].
    exact (Permutation_cons_inv P).
Qed.

(* the documented sort makes the client list canonical *)
Theorem sort_clients_canonical l1 l2 : Permutation l1 l2 -> sort_clients l1 = sort_clients l2.
Proof.
  intros P. apply sorted_perm_eq; try apply sort_clients_sorted.
  rewrite (sort_clients_perm l1), P. symmetry. apply sort_clients_perm.
Qed.

Lemma sort_clients_length l : length (sort_clients l) = length l.
Proof. apply Permutation_length, sort_clients_perm. Qed.

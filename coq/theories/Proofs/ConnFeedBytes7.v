(* C03 at the byte level (0.7): feeding BYTES = the library's packet reader (Model/Packet7.v; the
   0.7 Packet::read takes no token hint) followed by the connection's feed on the value it
   returns. Twin of ConnFeedBytes6.v. *)
From LibTw2 Require Import Base.Res Model.PacketTypes Model.PacketBase Model.Packet7 Model.PacketInst
  Model.ConnCore Model.Conn7 Proofs.ConnInert Proofs.Packet7Chunks Proofs.Packet7Total.
From Coq Require Import ZArith Lia Bool List.
Open Scope Z_scope.

Definition ctl_of7 (c : control7) : control :=
  match c with
  | C7KeepAlive => KeepAlive | C7Connect r => Connect (Some r) | C7Accept => Accept
  | C7Close r => Close r | C7Token r => TokenMsg r
  end.

(* the value feed_impl works on: the packet as read, its chunks as the chunk iterator yields them *)
Definition abstract7 (p : packet7) : dgram :=
  match p with
  | P7Connless pl tok resp => DConnless (Some tok) (Some resp) pl
  | P7Connected ack tok (P7Control c) => DControl (Some tok) ack (ctl_of7 c)
  | P7Connected ack tok (P7Chunks rr n payload) =>
    DChunks (Some tok) ack rr n (match chunks_iter_all7 payload n with Ok (cvs, _, _) => map fst cvs | _ => [] end)
  end.

(* Connection::feed with a 1400-byte scratch buffer *)
Definition feed_bytes7 (c : conn7) (e : env) (bs : bytes) : res unit outcome7 :=
  match snd (read7_tw bs 1400) with
  | Ok (p, _) => step7 c e (Op7Feed (abstract7 p))
  | Err _ => step7 c e Op7FeedGarbage          (* Warning::Read(e); nothing else happens *)
  | Panic s => Panic s
  | OutOfFuel => OutOfFuel
  end.

(* what Packet::read makes of the bytes *)
Definition read_packet7 (bs : bytes) : option packet7 :=
  match snd (read7_tw bs 1400) with Ok (p, _) => Some p | _ => None end.

(* the header token of a connection-oriented packet *)
Definition carried_token7 (bs : bytes) : option token :=
  match read_packet7 bs with Some (P7Connected _ tok _) => Some tok | _ => None end.

(* the protocol's documented exception: an endpoint that has answered a token request and waits
   for the connect still answers token requests that carry the header token ff ff ff ff *)
Definition token_request_exception7 (c : conn7) (bs : bytes) : bool :=
  match c7_state c, read_packet7 bs with
  | PendingConnect7 _, Some (P7Connected _ tok (P7Control (C7Token _))) => tokb tok PacketTypes.TOKEN_NONE
  | _, _ => false
  end.

(* a connectionless packet with both tokens right is delivered *)
Definition connless_tokens_right7 (c : conn7) (bs : bytes) : bool :=
  match read_packet7 bs with
  | Some (P7Connless _ tok resp) =>
    otokb (Some tok) (own_token (c7_state c)) && otokb (Some resp) (their_token (c7_state c))
  | _ => false
  end.

Lemma otokb_true a b : otokb a b = true <-> a = b.
Proof.
  unfold otokb. destruct a, b; try (split; [discriminate|discriminate]); try tauto.
  rewrite tokb_true. split; [intros ->; reflexivity|intros E; injection E; auto].
Qed.

(* every byte string: truncated, mutated, compressed, random ... *)
Theorem inert7_bytes c e bs t :
  token_fixed7 c t -> bytes_ok bs = true ->
  carried_token7 bs <> Some t -> token_request_exception7 c bs = false -> connless_tokens_right7 c bs = false ->
  exists ws, feed_bytes7 c e bs = Ok (mk7 c e [] [] ws R7Ok).
Proof.
  intros Hfix Hb Htok Hex Hcl.
  unfold feed_bytes7, carried_token7, token_request_exception7, connless_tokens_right7, read_packet7 in *.
  pose proof (Packet7Total.read7_good tw_decomp bs 1400 None Hb (le_n _) I) as Hgood.
  unfold read7_tw in *. unfold Packet7Total.good_result7 in Hgood.
  destruct (snd (read7 tw_decomp bs 1400)) as [[p vs]|er|s|] eqn:Er; try contradiction.
  - destruct p as [pl tok resp|ack tok ty].
    + unfold step7. cbn [abstract7].
      destruct (inert7_connless c e (Some tok) (Some resp) pl) as [w Hw]; [|exists [w]; exact Hw].
      apply andb_false_iff in Hcl as [H|H]; [left|right]; intros E; apply otokb_true in E; rewrite E in H; discriminate.
    + exists [W7TokenMismatch]. unfold step7. apply inert7 with (t := t); [exact Hfix| | |].
      * destruct ty; reflexivity.
      * assert (Hc : carried7 (abstract7 (P7Connected ack tok ty)) = tok) by (destruct ty; reflexivity).
        rewrite Hc. intros E. apply Htok. rewrite E. reflexivity.
      * unfold exception7. destruct (c7_state c); try reflexivity; destruct ty as [rr n pl|[| | | |]]; try reflexivity.
        exact Hex.
  - exists []. reflexivity.
Qed.

(* ... and the exception itself: the token request is answered, nothing else happens *)
Theorem exception7_bytes c e bs own ack their :
  c7_state c = PendingConnect7 own -> own <> PacketTypes.TOKEN_NONE -> bytes_ok bs = true ->
  read_packet7 bs = Some (P7Connected ack PacketTypes.TOKEN_NONE (P7Control (C7Token their))) ->
  feed_bytes7 c e bs = Ok (mk7 c e [DControl (Some their) 0 (TokenMsg own)] [] [] R7Ok).
Proof.
  intros Hst Hown Hb Hrd. unfold feed_bytes7, read_packet7 in *.
  pose proof (Packet7Total.read7_good tw_decomp bs 1400 None Hb (le_n _) I) as Hgood.
  unfold read7_tw in *. unfold Packet7Total.good_result7 in Hgood.
  destruct (snd (read7 tw_decomp bs 1400)) as [[p vs]|er|s|] eqn:Er; try discriminate.
  injection Hrd as ->. destruct Hgood as [Hx _]. cbn [expressible7] in Hx.
  unfold step7. cbn [abstract7 ctl_of7].
  apply exception7_answer; [exact Hst|exact Hown|reflexivity|unfold SEQ_MOD; lia].
Qed.

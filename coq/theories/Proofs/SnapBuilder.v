(* Snap::recycle and Builder::add_item: never a panic on accepted snapshots (C11);
   the builder's own snapshots are consistent and recycle keeps their UUID types (C10). *)
From LibTw2 Require Import Base.Res Model.Varint Model.Packer Model.Snap Proofs.SnapBase Proofs.SnapRep Proofs.SnapDelta
  Proofs.SnapApply Proofs.SnapOk Proofs.SnapTotal Proofs.SnapTotal2 Proofs.SnapC09 Proofs.SnapSer Proofs.SnapReg
  Proofs.SnapObs.
From Coq Require Import ZArith List Lia Bool Permutation.
Import ListNotations.
Open Scope Z_scope.

Lemma reg_ok_iff t : reg_ok t = true <-> 16384 <= t < 32768.
Proof. unfold reg_ok, OFFSET_EXTENDED_TYPE_ID, MAX_EXTENDED_TYPE_ID. rewrite andb_true_iff, Z.leb_le, Z.ltb_lt. tauto. Qed.

(* ---------- the scan for the next free number ---------- *)
Lemma recycle_scan_fine : forall keys next,
  (forall k, In k keys -> key_to_raw_type_id k = TYPE_ID_EX -> reg_ok (key_to_id k) = true) ->
  16384 <= next <= 32768 ->
  exists n', recycle_scan keys next = Ok n' /\ 16384 <= n' <= 32768.
Proof.
  induction keys as [|k keys IH]; intros next Hk Hn; [exists next; split; [reflexivity|exact Hn]|].
  cbn [recycle_scan]. destruct (Z.eqb_spec (key_to_raw_type_id k) TYPE_ID_EX) as [Ht|Ht]; cbn [negb];
    [|exists next; split; [reflexivity|exact Hn]].
  pose proof (Hk k (or_introl eq_refl) Ht) as Hr. apply reg_ok_iff in Hr.
  replace (65535 <? next + 256) with false by (symmetry; apply Z.ltb_ge; lia).
  assert (Hk' : forall k0, In k0 keys -> key_to_raw_type_id k0 = TYPE_ID_EX -> reg_ok (key_to_id k0) = true)
    by (intros; apply Hk; [right|]; assumption).
  destruct (key_to_id k <? next + 256).
  - replace (65535 <? key_to_id k + 1) with false by (symmetry; apply Z.ltb_ge; lia). apply IH; [exact Hk'|lia].
  - apply IH; [exact Hk'|exact Hn].
Qed.

(* ---------- re-inserting the registry ---------- *)
Lemma uuid_words_i32 u : forallb is_i32 (uuid_to_item_data u) = true.
Proof.
  assert (H : forall x, is_i32 (i32_of (x mod two32)) = true) by (intros x; apply (wrap_range x)).
  unfold uuid_to_item_data, uuid_word. cbn [forallb]. rewrite !H. reflexivity.
Qed.

Lemma recycle_fill_fine : forall l R, good R ->
  (forall u t, In (u, t) l -> reg_ok t = true /\ aget (key TYPE_ID_EX t) (rs_offs R) = None) ->
  NoDup (map snd l) ->
  Z.of_nat (length (rs_offs R)) + Z.of_nat (length l) <= MAX_SNAPSHOT_ITEMS ->
  ser_size (Z.of_nat (length (rs_offs R)) + Z.of_nat (length l))
           (Z.of_nat (length (rs_buf R)) + 4 * Z.of_nat (length l)) <= MAX_SNAPSHOT_SIZE ->
  exists R', recycle_fill l R = Ok R' /\ good R'
    /\ (forall k, aget k (rs_offs R') = None <-> (aget k (rs_offs R) = None /\ ~ In k (map (fun ut => key TYPE_ID_EX (snd ut)) l))).
Proof.
  induction l as [|[u t] l IH]; intros R G Hl Hnd Hn Hs.
  - exists R. split; [reflexivity|]. split; [exact G|]. intros k. cbn. tauto.
  - cbn [recycle_fill]. rewrite add_item_eq. destruct (Hl u t (or_introl eq_refl)) as [Hr Hfresh].
    apply reg_ok_iff in Hr. rewrite Hfresh. cbn [length] in Hn, Hs.
    unfold MAX_SNAPSHOT_ITEMS, MAX_SNAPSHOT_SIZE, ser_size in *.
    replace (1024 <? Z.of_nat (length (rs_offs R)) + 1) with false by (symmetry; apply Z.ltb_ge; lia).
    replace (Z.of_nat (length (uuid_to_item_data u))) with 4 by reflexivity.
    replace (65536 <? 4 * (2 + (Z.of_nat (length (rs_offs R)) + 1) + (Z.of_nat (length (rs_offs R)) + 1) + (Z.of_nat (length (rs_buf R)) + 4)))
      with false by (symmetry; apply Z.ltb_ge; lia).
    assert (Gp : good (pushed R (key TYPE_ID_EX t) (uuid_to_item_data u))).
    { apply good_pushed; [exact G|exact Hfresh|apply key_i32; unfold TYPE_ID_EX; lia|apply uuid_words_i32|].
      unfold fits, MAX_SNAPSHOT_ITEMS, MAX_SNAPSHOT_SIZE, ser_size. apply andb_true_iff.
      split; apply negb_true_iff, Z.ltb_ge; cbn [length uuid_to_item_data]; lia. }
    destruct (pushed_length R (key TYPE_ID_EX t) (uuid_to_item_data u) Hfresh) as [L1 L2].
    inversion Hnd as [|? ? Hni Hnd']; subst.
    destruct (IH (pushed R (key TYPE_ID_EX t) (uuid_to_item_data u)) Gp) as (R' & E & G' & Hk').
    + intros u' t' Hin. destruct (Hl u' t' (or_intror Hin)) as [Hr' Hf']. split; [exact Hr'|].
      cbn [pushed rs_offs]. rewrite aget_ains_other; [exact Hf'|].
      intros Heq. apply reg_ok_iff in Hr'. apply key_inj in Heq; try (unfold TYPE_ID_EX; lia).
      destruct Heq as [_ ->]. apply Hni. apply (in_map snd) in Hin. exact Hin.
    + exact Hnd'.
    + rewrite L1. lia.
    + rewrite L1, L2. cbn [length uuid_to_item_data]. lia.
    + exists R'. split; [exact E|]. split; [exact G'|]. intros k. rewrite Hk'. cbn [pushed rs_offs map snd In].
      destruct (Z.eq_dec k (key TYPE_ID_EX t)) as [->|Hne].
      * rewrite aget_ains_same. split; [intros [H0 _]; discriminate|intros [_ H0]; exfalso; apply H0; left; reflexivity].
      * rewrite aget_ains_other by exact Hne. split; [intros [H0 H1]; split; [exact H0|intros [H2|H2]; [congruence|contradiction]]|].
        intros [H0 H1]. split; [exact H0|]. intros H2. apply H1. right. exact H2.
Qed.

Lemma nodup_values ext : NoDup (map fst ext) ->
  (forall u u' t, aget u ext = Some t -> aget u' ext = Some t -> u = u') -> NoDup (map (@snd Z Z) ext).
Proof.
  intros Hnd Hinj. assert (G : forall l, incl l ext -> NoDup (map fst l) -> NoDup (map snd l)).
  { induction l as [|[u t] l IH]; intros Hincl Hndl; [constructor|]. inversion Hndl as [|? ? Hni Hnd']; subst.
    cbn [map snd]. constructor; [|apply IH; [intros x Hx; apply Hincl; right; exact Hx|exact Hnd']].
    intros Hin. apply in_map_iff in Hin. destruct Hin as [[u' t'] [E Hin]]. cbn in E. subst t'.
    assert (u = u').
    { apply (Hinj u u' t); apply in_aget; try exact Hnd; apply Hincl; [left; reflexivity|right; exact Hin]. }
    subst u'. apply Hni. apply (in_map fst) in Hin. exact Hin. }
  apply G; [apply incl_refl|exact Hnd].
Qed.

(* the registry items weigh at most as much as the whole snapshot *)
Lemma registry_weight ch ext : NoDup (map fst ch) -> ext_ok ch ext ->
  (length ext <= length ch)%nat /\ (4 * length ext <= length (flat ch))%nat.
Proof.
  intros Hndc Hext.
  pose proof (sortedb_nodup _ (eo_sorted _ _ Hext)) as Hnde.
  set (regs := map (fun ut : Z * Z => (key TYPE_ID_EX (snd ut), data_of ch (key TYPE_ID_EX (snd ut)))) ext).
  assert (Hent : forall u t, In (u, t) ext -> reg_ok t = true /\ exists d, aget (key TYPE_ID_EX t) ch = Some d /\ (4 <= length d)%nat).
  { intros u t Hin. destruct (eo_entry _ _ Hext u t (in_aget u t ext Hnde Hin)) as (Hr & d & Hd & _ & Hl). split; [exact Hr|eauto]. }
  destruct (weight_le regs ch) as [W1 W2].
  - unfold regs. rewrite map_map. cbn [fst].
    pose proof (nodup_values ext Hnde (eo_inj _ _ Hext)) as Hv.
    assert (Gi : forall l, incl l ext -> NoDup (map snd l) -> NoDup (map (fun ut : Z * Z => key TYPE_ID_EX (snd ut)) l)).
    { induction l as [|[u t] l IH]; intros Hincl Hndl; [constructor|]. inversion Hndl as [|? ? Hni Hnd']; subst.
      cbn [map snd]. constructor; [|apply IH; [intros x Hx; apply Hincl; right; exact Hx|exact Hnd']].
      intros Hin. apply in_map_iff in Hin. destruct Hin as [[u' t'] [E Hin]]. cbn [snd] in E.
      destruct (Hent u t (Hincl _ (or_introl eq_refl))) as [Hr _]. destruct (Hent u' t' (Hincl _ (or_intror Hin))) as [Hr' _].
      apply reg_ok_iff in Hr, Hr'. apply key_inj in E; try (unfold TYPE_ID_EX; lia). destruct E as [_ ->].
      apply Hni. apply (in_map snd) in Hin. exact Hin. }
    apply Gi; [apply incl_refl|exact Hv].
  - intros k d Hin. unfold regs in Hin. apply in_map_iff in Hin. destruct Hin as [[u t] [E Hin]]. cbn [snd] in E.
    injection E as <- <-. destruct (Hent u t Hin) as (_ & d & Hd & _). exists d. unfold data_of. rewrite Hd. split; reflexivity.
  - unfold regs in W1, W2. rewrite map_length in W1. split; [exact W1|].
    assert (Gf : forall l, incl l ext ->
      (4 * length l <= length (flat (map (fun ut : Z * Z => (key TYPE_ID_EX (snd ut), data_of ch (key TYPE_ID_EX (snd ut)))) l)))%nat).
    { induction l as [|[u t] l IH]; intros Hincl; [cbn; lia|]. cbn [map snd flat flat_map length]. rewrite app_length.
      destruct (Hent u t (Hincl _ (or_introl eq_refl))) as (_ & d & Hd & Hl). unfold data_of at 1. rewrite Hd.
      specialize (IH (fun x Hx => Hincl x (or_intror Hx))). unfold flat in IH. lia. }
    specialize (Gf ext (incl_refl _)). lia.
Qed.

Theorem snap_recycle_fine S : sgood S ->
  exists b, snap_recycle S = Ok b /\ 16384 <= b_next b <= 32768 /\ good (sn_raw (b_snap b))
    /\ sn_ext (b_snap b) = sn_ext S.
Proof.
  intros G. destruct (sg_ext _ G) as (ch & R & Hext & Hitems & Hlen).
  pose proof (sg_raw _ G) as GR. unfold snap_recycle.
  destruct (recycle_scan_fine (map fst (rs_offs (sn_raw S))) OFFSET_EXTENDED_TYPE_ID) as (n' & En & Hn').
  - intros k Hin Ht. apply (rep_in_keys _ _ _ R) in Hin. destruct (aget k ch) as [d|] eqn:Hd; [|contradiction].
    destruct (Hitems k d Hd) as [Hreg _]. destruct (Hreg Ht) as (u & _ & Hu). apply (eo_entry _ _ Hext u _ Hu).
  - unfold OFFSET_EXTENDED_TYPE_ID. lia.
  - rewrite En. cbn [bind].
    pose proof (sortedb_nodup _ (eo_sorted _ _ Hext)) as Hnde.
    destruct (registry_weight ch (sn_ext S) (rep_nodup _ _ R) Hext) as [W1 W2].
    destruct (rep_lengths _ _ R) as [L1 L2]. pose proof (g_n _ GR) as Gn. pose proof (g_sz _ GR) as Gs.
    unfold MAX_SNAPSHOT_ITEMS, MAX_SNAPSHOT_SIZE, ser_size in *.
    destruct (recycle_fill_fine (sn_ext S) raw_empty good_empty) as (R' & Ef & G' & _).
    + intros u t Hin. split; [|reflexivity]. apply (eo_entry _ _ Hext u t (in_aget u t _ Hnde Hin)).
    + apply nodup_values; [exact Hnde|apply (eo_inj _ _ Hext)].
    + cbn [raw_empty rs_offs length]. unfold MAX_SNAPSHOT_ITEMS. lia.
    + cbn [raw_empty rs_offs rs_buf length]. unfold MAX_SNAPSHOT_SIZE, ser_size. lia.
    + rewrite Ef. cbn [bind]. eexists. split; [reflexivity|]. cbn [b_next b_snap sn_raw sn_ext]. split; [lia|split; [exact G'|reflexivity]].
Qed.

(* Builder::add_item has no panic left but the two assertions on its arguments / numbering *)
Theorem builder_add_fine b t id data :
  (forall o, t = Ordinal o -> 0 < o < OFFSET_EXTENDED_TYPE_ID) -> OFFSET_EXTENDED_TYPE_ID <= b_next b ->
  fine (snd (builder_add b t id data)).
Proof.
  intros Ho Hn. unfold builder_add.
  assert (Ha : forall R ty dd, fine (add_item R ty id dd)).
  { intros R ty dd. rewrite add_item_eq. destruct (aget _ _); [exact I|]. destruct (_ <? _); [exact I|]. destruct (_ <? _); exact I. }
  destruct t as [o|u].
  - specialize (Ho o eq_refl). replace ((0 <? o) && (o <? OFFSET_EXTENDED_TYPE_ID)) with true
      by (symmetry; apply andb_true_iff; split; apply Z.ltb_lt; lia).
    pose proof (Ha (sn_raw (b_snap b)) o data) as H. destruct (add_item _ o id data); cbn [snd]; exact H.
  - destruct (aget u (sn_ext (b_snap b))) as [ty|].
    + pose proof (Ha (sn_raw (b_snap b)) ty data) as H. destruct (add_item _ ty id data); cbn [snd]; exact H.
    + replace (OFFSET_EXTENDED_TYPE_ID <=? b_next b) with true by (symmetry; apply Z.leb_le; exact Hn). cbn [negb].
      destruct (MAX_EXTENDED_TYPE_ID <=? b_next b); [exact I|].
      pose proof (Ha (sn_raw (b_snap b)) TYPE_ID_EX (uuid_to_item_data u)) as H0.
      assert (H0' : fine (add_item (sn_raw (b_snap b)) TYPE_ID_EX (b_next b) (uuid_to_item_data u))).
      { rewrite add_item_eq. destruct (aget _ _); [exact I|]. destruct (_ <? _); [exact I|]. destruct (_ <? _); exact I. }
      destruct (add_item (sn_raw (b_snap b)) TYPE_ID_EX (b_next b) (uuid_to_item_data u)) as [R1| | |]; cbn [snd]; try exact H0'.
      cbn [b_snap sn_raw].
      assert (H1 : fine (add_item R1 (b_next b) id data)).
      { rewrite add_item_eq. destruct (aget _ _); [exact I|]. destruct (_ <? _); [exact I|]. destruct (_ <? _); exact I. }
      destruct (add_item R1 (b_next b) id data); cbn [snd]; exact H1.
Qed.

(* ====================================================================== *)
(* The builder's own snapshots (C10)                                       *)
(* ====================================================================== *)
Definition uuid_okb (u : Z) : bool := (0 <=? u) && (u <? 2 ^ 128).

(* the registry `ext` with numbers below `next` describes the items `ch` exactly *)
Record bstate (ch : items) (ext : list (Z * Z)) (next : Z) : Prop := {
  bs_sorted : sortedb (map fst ext) = true;
  bs_entry : forall u t, aget u ext = Some t ->
    16384 <= t < next /\ uuid_okb u = true /\ aget (key TYPE_ID_EX t) ch = Some (uuid_to_item_data u);
  bs_inj : forall u u' t, aget u ext = Some t -> aget u' ext = Some t -> u = u';
  bs_reg : forall k d, aget k ch = Some d -> key_to_raw_type_id k = TYPE_ID_EX -> exists u, aget u ext = Some (key_to_id k);
  bs_high : forall k d, aget k ch = Some d -> 16384 <= key_to_raw_type_id k -> exists u, aget u ext = Some (key_to_raw_type_id k);
  bs_contig : forall t, 16384 <= t < next -> exists u, aget u ext = Some t
}.

Record bgood (b : builder) : Prop := {
  bg_raw : good (sn_raw (b_snap b));
  bg_next : 16384 <= b_next b <= 32768;
  bg_st : exists ch, rep (sn_raw (b_snap b)) ch /\ bstate ch (sn_ext (b_snap b)) (b_next b)
}.

Lemma bgood_new : bgood builder_new.
Proof.
  split; [apply good_empty|cbn [builder_new b_next]; unfold OFFSET_EXTENDED_TYPE_ID; lia|]. exists []. split; [apply rep_empty|].
  split; cbn [builder_new b_snap b_next snap_empty sn_ext aget map]; try discriminate; try reflexivity.
  intros t Ht. unfold OFFSET_EXTENDED_TYPE_ID in Ht. lia.
Qed.

(* adding an item whose type is an ordinal, or a registered number *)
Lemma bstate_push ch ext next k d : bstate ch ext next -> aget k ch = None ->
  key_to_raw_type_id k <> TYPE_ID_EX ->
  (16384 <= key_to_raw_type_id k -> exists u, aget u ext = Some (key_to_raw_type_id k)) ->
  bstate (ch ++ [(k, d)]) ext next.
Proof.
  intros B Hn Hty Hhigh. split.
  - apply (bs_sorted _ _ _ B).
  - intros u t Hu. destruct (bs_entry _ _ _ B u t Hu) as (H1 & H2 & H3). split; [exact H1|split; [exact H2|]].
    rewrite aget_app, H3. reflexivity.
  - apply (bs_inj _ _ _ B).
  - intros k' d' Hk' Ht'. rewrite aget_app in Hk'. destruct (aget k' ch) as [d0|] eqn:E.
    + apply (bs_reg _ _ _ B k' d0 E Ht').
    + cbn [aget] in Hk'. destruct (Z.eqb_spec k' k); [subst; contradiction|discriminate].
  - intros k' d' Hk' Ht'. rewrite aget_app in Hk'. destruct (aget k' ch) as [d0|] eqn:E.
    + apply (bs_high _ _ _ B k' d0 E Ht').
    + cbn [aget] in Hk'. destruct (Z.eqb_spec k' k); [subst; apply Hhigh, Ht'|discriminate].
  - apply (bs_contig _ _ _ B).
Qed.

(* registering a new UUID under the next number *)
Lemma bstate_register ch ext next u : bstate ch ext next -> aget u ext = None -> uuid_okb u = true ->
  16384 <= next < 32768 -> aget (key TYPE_ID_EX next) ch = None ->
  bstate (ch ++ [(key TYPE_ID_EX next, uuid_to_item_data u)]) (ains u next ext) (next + 1).
Proof.
  intros B Hu Hok Hn Hfresh.
  assert (Hty : key_to_raw_type_id (key TYPE_ID_EX next) = TYPE_ID_EX) by (apply key_to_ty_key; unfold TYPE_ID_EX; lia).
  assert (Hid : key_to_id (key TYPE_ID_EX next) = next) by (apply key_to_id_key; unfold TYPE_ID_EX; lia).
  split.
  - apply ains_sorted, (bs_sorted _ _ _ B).
  - intros u' t Hu'. destruct (Z.eq_dec u' u) as [->|Hne].
    + rewrite aget_ains_same in Hu'. injection Hu' as <-. split; [lia|]. split; [exact Hok|].
      rewrite aget_app, Hfresh. cbn [aget]. rewrite Z.eqb_refl. reflexivity.
    + rewrite aget_ains_other in Hu' by exact Hne. destruct (bs_entry _ _ _ B u' t Hu') as (H1 & H2 & H3).
      split; [lia|]. split; [exact H2|]. rewrite aget_app, H3. reflexivity.
  - intros u1 u2 t H1 H2. destruct (Z.eq_dec u1 u) as [->|N1]; destruct (Z.eq_dec u2 u) as [->|N2]; try reflexivity.
    + rewrite aget_ains_same in H1. injection H1 as <-. rewrite aget_ains_other in H2 by exact N2.
      destruct (bs_entry _ _ _ B u2 next H2) as [? _]. lia.
    + rewrite aget_ains_same in H2. injection H2 as <-. rewrite aget_ains_other in H1 by exact N1.
      destruct (bs_entry _ _ _ B u1 next H1) as [? _]. lia.
    + rewrite aget_ains_other in H1 by exact N1. rewrite aget_ains_other in H2 by exact N2. apply (bs_inj _ _ _ B u1 u2 t H1 H2).
  - intros k d Hk Ht. rewrite aget_app in Hk. destruct (aget k ch) as [d0|] eqn:E.
    + destruct (bs_reg _ _ _ B k d0 E Ht) as [u' Hu']. exists u'. rewrite aget_ains_other; [exact Hu'|]. intros ->. congruence.
    + cbn [aget] in Hk. destruct (Z.eqb_spec k (key TYPE_ID_EX next)); [|discriminate]. subst k. rewrite Hid. exists u. apply aget_ains_same.
  - intros k d Hk Ht. rewrite aget_app in Hk. destruct (aget k ch) as [d0|] eqn:E.
    + destruct (bs_high _ _ _ B k d0 E Ht) as [u' Hu']. exists u'. rewrite aget_ains_other; [exact Hu'|]. intros ->. congruence.
    + cbn [aget] in Hk. destruct (Z.eqb_spec k (key TYPE_ID_EX next)); [|discriminate]. subst k. rewrite Hty in Ht. unfold TYPE_ID_EX in Ht. lia.
  - intros t Ht. destruct (Z.eq_dec t next) as [->|Hne]; [exists u; apply aget_ains_same|].
    destruct (bs_contig _ _ _ B t) as [u' Hu']; [lia|]. exists u'. rewrite aget_ains_other; [exact Hu'|]. intros ->. congruence.
Qed.

(* one successful raw add_item on a builder state *)
Lemma add_item_bgood R ch ext next ty id data R' : good R -> rep R ch -> bstate ch ext next ->
  0 < ty <= 65535 -> 0 <= id <= 65535 -> forallb is_i32 data = true ->
  (16384 <= ty -> exists u, aget u ext = Some ty) ->
  add_item R ty id data = Ok R' ->
  good R' /\ exists ch', rep R' ch' /\ bstate ch' ext next.
Proof.
  intros G HR B Hty Hid Hd Hhigh E.
  pose proof (add_item_good R ty id data G (ltac:(lia)) Hid Hd) as G'. rewrite E in G'. split; [exact G'|].
  rewrite add_item_eq in E. destruct (aget (key ty id) (rs_offs R)) eqn:Hn; [discriminate|].
  destruct (_ <? _); [discriminate|]. destruct (_ <? _); [discriminate|]. injection E as <-.
  exists (ch ++ [(key ty id, data)]). split; [apply rep_pushed; assumption|].
  apply bstate_push; [exact B|apply (rep_get_none _ _ _ HR), Hn| |].
  - rewrite key_to_ty_key by lia. unfold TYPE_ID_EX. lia.
  - rewrite key_to_ty_key by lia. exact Hhigh.
Qed.

Definition op_ok (t : tyid) (id : Z) (data : list Z) : Prop :=
  match t with Ordinal o => 0 < o < OFFSET_EXTENDED_TYPE_ID | Uuid u => uuid_okb u = true end
  /\ 0 <= id <= 65535 /\ forallb is_i32 data = true.

Theorem builder_add_bgood b t id data : bgood b -> op_ok t id data ->
  bgood (fst (builder_add b t id data)) /\ fine (snd (builder_add b t id data)).
Proof.
  intros G (Ht & Hid & Hd). split.
  2:{ apply builder_add_fine; [intros o ->; exact Ht|]. pose proof (bg_next _ G). unfold OFFSET_EXTENDED_TYPE_ID. lia. }
  destruct (bg_st _ G) as (ch & HR & B). pose proof (bg_raw _ G) as GR. pose proof (bg_next _ G) as Hn.
  (* the second step of add_item, on any builder state with the same registry and numbering *)
  assert (Step2 : forall b' ty, bgood b' -> 0 < ty <= 65535 ->
            (16384 <= ty -> exists u, aget u (sn_ext (b_snap b')) = Some ty) ->
            bgood (fst (match add_item (sn_raw (b_snap b')) ty id data with
                        | Ok R => ({| b_snap := {| sn_raw := R; sn_ext := sn_ext (b_snap b') |}; b_next := b_next b' |}, Ok tt)
                        | Err e => (b', Err e) | Panic s => (b', Panic s) | OutOfFuel => (b', OutOfFuel) end))).
  { intros b' ty G' Hty Hhigh. destruct (bg_st _ G') as (ch' & HR' & B').
    destruct (add_item (sn_raw (b_snap b')) ty id data) as [R2| | |] eqn:E; cbn [fst]; try exact G'.
    destruct (add_item_bgood _ ch' _ _ ty id data R2 (bg_raw _ G') HR' B' Hty Hid Hd Hhigh E) as (G2 & ch2 & R2' & B2).
    split; cbn [b_snap b_next sn_raw sn_ext]; [exact G2|apply (bg_next _ G')|exists ch2; split; assumption]. }
  unfold builder_add. destruct t as [o|u].
  - unfold OFFSET_EXTENDED_TYPE_ID in Ht.
    replace ((0 <? o) && (o <? OFFSET_EXTENDED_TYPE_ID)) with true
      by (symmetry; apply andb_true_iff; split; apply Z.ltb_lt; unfold OFFSET_EXTENDED_TYPE_ID; lia).
    apply (Step2 b o G); [lia|intros; lia].
  - destruct (aget u (sn_ext (b_snap b))) as [ty|] eqn:Hu.
    + destruct (bs_entry _ _ _ B u ty Hu) as (H1 & _ & _). apply (Step2 b ty G); [lia|intros _; exists u; exact Hu].
    + replace (OFFSET_EXTENDED_TYPE_ID <=? b_next b) with true by (symmetry; apply Z.leb_le; unfold OFFSET_EXTENDED_TYPE_ID; lia).
      cbn [negb]. destruct (Z.leb_spec MAX_EXTENDED_TYPE_ID (b_next b)) as [Hmax|Hmax]; [exact G|].
      unfold MAX_EXTENDED_TYPE_ID in Hmax.
      destruct (add_item (sn_raw (b_snap b)) TYPE_ID_EX (b_next b) (uuid_to_item_data u)) as [R1| | |] eqn:E1; cbn [fst]; try exact G.
      assert (G1 : good R1).
      { pose proof (add_item_good (sn_raw (b_snap b)) TYPE_ID_EX (b_next b) (uuid_to_item_data u) GR) as H.
        rewrite E1 in H. apply H; [unfold TYPE_ID_EX; lia|lia|apply uuid_words_i32]. }
      rewrite add_item_eq in E1. destruct (aget (key TYPE_ID_EX (b_next b)) (rs_offs (sn_raw (b_snap b)))) eqn:Hfresh; [discriminate|].
      destruct (_ <? _); [discriminate|]. destruct (_ <? _); [discriminate|]. injection E1 as <-.
      apply (Step2 {| b_snap := {| sn_raw := pushed (sn_raw (b_snap b)) (key TYPE_ID_EX (b_next b)) (uuid_to_item_data u);
                                   sn_ext := ains u (b_next b) (sn_ext (b_snap b)) |}; b_next := b_next b + 1 |} (b_next b)).
      * split; cbn [b_snap b_next sn_raw sn_ext]; [exact G1|lia|].
        exists (ch ++ [(key TYPE_ID_EX (b_next b), uuid_to_item_data u)]). split; [apply rep_pushed; assumption|].
        apply bstate_register; [exact B|exact Hu|exact Ht|lia|apply (rep_get_none _ _ _ HR), Hfresh].
      * lia.
      * intros _. exists u. cbn [b_snap sn_ext]. apply aget_ains_same.
Qed.

(* any sequence of valid builder calls *)
Fixpoint build (ops : list (tyid * Z * list Z)) (b : builder) : builder :=
  match ops with
  | [] => b
  | (t, id, data) :: r => build r (fst (builder_add b t id data))
  end.

Theorem build_bgood ops : (forall t id data, In (t, id, data) ops -> op_ok t id data) ->
  forall b, bgood b -> bgood (build ops b).
Proof.
  induction ops as [|[[t id] data] ops IH]; intros Hok b G; [exact G|]. cbn [build].
  apply IH; [intros; apply Hok; right; assumption|].
  apply builder_add_bgood; [exact G|apply Hok; left; reflexivity].
Qed.

(* Totality of the snapshot readers and the state invariant `good` of every RawSnap
   they (and read_with_delta) produce (C11). *)
From LibTw2 Require Import Base.Res Model.Varint Model.Packer Model.Snap Proofs.SnapBase Proofs.SnapRep Proofs.SnapDelta
  Proofs.SnapApply Proofs.SnapOk Proofs.VarintArith Proofs.VarintProofs.
From Coq Require Import ZArith List Lia Bool Permutation.
Import ListNotations.
Open Scope Z_scope.

(* an outcome that is a value or an error *)
Definition fine {E A} (r : res E A) : Prop := match r with Ok _ | Err _ => True | _ => False end.

Record good (S : rawsnap) : Prop := {
  g_rep : exists ch, rep S ch;
  g_keys : keys_i32 S;
  g_buf : forallb is_i32 (rs_buf S) = true;
  g_n : Z.of_nat (length (rs_offs S)) <= MAX_SNAPSHOT_ITEMS;
  g_sz : ser_size (Z.of_nat (length (rs_offs S))) (Z.of_nat (length (rs_buf S))) <= MAX_SNAPSHOT_SIZE
}.

Lemma good_lim S ch : good S -> rep S ch -> lim_ok ch.
Proof.
  intros G R. destruct (rep_lengths _ _ R) as [L1 L2]. unfold lim_ok. rewrite <- L1, <- L2.
  split; [apply (g_n _ G)|apply (g_sz _ G)].
Qed.

Lemma raw_ok_good S : raw_ok S = true -> good S.
Proof.
  intros H. destruct (raw_ok_rep S H) as (ch & R & K & B & L).
  destruct (rep_lengths _ _ R) as [L1 L2]. destruct L as [La Lb].
  split; [exists ch; exact R|exact K|exact B|rewrite L1; exact La|rewrite L1, L2; exact Lb].
Qed.

Lemma good_empty : good raw_empty.
Proof.
  split; [exists []; apply rep_empty|reflexivity|reflexivity| |];
    unfold MAX_SNAPSHOT_ITEMS, MAX_SNAPSHOT_SIZE, ser_size; cbn; lia.
Qed.

Lemma forallb_sins k l : is_i32 k = true -> forallb is_i32 l = true -> forallb is_i32 (sins k l) = true.
Proof.
  intros Hk Hl. apply forallb_forall. intros x Hx. apply sins_in in Hx. destruct Hx as [->|Hx]; [exact Hk|].
  rewrite forallb_forall in Hl. apply Hl, Hx.
Qed.

(* a successful push keeps the invariant *)
Lemma good_pushed S k data : good S -> aget k (rs_offs S) = None -> is_i32 k = true ->
  forallb is_i32 data = true -> fits S (length data) = true -> good (pushed S k data).
Proof.
  intros G Hn Hk Hd Hf. destruct (g_rep _ G) as [ch R].
  destruct (pushed_length S k data Hn) as [L1 L2].
  unfold fits in Hf. apply andb_true_iff in Hf. destruct Hf as [F1 F2].
  apply negb_true_iff, Z.ltb_ge in F1. apply negb_true_iff, Z.ltb_ge in F2.
  split.
  - exists (ch ++ [(k, data)]). apply rep_pushed; assumption.
  - unfold keys_i32. cbn [pushed rs_offs]. rewrite ains_keys. apply forallb_sins; [exact Hk|apply (g_keys _ G)].
  - cbn [pushed rs_buf]. rewrite forallb_app, (g_buf _ G), Hd. reflexivity.
  - rewrite L1. lia.
  - rewrite L1, L2. rewrite !Nat2Z.inj_succ, Nat2Z.inj_add. unfold ser_size in *. lia.
Qed.

Lemma add_item_good S ty id data : good S -> 0 <= ty <= 65535 -> 0 <= id <= 65535 ->
  forallb is_i32 data = true ->
  match add_item S ty id data with Ok S' => good S' | Err _ => True | _ => False end.
Proof.
  intros G Ht Hi Hd. rewrite add_item_eq. destruct (aget (key ty id) (rs_offs S)) eqn:Hn; [exact I|].
  destruct (MAX_SNAPSHOT_ITEMS <? _) eqn:C1; [exact I|]. destruct (MAX_SNAPSHOT_SIZE <? _) eqn:C2; [exact I|].
  apply good_pushed; [exact G|exact Hn|apply key_i32; assumption|exact Hd|].
  unfold fits. rewrite C1, C2. reflexivity.
Qed.

(* in-place overwrite with data of the same length *)
Lemma good_write S k r d : good S -> aget k (rs_offs S) = Some r -> length d = range_len r ->
  forallb is_i32 d = true ->
  exists buf', (forall E, @write_range E (rs_buf S) r d = Ok buf')
    /\ good {| rs_offs := rs_offs S; rs_buf := buf' |}.
Proof.
  intros G Hg Hl Hd. destruct (g_rep _ G) as [ch R].
  destruct (rep_write S ch k r d R Hg Hl) as (buf' & Ew & Rw). exists buf'. split; [exact Ew|].
  assert (Hlen : length buf' = length (rs_buf S) /\ forallb is_i32 buf' = true).
  { specialize (Ew unit). unfold write_range in Ew.
    destruct ((fst r <=? snd r)%nat && (snd r <=? length (rs_buf S))%nat) eqn:C; [|discriminate].
    destruct (range_len r =? length d)%nat; [|discriminate]. injection Ew as <-.
    apply andb_true_iff in C. destruct C as [C1 C2]. apply Nat.leb_le in C1, C2. unfold range_len in Hl. split.
    - rewrite !app_length, firstn_length, skipn_length. lia.
    - pose proof (g_buf _ G) as Hb. rewrite !forallb_app, Hd.
      rewrite <- (firstn_skipn (fst r) (rs_buf S)), forallb_app in Hb. apply andb_true_iff in Hb. destruct Hb as [Hb1 _].
      rewrite Hb1. cbn [andb]. pose proof (g_buf _ G) as Hb.
      rewrite <- (firstn_skipn (snd r) (rs_buf S)), forallb_app in Hb. apply andb_true_iff in Hb. tauto. }
  destruct Hlen as [Hlen Hi]. split; cbn [rs_offs rs_buf].
  - exists (aset k d ch). exact Rw.
  - apply (g_keys _ G).
  - exact Hi.
  - apply (g_n _ G).
  - rewrite Hlen. apply (g_sz _ G).
Qed.

(* ---------- RawSnap::read_from_ints ---------- *)
Lemma firstn_i32 n l : forallb is_i32 l = true -> forallb is_i32 (firstn n l) = true.
Proof.
  intros H. rewrite <- (firstn_skipn n l), forallb_app in H. apply andb_true_iff in H. tauto.
Qed.
Lemma skipn_i32 n l : forallb is_i32 l = true -> forallb is_i32 (skipn n l) = true.
Proof.
  intros H. rewrite <- (firstn_skipn n l), forallb_app in H. apply andb_true_iff in H. tauto.
Qed.

Lemma rfi_item_good idata il prev off S : good S -> forallb is_i32 idata = true ->
  length idata = Z.to_nat il -> (forall p, prev = Some p -> 0 <= p) ->
  match rfi_item idata il prev off S with Ok S' => good S' | Err _ => True | _ => False end.
Proof.
  intros G Hi Hl Hp. unfold rfi_item. destruct prev as [p|].
  - specialize (Hp p eq_refl). destruct (Z.leb_spec off p) as [|Hop]; [exact I|]. destruct (Z.ltb_spec il off) as [|Hio]; [exact I|].
    destruct (nth_error idata (Z.to_nat p)) as [kk|] eqn:Hn.
    + pose proof (add_item_good S (key_to_raw_type_id kk) (key_to_id kk)
        (firstn (Z.to_nat (off - p - 1)) (skipn (Z.to_nat (p + 1)) idata)) G
        (key_to_ty_range kk) (key_to_id_range kk) (firstn_i32 _ _ (skipn_i32 _ _ Hi))) as Ha.
      destruct (add_item _ _ _ _); cbn [lift_b]; exact Ha.
    + apply nth_error_None in Hn. lia.
  - destruct (off =? 0); [exact G|exact I].
Qed.

Lemma rfi_loop_good idata il : forall offs prev S, good S -> forallb is_i32 idata = true ->
  length idata = Z.to_nat il -> (forall p, prev = Some p -> 0 <= p) -> 0 <= il ->
  match rfi_loop idata il offs prev S with Ok S' => good S' | Err _ => True | _ => False end.
Proof.
  induction offs as [|o offs IH]; intros prev S G Hi Hl Hp Hil; cbn [rfi_loop].
  - apply rfi_item_good; assumption.
  - destruct (Z.ltb_spec o 0); [exact I|]. destruct (o mod 4 =? 0); cbn [negb]; [|exact I].
    pose proof (rfi_item_good idata il prev (o / 4) S G Hi Hl Hp) as H1.
    destruct (rfi_item idata il prev (o / 4) S) as [S'| | |]; cbn [bind]; try exact H1.
    apply IH; try assumption. intros p [= <-]. apply Z.div_pos; lia.
Qed.

Theorem read_from_ints_good ints : forallb is_i32 ints = true ->
  match raw_read_from_ints ints with (Ok R, _) => good R | (Err _, _) => True | _ => False end.
Proof.
  intros Hi. unfold raw_read_from_ints. destruct ints as [|ds [|ni rest]]; try exact I.
  - destruct (ds <? 0); exact I.
  - destruct (Z.ltb_spec ds 0); [exact I|]. destruct (Z.ltb_spec ni 0); [exact I|].
    destruct (Z.ltb_spec (Z.of_nat (length rest)) ni); [exact I|].
    destruct (ds mod 4 =? 0); cbn [negb]; [|exact I].
    destruct (Z.ltb_spec (Z.of_nat (length rest)) (ni + ds / 4)); [exact I|].
    assert (Hd : 0 <= ds / 4) by (apply Z.div_pos; lia).
    assert (G : match rfi_loop (firstn (Z.to_nat (ds / 4)) (skipn (Z.to_nat ni) rest)) (ds / 4)
                      (firstn (Z.to_nat ni) rest) None raw_empty
                with Ok S' => good S' | Err _ => True | _ => False end).
    { apply rfi_loop_good; [apply good_empty| | |discriminate|exact Hd].
      - cbn [forallb] in Hi. apply andb_true_iff in Hi. destruct Hi as [_ Hi]. apply andb_true_iff in Hi. destruct Hi as [_ Hi].
        apply firstn_i32, skipn_i32, Hi.
      - rewrite firstn_length, skipn_length. lia. }
    destruct (ni + ds / 4 <? Z.of_nat (length rest)); unfold wbind, wwarn, wret, wlift;
      destruct (rfi_loop _ _ _ _ _); exact G.
Qed.

(* ---------- RawSnap::read (bytes) ---------- *)
Lemma read_int_shrinks bs v ws rest : bytes_ok bs = true -> read_int bs = Ok (v, ws, rest) ->
  (length rest < length bs)%nat /\ is_i32 v = true /\ bytes_ok rest = true.
Proof.
  intros Hok H. rewrite read_int_arith in H by exact Hok.
  destruct (read_int_a_consumes _ _ _ _ H) as (Hs & Hl & Hv). split; [|split; [exact Hv|]].
  - pose proof (f_equal (@length Z) Hs) as Hlen. rewrite app_length in Hlen. lia.
  - unfold bytes_ok in *. rewrite forallb_forall in *. intros x Hx. apply Hok. rewrite Hs. apply in_or_app. right. exact Hx.
Qed.

Lemma read_int_fine bs : bytes_ok bs = true -> fine (read_int bs).
Proof.
  intros Hok. rewrite read_int_arith by exact Hok. pose proof (read_int_a_total bs) as H.
  destruct (read_int_a bs); exact H.
Qed.

Lemma bytes_to_ints_ok : forall fuel bs acc ws, bytes_ok bs = true -> (length bs <= fuel)%nat ->
  forallb is_i32 acc = true ->
  exists ints ws', bytes_to_ints fuel bs acc ws = Ok (ints, ws') /\ forallb is_i32 ints = true.
Proof.
  induction fuel as [|fuel IH]; intros bs acc ws Hok Hf Ha.
  - destruct bs; [|cbn in Hf; lia]. cbn. eexists _, _. split; [reflexivity|].
    rewrite forallb_forall in *. intros x Hx. apply Ha, in_rev, Hx.
  - destruct bs as [|b bs']; [cbn; eexists _, _; split; [reflexivity|];
      rewrite forallb_forall in *; intros x Hx; apply Ha, in_rev, Hx|].
    cbn [bytes_to_ints]. pose proof (read_int_fine _ Hok) as Hfine.
    destruct (read_int (b :: bs')) as [[[v pw] rest]| | |] eqn:E; try contradiction.
    + destruct (read_int_shrinks _ _ _ _ Hok E) as (Hl & Hv & Hr).
      apply IH; [exact Hr|cbn [length] in *; lia|cbn [forallb]; rewrite Hv, Ha; reflexivity].
    + eexists _, _. split; [reflexivity|]. rewrite forallb_forall in *. intros x Hx. apply Ha, in_rev, Hx.
Qed.

Theorem read_bytes_good bs : bytes_ok bs = true ->
  match raw_read_bytes bs with (Ok R, _) => good R | (Err _, _) => True | _ => False end.
Proof.
  intros Hok. unfold raw_read_bytes.
  destruct (bytes_to_ints_ok (length bs) bs [] [] Hok (le_n _) eq_refl) as (ints & ws & E & Hi).
  rewrite E. pose proof (read_from_ints_good ints Hi) as H.
  destruct (raw_read_from_ints ints) as [[S| | |] ws']; exact H.
Qed.

(* The two readers (IntUnpacker, Unpacker) instantiate the generic wire theorem;
   delta_ok deltas and created deltas satisfy its precondition. *)
From LibTw2 Require Import Base.Res Model.Varint Model.Packer Model.Snap Proofs.SnapBase Proofs.SnapRep Proofs.SnapDelta
  Proofs.SnapApply Proofs.SnapOk Proofs.SnapWire Proofs.VarintArith Proofs.VarintProofs Proofs.PackerProofs.
From Coq Require Import ZArith List Lia Bool Permutation.
Import ListNotations.
Open Scope Z_scope.

(* ---------- integers ---------- *)
Theorem wire_ints_roundtrip sz del dch : wire_pre sz del dch ->
  delta_read_from_ints sz (wire_ints sz del dch) = (Ok (delta_of del dch), []).
Proof.
  intros W. unfold delta_read_from_ints.
  apply (read_wire (list Z) int_rd_empty int_rd_int (fun p => Datatypes.S (length p)) (fun l => l)).
  - intros l _. destruct l; reflexivity.
  - reflexivity.
  - intros l _. lia.
  - exact W.
Qed.

(* ---------- bytes ---------- *)
Definition enc (l : list Z) : bytes := flat_map write_int_bytes l.

Lemma write_int_bytes_a v : is_i32 v = true -> write_int_bytes v = write_int_a v.
Proof. intros H. unfold write_int_bytes. rewrite write_int_arith by exact H. reflexivity. Qed.

Lemma enc_ok l : forallb is_i32 l = true -> bytes_ok (enc l) = true.
Proof.
  induction l as [|v l IH]; intros H; [reflexivity|]. cbn [forallb] in H. apply andb_true_iff in H. destruct H as [Hv Hl].
  cbn [enc flat_map]. apply bytes_ok_app; [|apply IH, Hl]. rewrite write_int_bytes_a by exact Hv.
  apply write_int_a_bytes_ok, Hv.
Qed.

Lemma enc_length l : forallb is_i32 l = true -> (length l <= length (enc l))%nat.
Proof.
  induction l as [|v l IH]; intros H; [cbn; lia|]. cbn [forallb] in H. apply andb_true_iff in H. destruct H as [Hv Hl].
  cbn [enc flat_map length]. rewrite app_length. fold (enc l). specialize (IH Hl).
  rewrite write_int_bytes_a by exact Hv. pose proof (write_int_a_length v). lia.
Qed.

Lemma ints_to_bytes_enc l : forallb is_i32 l = true -> ints_to_bytes l = Ok (enc l).
Proof.
  induction l as [|v l IH]; intros H; [reflexivity|]. cbn [forallb] in H. apply andb_true_iff in H. destruct H as [Hv Hl].
  cbn [ints_to_bytes]. rewrite (write_int_bytes_eq v Hv). cbn [bind]. rewrite IH by exact Hl. reflexivity.
Qed.

Theorem wire_bytes_roundtrip sz del dch : wire_pre sz del dch ->
  delta_read_bytes sz (enc (wire_ints sz del dch)) = (Ok (delta_of del dch), []).
Proof.
  intros W. unfold delta_read_bytes.
  apply (read_wire bytes byte_rd_empty read_int (fun p => Datatypes.S (length p)) enc).
  - intros l Hl. destruct l as [|v l]; [reflexivity|]. cbn [forallb] in Hl. apply andb_true_iff in Hl. destruct Hl as [Hv Hl].
    cbn [enc flat_map]. rewrite write_int_bytes_a by exact Hv. pose proof (write_int_a_length v) as L.
    destruct (write_int_a v); [cbn in L; lia|reflexivity].
  - intros v l Hv Hl. cbn [enc flat_map]. apply read_write_int; [exact Hv|apply enc_ok, Hl].
  - intros l Hl. pose proof (enc_length l Hl). lia.
  - exact W.
Qed.

(* ---------- delta_ok gives the precondition ---------- *)
Lemma cut_keys buf srt : map fst (cut buf srt) = map fst srt.
Proof. unfold cut. rewrite map_map. reflexivity. Qed.

Lemma chain_cut_len buf : forall srt pos, chainb pos (map snd srt) (length buf) = true ->
  map (fun kd => length (snd kd)) (cut buf srt) = map (fun kr => range_len (snd kr)) srt.
Proof.
  induction srt as [|[k [s e]] t IH]; intros pos H; [reflexivity|]. cbn [map snd chainb fst] in H.
  apply andb_true_iff in H. destruct H as [H He]. apply andb_true_iff in H. destruct H as [Hs Hle].
  apply Nat.eqb_eq in Hs. apply Nat.leb_le in Hle. subst s.
  destruct (chain_cut buf t e He) as (Hb & _ & _).
  cbn [cut map fst snd]. fold (cut buf t). f_equal; [|apply (IH e He)].
  unfold range_len. cbn [fst snd]. rewrite firstn_length, skipn_length. lia.
Qed.

Lemma forallb_flat_in ch : forallb is_i32 (flat ch) = true <-> forall k d, In (k, d) ch -> forallb is_i32 d = true.
Proof.
  induction ch as [|[k d] t IH]; [split; [intros _ ? ? []|reflexivity]|].
  cbn [flat flat_map snd]. fold (flat t). rewrite forallb_app, andb_true_iff, IH. split.
  - intros [Hd Ht] k' d' [E|Hin]; [injection E as <- <-; exact Hd|apply (Ht k' d' Hin)].
  - intros H. split; [apply (H k d); left; reflexivity|intros k' d' Hin; apply (H k' d'); right; exact Hin].
Qed.

Lemma delta_ok_inv sz d : delta_ok sz d = true ->
  sortedb (d_del d) = true /\ forallb is_i32 (d_del d) = true
  /\ sortedb (map fst (d_upd d)) = true /\ forallb is_i32 (map fst (d_upd d)) = true
  /\ forallb is_i32 (d_buf d) = true
  /\ chainb 0 (map snd (d_upd d)) (length (d_buf d)) = true
  /\ forallb (fun kr => match sz (key_to_raw_type_id (fst kr)) with
                        | Some s => s =? Z.of_nat (range_len (snd kr))
                        | None => true
                        end) (d_upd d) = true
  /\ forallb (fun kr => negb (smem (fst kr) (d_del d))) (d_upd d) = true
  /\ Z.of_nat (length (d_del d)) <= i32_max /\ Z.of_nat (length (d_upd d)) <= i32_max
  /\ Z.of_nat (length (d_buf d)) <= i32_max.
Proof. unfold delta_ok. rewrite !andb_true_iff, !Z.leb_le. tauto. Qed.

Theorem delta_ok_pre sz d : delta_ok sz d = true ->
  exists dch, d = delta_of (d_del d) dch /\ wire_pre sz (d_del d) dch.
Proof.
  intros H. destruct (delta_ok_inv _ _ H) as (Hds & Hdi & Hus & Hui & Hbi & Hc & Hsz & Hdj & Hnd & Hnu & Hnb).
  destruct (chain_cut _ _ _ Hc) as (_ & Hf & Hr). pose proof (chain_cut_len _ _ _ Hc) as Hlen.
  cbn [skipn] in Hf. exists (cut (d_buf d) (d_upd d)). split.
  - destruct d as [del upd buf]. unfold delta_of. cbn [d_del d_upd d_buf] in *. rewrite Hf, Hr. reflexivity.
  - split; try assumption.
    + rewrite cut_keys. assumption.
    + rewrite cut_keys. assumption.
    + rewrite Hf. assumption.
    + clear Hc Hus Hui Hr Hf Hdj Hnu. revert Hsz Hlen. unfold cut. generalize (d_upd d) as upd.
      induction upd as [|[k r] upd IHu]; intros Hsz Hlen; [constructor|].
      cbn [forallb fst snd] in Hsz. apply andb_true_iff in Hsz. destruct Hsz as [Hk Hsz].
      cbn [map fst snd] in Hlen. injection Hlen as Hl Hlen. constructor; [|apply IHu; assumption].
      unfold size_ok. cbn [fst snd]. rewrite Hl. destruct (sz (key_to_raw_type_id k)); [apply Z.eqb_eq, Hk|].
      rewrite <- Hl, firstn_length, skipn_length. lia.
    + intros k Hin Hd. rewrite cut_keys in Hin. apply in_map_iff in Hin. destruct Hin as [[k' r] [E Hin]]. cbn in E. subst k'.
      rewrite forallb_forall in Hdj. specialize (Hdj _ Hin). cbn [fst] in Hdj. apply negb_true_iff in Hdj.
      apply smem_in in Hd. congruence.
    + unfold cut. rewrite map_length. assumption.
    + rewrite Hf. assumption.
Qed.

(* C09_wire, integers and bytes *)
Theorem delta_wire_ints sz d : delta_ok sz d = true ->
  exists l, delta_ints sz d = Ok l /\ delta_read_from_ints sz l = (Ok d, []).
Proof.
  intros H. destruct (delta_ok_pre sz d H) as (dch & E & W). revert E W. generalize (d_del d) as del.
  intros del E W. subst d. exists (wire_ints sz del dch).
  split; [apply delta_ints_spec, W|apply wire_ints_roundtrip, W].
Qed.

Theorem delta_wire_bytes sz d : delta_ok sz d = true ->
  exists l bs, delta_ints sz d = Ok l /\ ints_to_bytes l = Ok bs /\ delta_read_bytes sz bs = (Ok d, []).
Proof.
  intros H. destruct (delta_ok_pre sz d H) as (dch & E & W). revert E W. generalize (d_del d) as del.
  intros del E W. subst d.
  exists (wire_ints sz del dch), (enc (wire_ints sz del dch)).
  split; [apply delta_ints_spec, W|].
  split; [apply ints_to_bytes_enc, wire_ints_i32, W|apply wire_bytes_roundtrip, W].
Qed.

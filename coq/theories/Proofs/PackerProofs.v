(* Packer / Unpacker: a well-formed field list packs to its encoding (or to the
   fitting prefix of it plus CapacityError) and unpacks to itself. *)
From LibTw2 Require Import Base.Res Base.Bits Model.Varint Model.Packer
  Proofs.VarintArith Proofs.VarintProofs.
From Coq Require Import ZArith Lia Bool List.
Open Scope Z_scope.

Definition cap_res (ok : bool) : res perr unit := if ok then Ok tt else Err CapacityError.

(* buf_write in closed form *)
Definition bw (t : target) (bs : bytes) : target * res perr unit :=
  let (t', ok) := buf_write t bs in (t', cap_res ok).

Definition tgt_ok (t : target) : Prop := (length (t_data t) <= t_cap t)%nat.

Lemma firstn_app_le {A} (l1 l2 : list A) n : (n <= length l1)%nat -> firstn n (l1 ++ l2) = firstn n l1.
Proof.
  intros H. rewrite firstn_app. replace (n - length l1)%nat with 0%nat by lia.
  cbn [firstn]. apply app_nil_r.
Qed.

Lemma bw_spec t bs : tgt_ok t ->
  bw t bs = ({| t_data := firstn (t_cap t) (t_data t ++ bs); t_cap := t_cap t |},
             cap_res (length (t_data t ++ bs) <=? t_cap t)%nat).
Proof.
  unfold tgt_ok, bw, buf_write. intros Hok. rewrite app_length.
  destruct (length bs <=? t_cap t - length (t_data t))%nat eqn:E.
  - apply Nat.leb_le in E. replace (length (t_data t) + length bs <=? t_cap t)%nat with true
      by (symmetry; apply Nat.leb_le; lia).
    rewrite firstn_all2 by (rewrite app_length; lia). reflexivity.
  - apply Nat.leb_gt in E. replace (length (t_data t) + length bs <=? t_cap t)%nat with false
      by (symmetry; apply Nat.leb_gt; lia).
    rewrite firstn_app, (firstn_all2 (t_data t)) by lia. reflexivity.
Qed.

Lemma bw_tgt_ok t bs : tgt_ok t -> tgt_ok (fst (bw t bs)).
Proof.
  intros H. rewrite bw_spec by exact H. unfold tgt_ok. cbn [fst t_data t_cap].
  rewrite firstn_length. lia.
Qed.

(* two writes in a row = one write of the concatenation *)
Lemma bw_app t a b : tgt_ok t ->
  bw t (a ++ b) = match bw t a with (t1, Ok _) => bw t1 b | r => r end.
Proof.
  intros Hok. rewrite (bw_spec t a) by exact Hok.
  destruct (length (t_data t ++ a) <=? t_cap t)%nat eqn:E; cbn [cap_res].
  - apply Nat.leb_le in E.
    rewrite bw_spec by exact Hok. rewrite bw_spec by (unfold tgt_ok; cbn [t_data t_cap]; rewrite firstn_length; lia).
    cbn [t_data t_cap]. rewrite (firstn_all2 (t_data t ++ a)) by lia. rewrite app_assoc. reflexivity.
  - apply Nat.leb_gt in E. rewrite bw_spec by exact Hok.
    rewrite app_assoc. rewrite firstn_app_le by lia.
    replace (length ((t_data t ++ a) ++ b) <=? t_cap t)%nat with false; [reflexivity|].
    symmetry. apply Nat.leb_gt. rewrite app_length. lia.
Qed.

Lemma write_int_bytes_eq v : is_i32 v = true -> write_int v = Ok (write_int_bytes v).
Proof. intros H. unfold write_int_bytes. rewrite write_int_arith by exact H. reflexivity. Qed.

Lemma pack_int_bw t v : is_i32 v = true -> pack_int t v = bw t (write_int_bytes v).
Proof.
  intros H. unfold pack_int. rewrite write_int_bytes_eq by exact H. unfold bw.
  destruct (buf_write t (write_int_bytes v)) as [t' ok]. destruct ok; reflexivity.
Qed.

Lemma pack_field_bw t f : tgt_ok t -> field_wf f = true -> pack_field t f = bw t (field_bytes f).
Proof.
  intros Hok Hwf. destruct f as [v|s|d|r|r]; cbn [pack_field field_bytes field_wf] in *.
  - apply pack_int_bw, Hwf.
  - apply andb_true_iff in Hwf as [Hn _]. apply negb_true_iff in Hn. rewrite Hn.
    rewrite bw_app by exact Hok. unfold bw.
    destruct (buf_write t s) as [t1 ok1]. destruct ok1; cbn [negb cap_res]; [|reflexivity].
    destruct (buf_write t1 [0]) as [t2 ok2]. destruct ok2; reflexivity.
  - apply andb_true_iff in Hwf as [Hl _].
    replace (i32_max <? Z.of_nat (length d)) with false by lia.
    assert (Hi : is_i32 (Z.of_nat (length d)) = true) by (unfold is_i32, i32_min; lia).
    rewrite pack_int_bw by exact Hi. rewrite bw_app by exact Hok.
    destruct (bw t (write_int_bytes (Z.of_nat (length d)))) as [t1 [[]|e|s|]]; reflexivity.
  - unfold bw. destruct (buf_write t r) as [t' ok]; destruct ok; reflexivity.
  - unfold bw. destruct (buf_write t r) as [t' ok]; destruct ok; reflexivity.
Qed.

Lemma pack_fields_spec fs : forall t, tgt_ok t -> forallb field_wf fs = true ->
  pack_fields t fs = bw t (encoding fs).
Proof.
  induction fs as [|f fs IH]; intros t Hok Hwf.
  - cbn [pack_fields encoding flat_map]. rewrite bw_spec by exact Hok. rewrite !app_nil_r.
    unfold tgt_ok in Hok. rewrite firstn_all2 by lia.
    replace (length (t_data t) <=? t_cap t)%nat with true by (symmetry; apply Nat.leb_le; lia).
    destruct t; reflexivity.
  - cbn [forallb] in Hwf. apply andb_true_iff in Hwf as [Hf Hfs].
    cbn [pack_fields encoding flat_map]. fold (encoding fs).
    rewrite pack_field_bw by assumption. rewrite bw_app by exact Hok.
    pose proof (bw_tgt_ok t (field_bytes f) Hok) as Hok'.
    destruct (bw t (field_bytes f)) as [t1 [[]|e|s|]]; try reflexivity.
    apply IH; assumption.
Qed.

(* ---- the capacity theorem ---- *)
Theorem pack_spec fs cap : forallb field_wf fs = true ->
  pack fs cap = (firstn cap (encoding fs), cap_res (length (encoding fs) <=? cap)%nat).
Proof.
  intros Hwf. unfold pack. rewrite pack_fields_spec; [|unfold tgt_ok; cbn; lia|exact Hwf].
  rewrite bw_spec by (unfold tgt_ok; cbn; lia). reflexivity.
Qed.

(* ---- reading back ---- *)

Lemma split_nul_app s r : has_nul s = false -> split_nul (s ++ 0 :: r) = Some (s, r).
Proof.
  induction s as [|b s IH]; cbn [has_nul existsb app split_nul]; intros H.
  - reflexivity.
  - apply orb_false_iff in H as [Hb Hs]. rewrite Hb. fold (has_nul s) in Hs. rewrite IH by exact Hs. reflexivity.
Qed.

Lemma bytes_ok_app_inv a b : bytes_ok (a ++ b) = true -> bytes_ok a = true /\ bytes_ok b = true.
Proof. unfold bytes_ok. rewrite forallb_app. intros H. apply andb_true_iff in H. exact H. Qed.

Lemma field_bytes_ok f : field_wf f = true -> bytes_ok (field_bytes f) = true.
Proof.
  destruct f as [v|s|d|r|r]; cbn [field_wf field_bytes]; intros H.
  - unfold write_int_bytes. rewrite write_int_arith by exact H. apply write_int_a_bytes_ok, H.
  - apply andb_true_iff in H as [_ H]. apply bytes_ok_app; [exact H|reflexivity].
  - apply andb_true_iff in H as [Hl H]. apply bytes_ok_app; [|exact H].
    unfold write_int_bytes. rewrite write_int_arith by (unfold is_i32, i32_min; lia).
    apply write_int_a_bytes_ok. unfold is_i32, i32_min; lia.
  - exact H.
  - exact H.
Qed.

Lemma read_write_int v rest : is_i32 v = true -> bytes_ok rest = true ->
  read_int (write_int_bytes v ++ rest) = Ok (v, [], rest).
Proof.
  intros Hv Hr. destruct (varint_roundtrip v rest Hv Hr) as [bs [Hw [Hrd _]]].
  unfold write_int_bytes. rewrite Hw. exact Hrd.
Qed.

Lemma unpack_step_field f rest : field_wf f = true -> bytes_ok rest = true ->
  (forall r, f <> FRest r) ->
  unpack_step (field_bytes f ++ rest) (kind_of f) = (rest, Ok f, []).
Proof.
  intros Hwf Hr Hnr. destruct f as [v|s|d|r|r]; cbn [field_wf field_bytes kind_of unpack_step] in *.
  - rewrite read_write_int by assumption. reflexivity.
  - apply andb_true_iff in Hwf as [Hn _]. apply negb_true_iff in Hn.
    rewrite <- app_assoc. cbn [app]. rewrite split_nul_app by exact Hn. reflexivity.
  - apply andb_true_iff in Hwf as [Hl Hd]. rewrite <- app_assoc.
    rewrite read_write_int; [|unfold is_i32, i32_min; lia|apply bytes_ok_app; assumption].
    replace (Z.of_nat (length d) <? 0) with false by lia. rewrite Nat2Z.id.
    replace (Z.of_nat (length (d ++ rest)) <? Z.of_nat (length d)) with false
      by (rewrite app_length; lia).
    rewrite skipn_app, skipn_all, Nat.sub_diag, firstn_app, firstn_all, Nat.sub_diag.
    cbn [skipn firstn app]. rewrite app_nil_r. reflexivity.
  - replace (length (r ++ rest) <? length r)%nat with false
      by (symmetry; apply Nat.ltb_ge; rewrite app_length; lia).
    rewrite skipn_app, skipn_all, Nat.sub_diag, firstn_app, firstn_all, Nat.sub_diag.
    cbn [skipn firstn app]. rewrite app_nil_r. reflexivity.
  - exfalso. apply (Hnr r). reflexivity.
Qed.

Lemma encoding_ok fs : forallb field_wf fs = true -> bytes_ok (encoding fs) = true.
Proof.
  induction fs as [|f fs IH]; cbn [forallb encoding flat_map]; intros H; [reflexivity|].
  apply andb_true_iff in H as [Hf Hfs]. apply bytes_ok_app; [apply field_bytes_ok, Hf|apply IH, Hfs].
Qed.

Theorem unpack_encoding fs : fields_wf fs = true ->
  unpack (map kind_of fs) (encoding fs) = Ok (fs, [], []).
Proof.
  unfold fields_wf. intros H. apply andb_true_iff in H as [Hwf Hlast].
  induction fs as [|f fs IH]; [reflexivity|].
  cbn [forallb] in Hwf. apply andb_true_iff in Hwf as [Hf Hfs].
  cbn [map unpack encoding flat_map]. fold (encoding fs).
  destruct f as [v|s|d|r|r].
  1-4: rewrite unpack_step_field; [|exact Hf|apply encoding_ok, Hfs|intros r0; discriminate];
       rewrite IH; [reflexivity|exact Hfs|destruct fs; exact Hlast].
  (* FRest: must be last *)
  destruct fs as [|f' fs']; [|discriminate Hlast].
  cbn [encoding flat_map field_bytes kind_of unpack_step map unpack]. rewrite app_nil_r. reflexivity.
Qed.

(* ---- C08 fields: what was packed successfully is read back identically ---- *)
Theorem pack_unpack fs cap out : fields_wf fs = true -> pack fs cap = (out, Ok tt) ->
  out = encoding fs /\ (length out <= cap)%nat
  /\ unpack (map kind_of fs) out = Ok (fs, [], []).
Proof.
  intros Hwf Hp. pose proof Hwf as Hwf'. unfold fields_wf in Hwf'. apply andb_true_iff in Hwf' as [Hf _].
  rewrite pack_spec in Hp by exact Hf.
  destruct (length (encoding fs) <=? cap)%nat eqn:E; cbn [cap_res] in Hp; [|discriminate].
  apply Nat.leb_le in E. injection Hp as <-. rewrite firstn_all2 by lia.
  split; [reflexivity|]. split; [exact E|]. apply unpack_encoding, Hwf.
Qed.

(* demo-mode finish: ExcessData iff at least four bytes or a non-zero byte are left *)
Theorem finish_demo rest : finish_warns true rest = true <->
  ((4 <= length rest)%nat \/ exists b, In b rest /\ b <> 0).
Proof.
  unfold finish_warns. rewrite orb_true_iff, existsb_exists. split.
  - intros [H|[b [Hin Hb]]]; [left; apply Nat.leb_le, H|right; exists b; split; [exact Hin|lia]].
  - intros [H|[b [Hin Hb]]]; [left; apply Nat.leb_le, H|right; exists b; split; [exact Hin|lia]].
Qed.
Theorem finish_normal rest : finish_warns false rest = true <-> rest <> [].
Proof.
  unfold finish_warns. destruct rest; cbn; split; intros H; try discriminate; try reflexivity.
  exfalso; apply H; reflexivity.
Qed.
